"""Translator for the sampling primitives of functional.py (soft_raw, hard_raw, gumbel_softmax, soft_walsh, hard_walsh,
gumbel_sigmoid and their helpers): the statements of each function are compared, one by one, with the statements that the
real-number models in Proofs/C09Facts.v, C17Facts.v and C08Facts.v describe.  Fail-closed: any other statement breaks
Gen/Sampling.v; the emitted facts name where each hard decision is taken (logits themselves / rounded probabilities)."""
import ast

from harness.common import read_src
from translate.ops import HEADER, _fail

SRC = "src/torchlogix/functional.py"

EXPECTED = {
    "_check_temperature": [
        "if not 0 < tau < math.inf:\n    raise ValueError('Temperature must be positive and finite')",
    ],
    # softmax(logits / tau): subtracting the row maximum first is the identity on the reals (softmax is shift invariant)
    # a temperature below the smallest positive number of the dtype is replaced by that number: x / tau is 0 or +-inf either way
    # (on the reals: the identity for every temperature the dtype can represent)
    "_representable_tau": [
        "info = torch.finfo(like.dtype)",
        "return max(tau, info.tiny * info.eps)",
    ],
    "_softmax_tau": [
        "return torch.nn.functional.softmax((logits - logits.max(-1, keepdim=True)[0]) / _representable_tau(tau, logits), dim=-1)",
    ],
    "soft_raw": [
        "_check_temperature(tau)",
        "return _softmax_tau(logits, tau)",
    ],
    # the gate is the argmax of the logits themselves; the value is one_hot - soft.detach() + soft (= one_hot on the reals)
    "hard_raw": [
        "_check_temperature(tau)",
        "x = _softmax_tau(logits, tau)",
        "index = logits.max(-1, keepdim=True)[1]",
        "x_hard = torch.zeros_like(logits, memory_format=torch.legacy_contiguous_format).scatter_(-1, index, 1.0)",
        "return x_hard - x.detach() + x",
    ],
    # the noise of a 16-bit layer is drawn and added in float32 (on the reals: no effect)
    "_noise_dtype": [
        "return torch.float32 if logits.dtype in (torch.float16, torch.bfloat16) else logits.dtype",
    ],
    # sigmoid(z / tau) > threshold  <=>  z > tau * logit(threshold): the comparison is made before the sigmoid rounds
    "_hard_cut": [
        "if 0.0 < threshold < 1.0:\n    cut = tau * (math.log(threshold) - math.log1p(-threshold))\n    return (z > cut).to(y_soft.dtype)",
        # outside (0, 1): the soft sample lies strictly inside, so the answer does not depend on the draw
        "return torch.full_like(y_soft, 1.0 if threshold <= 0.0 else 0.0)",
    ],
    # z = logits + Gumbel noise; soft = softmax(z / tau); hard = one_hot(argmax z) (straight through)
    "gumbel_softmax": [
        "_check_temperature(tau)",
        "gumbels = -torch.empty_like(logits, dtype=_noise_dtype(logits), memory_format=torch.legacy_contiguous_format).exponential_().log()",
        "z = logits.to(gumbels.dtype) + gumbels",
        "y_soft = _softmax_tau(z, tau).to(logits.dtype)",
        "if hard:\n    index = z.max(-1, keepdim=True)[1]\n    y_hard = torch.zeros_like(logits, memory_format=torch.legacy_contiguous_format).scatter_(-1, index, 1.0)\n    return y_hard - y_soft.detach() + y_soft",
        "return y_soft",
    ],
    "soft_walsh": [
        "_check_temperature(tau)",
        "return torch.sigmoid(logits / _representable_tau(tau, logits))",
    ],
    # the threshold is applied to the form itself
    "hard_walsh": [
        "_check_temperature(tau)",
        "x = torch.sigmoid(logits / _representable_tau(tau, logits))",
        "x = (logits > 0).to(logits.dtype) - x.detach() + x",
        "return x",
    ],
    # logistic noise log U - log(1 - U); z = logits + noise; soft = sigmoid(z / tau); hard: z > tau * logit(threshold)
    "gumbel_sigmoid": [
        "if not 0 < tau < math.inf:\n    raise ValueError('Temperature must be positive and finite')",
        "U = torch.rand_like(logits, dtype=_noise_dtype(logits))",
        "logistic_noise = torch.log(U + 1e-20) - torch.log(1 - U + 1e-20)",
        "z = logits.to(U.dtype) + logistic_noise",
        "y_soft = torch.sigmoid(z / _representable_tau(tau, z)).to(logits.dtype)",
        "if hard:\n    y_hard = _hard_cut(z, y_soft, tau, threshold)\n    return (y_hard - y_soft).detach() + y_soft",
        "return y_soft",
    ],
}


def _stmts(f):
    return [ast.unparse(s) for s in f.body if not (isinstance(s, ast.Expr) and isinstance(s.value, ast.Constant))]


def gen_sampling():
    mod = ast.parse(read_src(SRC))
    defs = {n.name: n for n in mod.body if isinstance(n, ast.FunctionDef)}
    for name, exp in EXPECTED.items():
        if name not in defs:
            _fail(f"functional.{name} not found")
        got = _stmts(defs[name])
        if got != exp:
            for i, (a, b) in enumerate(zip(got, exp)):
                if a != b:
                    _fail(f"{name}: statement {i} is {a!r}, modelled {b!r}")
            _fail(f"{name}: {len(got)} statements, modelled {len(exp)}")
    # the layers must take these functions from functional (not torch's gumbel_softmax, whose hard sample is argmax of the rounded softmax)
    for path in ("src/torchlogix/layers/dense.py", "src/torchlogix/layers/conv.py"):
        lm = ast.parse(read_src(path))
        for n in ast.walk(lm):
            if isinstance(n, ast.ImportFrom) and n.module and n.module.startswith("torch") and any(a.name == "gumbel_softmax" for a in n.names):
                _fail(f"{path} imports gumbel_softmax from {n.module}")
        names = {a.name for n in ast.walk(lm) if isinstance(n, ast.ImportFrom) and n.level == 2 and n.module == "functional" for a in n.names}
        for need in ("soft_raw", "hard_raw", "gumbel_softmax", "soft_walsh", "hard_walsh", "gumbel_sigmoid"):
            if need not in names:
                _fail(f"{path} does not take {need} from functional")
    out = HEADER + "(* the statements of the sampling primitives equal, one by one, those the real-number models describe *)\n"
    out += "Definition sampling_source_matches : bool := true.\n"
    out += "(* where the hard decisions are taken *)\n"
    out += "Definition hard_raw_gate_from_logits : bool := true.\n"
    out += "Definition gumbel_hard_gate_from_perturbed_logits : bool := true.\n"
    out += "Definition hard_walsh_thresholds_form : bool := true.\n"
    out += "Definition gumbel_sigmoid_cut_in_logit_space : bool := true.\n"
    return out
