"""Translator for CompiledLogicNet._generate_batch_processing_function: the hole expressions
(accumulator width, group size, malloc sizes, loop bounds) and a token-normal form of the
template, compared with the structure that Model/Wrapper.v models."""
import ast
import re

from harness.common import TranslatorFailed, read_src
from translate.ops import HEADER, _fail
from translate.gatecode import _cm, _method

# The C wrapper that Model/Wrapper.v models, with holes named by the Python expression they hold.
EXPECTED = """
void apply_logic_net(bool const *inp, <BITS_TO_DTYPE[32]> *out, size_t len) {
<T> *inp_temp = malloc(<input_size>*sizeof(<T>));
<T> *out_temp = malloc(<num_neurons_ll>*sizeof(<T>));
<T> *out_temp_o = malloc(<log2_of_num_neurons_per_class_ll>*sizeof(<T>));
for(size_t i = 0; i < len; ++i) {
// Converting the bool array into a bitpacked array
for(size_t d = 0; d < <input_size>; ++d) {
<T> res = <Z>;
for(size_t b = 0; b < <self.num_bits>; ++b) {
res = (<T>) (((<UT>) res << 1) | !!(inp[i * <input_size> * <self.num_bits> + (<self.num_bits> - b - 1) * <input_size> + d]));
}
inp_temp[d] = res;
}
// Applying the logic net
logic_net(inp_temp, out_temp);
// GroupSum of the results via logic gate networks
for(size_t c = 0; c < <self.num_classes>; ++c) { // for each class
// Initialize the output bits
for(size_t d = 0; d < <log2_of_num_neurons_per_class_ll>; ++d) {
out_temp_o[d] = <Z>;
}
// Apply the adder logic gate network
for(size_t a = 0; a < <num_neurons_ll // self.num_classes>; ++a) {
<T> carry = out_temp[c * <num_neurons_ll // self.num_classes> + a];
<T> out_temp_o_d;
for(int d = <log2_of_num_neurons_per_class_ll> - 1; d >= 0; --d) {
out_temp_o_d = out_temp_o[d];
out_temp_o[d] = carry ^ out_temp_o_d;
carry = carry & out_temp_o_d;
}
}
// Unpack the result bits
for(size_t b = 0; b < <self.num_bits>; ++b) {
const <T> bit_mask = (<T>) ((<UT>) 1 << b);
<BITS_TO_DTYPE[32]> res = 0;
for(size_t d = 0; d < <log2_of_num_neurons_per_class_ll>; ++d) {
res <<= 1;
res += !!(out_temp_o[d] & bit_mask);
}
out[(i * <self.num_bits> + b) * <self.num_classes> + c] = res;
}
}
}
free(inp_temp);
free(out_temp);
free(out_temp_o);
}
"""

HOLE_ALIASES = {
    "BITS_TO_DTYPE[self.num_bits]": "T",
    "BITS_TO_ZERO_LITERAL[self.num_bits]": "Z",
    "BITS_TO_ONE_LITERAL[self.num_bits]": "ONE",
    "BITS_TO_UNSIGNED_DTYPE[self.num_bits]": "UT",      # the unsigned type of the word's width: shifts are done there (no UB at the sign bit)
}


def norm(txt):
    lines = [re.sub(r"\s+", " ", l).strip() for l in txt.strip().splitlines()]
    return "\n".join(l for l in lines if l)


def zexpr(node, names):
    """integer Python expression -> Coq Z expression over n (num_neurons_ll) and k (num_classes)."""
    if isinstance(node, ast.Name) and node.id in names:
        return names[node.id]
    if isinstance(node, ast.Attribute) and ast.unparse(node) in names:
        return names[ast.unparse(node)]
    if isinstance(node, ast.Constant) and isinstance(node.value, int):
        return f"{node.value}"
    if isinstance(node, ast.BinOp):
        l, r = zexpr(node.left, names), zexpr(node.right, names)
        op = {ast.Add: "+", ast.Sub: "-", ast.Mult: "*", ast.FloorDiv: "/", ast.Div: "/"}.get(type(node.op))
        if not op:
            _fail("operator in width expression")
        return f"({l} {op} {r})"
    if isinstance(node, ast.Call):
        fn = ast.unparse(node.func)
        if fn in ("math.ceil", "math.floor", "int", "round") and len(node.args) == 1:
            inner = node.args[0]
            if isinstance(inner, ast.Call) and ast.unparse(inner.func) == "math.log2" and len(inner.args) == 1:
                e = zexpr(inner.args[0], names)
                return f"(Z.log2_up {e})" if fn == "math.ceil" else f"(Z.log2 {e})"
        _fail("call in width expression: " + fn)
    _fail("width expression: " + ast.dump(node)[:80])


def gen_wrapper_params():
    mod = _cm()
    f = _method(mod, "CompiledLogicNet", "_generate_batch_processing_function")
    body = [s for s in f.body if not (isinstance(s, ast.Expr) and isinstance(s.value, ast.Constant))]
    env = {}
    ret = None
    for s in body:
        if isinstance(s, ast.Assign) and len(s.targets) == 1 and isinstance(s.targets[0], ast.Name):
            env[s.targets[0].id] = s.value
        elif isinstance(s, ast.Return):
            ret = s.value
        else:
            _fail("statement " + type(s).__name__)
    if not (isinstance(ret, ast.List) and len(ret.elts) == 1 and isinstance(ret.elts[0], ast.JoinedStr)):
        _fail("return is not a one-element list of an f-string")
    for nm, src in (("input_size", "self._get_input_size()"), ("output_size", "self._get_output_size()"),
                    ("num_neurons_ll", "output_size")):
        if nm not in env or ast.unparse(env[nm]) != src:
            _fail(f"{nm} is not {src}")
    if "log2_of_num_neurons_per_class_ll" not in env:
        _fail("width variable missing")
    names = {"num_neurons_ll": "n", "self.num_classes": "k"}
    width = zexpr(env["log2_of_num_neurons_per_class_ll"], names)
    pieces = []
    for v in ret.elts[0].values:
        if isinstance(v, ast.Constant):
            pieces.append(v.value)
        elif isinstance(v, ast.FormattedValue):
            if v.conversion != -1 or v.format_spec is not None:
                _fail("format spec")
            h = ast.unparse(v.value)
            pieces.append("<" + HOLE_ALIASES.get(h, h) + ">")
        else:
            _fail("f-string piece")
    got = norm("".join(pieces))
    exp = norm(EXPECTED)
    if got != exp:
        gl, el = got.splitlines(), exp.splitlines()
        for i, (a, b) in enumerate(zip(gl, el)):
            if a != b:
                _fail(f"wrapper template differs from the modelled structure at line {i}: {a!r} vs modelled {b!r}")
        _fail("wrapper template differs in length from the modelled structure")
    # group size hole
    gs = ast.parse("num_neurons_ll // self.num_classes", mode="eval").body
    out = HEADER + "From Coq Require Import ZArith.\nLocal Open Scope Z_scope.\n\n"
    out += "(* the emitted wrapper text matches the structure modelled in Model/Wrapper.v (checked token-wise by the translator) *)\n"
    out += "Definition wrapper_template_matches : bool := true.\n"
    out += f"(* log2_of_num_neurons_per_class_ll = {ast.unparse(env['log2_of_num_neurons_per_class_ll'])} *)\n"
    out += f"Definition acc_width (n k : Z) : Z := {width}.\n"
    out += f"Definition group_size (n k : Z) : Z := {zexpr(gs, names)}.\n"
    return out


HOST_GROUPSUM = [
    # guard (F22): a batch whose per-sample size is not the compiled input size is refused; the model's rows all have in_size values
    "if x.ndim < 2 or int(np.prod(x.shape[1:])) != self._get_input_size():\n"
    "    raise ValueError(f'expected a batch of samples of {self._get_input_size()} values, got shape {tuple(x.shape)}')",
    # canonical bytes (F25): identity on the modelled Boolean values
    "if x.dtype == np.bool_:\n    x = x.view(np.uint8) != 0",
    "batch_size_div_bits = math.ceil(x.shape[0] / self.num_bits)",
    "pad_len = batch_size_div_bits * self.num_bits - x.shape[0]",
    "x = np.concatenate([x, np.zeros((pad_len,) + x.shape[1:], dtype=x.dtype)])",
    "out = np.zeros(x.shape[0] * self.num_classes, dtype=BITS_TO_NP_DTYPE[32])",
    "x = x.reshape(-1)",
    "self.lib_fn(x, out, batch_size_div_bits)",
    "out = torch.tensor(out).view(batch_size_div_bits * self.num_bits, self.num_classes)",
    "if pad_len > 0:\n    out = out[:-pad_len]",
    "return out",
]
HOST_DIRECT = [
    "batch_size = x.shape[0]",
    "input_size = self._get_input_size()",
    "x_flat = np.ascontiguousarray(x.reshape(batch_size, input_size), dtype=BITS_TO_NP_DTYPE[self.num_bits])",
    "output_size = self._get_output_size()",
    "out = np.zeros((batch_size, output_size), dtype=BITS_TO_NP_DTYPE[self.num_bits])",
    "for i in range(batch_size):\n    self.lib_fn(x_flat[i], out[i])",
    "return torch.tensor(out & 1)",
]
# guard (F47): raises or does nothing; every batch it lets through has input-size values per sample, which is all the model assumes
CHECK_SHAPE = [
    "declared = tuple((int(v) for v in self.input_shape))",
    "ok = x.ndim >= 2 and int(np.prod(x.shape[1:])) == self._get_input_size()",
    "if ok and len(declared) > 1:\n    ok = x.ndim == 2 or tuple(x.shape[1:]) == declared\n"
    "elif ok and (not (self.layer_order and self.layer_order[0][0] == 'flatten')):\n    ok = x.ndim == 2",
    "if not ok:\n    raise ValueError(f'expected a batch of samples of shape {declared}, got shape {tuple(x.shape)}')",
]
SETUP_FN = [
    "if self.num_classes:\n    lib_fn = lib.apply_logic_net\n    lib_fn.restype = None\n    lib_fn.argtypes = [np.ctypeslib.ndpointer(ctypes.c_bool, flags='C_CONTIGUOUS'), np.ctypeslib.ndpointer(BITS_TO_C_DTYPE[32], flags='C_CONTIGUOUS'), ctypes.c_size_t]\nelse:\n    lib_fn = lib.logic_net\n    lib_fn.restype = None\n    lib_fn.argtypes = [np.ctypeslib.ndpointer(BITS_TO_C_DTYPE[self.num_bits], flags='C_CONTIGUOUS'), np.ctypeslib.ndpointer(BITS_TO_C_DTYPE[self.num_bits], flags='C_CONTIGUOUS')]",
    "self.lib_fn = lib_fn",
]


def _stmts(f):
    return [ast.unparse(s) for s in f.body if not (isinstance(s, ast.Expr) and isinstance(s.value, ast.Constant))
            and not (isinstance(s, ast.If) and ast.unparse(s.test) == "verbose")]


def gen_host():
    """_forward_with_groupsum / _forward_direct / _setup_library_function: statement-level comparison with
    the host code that Model/Wrapper.v (forward_with_groupsum) and Model/Host.v (forward_direct) model."""
    mod = _cm()
    for name, exp in (("_forward_with_groupsum", HOST_GROUPSUM), ("_forward_direct", HOST_DIRECT),
                      ("_setup_library_function", SETUP_FN), ("_check_batch_shape", CHECK_SHAPE)):
        got = _stmts(_method(mod, "CompiledLogicNet", name))
        if got != exp:
            for i, (a, b) in enumerate(zip(got, exp)):
                if a != b:
                    _fail(f"{name}: statement {i} is {a!r}, modelled {b!r}")
            _fail(f"{name}: {len(got)} statements, modelled {len(exp)}")
    f = _method(mod, "CompiledLogicNet", "forward")
    got = _stmts(f)
    exp = ["if isinstance(x, torch.Tensor):\n    x = x.numpy()",
           "self._check_batch_shape(x)",
           "if self.num_classes:\n    return self._forward_with_groupsum(x, verbose)\nelse:\n    return self._forward_direct(x, verbose)"]
    if got != exp:
        _fail("forward: dispatch changed: " + repr(got))
    out = HEADER + "(* the host statements equal, one by one, those modelled in Model/Wrapper.v and Model/Host.v *)\n"
    out += "Definition host_matches : bool := true.\n"
    return out
