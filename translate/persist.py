"""Gen/Persist.v by INTROSPECTION of live objects: for every logic layer class and connection scheme, does a
state_dict() round trip into a layer rebuilt under a different RNG state restore the wiring?"""
import torch

from translate.ops import HEADER, _fail


def _same(a, b):
    if isinstance(a, (list, tuple)):
        return len(a) == len(b) and all(_same(x, y) for x, y in zip(a, b))
    return torch.equal(a, b)


def gen_persist():
    from torchlogix.layers import LogicDense, LogicConv2d, LogicConv3d
    combos = [
        ("LogicDense/random", lambda: LogicDense(9, 12, device="cpu", connections="random")),
        ("LogicDense/unique", lambda: LogicDense(9, 12, device="cpu", connections="unique")),
        ("LogicConv2d/random", lambda: LogicConv2d(in_dim=4, device="cpu", channels=2, num_kernels=3, tree_depth=2, receptive_field_size=3, connections="random")),
        ("LogicConv2d/random-unique", lambda: LogicConv2d(in_dim=4, device="cpu", channels=2, num_kernels=3, tree_depth=2, receptive_field_size=3, connections="random-unique")),
        ("LogicConv3d/random", lambda: LogicConv3d(in_dim=3, device="cpu", channels=2, num_kernels=3, tree_depth=2, receptive_field_size=2, connections="random")),
        ("LogicConv3d/random-unique", lambda: LogicConv3d(in_dim=3, device="cpu", channels=2, num_kernels=3, tree_depth=2, receptive_field_size=2, connections="random-unique")),
    ]
    st = torch.get_rng_state()
    rows = []
    try:
        for name, mk in combos:
            torch.manual_seed(11)
            a = mk()
            sd = a.state_dict()
            torch.manual_seed(9999)
            torch.rand(13)
            b = mk()
            differs_before = not _same(list(a.indices), list(b.indices))
            b.load_state_dict(sd)
            ok = _same(list(a.indices), list(b.indices)) and (not hasattr(a, "kernel_pairs") or _same(list(a.kernel_pairs), list(b.kernel_pairs)))
            keys = sorted(sd.keys())
            rows.append((name, ok, differs_before, keys))
    finally:
        torch.set_rng_state(st)
    out = HEADER + "From Coq Require Import String List Bool.\nImport ListNotations.\nLocal Open Scope string_scope.\n\n"
    out += "(* (layer class / connection scheme, wiring restored by load_state_dict into a layer rebuilt under another RNG state) *)\n"
    out += "Definition persisted_wiring : list (string * bool) :=\n  [" + ";\n   ".join(
        f'("{n}", {"true" if ok else "false"})' for n, ok, _, _ in rows) + "].\n"
    for n, ok, diff, keys in rows:
        out += f"(* {n}: state_dict keys {keys[:3]}{'...' if len(keys) > 3 else ''}; fresh wiring differed before loading: {diff} *)\n"
    return out


# ---------------------------------------------------------------------------------------------------------------------
# Gen/PersistSrc.v: the persistence methods of the layers, statement by statement, are those modelled in Model/Persist.v
# (dense_save / dense_load, conv_save / conv_load, thermo_save / thermo_load).
SETDEFAULT_NN = ['state_dict.setdefault(prefix + nn.modules.module._EXTRA_STATE_KEY_SUFFIX, self.get_extra_state())',
                 'super()._load_from_state_dict(state_dict, prefix, *args, **kwargs)']
MODELLED = {
    ("dense.py", "LogicDense", "get_extra_state"): [
        "return {'indices': tuple((i.detach().cpu() for i in self.indices))}"],
    ("dense.py", "LogicDense", "set_extra_state"): [
        "indices = tuple((i.to(torch.int64).to(self.device) for i in state['indices']))",
        "if len(indices) != 2 or any((i.shape != (self.out_dim,) or (i.numel() > 0 and (int(i.min()) < 0 or int(i.max()) >= self.in_dim)) for i in indices)):\n"
        "    raise ValueError('the persisted wiring does not fit this layer (in_dim or out_dim differ)')",
        'self.indices = indices',
        "if self.implementation == 'cuda':\n    self._init_cuda_indices()"],
    ("dense.py", "LogicDense", "_load_from_state_dict"): [
        'state_dict.setdefault(prefix + torch.nn.modules.module._EXTRA_STATE_KEY_SUFFIX, self.get_extra_state())',
        'super()._load_from_state_dict(state_dict, prefix, *args, **kwargs)'],
    ("conv.py", "_PersistentWiring", "_geometry"): [
        'rf = self.receptive_field_size',
        "return {'in_dim': tuple((int(n) for n in self.in_dim)), 'channels': int(self.channels), 'num_kernels': int(self.num_kernels), "
        "'tree_depth': int(self.tree_depth), 'stride': int(self.stride), 'padding': int(self.padding or 0), "
        "'receptive_field_size': tuple((int(r) for r in rf)) if isinstance(rf, (tuple, list)) else int(rf)}"],
    ("conv.py", "_PersistentWiring", "get_extra_state"): [
        "return {'geometry': self._geometry(), 'kernel_pairs': tuple((p.detach().cpu() for p in self.kernel_pairs)), "
        "'indices': [tuple((i.detach().cpu() for i in level)) for level in self.indices]}"],
    ("conv.py", "_PersistentWiring", "set_extra_state"): [
        "pairs = tuple((p.to(self.device) for p in state['kernel_pairs']))",
        'rf = self.receptive_field_size',
        'limits = (tuple(rf) if isinstance(rf, (tuple, list)) else (rf,) * len(self.in_dim)) + (self.channels,)',
        'fits = len(pairs) == len(self.kernel_pairs) and all((p.shape == own.shape and p.numel() > 0 and (int(p.min()) >= 0) and '
        'all((int(p[..., d].max()) < lim for d, lim in enumerate(limits))) for p, own in zip(pairs, self.kernel_pairs)))',
        "if not fits:\n    raise ValueError('the persisted wiring does not fit this layer (receptive field, channels, kernels or tree depth differ)')",
        "if 'geometry' in state:\n    if state['geometry'] != self._geometry():\n        raise ValueError(<msg>)\n"
        "    saved = [tuple((i.to(self.device) for i in level)) for level in state['indices']]\n"
        "    if len(saved) != len(self.indices) or any((len(lv) != len(own) or any((a.shape != b.shape for a, b in zip(lv, own))) "
        "for lv, own in zip(saved, self.indices))):\n        raise ValueError('the persisted index tensors do not have the shapes of this layer')\n"
        "    self.kernel_pairs = pairs\n    self.indices = saved\nelse:\n    self.kernel_pairs = pairs\n"
        "    self.indices = self.get_indices_from_kernel_pairs(pairs)"],
    ("conv.py", "_PersistentWiring", "_load_from_state_dict"): SETDEFAULT_NN,
    ("thresholding.py", "LearnableThermometerThresholding", "get_extra_state"): ["return {'frozen': bool(self._frozen)}"],
    ("thresholding.py", "LearnableThermometerThresholding", "set_extra_state"): [
        "self._frozen = bool(state['frozen'])", 'self.raw_diffs.requires_grad = not self._frozen',
        # (a frozen parameter must not carry a gradient an earlier optimizer would keep applying: F40 / F73; no effect on the saved state)
        "if self._frozen:\n    self.raw_diffs.grad = None"],
    ("thresholding.py", "LearnableThermometerThresholding", "_load_from_state_dict"): SETDEFAULT_NN,
}
PERSIST_METHODS = ("get_extra_state", "set_extra_state", "_load_from_state_dict", "_geometry", "state_dict", "load_state_dict",
                   "_save_to_state_dict", "__getstate__", "__setstate__", "__reduce__", "__reduce_ex__")


def gen_persist_src():
    import ast
    import re
    from harness.common import read_src
    mods = {f: ast.parse(read_src("src/torchlogix/layers/" + f)) for f in ("dense.py", "conv.py", "thresholding.py")}

    def cls_of(f, name):
        for n in mods[f].body:
            if isinstance(n, ast.ClassDef) and n.name == name:
                return n
        _fail(f"{f}: class {name} not found")

    def stmts(fn):
        out = []
        for s in fn.body:
            if isinstance(s, ast.Expr) and isinstance(s.value, ast.Constant):
                continue
            t = ast.unparse(s)
            # the text of one error message (an f-string quoting both geometries) is not modelled
            t = re.sub(r"raise ValueError\(f'the persisted wiring belongs to a layer of another geometry[^\n]*\)\n", "raise ValueError(<msg>)\n", t)
            out.append(t)
        return out
    for (f, cname, meth), exp in MODELLED.items():
        c = cls_of(f, cname)
        fn = [m for m in c.body if isinstance(m, ast.FunctionDef) and m.name == meth]
        if len(fn) != 1:
            _fail(f"{cname}.{meth}: defined {len(fn)} times")
        got = stmts(fn[0])
        if got != exp:
            for i, (a, b) in enumerate(zip(got, exp)):
                if a != b:
                    _fail(f"{cname}.{meth}: statement {i} is {a!r}, modelled {b!r}")
            _fail(f"{cname}.{meth}: {len(got)} statements, modelled {len(exp)}")
    # no class overrides or adds a persistence method beyond the modelled ones; the convolutions inherit _PersistentWiring first
    for f, mod in mods.items():
        for n in mod.body:
            if isinstance(n, ast.ClassDef):
                for m in n.body:
                    if isinstance(m, ast.FunctionDef) and m.name in PERSIST_METHODS and (f, n.name, m.name) not in MODELLED:
                        _fail(f"{n.name}.{m.name}: persistence method outside the model")
    for cname in ("LogicConv2d", "LogicConv3d"):
        bases = [ast.unparse(b) for b in cls_of("conv.py", cname).bases]
        if bases[:1] != ["_PersistentWiring"]:
            _fail(f"{cname}: bases {bases}: _PersistentWiring is not the first base")
    if [ast.unparse(b) for b in cls_of("conv.py", "_PersistentWiring").bases]:
        _fail("_PersistentWiring has base classes")
    return (HEADER + "(* get_extra_state / set_extra_state / _load_from_state_dict / _geometry of LogicDense, _PersistentWiring (first base of\n"
            "   LogicConv2d and LogicConv3d, which do not override them) and LearnableThermometerThresholding equal, statement by\n"
            "   statement, the code modelled by dense_save / dense_load, conv_save / conv_load, thermo_save / thermo_load *)\n"
            "Definition persist_src_matches : bool := true.\n")
