"""Gen/Persist.v by INTROSPECTION of live objects: for every logic layer class and connection scheme, does a
state_dict() round trip into a layer rebuilt under a different RNG state restore the wiring?"""
import torch

from translate.ops import HEADER, _fail


def _same(a, b):
    if isinstance(a, (list, tuple)):
        return len(a) == len(b) and all(_same(x, y) for x, y in zip(a, b))
    return torch.equal(a, b)


def gen_persist():
    from torchlogix.layers import LogicDense, LogicConv2d, LogicConv3d
    combos = [
        ("LogicDense/random", lambda: LogicDense(9, 12, device="cpu", connections="random")),
        ("LogicDense/unique", lambda: LogicDense(9, 12, device="cpu", connections="unique")),
        ("LogicConv2d/random", lambda: LogicConv2d(in_dim=4, device="cpu", channels=2, num_kernels=3, tree_depth=2, receptive_field_size=3, connections="random")),
        ("LogicConv2d/random-unique", lambda: LogicConv2d(in_dim=4, device="cpu", channels=2, num_kernels=3, tree_depth=2, receptive_field_size=3, connections="random-unique")),
        ("LogicConv3d/random", lambda: LogicConv3d(in_dim=3, device="cpu", channels=2, num_kernels=3, tree_depth=2, receptive_field_size=2, connections="random")),
        ("LogicConv3d/random-unique", lambda: LogicConv3d(in_dim=3, device="cpu", channels=2, num_kernels=3, tree_depth=2, receptive_field_size=2, connections="random-unique")),
    ]
    st = torch.get_rng_state()
    rows = []
    try:
        for name, mk in combos:
            torch.manual_seed(11)
            a = mk()
            sd = a.state_dict()
            torch.manual_seed(9999)
            torch.rand(13)
            b = mk()
            differs_before = not _same(list(a.indices), list(b.indices))
            b.load_state_dict(sd)
            ok = _same(list(a.indices), list(b.indices)) and (not hasattr(a, "kernel_pairs") or _same(list(a.kernel_pairs), list(b.kernel_pairs)))
            keys = sorted(sd.keys())
            rows.append((name, ok, differs_before, keys))
    finally:
        torch.set_rng_state(st)
    out = HEADER + "From Coq Require Import String List Bool.\nImport ListNotations.\nLocal Open Scope string_scope.\n\n"
    out += "(* (layer class / connection scheme, wiring restored by load_state_dict into a layer rebuilt under another RNG state) *)\n"
    out += "Definition persisted_wiring : list (string * bool) :=\n  [" + ";\n   ".join(
        f'("{n}", {"true" if ok else "false"})' for n, ok, _, _ in rows) + "].\n"
    for n, ok, diff, keys in rows:
        out += f"(* {n}: state_dict keys {keys[:3]}{'...' if len(keys) > 3 else ''}; fresh wiring differed before loading: {diff} *)\n"
    return out
