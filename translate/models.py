"""Translator for the models package (C20) by SYMBOLIC CONSTRUCTION: each exported class is instantiated with the
layer classes replaced by recording stubs (which bind their arguments against the REAL constructors' signatures) and
the scale parameter replaced by a symbolic integer; the recorded module tree becomes a Coq list of layer specs whose
dimensions are affine in k."""
import importlib
import inspect

import torch

from harness.common import TranslatorFailed
from translate.ops import HEADER, _fail


class Sym:
    """a*k + b"""

    def __init__(self, a, b=0):
        self.a, self.b = a, b

    @staticmethod
    def lift(x):
        if isinstance(x, Sym):
            return x
        if isinstance(x, int):
            return Sym(0, x)
        raise TranslatorFailed(f"non-integer in a dimension: {x!r}")

    def __add__(self, o):
        o = Sym.lift(o)
        return Sym(self.a + o.a, self.b + o.b)
    __radd__ = __add__

    def __mul__(self, o):
        o = Sym.lift(o)
        if self.a and o.a:
            raise TranslatorFailed("non-affine dimension")
        return Sym(self.a * o.b + o.a * self.b, self.b * o.b)
    __rmul__ = __mul__

    # comparisons: decided for every k >= 1 where possible; an equation a*k+b = c*k+d with a <> c holds for at most one k, which
    # is recorded as an EXCEPTIONAL scale (the class is then also constructed concretely at that scale), the generic answer
    # (not equal) is returned
    def __eq__(self, o):
        if not isinstance(o, (int, Sym)) or isinstance(o, bool):
            return False
        o = Sym.lift(o)
        if self.a == o.a:
            return self.b == o.b
        num, den = o.b - self.b, self.a - o.a
        if num % den == 0 and num // den >= 1:
            EXCEPTIONAL.add(num // den)
        return False

    def __ne__(self, o):
        return not self.__eq__(o)

    def __hash__(self):
        return hash((self.a, self.b))

    def _order(self, o, what):
        o = Sym.lift(o)
        da, db = self.a - o.a, self.b - o.b          # sign of da*k + db for all k >= 1
        if da >= 0 and da + db > 0:
            return 1
        if da <= 0 and da + db < 0:
            return -1
        if da == 0 and db == 0:
            return 0
        raise TranslatorFailed(f"comparison {what} of scale-dependent dimensions is not uniform in k")

    def __lt__(self, o): return self._order(o, "<") < 0
    def __le__(self, o): return self._order(o, "<=") <= 0
    def __gt__(self, o): return self._order(o, ">") > 0
    def __ge__(self, o): return self._order(o, ">=") >= 0

    def __bool__(self):
        if self.a == 0:
            return self.b != 0
        if self.a > 0 and self.a + self.b > 0:
            return True
        raise TranslatorFailed("truth value of a scale-dependent dimension is not uniform in k")

    def coq(self):
        if self.a == 0:
            return f"{self.b}"
        return f"({self.a} * k + {self.b})" if self.b else f"({self.a} * k)"


EXCEPTIONAL = set()
TAU_PROBE = 7.0            # every constructor that takes a tau is given this value; the GroupSum it builds must receive it
LAST_EXCEPTIONAL = []      # (class name, constructor arguments, input shape) of the exceptional scales met by the last translation


def zc(x):
    return Sym.lift(x).coq()


def _stub(real, kind):
    sig = inspect.signature(real.__init__)

    class Stub(torch.nn.Module):
        def __init__(self, *a, **kw):
            super().__init__()
            ba = sig.bind(self, *a, **kw)        # TypeError on unexpected / missing arguments, as the real class
            ba.apply_defaults()
            self.args = dict(ba.arguments)
            self.args.pop("self")
            extra = self.args.pop("kwargs", None) or self.args.pop("llkw", None)
            if extra:
                raise TypeError(f"unexpected keyword arguments {sorted(extra)}")
            self.kind = kind
    Stub.__name__ = real.__name__
    return Stub


def _spec(m):
    """module -> Coq lspec text (recursively for the residual block)."""
    kind = getattr(m, "kind", None)
    a = getattr(m, "args", {})
    if kind == "conv":
        ind = a["in_dim"]
        ind = (ind, ind) if not isinstance(ind, (tuple, list)) else tuple(ind)
        if a["receptive_field_size"] is None or a["tree_depth"] is None:
            _fail("conv without rf / depth")
        return (f"LSConv [{zc(ind[0])}; {zc(ind[1])}] {zc(a['channels'])} {zc(a['num_kernels'])} "
                f"{zc(a['receptive_field_size'])} {zc(a['stride'])} {zc(a['padding'])} {zc(a['tree_depth'])}")
    if kind == "pool":
        return f"LSPool {zc(a['kernel_size'])} {zc(a['stride'])} {zc(a['padding'])}"
    if kind == "dense":
        return f"LSDense {zc(a['in_dim'])} {zc(a['out_dim'])}"
    if kind == "groupsum":
        return f"LSGroupSum {zc(a['k'])}"
    if isinstance(m, torch.nn.Flatten):
        return "LSFlatten"
    if isinstance(m, torch.nn.Identity):
        return "LSIdentity"
    if type(m).__name__ == "ResidualLogicBlock":
        main = "[" + "; ".join(_spec(x) for x in m.main) + "]"
        sc = m.shortcut
        short = "[" + "; ".join(_spec(x) for x in (sc if isinstance(sc, torch.nn.Sequential) else [sc])) + "]"
        return f"LSResidual {main} {short}"
    if isinstance(m, torch.nn.Sequential):
        _fail("unexpected nested Sequential")
    _fail("unknown module " + type(m).__name__)


def _layers(model):
    seq = model if isinstance(model, torch.nn.Sequential) else getattr(model, "model", None)
    if not isinstance(seq, torch.nn.Sequential):
        _fail("model is neither a Sequential nor has a .model Sequential")
    # a tau argument must reach the group sum (a class that takes tau and builds its GroupSum with another value is mis-plumbed)
    try:
        takes_tau = "tau" in inspect.signature(type(model).__init__).parameters
    except (TypeError, ValueError):
        takes_tau = False
    if takes_tau:
        gs = [m for m in seq if getattr(m, "kind", None) == "groupsum"]
        if not gs or gs[-1].args.get("tau") != TAU_PROBE:
            _fail(f"{type(model).__name__}: the tau argument ({TAU_PROBE}) does not reach the GroupSum (it gets {gs[-1].args.get('tau') if gs else None})")
    return "[" + ";\n     ".join(_spec(m) for m in seq) + "]"


def _fixed_tau(cls, model):
    """A fixed-scale subclass that passes a literal tau to its parent: the GroupSum of the built model must carry that value."""
    import ast
    import textwrap
    try:
        tree = ast.parse(textwrap.dedent(inspect.getsource(cls.__init__)))
    except (OSError, TypeError):
        return model
    taus = [kw.value.value for n in ast.walk(tree) if isinstance(n, ast.Call) for kw in n.keywords
            if kw.arg == "tau" and isinstance(kw.value, ast.Constant) and isinstance(kw.value.value, (int, float))]
    if len(taus) == 1:
        seq = model if isinstance(model, torch.nn.Sequential) else getattr(model, "model", None)
        gs = [m for m in (seq or []) if getattr(m, "kind", None) == "groupsum"]
        if not gs or float(gs[-1].args.get("tau")) != float(taus[0]):
            _fail(f"{cls.__name__} asks for tau={taus[0]} but its GroupSum is built with tau={gs[-1].args.get('tau') if gs else None}")
    return model


def symbolic():
    """Returns {name: (coq layer list text, input shape text, classes)} with `k` free."""
    import torchlogix.layers as L
    mc = importlib.import_module("torchlogix.models.conv")
    md = importlib.import_module("torchlogix.models.dense")
    mn = importlib.import_module("torchlogix.models.nn")
    stubs = {"LogicConv2d": _stub(L.LogicConv2d, "conv"), "LogicDense": _stub(L.LogicDense, "dense"),
             "OrPooling": _stub(L.OrPooling, "pool"), "GroupSum": _stub(L.GroupSum, "groupsum")}
    saved = []
    for mod in (mc, md, mn):
        for nm, st in stubs.items():
            if hasattr(mod, nm):
                saved.append((mod, nm, getattr(mod, nm)))
                setattr(mod, nm, st)
    k = Sym(1, 0)
    out = {}
    del LAST_EXCEPTIONAL[:]
    try:
        kw = dict(device="cpu")
        out["ClgnMnist"] = (_layers(mc.ClgnMnist(k_num=k, **kw)), "1", "[28; 28]", 10)
        exceptional = {}

        def family(name, build, c, sp, classes, desc=None):
            """symbolic construction; every scale at which a comparison made during construction could come out differently is
            also constructed concretely (checked by computation in Props/C20 as part of the fixed models)"""
            EXCEPTIONAL.clear()
            out[name] = (_layers(build(k)), c, sp, classes)
            for k0 in sorted(EXCEPTIONAL):
                if k0 <= 4096:
                    exceptional[f"{name}_at_k{k0}"] = (_layers(build(k0)), c, sp)
                    if desc:
                        LAST_EXCEPTIONAL.append(desc(k0))
            EXCEPTIONAL.clear()

        for nb in (1, 2, 3, 4, 5):
            family(f"ClgnCifar10_nbits{nb}", lambda kk, nb=nb: mc.ClgnCifar10(n_bits=nb, k_num=kk, tau=TAU_PROBE, **kw), f"{3 * nb}", "[32; 32]", 10,
                   lambda k0, nb=nb: ("ClgnCifar10", dict(n_bits=nb, k_num=k0, tau=TAU_PROBE), (3 * nb, 32, 32)))
            family(f"ClgnCifar10Res_nbits{nb}", lambda kk, nb=nb: mc.ClgnCifar10Res(n_bits=nb, k_num=kk, tau=TAU_PROBE, **kw), f"{3 * nb}", "[32; 32]", 10,
                   lambda k0, nb=nb: ("ClgnCifar10Res", dict(n_bits=nb, k_num=k0, tau=TAU_PROBE), (3 * nb, 32, 32)))
        out["ClgnCifar10Tiny"] = (_layers(mc.ClgnCifar10Tiny(k_num=k, **kw)), "9", "[32; 32]", 10)
        out["ClgnCifar10Mini"] = (_layers(mc.ClgnCifar10Mini(k_num=k, tau=TAU_PROBE, **kw)), "9", "[32; 32]", 10)
        out["DlgnMnist"] = (_layers(md.DlgnMnist(neurons_per_layer=k * 10, tau=TAU_PROBE, **kw)), "1", "[28; 28]", 10)
        for nb, nl in ((2, 4), (5, 5)):
            out[f"DlgnCifar10_{nb}_{nl}"] = (_layers(md.DlgnCifar10(n_bits=nb, n_layers=nl, neurons_per_layer=k * 10, tau=TAU_PROBE, **kw)),
                                             f"{3 * nb}", "[32; 32]", 10)
        out["Dlgn_generic"] = (_layers(md.Dlgn(in_dim=12, n_layers=3, neurons_per_layer=k * 4, class_count=4, tau=TAU_PROBE, **kw)), "1", "[3; 4]", 4)
        out["CNN"] = (_layers(mc.CNN(class_count=10, tau=TAU_PROBE, **kw)), "1", "[28; 28]", 10)
        out["RandomlyConnectedNN"] = (_layers(mn.RandomlyConnectedNN(in_dim=12, k=k * 4, layers=3, class_count=4, tau=TAU_PROBE, **kw)), "1", "[3; 4]", 4)
        # the connection scheme given to a class must reach every logic layer it builds (convolutions, residual blocks, dense)
        def _logic_stubs(m):
            for ch in m.modules():
                if getattr(ch, "kind", None) in ("conv", "dense"):
                    yield ch
        for nm, build in (("ClgnMnist", lambda **o: mc.ClgnMnist(k_num=2, **o)), ("ClgnCifar10", lambda **o: mc.ClgnCifar10(n_bits=2, k_num=2, tau=TAU_PROBE, **o)),
                          ("ClgnCifar10Res", lambda **o: mc.ClgnCifar10Res(n_bits=2, k_num=2, tau=TAU_PROBE, **o)),
                          ("ClgnCifar10Tiny", lambda **o: mc.ClgnCifar10Tiny(k_num=2, **o)),
                          ("ClgnCifar10Mini", lambda **o: mc.ClgnCifar10Mini(k_num=2, tau=TAU_PROBE, **o)),
                          ("CNN", lambda **o: mc.CNN(class_count=10, tau=TAU_PROBE, **o)),
                          ("DlgnMnist", lambda **o: md.DlgnMnist(neurons_per_layer=400, tau=TAU_PROBE, **o)),
                          ("DlgnCifar10", lambda **o: md.DlgnCifar10(n_bits=2, n_layers=3, neurons_per_layer=4000, tau=TAU_PROBE, **o)),
                          ("ClgnMnistSmall", lambda **o: mc.ClgnMnistSmall(**o)), ("ClgnCifar10Small", lambda **o: mc.ClgnCifar10Small(**o)),
                          ("ClgnCifar10SmallRes", lambda **o: mc.ClgnCifar10SmallRes(**o)), ("ClgnCifar10Tiny32", lambda **o: mc.ClgnCifar10Tiny32(**o)),
                          ("DlgnMnistSmall", lambda **o: md.DlgnMnistSmall(**o))):
            built = build(connections="unique", **kw)
            stubs_ = list(_logic_stubs(built))
            wrong = [type(x).__name__ for x in stubs_ if x.args.get("connections") != "unique"]
            if not stubs_ or wrong:
                _fail(f"{nm}(connections='unique') does not hand the scheme to {wrong or 'any logic layer'}")
        # every fixed-scale subclass must construct (argument plumbing) and fix k
        fixed = {}
        for nm in ("ClgnMnistSmall", "ClgnMnistMedium", "ClgnMnistLarge", "ClgnCifar10Small", "ClgnCifar10SmallRes", "ClgnCifar10Medium",
                   "ClgnCifar10Large", "ClgnCifar10Large2", "ClgnCifar10Large4", "ClgnCifar10Tiny32", "ClgnCifar10Tiny64",
                   "ClgnCifar10Tiny128", "ClgnCifar10Tiny256", "ClgnCifar10Mini32", "ClgnCifar10Mini64", "ClgnCifar10Mini128",
                   "ClgnCifar10Mini256"):
            cls = getattr(mc, nm, None)
            if cls is None:
                _fail("exported class missing: " + nm)
            fixed[nm] = _layers(_fixed_tau(cls, cls(**kw)))
        for nm in ("DlgnMnistSmall", "DlgnMnistMedium", "DlgnCifar10Small", "DlgnCifar10Medium", "DlgnCifar10Large",
                   "DlgnCifar10Large2", "DlgnCifar10Large4"):
            cls = getattr(md, nm, None)
            if cls is None:
                _fail("exported class missing: " + nm)
            fixed[nm] = _layers(_fixed_tau(cls, cls(**kw)))
    finally:
        for mod, nm, real in saved:
            setattr(mod, nm, real)
    return out, fixed, exceptional


FIXED_INPUT = {"Mnist": ("1", "[28; 28]"), "Cifar10Small": ("9", "[32; 32]"), "Cifar10Medium": ("9", "[32; 32]"),
               "Cifar10Large": ("15", "[32; 32]"), "Cifar10Tiny": ("9", "[32; 32]"), "Cifar10Mini": ("9", "[32; 32]")}


def fixed_input(name):
    if "Mnist" in name:
        return "1", "[28; 28]"
    if name.startswith("Dlgn"):
        nb = 2 if ("Small" in name or "Medium" in name) else 5
        return str(3 * nb), "[32; 32]"
    if "Large" in name:
        return "15", "[32; 32]"
    return "9", "[32; 32]"


def gen_models():
    sym, fixed, exceptional = symbolic()
    out = HEADER + "From Coq Require Import ZArith List.\nFrom TLX Require Import Model.Shapes.\nImport ListNotations.\nLocal Open Scope Z_scope.\n\n"
    names = []
    for nm, (layers, c, sp, classes) in sym.items():
        out += f"Definition {nm}_layers (k : Z) : list lspec :=\n    {layers}.\n"
        out += f"Definition {nm}_input : Z * list Z := ({c}, {sp}).\nDefinition {nm}_classes : Z := {classes}.\n\n"
        names.append(nm)
    for nm, layers in fixed.items():
        c, sp = fixed_input(nm)
        out += f"Definition {nm}_layers : list lspec :=\n    {layers}.\n"
        out += f"Definition {nm}_input : Z * list Z := ({c}, {sp}).\n\n"
    for nm, (layers, c, sp) in exceptional.items():
        out += f"Definition {nm}_layers : list lspec :=\n    {layers}.\n"
        out += f"Definition {nm}_input : Z * list Z := ({c}, {sp}).\n\n"
    out += "Definition symbolic_models : list (Z -> list lspec) := [" + "; ".join(n + "_layers" for n in names) + "].\n"
    out += "Definition fixed_models : list (list lspec * (Z * list Z)) := [" + "; ".join(
        f"({n}_layers, {n}_input)" for n in fixed) + "].\n"
    out += ("(* scales at which a comparison made during construction could come out differently from the generic k: built concretely *)\n"
            "Definition exceptional_models : list (list lspec * (Z * list Z)) := [" + "; ".join(
                f"({n}_layers, {n}_input)" for n in exceptional) + "].\n")
    return out
