"""Translator for CompiledLogicNet.compile (save branch) and CompiledLogicNet.load: which library calls they make."""
import ast

from harness.common import read_src
from translate.ops import HEADER, _fail
from translate.gatecode import _cm, _method
from translate.guards import _flat


def gen_libio():
    mod = _cm()
    comp = _flat(ast.unparse(_method(mod, "CompiledLogicNet", "compile")))
    load = _flat(ast.unparse(_method(mod, "CompiledLogicNet", "load")))
    if "if save_lib_path is not None:" not in comp:
        _fail("compile: save branch not found")
    if "shutil.copy(lib_file.name, save_lib_path)" in comp:
        save = "InPlace"
    elif ("shutil.copy(lib_file.name, tmp_save_path)\nos.replace(tmp_save_path, save_lib_path)" in comp
          and "tmp_fd, tmp_save_path = tempfile.mkstemp(prefix=os.path.basename(save_lib_path) + '.tmp', "
              "dir=os.path.dirname(os.path.abspath(save_lib_path)))" in comp):
        save = "AtomicRename"      # staged in a file of its own (per call) in the target directory, then renamed into place
    else:
        _fail("compile: unknown save discipline")
    if "lib = ctypes.cdll.LoadLibrary(lib_file.name)\nself._setup_library_function(lib)" not in comp:
        _fail("compile: the instance does not load its own temporary build")
    if "with tempfile.NamedTemporaryFile(suffix='.so') as lib_file:" not in comp:
        _fail("compile: temporary build file")
    if "lib = ctypes.cdll.LoadLibrary(save_lib_path)" in load:
        ld = "ByPath"
    elif ("with tempfile.NamedTemporaryFile(suffix='.so') as private_copy:\nshutil.copy(save_lib_path, private_copy.name)\n"
          "lib = ctypes.cdll.LoadLibrary(private_copy.name)") in load:
        ld = "PrivateCopy"
    else:
        _fail("load: unknown load discipline")
    # compile() on a handle returned by load() (no model) must be refused before anything is generated or written (F43):
    # the guard is the first statement of compile
    cnode = _method(mod, "CompiledLogicNet", "compile")
    body = [st for st in cnode.body if not (isinstance(st, ast.Expr) and isinstance(st.value, ast.Constant))]
    first = body[0] if body else None
    requires_model = (isinstance(first, ast.If) and ast.unparse(first.test) == "self.model is None"
                      and len(first.body) == 1 and isinstance(first.body[0], ast.Raise) and not first.orelse)
    passes_bits = "self = CompiledLogicNet(None, num_bits=num_bits)" in load
    sets_shape = "self.input_shape = input_shape" in load and "self.num_classes = num_classes" in load
    out = HEADER + "Inductive save_discipline := InPlace | AtomicRename.\nInductive load_discipline := ByPath | PrivateCopy.\n"
    out += f"Definition save_mode : save_discipline := {save}.\nDefinition load_mode : load_discipline := {ld}.\n"
    out += f"Definition load_passes_num_bits : bool := {'true' if passes_bits else 'false'}.\n"
    out += f"Definition load_sets_shape_and_classes : bool := {'true' if sets_shape else 'false'}.\n"
    out += ("(* compile() on an instance without a model (a handle returned by load): refused as its first statement, or an empty\n"
            "   logic_net is generated, saved and installed *)\n"
            "Inductive recompile_discipline := Refuses | RebuildsEmpty.\n"
            f"Definition recompile_mode : recompile_discipline := {'Refuses' if requires_model else 'RebuildsEmpty'}.\n"
            f"Definition compile_requires_model : bool := {'true' if requires_model else 'false'}.\n")
    return out
