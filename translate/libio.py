"""Translator for CompiledLogicNet.compile (save branch) and CompiledLogicNet.load: which library calls they make."""
import ast

from harness.common import read_src
from translate.ops import HEADER, _fail
from translate.gatecode import _cm, _method
from translate.guards import _flat


def _immutable_literal(node):
    try:
        v = ast.literal_eval(node)
    except Exception:
        return False

    def imm(x):
        return isinstance(x, (str, int, float, bool, type(None))) or (isinstance(x, tuple) and all(imm(y) for y in x))
    return imm(v)


def gen_libio():
    mod = _cm()
    comp = _flat(ast.unparse(_method(mod, "CompiledLogicNet", "compile")))
    load = _flat(ast.unparse(_method(mod, "CompiledLogicNet", "load")))
    if "if save_lib_path is not None:" not in comp:
        _fail("compile: save branch not found")
    if "shutil.copy(lib_file.name, save_lib_path)" in comp:
        save = "InPlace"
    elif ("shutil.copy(lib_file.name, tmp_save_path)\nos.replace(tmp_save_path, save_lib_path)" in comp
          and "tmp_fd, tmp_save_path = tempfile.mkstemp(prefix=os.path.basename(save_lib_path) + '.tmp', "
              "dir=os.path.dirname(os.path.abspath(save_lib_path)))" in comp):
        save = "AtomicRename"      # staged in a file of its own (per call) in the target directory, then renamed into place
    else:
        _fail("compile: unknown save discipline")
    if "lib = ctypes.cdll.LoadLibrary(lib_file.name)\nfor name, value in tables.items():\nsetattr(self, name, value)\nself._setup_library_function(lib)" not in comp:
        _fail("compile: the instance does not load its own temporary build")
    if "with tempfile.NamedTemporaryFile(suffix='.so') as lib_file:" not in comp:
        _fail("compile: temporary build file")
    if "lib = ctypes.cdll.LoadLibrary(save_lib_path)" in load:
        ld = "ByPath"
    elif ("with tempfile.NamedTemporaryFile(suffix='.so') as private_copy:\nshutil.copy(save_lib_path, private_copy.name)\n"
          "lib = ctypes.cdll.LoadLibrary(private_copy.name)") in load:
        ld = "PrivateCopy"
    else:
        _fail("load: unknown load discipline")
    # compile() on a handle returned by load() (no model) must be refused before anything is generated or written (F43):
    # the guard is the first statement of compile
    cnode = _method(mod, "CompiledLogicNet", "compile")
    body = [st for st in cnode.body if not (isinstance(st, ast.Expr) and isinstance(st.value, ast.Constant))]
    first = body[0] if body else None
    requires_model = (isinstance(first, ast.If) and ast.unparse(first.test) == "self.model is None"
                      and len(first.body) == 1 and isinstance(first.body[0], ast.Raise) and not first.orelse)
    # the recognised current disciplines are pinned statement by statement: anything added around them (a cache of mapped
    # libraries, a table shared by all instances, an early return) is outside the model
    def strip_verbose(node):
        class V(ast.NodeTransformer):
            def visit_If(self, n):
                self.generic_visit(n)
                if ast.unparse(n.test).startswith("verbose"):
                    return None
                return n

            def visit_Expr(self, n):
                if isinstance(n.value, ast.Call) and ast.unparse(n.value.func) == "print":
                    return None
                return n
        return V().visit(node)
    if ld == "PrivateCopy":
        lnode = _method(mod, "CompiledLogicNet", "load")
        got = [ast.unparse(st) for st in lnode.body if not (isinstance(st, ast.Expr) and isinstance(st.value, ast.Constant))]
        exp = ["self = CompiledLogicNet(None, num_bits=num_bits)", "self.input_shape = input_shape", "self.num_classes = num_classes",
               "self._loaded_output_size = output_size",
               "with tempfile.NamedTemporaryFile(suffix='.so') as private_copy:\n    shutil.copy(save_lib_path, private_copy.name)\n"
               "    lib = ctypes.cdll.LoadLibrary(private_copy.name)",
               "self._setup_library_function(lib)", "return self"]
        if got != exp:
            for i, (a, b) in enumerate(zip(got, exp)):
                if a != b:
                    _fail(f"load: statement {i} is {a!r}, modelled {b!r}")
            _fail(f"load: {len(got)} statements, modelled {len(exp)}")
    if save == "AtomicRename":
        import copy
        cn = strip_verbose(copy.deepcopy(_method(mod, "CompiledLogicNet", "compile")))
        ast.fix_missing_locations(cn)
        got = [ast.unparse(st) for st in cn.body if not (isinstance(st, ast.Expr) and isinstance(st.value, ast.Constant))]
        exp = ["if self.model is None:\n    raise ValueError('This CompiledLogicNet was loaded from a library and has no model to compile.')",
               "with tempfile.NamedTemporaryFile(suffix='.so') as lib_file:\n"
               "    with tempfile.NamedTemporaryFile(mode='w', suffix='.c') as c_file:\n"
               "        code, tables = self._translate()\n        c_file.write(code)\n        c_file.flush()\n        t_s = time.time()\n"
               "        compiler_out = subprocess.run([self.cpu_compiler, '-shared', '-fPIC', f'-O{opt_level}', '-o', lib_file.name, c_file.name])\n"
               "        if compiler_out.returncode != 0:\n            raise RuntimeError(f'compilation exited with error code {compiler_out.returncode}')\n"
               "    if save_lib_path is not None:\n"
               "        tmp_fd, tmp_save_path = tempfile.mkstemp(prefix=os.path.basename(save_lib_path) + '.tmp', dir=os.path.dirname(os.path.abspath(save_lib_path)))\n"
               "        os.close(tmp_fd)\n        shutil.copy(lib_file.name, tmp_save_path)\n        os.replace(tmp_save_path, save_lib_path)\n"
               # the tables that describe the library are installed with it, after everything succeeded (F67)
               "    lib = ctypes.cdll.LoadLibrary(lib_file.name)\n    for name, value in tables.items():\n        setattr(self, name, value)\n"
               "    self._setup_library_function(lib)"]
        if got != exp:
            for i, (a, b) in enumerate(zip(got, exp)):
                if a != b:
                    k = next((j for j in range(min(len(a), len(b))) if a[j] != b[j]), min(len(a), len(b)))
                    _fail(f"compile: statement {i} differs from the modelled one at character {k}: ...{a[max(0, k - 60):k + 80]!r}")
            _fail(f"compile: {len(got)} statements, modelled {len(exp)}")
    # state shared by all instances (class attributes) is outside the process model, in which a handle's state is its own
    for n in mod.body:
        if isinstance(n, ast.ClassDef) and n.name == "CompiledLogicNet":
            for st in n.body:
                if isinstance(st, ast.Assign) and _immutable_literal(st.value):
                    continue              # a constant (tuple of strings, number): nothing an instance could leave behind for another
                if isinstance(st, (ast.Assign, ast.AnnAssign, ast.AugAssign)):
                    _fail("CompiledLogicNet has a class-level attribute (state shared by all instances): " + ast.unparse(st)[:80])
    passes_bits = "self = CompiledLogicNet(None, num_bits=num_bits)" in load
    sets_shape = "self.input_shape = input_shape" in load and "self.num_classes = num_classes" in load
    out = HEADER + "Inductive save_discipline := InPlace | AtomicRename.\nInductive load_discipline := ByPath | PrivateCopy.\n"
    out += f"Definition save_mode : save_discipline := {save}.\nDefinition load_mode : load_discipline := {ld}.\n"
    out += f"Definition load_passes_num_bits : bool := {'true' if passes_bits else 'false'}.\n"
    out += f"Definition load_sets_shape_and_classes : bool := {'true' if sets_shape else 'false'}.\n"
    out += ("(* compile() on an instance without a model (a handle returned by load): refused as its first statement, or an empty\n"
            "   logic_net is generated, saved and installed *)\n"
            "Inductive recompile_discipline := Refuses | RebuildsEmpty.\n"
            f"Definition recompile_mode : recompile_discipline := {'Refuses' if requires_model else 'RebuildsEmpty'}.\n"
            f"Definition compile_requires_model : bool := {'true' if requires_model else 'false'}.\n")
    return out
