"""Translator for compiled_model.py: ALL_OPERATIONS, BITS_TO_* tables, get_gate_code."""
import ast
import re

from harness.common import TranslatorFailed, read_src
from translate.ops import HEADER, _fail


def _cm():
    return ast.parse(read_src("src/torchlogix/compiled_model.py"))


def _top_assign(mod, name):
    for n in mod.body:
        if isinstance(n, ast.Assign) and len(n.targets) == 1 and isinstance(n.targets[0], ast.Name) \
                and n.targets[0].id == name:
            return n.value
    _fail("no assignment " + name)


def _method(mod, cls, name):
    for n in mod.body:
        if isinstance(n, ast.ClassDef) and n.name == cls:
            for m in n.body:
                if isinstance(m, ast.FunctionDef) and m.name == name:
                    return m
    _fail(f"no method {cls}.{name}")


# ---- tiny C expression parser: atoms A B Z, unary ~, binary & ^ | with C precedence, parentheses
class _P:
    def __init__(self, s):
        self.toks = re.findall(r"[ABZ]|[~&^|()]", s)
        if "".join(self.toks) != re.sub(r"\s+", "", s):
            _fail("C template has unknown tokens: " + s)
        self.i = 0

    def peek(self):
        return self.toks[self.i] if self.i < len(self.toks) else None

    def eat(self, t=None):
        x = self.peek()
        if x is None or (t and x != t):
            _fail("C template parse error")
        self.i += 1
        return x

    def p_or(self):
        e = self.p_xor()
        while self.peek() == "|":
            self.eat()
            e = f"(COr {e} {self.p_xor()})"
        return e

    def p_xor(self):
        e = self.p_and()
        while self.peek() == "^":
            self.eat()
            e = f"(CXor {e} {self.p_and()})"
        return e

    def p_and(self):
        e = self.p_un()
        while self.peek() == "&":
            self.eat()
            e = f"(CAnd {e} {self.p_un()})"
        return e

    def p_un(self):
        if self.peek() == "~":
            self.eat()
            return f"(CNot {self.p_un()})"
        if self.peek() == "(":
            self.eat()
            e = self.p_or()
            self.eat(")")
            return e
        t = self.eat()
        return {"A": "CA", "B": "CB", "Z": "CZero"}.get(t) or _fail("atom " + t)


def parse_c_template(s):
    p = _P(s)
    e = p.p_or()
    if p.peek() is not None:
        _fail("trailing tokens in template " + s)
    return e


def _fstring_to_template(node):
    """f-string / subscript  ->  string over A B Z and C operators."""
    def piece(v):
        if isinstance(v, ast.Constant) and isinstance(v.value, str):
            return v.value
        if isinstance(v, ast.FormattedValue):
            if v.conversion != -1 or v.format_spec is not None:
                _fail("format spec in template")
            return piece_expr(v.value)
        _fail("f-string piece")

    def piece_expr(e):
        if isinstance(e, ast.Name) and e.id == "var1":
            return "A"
        if isinstance(e, ast.Name) and e.id == "var2":
            return "B"
        if ast.unparse(e) == "BITS_TO_ZERO_LITERAL[self.num_bits]":
            return "Z"
        _fail("template hole " + ast.unparse(e))

    if isinstance(node, ast.JoinedStr):
        return "".join(piece(v) for v in node.values)
    return piece_expr(node)


def gen_gatecode():
    mod = _cm()
    ops = _top_assign(mod, "ALL_OPERATIONS")
    if not (isinstance(ops, ast.List) and all(isinstance(e, ast.Constant) and isinstance(e.value, str) for e in ops.elts)):
        _fail("ALL_OPERATIONS")
    names = [e.value for e in ops.elts]

    def dict_lit(name):
        d = _top_assign(mod, name)
        if not isinstance(d, ast.Dict):
            _fail(name)
        r = {}
        for k, v in zip(d.keys, d.values):
            if not (isinstance(k, ast.Constant) and isinstance(k.value, int)):
                _fail(name + " key")
            r[k.value] = ast.unparse(v) if not isinstance(v, ast.Constant) else v.value
        return r

    dtype = dict_lit("BITS_TO_DTYPE")
    zero = dict_lit("BITS_TO_ZERO_LITERAL")
    one = dict_lit("BITS_TO_ONE_LITERAL")

    f = _method(mod, "CompiledLogicNet", "get_gate_code")
    if [a.arg for a in f.args.args] != ["self", "var1", "var2", "gate_op"]:
        _fail("get_gate_code signature")
    body = [s for s in f.body if not (isinstance(s, ast.Expr) and isinstance(s.value, ast.Constant))]
    if len(body) != 4:
        _fail("get_gate_code: expected 4 statements, got %d" % len(body))
    if ast.unparse(body[0]) != "operation_name = ALL_OPERATIONS[gate_op]":
        _fail("get_gate_code: first statement")
    # if-chain
    templates = {}
    node = body[1]
    while True:
        if not isinstance(node, ast.If):
            _fail("if-chain")
        t = node.test
        if not (isinstance(t, ast.Compare) and isinstance(t.left, ast.Name) and t.left.id == "operation_name"
                and len(t.ops) == 1 and isinstance(t.ops[0], ast.Eq) and isinstance(t.comparators[0], ast.Constant)):
            _fail("if-chain test")
        nm = t.comparators[0].value
        if len(node.body) != 1 or not (isinstance(node.body[0], ast.Assign) and ast.unparse(node.body[0].targets[0]) == "res"):
            _fail("if-chain body of " + nm)
        if nm in templates:
            _fail("duplicate branch " + nm)
        templates[nm] = parse_c_template(_fstring_to_template(node.body[0].value))
        if len(node.orelse) == 1 and isinstance(node.orelse[0], ast.If):
            node = node.orelse[0]
            continue
        if len(node.orelse) == 1 and isinstance(node.orelse[0], ast.Raise):
            break
        _fail("if-chain tail is not a raise")
    # cast suffix
    casts = {}
    node = body[2]
    while isinstance(node, ast.If):
        m = re.fullmatch(r"self\.num_bits == (\d+)", ast.unparse(node.test))
        if not m or len(node.body) != 1:
            _fail("cast chain")
        m2 = re.fullmatch(r"res = f'\((\w+(?: \w+)?)\) \(\{res\}\)'", ast.unparse(node.body[0]))
        if not m2:
            _fail("cast statement " + ast.unparse(node.body[0]))
        casts[int(m.group(1))] = m2.group(1)
        if len(node.orelse) == 1 and isinstance(node.orelse[0], ast.If):
            node = node.orelse[0]
        elif not node.orelse:
            break
        else:
            _fail("cast chain tail")
    if ast.unparse(body[3]) != "return res":
        _fail("get_gate_code return")

    out = HEADER + "From Coq Require Import ZArith String List.\nFrom TLX Require Import Model.Bits.\nImport ListNotations.\nOpen Scope string_scope.\n\n"
    out += "Definition gate_names : list string :=\n  [" + "; ".join(f'"{n}"' for n in names) + "].\n\n"
    out += "Definition template_of_name (s : string) : option cexp :=\n"
    for nm, e in templates.items():
        out += f'  if String.eqb s "{nm}" then Some {e} else\n'
    out += "  None.\n\n"
    out += "Definition template (g : nat) : option cexp :=\n  match nth_error gate_names g with Some n => template_of_name n | None => None end.\n\n"

    def tab(name, d):
        return f"Definition {name} : list (Z * string) :=\n  [" + "; ".join(f'({k}%Z, "{v}")' for k, v in d.items()) + "].\n"
    out += tab("bits_to_dtype", dtype) + tab("bits_to_zero_literal", zero) + tab("bits_to_one_literal", one)
    out += tab("cast_of_bits", casts)
    # assertion on num_bits in __init__
    init = _method(mod, "CompiledLogicNet", "__init__")
    src = ast.unparse(init)
    m = re.search(r"assert num_bits in \[([\d, ]+)\]", src)
    if not m:
        _fail("num_bits assertion not found")
    out += "Definition accepted_num_bits : list Z := [" + "; ".join(x.strip() + "%Z" for x in m.group(1).split(",")) + "].\n"
    return out
