"""Translator for layers/groupsum.py GroupSum.forward."""
import ast

from harness.common import read_src
from translate.ops import HEADER, _fail


def gen_groupsum():
    mod = ast.parse(read_src("src/torchlogix/layers/groupsum.py"))
    cls = [n for n in mod.body if isinstance(n, ast.ClassDef) and n.name == "GroupSum"]
    if not cls:
        _fail("GroupSum class")
    fwd = [n for n in cls[0].body if isinstance(n, ast.FunctionDef) and n.name == "forward"]
    if not fwd:
        _fail("forward")
    body = [s for s in fwd[0].body if not (isinstance(s, ast.Expr) and isinstance(s.value, ast.Constant))]
    src = [ast.unparse(s) for s in body]
    guard = False
    form = None
    for s, node in zip(src, body):
        if s.startswith("if isinstance(x, PackBitsTensor):"):
            continue
        if isinstance(node, ast.Assert):
            if ast.unparse(node.test) == "x.shape[-1] % self.k == 0":
                guard = True
                continue
            _fail("unknown assertion " + s)
        # the accumulator of the count: float32 for 16-bit inputs, the input's own dtype otherwise (on the rationals: no effect)
        if s == "acc = torch.float32 if x.dtype in (torch.float16, torch.bfloat16) else None":
            continue
        if isinstance(node, ast.Return):
            e = ast.unparse(node.value)
            if e == "(x.reshape(*x.shape[:-1], self.k, x.shape[-1] // self.k).sum(-1, dtype=acc) + self.beta) / self.tau":
                form = "SumPlusBetaOverTau"
                continue
            _fail("unknown return expression " + e)
        _fail("statement " + s)
    if form is None:
        _fail("no return")
    init = [n for n in cls[0].body if isinstance(n, ast.FunctionDef) and n.name == "__init__"][0]
    defaults = {a.arg: ast.unparse(d) for a, d in zip(init.args.args[-len(init.args.defaults):], init.args.defaults)}
    out = HEADER + "Inductive gs_form_kind := SumPlusBetaOverTau.\n"
    out += f"Definition gs_form : gs_form_kind := {form}.\n"
    out += f"Definition gs_guard_divisible : bool := {'true' if guard else 'false'}.\n"
    out += f"(* defaults: {defaults} *)\n"
    return out
