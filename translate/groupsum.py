"""Translator for layers/groupsum.py GroupSum.forward."""
import ast

from harness.common import read_src
from translate.ops import HEADER, _fail


def gen_groupsum():
    mod = ast.parse(read_src("src/torchlogix/layers/groupsum.py"))
    cls = [n for n in mod.body if isinstance(n, ast.ClassDef) and n.name == "GroupSum"]
    if not cls:
        _fail("GroupSum class")
    fwd = [n for n in cls[0].body if isinstance(n, ast.FunctionDef) and n.name == "forward"]
    if not fwd:
        _fail("forward")
    body = [s for s in fwd[0].body if not (isinstance(s, ast.Expr) and isinstance(s.value, ast.Constant))]
    src = [ast.unparse(s) for s in body]
    guard = False
    form = None
    tau_checked = counts = False
    for s, node in zip(src, body):
        if s.startswith("if isinstance(x, PackBitsTensor):"):
            continue
        if isinstance(node, ast.Assert):
            if ast.unparse(node.test) == "x.shape[-1] % self.k == 0":
                guard = True
                continue
            _fail("unknown assertion " + s)
        # the accumulator of the count: float32 for 16-bit inputs, the input's own dtype otherwise (on the rationals: no effect)
        if s == "acc = torch.float32 if x.dtype in (torch.float16, torch.bfloat16) else None":
            continue
        # tau is validated on every call (it may have been assigned after construction)
        if s == "self._check_tau(self.tau)":
            tau_checked = True
            continue
        if s == "counts = x.reshape(*x.shape[:-1], self.k, x.shape[-1] // self.k).sum(-1, dtype=acc) + self.beta":
            counts = True
            continue
        if isinstance(node, ast.Return):
            e = ast.unparse(node.value)
            # (count + beta) / tau, the division carried out in float64 and rounded back (on the rationals: count + beta over tau)
            if counts and e == "(counts.to(torch.float64) / self.tau).to(torch.result_type(counts, 1.0))":
                form = "SumPlusBetaOverTau"
                continue
            _fail("unknown return expression " + e)
        _fail("statement " + s)
    if form is None:
        _fail("no return")
    chk = [n for n in cls[0].body if isinstance(n, ast.FunctionDef) and n.name == "_check_tau"]
    if not tau_checked or len(chk) != 1 or [ast.unparse(st) for st in chk[0].body if not (isinstance(st, ast.Expr) and isinstance(st.value, ast.Constant))] != [
            "if not 0 < tau < math.inf:\n    raise ValueError(f'tau must be positive and finite, got {tau}.')"]:
        _fail("tau is not validated on every call by `if not 0 < tau < math.inf: raise`")
    init = [n for n in cls[0].body if isinstance(n, ast.FunctionDef) and n.name == "__init__"][0]
    defaults = {a.arg: ast.unparse(d) for a, d in zip(init.args.args[-len(init.args.defaults):], init.args.defaults)}
    out = HEADER + "Inductive gs_form_kind := SumPlusBetaOverTau.\n"
    out += f"Definition gs_form : gs_form_kind := {form}.\n"
    out += f"Definition gs_guard_divisible : bool := {'true' if guard else 'false'}.\n"
    out += "Definition gs_tau_checked_every_call : bool := true.\n"
    out += f"(* defaults: {defaults} *)\n"
    return out
