"""Translator for the storage class of the arrays declared inside the generated logic_net().

Source anchors: the module constant BUFFER_STORAGE of compiled_model.py and every f-string of CompiledLogicNet (outside the
batch wrapper, whose text is pinned token by token by translate/wrapper.py) that renders an array declaration.  Every such
declaration must read `\\t{BUFFER_STORAGE} {BITS_TO_DTYPE[self.num_bits]} <name>[<size>];`, and no other string of the class may
mention `static` or `__thread`.  The storage class becomes `Gen.Storage.buffer_storage`, the parameter of the thread model
(Model/Threads.v: private per thread, or shared by all threads)."""
import ast
import re

from translate.ops import HEADER, _fail
from translate.gatecode import _cm, _top_assign

CLASSES = {"static __thread": "ThreadLocal", "_Thread_local static": "ThreadLocal", "static _Thread_local": "ThreadLocal",
           "": "Automatic", "static": "SharedStatic"}


def _skeleton(js):
    parts = []
    for v in js.values:
        if isinstance(v, ast.Constant):
            parts.append(v.value)
        else:
            parts.append("{" + ast.unparse(v.value) + "}")
    return "".join(parts)


def gen_storage():
    mod = _cm()
    val = _top_assign(mod, "BUFFER_STORAGE")
    if not (isinstance(val, ast.Constant) and isinstance(val.value, str)):
        _fail("BUFFER_STORAGE is not a string literal")
    key = " ".join(val.value.split())
    if key not in CLASSES:
        _fail(f"BUFFER_STORAGE = {val.value!r}: unknown storage class")
    # BUFFER_STORAGE must not be reassigned anywhere
    for n in ast.walk(mod):
        if isinstance(n, (ast.Assign, ast.AugAssign, ast.AnnAssign)):
            tg = n.targets if isinstance(n, ast.Assign) else [n.target]
            for t in tg:
                for nm in ast.walk(t):
                    if isinstance(nm, ast.Name) and nm.id == "BUFFER_STORAGE" and n.value is not val:
                        _fail("BUFFER_STORAGE assigned more than once")
        if isinstance(n, ast.Global) and "BUFFER_STORAGE" in n.names:
            _fail("BUFFER_STORAGE declared global in a function")
    cls = [n for n in mod.body if isinstance(n, ast.ClassDef) and n.name == "CompiledLogicNet"]
    if len(cls) != 1:
        _fail("class CompiledLogicNet not found")
    sites = 0
    for meth in cls[0].body:
        if not isinstance(meth, ast.FunctionDef) or meth.name == "_generate_batch_processing_function":
            continue
        fstring_consts = set()
        for n in ast.walk(meth):
            if isinstance(n, ast.JoinedStr):
                for v in n.values:
                    if isinstance(v, ast.Constant):
                        fstring_consts.add(id(v))
                sk = _skeleton(n)
                if re.search(r"\bstatic\b|__thread|_Thread_local|\bextern\b|\bregister\b", re.sub(r"\{[^}]*\}", "", sk)):
                    _fail(f"{meth.name}: storage class written into an f-string: {sk!r}")
                # an array declaration: a line that ends with `name[size];` and is not an assignment / call
                if re.fullmatch(r"\s*[^=()]*\[[^\]]*\];\s*", sk) and not re.fullmatch(r"\s*\{[^}]*\}\[[^\]]*\];\s*", sk):
                    if not re.fullmatch(r"\t\{BUFFER_STORAGE\} \{BITS_TO_DTYPE\[self\.num_bits\]\} [A-Za-z_{}\[\]\.0-9]*\[\{[A-Za-z_\.0-9]*\}\];", sk):
                        _fail(f"{meth.name}: array declaration of another form: {sk!r}")
                    sites += 1
        for n in ast.walk(meth):
            if isinstance(n, ast.Constant) and isinstance(n.value, str) and id(n) not in fstring_consts:
                if n is meth.body[0].value if (meth.body and isinstance(meth.body[0], ast.Expr)) else False:
                    continue                      # docstring
                if re.search(r"\bstatic\b|__thread|_Thread_local", n.value):
                    _fail(f"{meth.name}: storage class written into a string: {n.value[:60]!r}")
    if sites == 0:
        _fail("no array declaration found in the generator")
    return (HEADER + "From TLX Require Import Model.Threads.\n"
            f"(* BUFFER_STORAGE = {val.value!r}; {sites} declaration sites, all of the form\n"
            "   \\t{BUFFER_STORAGE} {BITS_TO_DTYPE[self.num_bits]} name[size]; *)\n"
            f"Definition buffer_storage : storage := {CLASSES[key]}.\n"
            f"Definition declaration_sites : nat := {sites}.\n")
