"""Translator for the forward paths of LogicDense / LogicConv2d / LogicConv3d (C03, C08, C09, C10, C17).

A small partial evaluator walks the forward method's AST under a concrete assignment of
(self.parametrization, self.training, self.forward_sampling), inlines calls to the layer's own helper methods,
resolves dict dispatch on self.forward_sampling, and records the sequence of semantic events on the taken path:
gradient scaling, padding, which weighting function (with which tau), which mixture, which activation.
Fail-closed: a call that is neither recognised nor on the allow-list of shape/index operations aborts."""
import ast
import re

from harness.common import TranslatorFailed, read_src
from translate.ops import HEADER, _fail

MODES = ["soft", "hard", "gumbel_soft", "gumbel_hard"]

IGNORABLE = re.compile(
    r"^(torch\.stack|torch\.ones_like|isinstance|tuple|len|range|print|"
    r"[\w\.\[\], :-]+\.(to|view|long|unsqueeze|expand|permute|reshape|sum|float)|"
    r"self\.indices\[[01]\]\.long|_pair|_triple)$")


class Ctx:
    def __init__(self, cls, attrs):
        self.cls = cls              # ast.ClassDef
        self.attrs = attrs          # {"parametrization":..., "training":..., "forward_sampling":...}
        self.events = []
        self.loop = 0
        self.depth = 0


def const_eval(node, ctx, env):
    """Evaluate a condition that depends only on the three configuration attributes; None if it does not."""
    if isinstance(node, ast.Constant):
        return node.value
    if isinstance(node, ast.Attribute) and isinstance(node.value, ast.Name) and node.value.id == "self" and node.attr in ctx.attrs:
        return ctx.attrs[node.attr]
    if isinstance(node, ast.UnaryOp) and isinstance(node.op, ast.Not):
        v = const_eval(node.operand, ctx, env)
        return None if v is None else (not v)
    if isinstance(node, ast.BoolOp):
        vals = [const_eval(v, ctx, env) for v in node.values]
        if isinstance(node.op, ast.And):
            if any(v is False for v in vals):
                return False
            return None if any(v is None for v in vals) else True
        if any(v is True for v in vals):
            return True
        return None if any(v is None for v in vals) else False
    if isinstance(node, ast.Compare) and len(node.ops) == 1:
        l = const_eval(node.left, ctx, env)
        r = node.comparators[0]
        if isinstance(r, (ast.Tuple, ast.List)):
            rv = [const_eval(e, ctx, env) for e in r.elts]
            if l is None or any(v is None for v in rv):
                return None
            if isinstance(node.ops[0], ast.In):
                return l in rv
            if isinstance(node.ops[0], ast.NotIn):
                return l not in rv
            return None
        rv = const_eval(r, ctx, env)
        if l is None or rv is None:
            return None
        if isinstance(node.ops[0], ast.Eq):
            return l == rv
        if isinstance(node.ops[0], ast.NotEq):
            return l != rv
    return None


def tau_flag(call):
    """'T' if tau=self.temperature is passed, 'N' if no tau argument, else fail."""
    kws = {k.arg: ast.unparse(k.value) for k in call.keywords}
    if "tau" in kws:
        if kws["tau"] == "self.temperature":
            return "true"
        _fail("tau argument is " + kws["tau"])
    if len(call.args) >= 2:
        if ast.unparse(call.args[1]) == "self.temperature":
            return "true"
        _fail("positional tau " + ast.unparse(call.args[1]))
    return "false"


def hard_flag(call):
    kws = {k.arg: ast.unparse(k.value) for k in call.keywords}
    h = kws.get("hard", "False")
    if h not in ("True", "False"):
        _fail("hard=" + h)
    return "true" if h == "True" else "false"


def ev(ctx, text):
    ctx.events.append((text, ctx.loop > 0))


IGN_METHODS = {"to", "view", "long", "unsqueeze", "expand", "permute", "reshape", "sum", "float", "argmax", "contiguous"}


def visit_call(call, ctx, env):
    fn = ast.unparse(call.func)
    for a in list(call.args) + [k.value for k in call.keywords]:
        visit_expr(a, ctx, env)
    if isinstance(call.func, ast.Attribute) and call.func.attr in IGN_METHODS:
        base = call.func.value
        if isinstance(base, ast.Call):
            return visit_expr(base, ctx, env)     # method on the result of another call, e.g. one_hot(...).to(...)
        if not (isinstance(base, ast.Name) and base.id in ("torch", "F")):
            visit_expr(base, ctx, env)
            return
    if fn in env:                      # a locally bound callable (dict dispatch / lambda)
        target = env[fn]
        if isinstance(target, ast.Lambda):
            return visit_expr(target.body, ctx, env)
        if isinstance(target, ast.Name):
            return visit_call(ast.Call(func=target, args=call.args, keywords=call.keywords), ctx, env)
        _fail("call of a local that is not a lambda/name: " + fn)
    if fn == "GradFactor.apply":
        if [ast.unparse(a) for a in call.args] != ["x", "self.grad_factor"]:
            _fail("GradFactor.apply arguments")
        return ev(ctx, "EGradFactor")
    if fn == "torch.nn.functional.pad":
        return ev(ctx, "EPad")
    if fn == "soft_raw":
        return ev(ctx, f"(EWeights (WSoftRaw {tau_flag(call)}))")
    if fn == "hard_raw":
        return ev(ctx, f"(EWeights (WHardRaw {tau_flag(call)}))")
    if fn == "gumbel_softmax":
        return ev(ctx, f"(EWeights (WGumbelSoftmax {tau_flag(call)} {hard_flag(call)}))")
    if fn in ("torch.nn.functional.softmax", "softmax"):
        return ev(ctx, "(EWeights WPlainSoftmax)")
    if fn == "torch.nn.functional.one_hot":
        inner = ast.unparse(call.args[0])
        if re.fullmatch(r"(self\.weight|w|level_weights)\.argmax\(-1\)", inner) and ast.unparse(call.args[1]) == "16":
            src = "raw" if inner.startswith(("self.weight", "w.")) else "derived"
            return ev(ctx, "(EWeights WOneHotArgmax)" if src == "raw" else "(EWeights WOneHotArgmaxOfWeighted)")
        _fail("one_hot of " + inner)
    if fn == "soft_walsh":
        return ev(ctx, f"(EAct (ASoftWalsh {tau_flag(call)}))")
    if fn == "hard_walsh":
        return ev(ctx, f"(EAct (AHardWalsh {tau_flag(call)}))")
    if fn == "gumbel_sigmoid":
        return ev(ctx, f"(EAct (AGumbelSigmoid {tau_flag(call)} {hard_flag(call)}))")
    if fn == "torch.sigmoid":
        a = ast.unparse(call.args[0])
        if a.endswith("/ self.temperature"):
            return ev(ctx, "(EAct ASigmoidTemp)")
        _fail("torch.sigmoid of " + a)
    if fn in ("bin_op_s", "bin_op_cnn", "bin_op_cnn_walsh"):
        return ev(ctx, f'(EMix "{fn}")')
    if fn == "self._check_gumbel_temperature":
        return ev(ctx, "ECheckTemp")
    m = re.fullmatch(r"self\.(\w+)", fn)
    meth = [n for n in ctx.cls.body if isinstance(n, ast.FunctionDef) and m and n.name == m.group(1)]
    if m and meth:
        ctx.depth += 1
        if ctx.depth > 4:
            _fail("inlining too deep")
        run_body(meth[0].body, ctx, {})
        ctx.depth -= 1
        return
    if re.fullmatch(r".*\.argmax", fn):
        return
    if IGNORABLE.match(fn):
        return
    _fail("unrecognised call on the forward path: " + fn)


def visit_expr(node, ctx, env):
    if node is None:
        return
    if isinstance(node, ast.Call):
        return visit_call(node, ctx, env)
    if isinstance(node, ast.Compare):
        src = ast.unparse(node)
        m = re.fullmatch(r"(x|current_level) (>|>=|<|<=) (0|0\.0)", src)
        if m:
            ev(ctx, f'(EAct (AThreshold "{m.group(2)}"))')
            return
    if isinstance(node, ast.Subscript) and isinstance(node.value, ast.Dict):
        # {...}[self.forward_sampling]
        key = const_eval(node.slice, ctx, env)
        if key is None:
            _fail("dict dispatch on a non-configuration key")
        for k, v in zip(node.value.keys, node.value.values):
            if const_eval(k, ctx, env) == key:
                return ("callable", v)
        _fail(f"dict dispatch has no entry for {key!r}")
    if isinstance(node, ast.ListComp):
        visit_expr(node.elt, ctx, env)
        for g in node.generators:
            visit_expr(g.iter, ctx, env)
        return
    if isinstance(node, ast.Lambda):
        return
    for ch in ast.iter_child_nodes(node):
        if isinstance(ch, ast.expr):
            visit_expr(ch, ctx, env)


def run_body(stmts, ctx, env):
    for s in stmts:
        if isinstance(s, ast.Expr) and isinstance(s.value, ast.Constant):
            continue
        if isinstance(s, ast.If):
            c = const_eval(s.test, ctx, env)
            if c is None and isinstance(s.test, ast.BoolOp) and isinstance(s.test.op, ast.And):
                rest = [v for v in s.test.values if const_eval(v, ctx, env) is not True]
                if [ast.unparse(v) for v in rest] in (["self.temperature <= 0"], ["not self.temperature > 0"], ["not 0 < self.temperature < math.inf"]) and len(s.body) == 1 and isinstance(s.body[0], ast.Raise):
                    ev(ctx, "ECheckTemp")
                    continue
            if c is None:
                src = ast.unparse(s.test)
                if re.search(r"self\.(parametrization|training|forward_sampling)", src):
                    _fail("condition mixes configuration and data: " + src)
                # data-dependent guard (grad_factor != 1, padding > 0, isinstance...): both branches are part of the path
                if src == "self.grad_factor != 1.0":
                    run_body(s.body, ctx, env)
                    continue
                if src in ("self.padding > 0",):
                    run_body(s.body, ctx, env)
                    continue
                if "isinstance(x, PackBitsTensor)" in src or "self.indices[0].dtype" in src or "self.implementation" in src:
                    run_body(s.orelse, ctx, env) if "PackBitsTensor" in src else None
                    continue
                if re.fullmatch(r"self\.forward_sampling in \('gumbel_soft', 'gumbel_hard'\) and (self\.temperature <= 0|\(?not self\.temperature > 0\)?|\(?not 0 < self\.temperature < math\.inf\)?)", src):
                    continue
                if src in ("self.temperature <= 0", "not self.temperature > 0", "not 0 < self.temperature < math.inf") and len(s.body) == 1 and isinstance(s.body[0], ast.Raise):
                    ev(ctx, "ECheckTemp")
                    continue
                _fail("unknown data-dependent condition: " + src)
            st = run_body(s.body if c else s.orelse, ctx, env)
            if st in ("return", "raise"):
                return st
            continue
        if isinstance(s, ast.For):
            visit_expr(s.iter, ctx, env)
            ctx.loop += 1
            run_body(s.body, ctx, env)
            ctx.loop -= 1
            continue
        if isinstance(s, ast.Return):
            visit_expr(s.value, ctx, env)
            return "return"
        if isinstance(s, ast.Raise):
            ev(ctx, "ERaise")
            return "raise"
        if isinstance(s, ast.Assert):
            continue
        if isinstance(s, (ast.Assign, ast.AugAssign)):
            r = visit_expr(s.value, ctx, env)
            if isinstance(r, tuple) and r[0] == "callable" and isinstance(s, ast.Assign) and isinstance(s.targets[0], ast.Name):
                env[s.targets[0].id] = r[1]
            continue
        if isinstance(s, ast.Expr):
            visit_expr(s.value, ctx, env)
            continue
        _fail("statement " + type(s).__name__)


def events_for(path, clsname, method, attrs):
    mod = ast.parse(read_src(path))
    cls = [n for n in mod.body if isinstance(n, ast.ClassDef) and n.name == clsname]
    if not cls:
        _fail("class " + clsname)
    f = [n for n in cls[0].body if isinstance(n, ast.FunctionDef) and n.name == method]
    if not f:
        _fail(f"{clsname}.{method}")
    ctx = Ctx(cls[0], attrs)
    run_body(f[0].body, ctx, {})
    return ctx.events


def gen_dispatch():
    out = HEADER + "From Coq Require Import String List Bool.\nImport ListNotations.\nLocal Open Scope string_scope.\n\n"
    out += ("Inductive wfn := WOneHotArgmax | WOneHotArgmaxOfWeighted | WSoftRaw (tau : bool) | WHardRaw (tau : bool)\n"
            "  | WGumbelSoftmax (tau hard : bool) | WPlainSoftmax.\n"
            "Inductive act := AThreshold (cmp : string) | ASoftWalsh (tau : bool) | AHardWalsh (tau : bool)\n"
            "  | AGumbelSigmoid (tau hard : bool) | ASigmoidTemp.\n"
            "Inductive event := EGradFactor | EPad | EWeights (w : wfn) | EMix (f : string) | EAct (a : act) | ECheckTemp | ERaise.\n"
            "(* (layer, parametrization, training, forward_sampling) -> events on the forward path; the bool = inside the per-level loop *)\n"
            "Definition dispatch : list ((string * string * bool * string) * list (event * bool)) :=\n  [")
    rows = []
    layers = [("dense", "src/torchlogix/layers/dense.py", "LogicDense", "forward", ["raw", "walsh"]),
              ("conv2d", "src/torchlogix/layers/conv.py", "LogicConv2d", "forward", ["raw", "walsh"]),
              ("conv3d", "src/torchlogix/layers/conv.py", "LogicConv3d", "forward", ["raw"])]
    for lname, path, cls, meth, params in layers:
        for par in params:
            for training in (True, False):
                for mode in MODES:
                    attrs = {"parametrization": par, "training": training, "forward_sampling": mode, "implementation": "python"}
                    evs = events_for(path, cls, meth, attrs)
                    rows.append(f'(("{lname}", "{par}", {"true" if training else "false"}, "{mode}"),\n    [' +
                                "; ".join(f"({e}, {'true' if lp else 'false'})" for e, lp in evs) + "])")
    out += ";\n   ".join(rows) + "].\n"
    return out
