"""Guard extraction for C19: for every public constructor / call named by the property, is each guard that
Model/Domain.v models present in the source (as normalised ast.unparse text of the function)?  Emits one
boolean per guard; a missing guard makes the Coq theorem C19_guards_present fail."""
import ast

from harness.common import read_src
from translate.ops import HEADER, _fail

FILES = {
    "dense": "src/torchlogix/layers/dense.py",
    "conv": "src/torchlogix/layers/conv.py",
    "groupsum": "src/torchlogix/layers/groupsum.py",
    "functional": "src/torchlogix/functional.py",
    "compiled": "src/torchlogix/compiled_model.py",
    "thermo": "src/torchlogix/layers/thresholding.py",
}

# (name, file, class or None, function, snippet that must occur in the unparsed function)
GUARDS = [
    ("dense_param", "dense", "LogicDense", "__init__", "else:\n    raise ValueError(self.parametrization)"),
    ("dense_param_walsh_only", "dense", "LogicDense", "__init__", "elif self.parametrization == 'walsh':"),
    ("dense_weight_init_raw", "dense", "LogicDense", "__init__", "raise ValueError(weight_init)"),
    ("dense_impl", "dense", "LogicDense", "__init__", "assert self.implementation in ['cuda', 'python'], self.implementation"),
    ("dense_connections", "dense", "LogicDense", "__init__", "assert self.connections in ['random', 'unique'], self.connections"),
    ("dense_forward_width", "dense", "LogicDense", "forward_python", "assert x.shape[-1] == self.in_dim"),
    ("dense_gumbel_soft_temp", "dense", "LogicDense", "forward_python",
     "elif self.forward_sampling == 'gumbel_soft':\n            self._check_gumbel_temperature()"),
    ("dense_gumbel_hard_temp", "dense", "LogicDense", "forward_python",
     "elif self.forward_sampling == 'gumbel_hard':\n            self._check_gumbel_temperature()"),
    ("dense_gumbel_check", "dense", "LogicDense", "_check_gumbel_temperature",
     "if not 0 < self.temperature < math.inf:\n        raise ValueError('Temperature must be positive and finite')"),
    ("dense_walsh_sampling", "dense", "LogicDense", "forward_python",
     "elif self.forward_sampling == 'gumbel_hard':\n                x = gumbel_sigmoid(x, tau=self.temperature, hard=True)\n            else:\n                raise ValueError(self.forward_sampling)"),
    ("compiled_forward_sample_size", "compiled", "CompiledLogicNet", "_forward_with_groupsum",
     "if x.ndim < 2 or int(np.prod(x.shape[1:])) != self._get_input_size():\n    raise ValueError"),
    ("unique_half", "functional", None, "get_unique_connections", "assert out_dim * 2 >= in_dim"),
    ("unique_max", "functional", None, "get_unique_connections", "n_max = int(in_dim * (in_dim - 1) / 2)\n    assert out_dim <= n_max"),
    ("gumbel_sigmoid_tau", "functional", None, "gumbel_sigmoid", "if not 0 < tau < math.inf:\n        raise ValueError('Temperature must be positive and finite')"),
    ("sampling_tau", "functional", None, "_check_temperature", "if not 0 < tau < math.inf:\n        raise ValueError('Temperature must be positive and finite')"),
    ("soft_raw_tau", "functional", None, "soft_raw", "_check_temperature(tau)", "top"),
    ("hard_raw_tau", "functional", None, "hard_raw", "_check_temperature(tau)", "top"),
    ("soft_walsh_tau", "functional", None, "soft_walsh", "_check_temperature(tau)", "top"),
    ("hard_walsh_tau", "functional", None, "hard_walsh", "_check_temperature(tau)", "top"),
    ("compiled_groupsum_offset", "compiled", "CompiledLogicNet", "_parse_model",
     "if bool(torch.as_tensor(layer.beta).ne(0).any()):\n                raise ValueError"),
    ("compiled_codegen_needs_model", "compiled", "CompiledLogicNet", "_generate_c_code", "if self.model is None:\n        raise ValueError", "top-if"),
    ("groupsum_tau_rule", "groupsum", "GroupSum", "_check_tau", "if not 0 < tau < math.inf:\n        raise ValueError", "top-if"),
    ("groupsum_tau_ctor", "groupsum", "GroupSum", "__init__", "self._check_tau(tau)", "top"),
    ("groupsum_tau_forward", "groupsum", "GroupSum", "forward", "self._check_tau(self.tau)", "top"),
    ("compiled_layer_exact_class", "compiled", "CompiledLogicNet", "_parse_model",
     "if isinstance(layer, base) and type(layer) is not base:\n                    raise ValueError"),
    ("compiled_patched_rule", "compiled", "CompiledLogicNet", "_refuse_patched",
     "if patched or module._forward_hooks or module._forward_pre_hooks:\n        raise ValueError"),
    ("compiled_container_plain", "compiled", "CompiledLogicNet", "_parse_model",
     "if type(self.model).forward is not torch.nn.Sequential.forward or type(self.model).__call__ is not torch.nn.Module.__call__ or "
     "type(self.model)._call_impl is not torch.nn.Module._call_impl:\n        raise ValueError", "top-if"),
    ("compiled_dense_pairs_match_gates", "compiled", "CompiledLogicNet", "_parse_model",
     "if any((len(idx) != layer.weight.shape[0] for idx in layer.indices)):\n                    raise ValueError"),
    ("thermometer_layout", "thermo", "LearnableThermometerThresholding", "forward", "if x.ndim != 4 or x.shape[1] != 1:\n        raise ValueError", "top-if"),
    ("compiled_global_hooks", "compiled", "CompiledLogicNet", "_refuse_patched",
     "if hooks._global_forward_hooks or hooks._global_forward_pre_hooks:\n        raise ValueError"),
    ("compiled_groupsum_k_now", "compiled", "CompiledLogicNet", "_parse_model", "if not layer.k > 0:\n                    raise ValueError"),
    ("compiled_groupsum_tau_now", "compiled", "CompiledLogicNet", "_parse_model", "layer._check_tau(layer.tau)"),
    ("conv2_param", "conv", "LogicConv2d", "__init__", "if parametrization not in ('raw', 'walsh'):\n        raise ValueError"),
    ("conv2_weight_init", "conv", "LogicConv2d", "__init__", "if weight_init not in ('residual', 'random'):\n        raise ValueError"),
    ("conv2_sampling", "conv", "LogicConv2d", "__init__",
     "if forward_sampling not in ('soft', 'hard', 'gumbel_soft', 'gumbel_hard'):\n        raise ValueError"),
    ("conv2_impl", "conv", "LogicConv2d", "__init__", "if implementation not in (None, 'python', 'cuda'):\n        raise ValueError"),
    ("conv2_padding_sign", "conv", "LogicConv2d", "__init__", "if padding is not None and padding < 0:\n        raise ValueError"),
    ("conv3_impl", "conv", "LogicConv3d", "__init__", "if implementation not in (None, 'python', 'cuda'):\n        raise ValueError"),
    ("conv3_padding_sign", "conv", "LogicConv3d", "__init__", "if padding is not None and padding < 0:\n        raise ValueError"),
    ("conv2_unique_alias", "conv", "LogicConv2d", "__init__", "elif connections in ('random-unique', 'unique'):"),
    ("conv3_unique_alias", "conv", "LogicConv3d", "__init__", "elif connections in ('random-unique', 'unique'):"),
    ("groupsum_k_positive", "groupsum", "GroupSum", "__init__", "if not k > 0:\n        raise ValueError", "top-if"),
    ("compiled_pool_domain", "compiled", "CompiledLogicNet", "_validate_structure",
     "if not (k > 0 and s > 0 and (0 <= 2 * p <= k) and all((int(n) + 2 * p >= k for n in current_shape[1:]))):\n                raise ValueError"),
    ("compiled_forward_checks_shape", "compiled", "CompiledLogicNet", "forward", "self._check_batch_shape(x)", "top"),
    ("compiled_shape_volume", "compiled", "CompiledLogicNet", "_check_batch_shape",
     "ok = x.ndim >= 2 and int(np.prod(x.shape[1:])) == self._get_input_size()"),
    ("compiled_shape_layout", "compiled", "CompiledLogicNet", "_check_batch_shape",
     "if ok and len(declared) > 1:\n        ok = x.ndim == 2 or tuple(x.shape[1:]) == declared\n    elif ok and (not (self.layer_order and self.layer_order[0][0] == 'flatten')):\n        ok = x.ndim == 2"),
    ("compiled_shape_raises", "compiled", "CompiledLogicNet", "_check_batch_shape", "if not ok:\n        raise ValueError"),
    ("conv2_stride", "conv", "LogicConv2d", "__init__", "assert stride <= receptive_field_size"),
    ("conv2_connections", "conv", "LogicConv2d", "__init__", "else:\n        raise ValueError(f'Unknown connections type: {connections}')"),
    ("conv2_fits", "conv", "LogicConv2d", "apply_sliding_window", "assert h_k <= h_padded and w_k <= w_padded"),
    ("conv2_unique_pairs", "conv", "LogicConv2d", "get_random_unique_receptive_field_pairs",
     "if sample_size > max_unique_pairs:\n        raise ValueError"),
    ("conv2_forward_shape", "conv", "LogicConv2d", "forward",
     "assert x.ndim == 4 and tuple(x.shape[1:]) == (self.channels, *self.in_dim)"),
    ("conv2_gumbel_temp", "conv", "LogicConv2d", "_raw_level_weights",
     "if self.forward_sampling in ('gumbel_soft', 'gumbel_hard') and (not 0 < self.temperature < math.inf):\n        raise ValueError('Temperature must be positive and finite')"),
    ("conv3_stride", "conv", "LogicConv3d", "__init__",
     "assert stride <= self.receptive_field_size[0] and stride <= self.receptive_field_size[1] and (stride <= self.receptive_field_size[2])"),
    ("conv3_connections", "conv", "LogicConv3d", "__init__", "else:\n        raise ValueError(f'Unknown connections type: {connections}')"),
    ("conv3_fits", "conv", "LogicConv3d", "apply_sliding_window", "assert (h_k <= h_padded and w_k <= w_padded) and d_k <= d_padded"),
    ("conv3_unique_pairs", "conv", "LogicConv3d", "get_random_unique_receptive_field_pairs",
     "if sample_size > max_unique_pairs:\n        raise ValueError"),
    ("conv3_forward_shape", "conv", "LogicConv3d", "forward",
     "assert x.ndim == 5 and tuple(x.shape[1:]) == (self.channels, *self.in_dim)"),
    ("groupsum_divisible", "groupsum", "GroupSum", "forward", "assert x.shape[-1] % self.k == 0"),
    # "top": the guard must be an unconditional top-level statement of the function (load() builds its instance with model=None)
    ("compiler_cc", "compiled", "CompiledLogicNet", "__init__", "assert cpu_compiler in ['clang', 'gcc'], cpu_compiler", "top"),
    ("compiler_bits", "compiled", "CompiledLogicNet", "__init__", "assert num_bits in [8, 16, 32, 64]", "top"),
    ("compiler_no_layers", "compiled", "CompiledLogicNet", "_parse_model",
     "if not self.conv_layers and (not self.linear_layers):\n        raise ValueError"),
]


def _find(mod, cls, fn):
    body = mod.body
    if cls:
        cs = [n for n in body if isinstance(n, ast.ClassDef) and n.name == cls]
        if not cs:
            return None
        body = cs[0].body
    fs = [n for n in body if isinstance(n, ast.FunctionDef) and n.name == fn]
    return fs[0] if fs else None


def _flat(txt):
    return "\n".join(l.strip() for l in txt.splitlines())


def gen_guards():
    mods = {k: ast.parse(read_src(v)) for k, v in FILES.items()}
    out = HEADER + "From Coq Require Import String List Bool.\nImport ListNotations.\nLocal Open Scope string_scope.\n\n"
    rows = []
    for name, f, cls, fn, snip, *flags in GUARDS:
        node = _find(mods[f], cls, fn)
        if node is not None and "top" in flags:
            text = "\n".join(ast.unparse(st) for st in node.body
                             if not isinstance(st, (ast.If, ast.For, ast.While, ast.With, ast.Try, ast.FunctionDef)))
        elif node is not None and "top-if" in flags:      # a top-level `if ...: raise` of the function
            text = "\n".join(ast.unparse(st) for st in node.body if isinstance(st, ast.If))
        else:
            text = ast.unparse(node) if node is not None else ""
        ok = node is not None and _flat(snip) in _flat(text)
        rows.append(f'("{name}", {"true" if ok else "false"})')
    out += "Definition guards : list (string * bool) :=\n  [" + ";\n   ".join(rows) + "].\n"
    # default of LogicConv3d padding
    c3 = _find(mods["conv"], "LogicConv3d", "__init__")
    if c3 is None:
        _fail("LogicConv3d.__init__")
    defaults = {a.arg: ast.unparse(d) for a, d in zip(c3.args.args[-len(c3.args.defaults):], c3.args.defaults)}
    out += f'Definition conv3d_padding_default : string := "{defaults.get("padding", "<none>")}".\n'
    c2 = _find(mods["conv"], "LogicConv2d", "__init__")
    defaults2 = {a.arg: ast.unparse(d) for a, d in zip(c2.args.args[-len(c2.args.defaults):], c2.args.defaults)}
    out += f'Definition conv2d_padding_default : string := "{defaults2.get("padding", "<none>")}".\n'
    return out
