"""Translator for layers/thresholding.py: statement-level comparison with the code modelled in Model/Thermo.v."""
import ast

from harness.common import read_src
from translate.ops import HEADER, _fail

EXPECTED = {
    "__init__": [
        "super().__init__()",
        "self.num_thresholds = len(init_thresholds)",
        "if not 0 < slope < torch.finfo(torch.float32).max:\n    raise ValueError('slope must be positive and finite')",       # guard (F41, F62): the model assumes a positive real slope
        "self.slope = slope",
        "self._frozen = False",
        "init_t = torch.tensor(init_thresholds, dtype=torch.float32)",
        "first = init_t[:1]",
        "diffs = torch.diff(init_t, prepend=first.new_zeros(1))",
        "if not (diffs > 0).all() or not torch.isfinite(init_t).all():\n    raise ValueError('init_thresholds must be finite, positive and strictly increasing')",
        "raw = torch.where(diffs > 20.0, diffs, torch.log(torch.expm1(diffs)))",
        "self.raw_diffs = nn.Parameter(raw)",
    ],
    "get_thresholds": [
        "if self._frozen:\n    return torch.cumsum(self.raw_diffs, dim=0)\nelse:\n    diffs_pos = F.softplus(self.raw_diffs)\n    return torch.cumsum(diffs_pos, dim=0)",
    ],
    "freeze_thresholds": [
        "with torch.no_grad():\n    thresholds = self.get_thresholds().round()\n    first = thresholds[:1]\n    diffs = torch.diff(thresholds, prepend=first.new_zeros(1))\n    self.raw_diffs.copy_(diffs)",
        "self.raw_diffs.requires_grad = False",
        "self.raw_diffs.grad = None",          # (F40) an optimizer built earlier then skips the frozen parameter
        "self._frozen = True",
    ],
    "forward": [
        "thresholds = self.get_thresholds()",
        "if x.ndim == 3:\n    x = x.unsqueeze(1)",
        # guard (F76): a batch of single-channel images only - the model's encoding is per pixel against all thresholds
        "if x.ndim != 4 or x.shape[1] != 1:\n    raise ValueError(f'expected a batch of single-channel images, (B, H, W) or (B, 1, H, W), got shape {tuple(x.shape)}')",
        "thresholds = thresholds.view(1, -1, 1, 1)",
        "if self._frozen:\n    outputs = (x > thresholds).to(torch.result_type(x, thresholds))\nelse:\n    outputs = torch.tanh(self.slope * (x - thresholds))\n    outputs = (outputs + 1.0) / 2.0",
        "return outputs",
    ],
}


def gen_thermo():
    mod = ast.parse(read_src("src/torchlogix/layers/thresholding.py"))
    cls = [n for n in mod.body if isinstance(n, ast.ClassDef) and n.name == "LearnableThermometerThresholding"]
    if not cls:
        _fail("class not found")
    for name, exp in EXPECTED.items():
        f = [n for n in cls[0].body if isinstance(n, ast.FunctionDef) and n.name == name]
        if not f:
            _fail("method " + name)
        got = [ast.unparse(s) for s in f[0].body if not (isinstance(s, ast.Expr) and isinstance(s.value, ast.Constant))]
        if got != exp:
            for i, (a, b) in enumerate(zip(got, exp)):
                if a != b:
                    _fail(f"{name}: statement {i} is {a!r}, modelled {b!r}")
            _fail(f"{name}: {len(got)} statements, modelled {len(exp)}")
    init = [n for n in cls[0].body if isinstance(n, ast.FunctionDef) and n.name == "__init__"][0]
    defaults = {a.arg: ast.unparse(d) for a, d in zip(init.args.args[-len(init.args.defaults):], init.args.defaults)}
    out = HEADER + "(* thresholding.py equals, statement by statement, the code modelled in Model/Thermo.v *)\n"
    out += "Definition thermo_matches : bool := true.\n"
    out += f"(* defaults: {defaults} *)\n"
    return out
