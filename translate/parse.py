"""Translator for CompiledLogicNet._parse_model / _validate_structure: the isinstance dispatch chain
(handled classes in order, what the final else does) and the presence of each structural check."""
import ast
import re

from harness.common import read_src
from translate.ops import HEADER, _fail
from translate.gatecode import _cm, _method
from translate.guards import _flat

CHECKS = [
    ("groupsum_once_last", "if len(group_sums) > 1 or (group_sums and group_sums[0] != len(modules) - 1):\nraise ValueError"),
    ("conv_first", "if order[0] != 'conv':\nraise ValueError"),
    ("spatial_prefix", "if spatial != list(range(len(spatial))):\nraise ValueError"),
    ("flatten_after_spatial", "if len(flatten) > 1 or (flatten and flatten[0] != len(spatial)):\nraise ValueError"),
    ("flatten_before_dense", "if linear and (not flatten):\nraise ValueError"),
    ("flatten_before_groupsum", "if group_sums and (not flatten):\nraise ValueError"),
    ("dense_flatten_first", "elif flatten and flatten != [0]:\nraise ValueError"),
    ("conv_shape", "if tuple((int(v) for v in current_shape)) != tuple((int(v) for v in expected)):\nraise ValueError"),
    ("dense_shape", "if len(current_shape) != 1 or int(current_shape[0]) != self.linear_in_dims[layer_idx]:\nraise ValueError"),
    ("classes_divide", "if self.num_classes and self._get_output_size() % self.num_classes != 0:\nraise ValueError"),
]


def gen_parse():
    mod = _cm()
    f = _method(mod, "CompiledLogicNet", "_parse_model")
    loops = [s for s in f.body if isinstance(s, ast.For) and ast.unparse(s.iter) == "self.model"]
    if len(loops) != 2:
        _fail("expected two loops over self.model")
    chain = loops[1].body
    # a module that is an instance of a handled class but has its own forward is foreign: the guard loop that refuses it must be the
    # first statement of the dispatch loop, before the isinstance chain
    # (a subclass may override forward or any method forward goes through, an instance may carry its own forward or forward hooks:
    # a layer must be exactly one of the supported classes and unpatched; the same for the container)
    OVERRIDE_GUARD = ("for base in (LogicConv2d, LogicConv3d, OrPooling, LogicDense, GroupSum, torch.nn.Flatten, torch.nn.Identity):\n"
                      "if isinstance(layer, base) and type(layer) is not base:\n"
                      "raise ValueError(f'Cannot compile a {type(layer).__name__}: it is a subclass of {base.__name__}, not the layer itself.')")
    PATCH_GUARD = ["patched = [name for name, value in vars(module).items() if callable(value) and callable(getattr(type(module), name, None))]",
                   "if patched or module._forward_hooks or module._forward_pre_hooks:\n"
                   "raise ValueError(f'Cannot compile a {type(module).__name__} whose methods were replaced on the instance ({patched}) or that has forward hooks.')",
                   "hooks = torch.nn.modules.module",
                   "if hooks._global_forward_hooks or hooks._global_forward_pre_hooks:\n"
                   "raise ValueError('Cannot compile while global module forward hooks are registered: they may change what the modules compute.')"]
    override_refused = False
    if (len(chain) == 3 and isinstance(chain[0], ast.For) and _flat(ast.unparse(chain[0])) == OVERRIDE_GUARD
            and ast.unparse(chain[1]) == "self._refuse_patched(layer)"
            and [_flat(ast.unparse(st)) for st in _method(mod, "CompiledLogicNet", "_refuse_patched").body
                 if not (isinstance(st, ast.Expr) and isinstance(st.value, ast.Constant))] == PATCH_GUARD
            and "self._refuse_patched(self.model)" in [ast.unparse(st) for st in f.body]):
        override_refused = True
        chain = chain[2:]
    if len(chain) != 1 or not isinstance(chain[0], ast.If):
        _fail("dispatch loop body is not a single if-chain")
    node = chain[0]
    # the first loop finds the GroupSum: its offset cannot be expressed by the library (integer counts) and must be refused
    first_src = _flat(ast.unparse(loops[0]))
    # ... and k / tau as they are NOW (they may have been assigned after construction) must be valid, or the model has no function
    beta_refused = ("if isinstance(layer, GroupSum):\nif not layer.k > 0:\nraise ValueError(f'Cannot compile a GroupSum with k = {layer.k}.')\n"
                    "layer._check_tau(layer.tau)\nif bool(torch.as_tensor(layer.beta).ne(0).any()):\nraise ValueError" in first_src)
    # _parse_model starts from empty tables (it runs again whenever code is generated)
    head = [ast.unparse(st) for st in f.body if not (isinstance(st, ast.Expr) and isinstance(st.value, ast.Constant))][:2]
    resets = head == ["self.conv_layers, self.pooling_layers, self.linear_layers, self.linear_in_dims = ([], [], [], [])",
                      "self.layer_order, self.num_classes, self.input_shape = ([], None, None)"]
    # get_c_code() = _translate()[0]; _translate works on a shallow copy (the tables of this object describe the installed library and
    # change only when compile() installs a new one) and calls _generate_c_code, which refuses an instance without a model and re-parses
    def body_of(name):
        return [ast.unparse(st) for st in _method(mod, "CompiledLogicNet", name).body if not (isinstance(st, ast.Expr) and isinstance(st.value, ast.Constant))]
    gbody = body_of("_generate_c_code")[:2]
    reparses = (len(gbody) == 2 and gbody[0].startswith("if self.model is None:\n    raise ValueError(") and gbody[1] == "self._parse_model(verbose=False)"
                and body_of("get_c_code") == ["return self._translate()[0]"]
                and body_of("_translate") == ["work = copy.copy(self)", "code = work._generate_c_code()",
                                              "return (code, {name: getattr(work, name) for name in self._TABLES})"])
    tables = [ast.unparse(st.value) for st in ast.walk(mod) if isinstance(st, ast.Assign) and ast.unparse(st.targets[0]) == "_TABLES"]
    if reparses and tables != ["('conv_layers', 'pooling_layers', 'linear_layers', 'linear_in_dims', 'layer_order', 'num_classes', 'input_shape')"]:
        _fail("_TABLES is not the list of attributes _parse_model resets: " + repr(tables))
    # which tables forward() works with (Model/Handle.v): those of the last parse of this object, or those installed with the library
    cbody = _flat(ast.unparse(_method(mod, "CompiledLogicNet", "compile")))
    if reparses and "lib = ctypes.cdll.LoadLibrary(lib_file.name)\nfor name, value in tables.items():\nsetattr(self, name, value)\nself._setup_library_function(lib)" in cbody \
            and "code, tables = self._translate()" in cbody:
        tables_disc = "TablesWithLibrary"
    elif "self._parse_model(verbose=False)" in body_of("get_c_code") or "self._parse_model(verbose=False)" in body_of("compile"):
        tables_disc = "TablesOnParse"
    else:
        _fail("cannot tell which layer tables forward() uses after get_c_code() / compile()")
    handled = []
    else_kind = None
    flatten_default_only = False
    while True:
        t = ast.unparse(node.test)
        m = re.fullmatch(r"isinstance\(layer, ([\w.]+)\)", t)
        if not m:
            _fail("dispatch test " + t)
        body_src = _flat(ast.unparse(ast.Module(body=node.body, type_ignores=[])))
        cls = m.group(1).split(".")[-1]
        if cls == "Identity":
            action = "Skip" if body_src == "continue" else _fail("Identity branch is not `continue`")
        elif cls in ("LogicConv2d", "LogicConv3d"):
            action = "Conv" if "self.conv_layers.append(conv_info)" in body_src and "self.layer_order.append(('conv', len(self.conv_layers) - 1))" in body_src else _fail("conv branch")
        elif cls == "OrPooling":
            action = "Pool" if "self.layer_order.append(('pool', len(self.pooling_layers) - 1))" in body_src else _fail("pool branch")
        elif cls == "LogicDense":
            action = "Dense" if "self.layer_order.append(('linear', len(self.linear_layers) - 1))" in body_src and "self.linear_in_dims.append(layer.in_dim)" in body_src else _fail("dense branch")
        elif cls == "Flatten":
            action = "Flat" if "self.layer_order.append(('flatten', 0))" in body_src else _fail("flatten branch")
            # only the default Flatten() is what the emitters implement: any other start_dim / end_dim must be refused here
            flatten_default_only = "if (layer.start_dim, layer.end_dim) != (1, -1):\nraise ValueError" in body_src
        elif cls == "GroupSum":
            action = "GSum"
        else:
            _fail("unknown handled class " + cls)
        handled.append((cls, action))
        if len(node.orelse) == 1 and isinstance(node.orelse[0], ast.If):
            node = node.orelse[0]
            continue
        if len(node.orelse) == 1 and isinstance(node.orelse[0], ast.Raise):
            else_kind = "ElseRaise"
        elif not node.orelse:
            else_kind = "ElseSkip"
        else:
            src = _flat(ast.unparse(ast.Module(body=node.orelse, type_ignores=[])))
            else_kind = "ElseRaise" if src.startswith("raise ") else "ElseSkip"
        break
    fsrc = _flat(ast.unparse(f))
    validates = "self._validate_structure()" in fsrc
    no_layers = "if not self.conv_layers and (not self.linear_layers):\nraise ValueError" in fsrc
    try:
        v = _method(mod, "CompiledLogicNet", "_validate_structure")
        vsrc = _flat(ast.unparse(v))
    except Exception:
        vsrc = ""
    out = HEADER + "From Coq Require Import String List Bool.\nFrom TLX Require Import Model.Handle.\nImport ListNotations.\nLocal Open Scope string_scope.\n\n"
    out += "Inductive else_kind := ElseRaise | ElseSkip.\n"
    out += f"Definition tables_discipline_src : tables_discipline := {tables_disc}.\n"
    out += "Definition parse_handled : list (string * string) :=\n  [" + "; ".join(f'("{c}", "{a}")' for c, a in handled) + "].\n"
    out += f"Definition parse_else : else_kind := {else_kind}.\n"
    out += f"Definition flatten_default_only : bool := {'true' if flatten_default_only else 'false'}.\n"
    out += f"Definition parse_calls_validate : bool := {'true' if validates else 'false'}.\n"
    out += ("(* an instance of a handled class with its own forward is refused before the isinstance chain (it is a foreign module) *)\n"
            f"Definition override_forward_refused : bool := {'true' if override_refused else 'false'}.\n"
            f"Definition groupsum_offset_refused : bool := {'true' if beta_refused else 'false'}.\n"
            "(* code generation starts by refusing an instance without a model and by parsing the model again, from empty tables *)\n"
            f"Definition codegen_reparses_model : bool := {'true' if (resets and reparses) else 'false'}.\n")
    out += f"Definition parse_requires_logic_layer : bool := {'true' if no_layers else 'false'}.\n"
    out += "Definition structure_checks : list (string * bool) :=\n  [" + "; ".join(
        f'("{n}", {"true" if s in vsrc else "false"})' for n, s in CHECKS) + "].\n"
    return out
