(* Model/ProcAlloc.v — the process model of Model/Proc.v with file identities that can be RE-USED.

   Model/Proc.v numbers inodes consecutively and never re-uses a number.  A real file system gives a new file any number that
   is not in use, in particular the number of a file that was replaced (rename over it) a moment ago.  Here the allocation policy
   is a parameter `alloc`: any function that returns an inode number which is neither referenced by the state (a path, a mapped
   library) nor among the temporaries that are alive during the current operation.  The current disciplines (rename into place,
   private copy on load) are proved correct for EVERY such policy; a loader that remembers mapped libraries by the identity
   (device, inode) of the saved file is refuted under the policy "smallest free number". *)
From Coq Require Import List Arith Bool.
From TLX Require Import Gen.LibIO Model.Proc.
Import ListNotations.

Inductive load_policy := LPrivateCopy | LCachedByIdentity.

Record astate := {
  a_fs : list (path * inode);
  a_inodes : list (inode * inode_info);         (* every inode number ever used -> what the file holds now *)
  a_handles : list handle_info;
  a_cache : list (inode * inode)                (* LCachedByIdentity: identity of a saved file -> the private copy mapped for it *)
}.
Definition aempty : astate := {| a_fs := []; a_inodes := []; a_handles := []; a_cache := [] |}.

(* inode numbers in use: named by a path or mapped by a handle (a deleted file that is still mapped keeps its inode) *)
Definition referenced (s : astate) : list inode := map snd (a_fs s) ++ map mapped (a_handles s).

Section Alloc.
  Variable alloc : astate -> list inode -> inode.      (* state, live temporaries -> number of the new file *)

  Definition anew_inode (s : astate) (live : list inode) (m : model) : astate * inode :=
    let i := alloc s live in
    ({| a_fs := a_fs s; a_inodes := assign i {| content := m; modified := false |} (a_inodes s); a_handles := a_handles s;
        a_cache := a_cache s |}, i).

  Definition anew_handle (s : astate) (i : inode) (m : model) (hm : bool) : astate * nat :=
    ({| a_fs := a_fs s; a_inodes := a_inodes s;
        a_handles := a_handles s ++ [{| mapped := i; made_from := m; opened_as := None; has_model := hm |}]; a_cache := a_cache s |},
     length (a_handles s)).

  (* rename into place: a new file (the staged copy) becomes the file at p; the file it replaces loses its name *)
  Definition asave (s1 : astate) (live : list inode) (m : model) (save : option path) : astate :=
    match save with
    | None => s1
    | Some p => let '(s', inew) := anew_inode s1 live m in
                {| a_fs := assign p inew (a_fs s'); a_inodes := a_inodes s'; a_handles := a_handles s'; a_cache := a_cache s' |}
    end.

  Definition aremap (s : astate) (h : nat) (hi : handle_info) (i : inode) : astate :=
    {| a_fs := a_fs s; a_inodes := a_inodes s;
       a_handles := set_nth h {| mapped := i; made_from := made_from hi; opened_as := opened_as hi; has_model := has_model hi |} (a_handles s);
       a_cache := a_cache s |}.

  Definition content_of (s : astate) (i : inode) : model := match lookup i (a_inodes s) with Some ii => content ii | None => 0 end.

  Definition astep (ld : load_policy) (s : astate) (o : op) : astate * outcome :=
    match o with
    | OCompile m save =>
        let '(s1, it) := anew_inode s [] m in                    (* temporary build: alive until the instance has mapped it *)
        let s2 := asave s1 [it] m save in
        let '(s3, h) := anew_handle s2 it m true in (s3, RHandle h)
    | OLoad p =>
        match lookup p (a_fs s) with
        | None => (s, RError)
        | Some ip =>
            let fresh_copy :=
              let m0 := content_of s ip in
              let '(s1, ic) := anew_inode s [] m0 in
              let '(s', h) := anew_handle s1 ic m0 false in (s', ic, h) in
            match ld with
            | LPrivateCopy => let '(s', _, h) := fresh_copy in (s', RHandle h)
            | LCachedByIdentity =>
                match lookup ip (a_cache s) with
                | Some ic => let '(s', h) := anew_handle s ic (content_of s ic) false in (s', RHandle h)
                | None => let '(s', ic, h) := fresh_copy in
                          ({| a_fs := a_fs s'; a_inodes := a_inodes s'; a_handles := a_handles s'; a_cache := assign ip ic (a_cache s') |}, RHandle h)
                end
            end
        end
    | OCall h =>
        match nth_error (a_handles s) h with
        | None => (s, RError)
        | Some hi => match lookup (mapped hi) (a_inodes s) with
                     | None => (s, RError)
                     | Some ii => if modified ii then (s, RCrash) else (s, RValue (content ii))
                     end
        end
    | ORecompile h save =>
        match nth_error (a_handles s) h with
        | None => (s, RError)
        | Some hi =>
            if has_model hi then
              let '(s1, it) := anew_inode s [] (made_from hi) in
              (aremap (asave s1 [it] (made_from hi) save) h hi it, RHandle h)
            else (s, RError)
        end
    end.

  Fixpoint arun (ld : load_policy) (s : astate) (ops : list op) : list outcome :=
    match ops with
    | [] => []
    | o :: r => let '(s', out) := astep ld s o in out :: arun ld s' r
    end.
End Alloc.

(* what every file system guarantees of a new file's number *)
Definition fresh_policy (alloc : astate -> list inode -> inode) : Prop :=
  forall s live, ~ In (alloc s live) (referenced s) /\ ~ In (alloc s live) live.

(* two concrete policies: never re-use a number (Model/Proc.v), and the smallest number that is free *)
Definition alloc_never_reuse (s : astate) (live : list inode) : inode :=
  S (fold_right Nat.max 0 (map fst (a_inodes s) ++ referenced s ++ live)).
Definition alloc_smallest_free (s : astate) (live : list inode) : inode :=
  let used := referenced s ++ live in
  match find (fun i => negb (existsb (Nat.eqb i) used)) (seq 0 (S (length used))) with
  | Some i => i
  | None => alloc_never_reuse s live
  end.
(* temporary builds and private copies live in the temporary directory (another device: their numbers never meet those of saved
   files), the staged copy of a save is created in the target directory and gets the smallest free number there *)
Definition alloc_two_devices (s : astate) (live : list inode) : inode :=
  match live with
  | [] => alloc_never_reuse s live
  | _ => alloc_smallest_free s live
  end.
