(* Model/GenNet.v — Gallina model of CompiledLogicNet.get_c_code() for stacks
     Conv (Conv | Pool)*  [ Flatten  Dense* ]
   (2-D and 3-D).  Buffer numbering = order of declaration in the emitted text: 0 inp, 1 out, 2.. the
   layer_<type>_<i>_out arrays in layer order, then linear_input [, linear_buf_temp] or flattened_output,
   and last the pseudo-array of the scalar `const` temporaries (numbered in order of appearance). *)
From Coq Require Import List Bool Arith.
From TLX Require Import Model.Bits Model.CLang Model.Netlist Model.Wiring Model.ConvNet Model.GenDense Gen.GateCode.
Import ListNotations.

Record spatial_model : Type := {
  sm_C : nat; sm_dims : list nat;                 (* input shape *)
  sm_spatial : list layer;                        (* LConv / LPool only, the first one a convolution *)
  sm_flat : bool;
  sm_dense : list (list (nat * nat * nat))        (* only if sm_flat *)
}.

(* ---------- one convolution *)
Definition src_ref (prev : nat) (dims : list nat) (pad : nat) (start : list nat) (rc : list nat * nat) : gexp :=
  let q := abs_pos start (fst rc) in
  if in_image dims pad q then GLoad prev (flat_index dims (map (fun v => v - pad) q) (snd rc)) else GZero.

(* levels above the leaves: previous level in LOC[prev_base, prev_base + n_prev) *)
Fixpoint gen_levels (loc : nat) (gates : list (list (list nat))) (k level n_levels prev_base n_prev next_base dst di : nat) : list stmt :=
  match n_levels with
  | O => []
  | S O => [SAssign dst di (gate_gexp (gate_at gates level 0 k) (GLoad loc prev_base) (GLoad loc (prev_base + 1)))]
  | S m =>
      map (fun j => SAssign loc (next_base + j)
                      (gate_gexp (gate_at gates level j k) (GLoad loc (prev_base + 2 * j)) (GLoad loc (prev_base + 2 * j + 1))))
          (seq 0 (n_prev / 2))
      ++ gen_levels loc gates k (S level) m next_base (n_prev / 2) (next_base + n_prev / 2) dst di
  end.

Definition locals_per_cell (depth : nat) : nat := 2 ^ (S depth) - 2.

Definition gen_conv_cell (loc prev dst : nat) (cs : conv_spec) (k p base : nat) : list stmt :=
  let start := window_start cs p in
  let ra := nth k (cv_rel_a cs) [] in
  let rb := nth k (cv_rel_b cs) [] in
  let n0 := 2 ^ cv_depth cs in
  let di := k * prod (cv_out_dims cs) + p in
  let leaf g := gate_gexp (gate_at (cv_gates cs) 0 g k)
                          (src_ref prev (cv_dims cs) (cv_pad cs) start (nth g ra ([], 0)))
                          (src_ref prev (cv_dims cs) (cv_pad cs) start (nth g rb ([], 0))) in
  match cv_depth cs with
  | O => [SAssign dst di (leaf 0)]                 (* a tree of depth 0 is its single gate *)
  | S _ => map (fun g => SAssign loc (base + g) (leaf g)) (seq 0 n0)
           ++ gen_levels loc (cv_gates cs) k 1 (cv_depth cs) base n0 (base + n0) dst di
  end.

Definition gen_conv (loc prev dst : nat) (cs : conv_spec) (base : nat) : list stmt :=
  let P := prod (cv_out_dims cs) in
  flat_map (fun k => flat_map (fun p => gen_conv_cell loc prev dst cs k p (base + (k * P + p) * locals_per_cell (cv_depth cs)))
                              (seq 0 P))
           (seq 0 (cv_K cs)).

Definition conv_locals (cs : conv_spec) : nat := cv_K cs * prod (cv_out_dims cs) * locals_per_cell (cv_depth cs).

(* ---------- one pooling layer: window cells inside the image, row-major *)
Definition pool_window (ps : pool_spec) (o : list nat) : list (list nat) :=
  let kd := map (fun _ => pl_kernel ps) (pl_dims ps) in
  filter (fun q => in_image (pl_dims ps) (pl_pad ps) q)
         (map (fun t => map (fun '(oo, kk) => oo * pl_stride ps + kk) (combine o (unravel kd t))) (seq 0 (prod kd))).

Definition gen_pool_cell (prev dst : nat) (ps : pool_spec) (c oi : nat) : list stmt :=
  let o := unravel (pl_out_dims ps) oi in
  let di := c * prod (pl_out_dims ps) + oi in
  let cell q := GLoad prev (flat_index (pl_dims ps) (map (fun v => v - pl_pad ps) q) c) in
  match pool_window ps o with
  | [] => []
  | q0 :: rest => SAssign dst di (cell q0) :: map (fun q => SAssign dst di (GOr (GLoad dst di) (cell q))) rest
  end.

Definition gen_pool (prev dst : nat) (ps : pool_spec) : list stmt :=
  flat_map (fun c => flat_map (fun oi => gen_pool_cell prev dst ps c oi) (seq 0 (prod (pl_out_dims ps)))) (seq 0 (pl_C ps)).

(* ---------- the stack *)
Definition layer_out_size (l : layer) : nat :=
  match l with
  | LConv cs => cv_K cs * prod (cv_out_dims cs)
  | LPool ps => pl_C ps * prod (pl_out_dims ps)
  | _ => 0
  end.
Definition layer_locals (l : layer) : nat := match l with LConv cs => conv_locals cs | _ => 0 end.

Fixpoint gen_spatial (loc : nat) (ls : list layer) (prev next base : nat) : list stmt :=
  match ls with
  | [] => []
  | l :: rest =>
      (match l with
       | LConv cs => gen_conv loc prev next cs base
       | LPool ps => gen_pool prev next ps
       | _ => []
       end) ++ gen_spatial loc rest next (S next) (base + layer_locals l)
  end.

(* dense layers after Flatten: alternate linear_input (a) / linear_buf_temp (b), last one to out *)
Fixpoint gen_layers_ab (ib ob : nat) (ls : list (list (nat * nat * nat))) : list stmt :=
  match ls with
  | [] => []
  | [l] => gen_neurons ib 1 0 l
  | l :: rest => gen_neurons ib ob 0 l ++ gen_layers_ab ob ib rest
  end.

Definition sum_list (l : list nat) : nat := fold_right Nat.add 0 l.

Definition gen_net (m : spatial_model) : prog :=
  let nS := length (sm_spatial m) in
  let sp_sizes := map layer_out_size (sm_spatial m) in
  let last_size := last sp_sizes 0 in
  let ws := widths (sm_dense m) in
  let n_loc := sum_list (map layer_locals (sm_spatial m)) in
  let in_size := sm_C m * prod (sm_dims m) in
  let lin := 2 + nS in
  let extra :=
    if sm_flat m then
      match sm_dense m with
      | [] => [last_size]                                                   (* flattened_output *)
      | _ => Nat.max last_size (max_list (removelast ws)) :: (if 1 <? length ws then [max_list ws] else [])
      end
    else [] in
  let loc := 2 + nS + length extra in
  let out_size := match sm_dense m with [] => last_size | _ => last ws 0 end in
  {| sizes := [in_size; out_size] ++ sp_sizes ++ extra ++ [n_loc];
     body := gen_spatial loc (sm_spatial m) 0 2 0
             ++ (if sm_flat m then
                   match sm_dense m with
                   | [] => [SMemcpy lin (1 + nS) last_size; SMemcpy 1 lin last_size]
                   | ds => SMemcpy lin (1 + nS) last_size :: gen_layers_ab lin (S lin) ds
                   end
                 else [SMemcpy 1 (1 + nS) last_size]) |}.

(* ---------- well-formedness: what a parsed model guarantees and the correctness theorem assumes *)
Definition wf_conv (cs : conv_spec) : bool :=
  forallb (forallb (forallb (fun g => g <? 16))) (cv_gates cs) &&
  forallb (fun k => forallb (fun g => (snd (nth g (nth k (cv_rel_a cs) []) ([], 0)) <? cv_C cs)
                                   && (snd (nth g (nth k (cv_rel_b cs) []) ([], 0)) <? cv_C cs))
                            (seq 0 (2 ^ cv_depth cs))) (seq 0 (cv_K cs)).

Definition wf_pool (ps : pool_spec) : bool :=
  forallb (fun oi => match pool_window ps (unravel (pl_out_dims ps) oi) with [] => false | _ => true end)
          (seq 0 (prod (pl_out_dims ps))).

Definition layer_in_ok (l : layer) (n : nat) : bool :=
  match l with
  | LConv cs => wf_conv cs && (n =? cv_C cs * prod (cv_dims cs))
  | LPool ps => wf_pool ps && (n =? pl_C ps * prod (pl_dims ps))
  | _ => false
  end.

Fixpoint wf_spatial (ls : list layer) (n : nat) : bool :=
  match ls with
  | [] => true
  | l :: rest => layer_in_ok l n && wf_spatial rest (layer_out_size l)
  end.

(* the circuit the emitted program must compute *)
Definition eval_model (m : spatial_model) (x : list bool) : list bool :=
  eval_dense_net (sm_dense m) (eval_net (sm_spatial m) x).

Definition wf_spatial_model (m : spatial_model) : bool :=
  negb (length (sm_spatial m) =? 0)
  && wf_spatial (sm_spatial m) (sm_C m * prod (sm_dims m))
  && (sm_flat m || (length (sm_dense m) =? 0))
  && wf_dense_net (last (map layer_out_size (sm_spatial m)) 0) (sm_dense m).

Definition net_in (m : spatial_model) : nat := sm_C m * prod (sm_dims m).
Definition net_out (m : spatial_model) : nat :=
  match sm_dense m with [] => last (map layer_out_size (sm_spatial m)) 0 | ds => last (widths ds) 0 end.
(* the same network as a layer list of the reference model (Model/ConvNet.v) *)
Definition net_layers (m : spatial_model) : list layer :=
  sm_spatial m ++ (if sm_flat m then [LFlatten] else []) ++ map LDense (sm_dense m).
