(* Model/Wiring.v — wiring constructions as functions of the random draws they consume. *)
From Coq Require Import List Arith Bool.
Import ListNotations.

(* ---------- dense 'unique': functional.get_unique_connections *)
Definition stage1 (n : nat) : list (nat * nat) := map (fun i => (2 * i, 2 * i + 1)) (seq 0 (n / 2)).
Definition stage2 (n : nat) : list (nat * nat) := map (fun i => (2 * i + 1, 2 * i + 2)) (seq 0 ((n - 1) / 2)).
Definition stage_off (n d : nat) : list (nat * nat) := map (fun i => (i, i + d)) (seq 0 (n - d)).
Definition all_pairs (n : nat) : list (nat * nat) :=
  stage1 n ++ stage2 n ++ flat_map (stage_off n) (seq 2 (n - 2)).

Definition apply_perm {A} (d : A) (l : list A) (perm : list nat) : list A := map (fun i => nth i l d) perm.

(* None = AssertionError *)
Definition unique_connections (n m : nat) (perm : list nat) : option (list (nat * nat)) :=
  if (n <=? 2 * m) && (m <=? n * (n - 1) / 2)
  then Some (apply_perm (0, 0) (firstn m (all_pairs n)) perm)
  else None.

(* slice-level mirror of the source (x[::2], x[1::2], the two length-equalising truncations, the while loop with fuel) *)
Fixpoint stride2 {A} (l : list A) : list A :=
  match l with
  | [] => []
  | x :: r => x :: match r with [] => [] | _ :: r' => stride2 r' end
  end.

Definition equalise {A B} (a : list A) (b : list B) : list A * list B :=
  let m := Nat.min (length a) (length b) in (firstn m a, firstn m b).

Fixpoint offsets_loop (fuel : nat) (x : list nat) (m offset : nat) (a b : list nat) : option (list nat * list nat) :=
  if m <=? length a then Some (a, b) else
  match fuel with
  | O => None
  | S f => let a_ := firstn (length x - offset) x in
           let b_ := skipn offset x in
           if length (a ++ a_) =? length (b ++ b_) then offsets_loop f x m (S offset) (a ++ a_) (b ++ b_) else None
  end.

Definition unique_slices (n m : nat) : option (list nat * list nat) :=
  let x := seq 0 n in
  let '(a, b) := equalise (stride2 x) (stride2 (skipn 1 x)) in
  let '(a, b) := if length a <? m
                 then equalise (a ++ stride2 (skipn 1 x)) (b ++ stride2 (skipn 2 x))
                 else (a, b) in
  match offsets_loop n x m 2 a b with
  | Some (a, b) => Some (firstn m a, firstn m b)
  | None => None
  end.

(* ---------- dense 'random': LogicDense.get_connections *)
Definition random_connections (n m : nat) (p1 p2 : list nat) : list nat * list nat :=
  let c := map (fun v => v mod n) p1 in
  let c' := map (fun v => nth v p2 0) c in
  (firstn m c', skipn m c').

(* ---------- conv 'random-unique' *)
Definition triu (P : nat) : list (nat * nat) :=
  flat_map (fun i => map (fun j => (i, j)) (seq (S i) (P - S i))) (seq 0 P).

(* the sampler numbers the pairs of the strict upper triangle row by row, draws numbers with replacement (batches of randint,
   concatenated in `draws`) and keeps the first s distinct ones in order of first occurrence; a number is turned back into its pair *)
Fixpoint first_distinct (s : nat) (draws seen : list nat) {struct draws} : list nat :=
  match draws with
  | [] => []
  | v :: r =>
      match s with
      | O => []
      | S s' => if existsb (Nat.eqb v) seen then first_distinct s r seen else v :: first_distinct s' r (v :: seen)
      end
  end.

Definition unrank (P v : nat) : nat * nat := nth v (triu P) (0, 0).

Definition conv_unique_pairs (P s : nat) (draws : list nat) : option (list (nat * nat)) :=
  if s <=? P * (P - 1) / 2 then Some (map (unrank P) (first_distinct s draws [])) else None.

(* position index -> (h, w, c) of the meshgrid(h, w, c, indexing='ij') flattening *)
Definition position (wk cn idx : nat) : nat * nat * nat := (idx / (wk * cn), (idx / cn) mod wk, idx mod cn).

(* ---------- tree levels: arange(0, size, 2), arange(1, size, 2) *)
Definition tree_level (size : nat) : list nat * list nat :=
  (map (fun i => 2 * i) (seq 0 (size / 2)), map (fun i => 2 * i + 1) (seq 0 (size / 2))).

Definition tree_indices (depth : nat) : list (list nat * list nat) :=
  map (fun level => tree_level (2 ^ (depth - level))) (seq 0 depth).

(* generic row-major unravelling (meshgrid(..., indexing='ij') + flatten): idx -> coordinates *)
Fixpoint unravel (dims : list nat) (idx : nat) : list nat :=
  match dims with
  | [] => []
  | _ :: ds => let p := fold_right Nat.mul 1 ds in (idx / p) :: unravel ds (idx mod p)
  end.
