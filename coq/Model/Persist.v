(* Model/Persist.v — what a saved state of a logic layer contains and how a layer is rebuilt from it. *)
From Coq Require Import List Bool.
From TLX Require Import Model.Bits Model.Netlist.
Import ListNotations.

Record lstate := { gates : list nat; wiring : list (nat * nat) }.
Definition saved_state : Type := (list nat * option (list (nat * nat)))%type.

(* state_dict(): the weights always; the wiring iff the layer persists it *)
Definition save_state (persist_wiring : bool) (l : lstate) : saved_state :=
  (gates l, if persist_wiring then Some (wiring l) else None).

(* rebuild with the same constructor arguments under ANY RNG state (fresh_wiring = whatever that state draws), then load *)
Definition rebuild (fresh_wiring : list (nat * nat)) (fresh_gates : list nat) (st : saved_state) : lstate :=
  {| gates := fst st; wiring := match snd st with Some w => w | None => fresh_wiring end |}.

Definition neurons (l : lstate) : list (nat * nat * nat) := map (fun p => (fst (fst p), snd (fst p), snd p)) (combine (wiring l) (gates l)).
Definition eval_layer_state (l : lstate) (x : list bool) : list bool := eval_dense (neurons l) x.

(* ===================================================================================================================
   The persistence code of the layers as it is written (statement-by-statement tie: Gen/PersistSrc.v).

   torch's load_state_dict copies a parameter only when its shape equals the receiving parameter's shape (otherwise it
   reports an error and the load fails), and hands the entry `_extra_state` to set_extra_state; a checkpoint without that
   entry gets the receiving layer's own extra state (`state_dict.setdefault(...)` in _load_from_state_dict).
   =================================================================================================================== *)
From Coq Require Import ZArith Arith.
From TLX Require Import Model.CLang.

(* ---- LogicDense ---- *)
Record dlayer := { dl_in : nat; dl_out : nat; dl_gates : list nat; dl_a : list Z; dl_b : list Z }.
Record dsaved := { sv_gates : list nat; sv_extra : option (list (list Z)) }.    (* weight rows; the tuple of index tensors *)

Definition in_range (n : nat) (v : Z) : bool := (0 <=? v)%Z && (v <? Z.of_nat n)%Z.

(* what the constructor guarantees and what forward / the code generator need: one gate and one pair per neuron, every
   wire an existing input *)
Definition dense_wf (l : dlayer) : bool :=
  (length (dl_gates l) =? dl_out l) && (length (dl_a l) =? dl_out l) && (length (dl_b l) =? dl_out l)
  && forallb (in_range (dl_in l)) (dl_a l) && forallb (in_range (dl_in l)) (dl_b l).

(* state_dict(): weight + get_extra_state() = {'indices': (a, b)} *)
Definition dense_save (l : dlayer) : dsaved := {| sv_gates := dl_gates l; sv_extra := Some [dl_a l; dl_b l] |}.

(* set_extra_state: `len(indices) != 2 or any(i.shape != (out_dim,) or (i.numel() > 0 and (i.min() < 0 or i.max() >= in_dim)))` raises *)
Definition dense_extra_fits (fresh : dlayer) (idx : list (list Z)) : bool :=
  (length idx =? 2) && forallb (fun i => (length i =? dl_out fresh) && forallb (in_range (dl_in fresh)) i) idx.

Definition dense_load (fresh : dlayer) (sv : dsaved) : option dlayer :=
  if negb (length (sv_gates sv) =? dl_out fresh) then None            (* size mismatch for weight *)
  else match sv_extra sv with
       | None => Some {| dl_in := dl_in fresh; dl_out := dl_out fresh; dl_gates := sv_gates sv; dl_a := dl_a fresh; dl_b := dl_b fresh |}
       | Some idx =>
           if dense_extra_fits fresh idx
           then Some {| dl_in := dl_in fresh; dl_out := dl_out fresh; dl_gates := sv_gates sv;
                        dl_a := nth 0 idx []; dl_b := nth 1 idx [] |}
           else None
       end.

Definition dense_neurons (l : dlayer) : list (nat * nat * nat) :=
  map (fun p => (Z.to_nat (fst (fst p)), Z.to_nat (snd (fst p)), snd p)) (combine (combine (dl_a l) (dl_b l)) (dl_gates l)).
Definition dense_eval (l : dlayer) (x : list bool) : list bool := eval_dense (dense_neurons l) x.

(* ---- logic convolutions (2-D and 3-D share _PersistentWiring) ---- *)
Record tens := { shp : list nat; dat : list Z }.
Definition tens_shape_eqb (a b : tens) : bool := list_eqb Nat.eqb (shp a) (shp b).

(* _geometry(): receptive_field_size is an int (2-D layers, cubic 3-D) or a tuple *)
Record geom := { g_in : list nat; g_channels : nat; g_kernels : nat; g_depth : nat; g_stride : nat; g_padding : nat;
                 g_rf : nat + list nat }.
Definition rf_eqb (a b : nat + list nat) : bool :=
  match a, b with inl x, inl y => x =? y | inr x, inr y => list_eqb Nat.eqb x y | _, _ => false end.
Definition geom_eqb (a b : geom) : bool :=
  list_eqb Nat.eqb (g_in a) (g_in b) && (g_channels a =? g_channels b) && (g_kernels a =? g_kernels b)
  && (g_depth a =? g_depth b) && (g_stride a =? g_stride b) && (g_padding a =? g_padding b) && rf_eqb (g_rf a) (g_rf b).

(* limits = (tuple(rf) if tuple else (rf,) * len(in_dim)) + (channels,) *)
Definition rf_limits (g : geom) : list nat :=
  (match g_rf g with inl r => repeat r (length (g_in g)) | inr l => l end) ++ [g_channels g].

Record clayer := { c_geom : geom;
                   c_gates : list (list (list nat));       (* level, node, kernel *)
                   c_pairs : list tens;                    (* kernel_pairs: (a, b), each (kernels, 2^depth, dims + 1) *)
                   c_indices : list (list tens) }.         (* per tree level a tuple of index tensors *)
Record csaved := { cs_gates : list (list (list nat));
                   cs_extra : option (option geom * list tens * list (list tens)) }.   (* geometry?, kernel_pairs, indices *)

Definition gates_shape (g : list (list (list nat))) : list (list nat) := map (map (@length nat)) g.
Definition gates_shape_eqb (a b : list (list (list nat))) : bool :=
  list_eqb (list_eqb Nat.eqb) (gates_shape a) (gates_shape b).

Fixpoint forallb2 {A B} (f : A -> B -> bool) (l1 : list A) (l2 : list B) : bool :=
  match l1, l2 with
  | [], [] => true
  | x :: r1, y :: r2 => f x y && forallb2 f r1 r2
  | _, _ => false
  end.

(* all(int(p[..., d].max()) < lim for d, lim in enumerate(limits)): element j of the flat data is coordinate j mod len(limits) *)
Fixpoint coords_below_from (limits : list nat) (j : nat) (data : list Z) : bool :=
  match data with
  | [] => true
  | v :: rest => (v <? Z.of_nat (nth (j mod length limits) limits 0%nat))%Z && coords_below_from limits (S j) rest
  end.
Definition coords_below (limits : list nat) (p : tens) : bool := coords_below_from limits 0 (dat p).

Definition pair_fits (limits : list nat) (p own : tens) : bool :=
  tens_shape_eqb p own && negb (length (dat p) =? 0) && forallb (fun v => (0 <=? v)%Z) (dat p) && coords_below limits p.
Definition pairs_fit (fresh : clayer) (pairs : list tens) : bool :=
  (length pairs =? length (c_pairs fresh)) && forallb2 (pair_fits (rf_limits (c_geom fresh))) pairs (c_pairs fresh).

Definition index_shapes_eqb (saved own : list (list tens)) : bool :=
  (length saved =? length own) && forallb2 (fun lv ow => (length lv =? length ow) && forallb2 tens_shape_eqb lv ow) saved own.

Definition conv_save (l : clayer) : csaved :=
  {| cs_gates := c_gates l; cs_extra := Some (Some (c_geom l), c_pairs l, c_indices l) |}.

Section ConvLoad.
  (* get_indices_from_kernel_pairs of the receiving layer (used for checkpoints that carry no geometry) *)
  Variable recompute : geom -> list tens -> list (list tens).

  Definition conv_load (fresh : clayer) (sv : csaved) : option clayer :=
    if negb (gates_shape_eqb (cs_gates sv) (c_gates fresh)) then None
    else match cs_extra sv with
         | None => Some {| c_geom := c_geom fresh; c_gates := cs_gates sv; c_pairs := c_pairs fresh; c_indices := c_indices fresh |}
         | Some (og, pairs, idx) =>
             if negb (pairs_fit fresh pairs) then None
             else match og with
                  | Some g =>
                      if negb (geom_eqb g (c_geom fresh)) then None
                      else if negb (index_shapes_eqb idx (c_indices fresh)) then None
                      else Some {| c_geom := c_geom fresh; c_gates := cs_gates sv; c_pairs := pairs; c_indices := idx |}
                  | None => Some {| c_geom := c_geom fresh; c_gates := cs_gates sv; c_pairs := pairs;
                                    c_indices := recompute (c_geom fresh) pairs |}
                  end
         end.
End ConvLoad.

(* what two layers built with the same constructor arguments (under any two RNG states) have in common *)
Definition built_alike (a b : clayer) : bool :=
  geom_eqb (c_geom a) (c_geom b) && gates_shape_eqb (c_gates a) (c_gates b)
  && (length (c_pairs a) =? length (c_pairs b)) && forallb2 tens_shape_eqb (c_pairs a) (c_pairs b)
  && index_shapes_eqb (c_indices a) (c_indices b).
(* the kernel pairs of a constructed layer lie inside its receptive field *)
Definition conv_pairs_wf (l : clayer) : bool := pairs_fit l (c_pairs l).

(* ---- learnable thermometer: the parameter and the frozen flag ---- *)
Record tstate := { th_raw : list Z; th_frozen : bool }.
Record tsaved := { ts_raw : list Z; ts_extra : option bool }.
Definition thermo_save (t : tstate) : tsaved := {| ts_raw := th_raw t; ts_extra := Some (th_frozen t) |}.
Definition thermo_load (fresh : tstate) (sv : tsaved) : option tstate :=
  if negb (length (ts_raw sv) =? length (th_raw fresh)) then None
  else Some {| th_raw := ts_raw sv; th_frozen := match ts_extra sv with Some f => f | None => th_frozen fresh end |}.
