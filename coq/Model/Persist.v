(* Model/Persist.v — what a saved state of a logic layer contains and how a layer is rebuilt from it. *)
From Coq Require Import List Bool.
From TLX Require Import Model.Bits Model.Netlist.
Import ListNotations.

Record lstate := { gates : list nat; wiring : list (nat * nat) }.
Definition saved_state : Type := (list nat * option (list (nat * nat)))%type.

(* state_dict(): the weights always; the wiring iff the layer persists it *)
Definition save_state (persist_wiring : bool) (l : lstate) : saved_state :=
  (gates l, if persist_wiring then Some (wiring l) else None).

(* rebuild with the same constructor arguments under ANY RNG state (fresh_wiring = whatever that state draws), then load *)
Definition rebuild (fresh_wiring : list (nat * nat)) (fresh_gates : list nat) (st : saved_state) : lstate :=
  {| gates := fst st; wiring := match snd st with Some w => w | None => fresh_wiring end |}.

Definition neurons (l : lstate) : list (nat * nat * nat) := map (fun p => (fst (fst p), snd (fst p), snd p)) (combine (wiring l) (gates l)).
Definition eval_layer_state (l : lstate) (x : list bool) : list bool := eval_dense (neurons l) x.
