(* Model/Host.v — host side without GroupSum (CompiledLogicNet._forward_direct):
   each sample is fed as words holding 0/1 and bit lane 0 of the result is returned. *)
From Coq Require Import ZArith List Bool.
Import ListNotations.

Definition forward_direct (net : list Z -> option (list Z)) (rows : list (list bool)) : option (list (list Z)) :=
  let one r := option_map (map (fun z => Z.land z 1)) (net (map Z.b2z r)) in
  fold_right (fun r acc => match one r, acc with Some o, Some rest => Some (o :: rest) | _, _ => None end)
             (Some []) rows.
