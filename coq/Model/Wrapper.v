(* Model/Wrapper.v — Gallina model of the emitted batch wrapper apply_logic_net()
   (bool -> bit-plane packing, ripple-carry bit-sliced adder, unpacking) and of the
   host side of CompiledLogicNet._forward_with_groupsum / _forward_direct.
   Index expressions are those of the C text; the accumulator width and group size
   come from Gen/WrapperParams.v (translated from the Python expressions). *)
From Coq Require Import ZArith List Bool Arith.
From TLX Require Import Model.Bits Gen.WrapperParams.
Import ListNotations.

Section Wrapper.
  Variables (W in_size n_out k : nat).
  Variable net : list Z -> option (list Z).        (* logic_net on W-bit words *)

  Definition Wz : Z := Z.of_nat W.
  Definition gsize : nat := Z.to_nat (group_size (Z.of_nat n_out) (Z.of_nat k)).
  Definition width : nat := Z.to_nat (acc_width (Z.of_nat n_out) (Z.of_nat k)).

  (* inp[i * in_size * W + (W - b - 1) * in_size + d] *)
  Definition inp_index (i r d : nat) : nat := i * in_size * W + r * in_size + d.
  Definition inp_bit (inp : list bool) (i r d : nat) : bool := nth (inp_index i r d) inp false.

  (* res = 0; for b in 0..W-1: res = (T)(((UT) res << 1) | !!inp[.. (W-b-1) ..]);   the shift is done in the unsigned type of the same
     width (no undefined behaviour at the sign bit, F34), the result is stored back in a W-bit signed object: wrap (2*res + bit) *)
  Definition pack_word (inp : list bool) (i d : nat) : Z :=
    fold_left (fun res b => wrap Wz (2 * res + Z.b2z (inp_bit inp i (W - b - 1) d))) (seq 0 W) 0%Z.

  Definition pack (inp : list bool) (i : nat) : list Z := map (pack_word inp i) (seq 0 in_size).

  (* one pass of the inner d-loop, accumulator least-significant word first
     (C index d = width-1 is the head of this list) *)
  Fixpoint ripple (carry : Z) (o : list Z) : list Z :=
    match o with
    | [] => []
    | t :: r => wrap Wz (Z.lxor carry t) :: ripple (wrap Wz (Z.land carry t)) r
    end.

  (* out_temp[c * g + a] for a in 0..g-1 *)
  Definition class_words (ot : list Z) (c : nat) : list Z :=
    map (fun a => nth (c * gsize + a) ot 0%Z) (seq 0 gsize).

  Definition adder (ot : list Z) (c : nat) : list Z :=
    fold_left (fun o x => ripple x o) (class_words ot c) (repeat 0%Z width).

  (* bit_mask = (T)((UT) 1 << b) (W-bit object);  !!(o[d] & bit_mask) *)
  Definition masked_bit (t : Z) (b : nat) : Z :=
    Z.b2z (negb (Z.land t (wrap Wz (2 ^ Z.of_nat b)) =? 0)%Z).

  (* res = 0; for d in 0..width-1 (most significant first): res <<= 1; res += bit;   res is a 32-bit int *)
  Definition unpack_lane (o : list Z) (b : nat) : Z :=
    fold_right (fun t acc => wrap 32 (2 * acc + masked_bit t b)) 0%Z o.

  (* out[(i * W + b) * k + c], listed in index order *)
  Definition word_result (ot : list Z) : list Z :=
    flat_map (fun b => map (fun c => unpack_lane (adder ot c) b) (seq 0 k)) (seq 0 W).

  Fixpoint all_some {A} (l : list (option (list A))) : option (list A) :=
    match l with
    | [] => Some []
    | None :: _ => None
    | Some x :: r => match all_some r with Some y => Some (x ++ y) | None => None end
    end.

  Definition apply_logic_net (inp : list bool) (len : nat) : option (list Z) :=
    all_some (map (fun i => option_map word_result (net (pack inp i))) (seq 0 len)).

  (* every index used by one call, paired with the size of the array it indexes *)
  Definition index_uses (len : nat) : list (nat * nat) :=
    flat_map (fun i =>
      flat_map (fun d => map (fun b => (inp_index i (W - b - 1) d, len * W * in_size)) (seq 0 W)) (seq 0 in_size)
      ++ flat_map (fun c => map (fun a => (c * gsize + a, n_out)) (seq 0 gsize)) (seq 0 k)
      ++ flat_map (fun b => map (fun c => ((i * W + b) * k + c, len * W * k)) (seq 0 k)) (seq 0 W)) (seq 0 len).

  (* ---- host side: _forward_with_groupsum *)
  Definition ceil_div (a b : nat) : nat := (a + b - 1) / b.

  Fixpoint chunks {A} (n : nat) (fuel : nat) (l : list A) : list (list A) :=
    match fuel with
    | O => []
    | S f => firstn n l :: chunks n f (skipn n l)
    end.

  Definition forward_with_groupsum (rows : list (list bool)) : option (list (list Z)) :=
    let B := length rows in
    let words := ceil_div B W in
    let pad := words * W - B in
    let x := concat (rows ++ repeat (repeat false in_size) pad) in
    match apply_logic_net x words with
    | Some out => Some (firstn B (chunks k (words * W) out))
    | None => None
    end.
End Wrapper.
