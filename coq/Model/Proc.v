(* Model/Proc.v — files, mapped libraries and the dynamic loader's path cache, as far as compile(save_lib_path),
   load(path) and calls through a handle are concerned.  A library "content" is the id of the model it was built from. *)
From Coq Require Import List Arith Bool.
From TLX Require Import Gen.LibIO.
Import ListNotations.

Definition path := nat.
Definition inode := nat.
Definition model := nat.

Record inode_info := { content : model; modified : bool }.   (* modified: overwritten in place after creation *)
Record handle_info := { mapped : inode; made_from : model; opened_as : option path;
                        has_model : bool (* made by compile (the instance holds its model) / by load (it does not) *) }.

Record pstate := {
  fs : list (path * inode);
  inodes : list inode_info;            (* index = inode number *)
  handles : list handle_info           (* index = handle number; handles are never closed *)
}.

Definition empty : pstate := {| fs := []; inodes := []; handles := [] |}.

(* ORecompile h save: compile(save_lib_path=save) called again on the instance behind handle h *)
Inductive op := OCompile (m : model) (save : option path) | OLoad (p : path) | OCall (h : nat)
              | ORecompile (h : nat) (save : option path).
(* the "model" an empty logic_net computes (what code generation from an instance without a model yields) *)
Definition EMPTY : model := 999.
Inductive outcome := RHandle (h : nat) | RValue (m : model) | RCrash | RError.

Fixpoint lookup {A} (k : nat) (l : list (nat * A)) : option A :=
  match l with [] => None | (k', v) :: r => if k' =? k then Some v else lookup k r end.
Fixpoint assign {A} (k : nat) (v : A) (l : list (nat * A)) : list (nat * A) :=
  match l with [] => [(k, v)] | (k', v') :: r => if k' =? k then (k, v) :: r else (k', v') :: assign k v r end.
Fixpoint set_nth {A} (n : nat) (v : A) (l : list A) : list A :=
  match l, n with [], _ => [] | _ :: r, O => v :: r | x :: r, S m => x :: set_nth m v r end.

Definition new_inode (s : pstate) (m : model) : pstate * inode :=
  ({| fs := fs s; inodes := inodes s ++ [{| content := m; modified := false |}]; handles := handles s |}, length (inodes s)).
Definition new_handle (s : pstate) (i : inode) (m : model) (as_path : option path) (hm : bool) : pstate * nat :=
  ({| fs := fs s; inodes := inodes s;
      handles := handles s ++ [{| mapped := i; made_from := m; opened_as := as_path; has_model := hm |}] |},
   length (handles s)).

(* dlopen(path) returns an already loaded library that was opened under the same path name *)
Definition cached (s : pstate) (p : path) : option nat :=
  (fix go (hs : list handle_info) (k : nat) : option nat :=
     match hs with
     | [] => None
     | h :: r => match opened_as h with Some q => if q =? p then Some k else go r (S k) | None => go r (S k) end
     end) (handles s) 0.

(* compile's save branch, after the temporary build: write the library to `save` *)
Definition save_to (sv : save_discipline) (s1 : pstate) (m : model) (save : option path) : pstate :=
  match save with
  | None => s1
  | Some p =>
      match sv with
      | InPlace =>
          match lookup p (fs s1) with
          | Some ip => {| fs := fs s1; inodes := set_nth ip {| content := m; modified := true |} (inodes s1); handles := handles s1 |}
          | None => let '(s', inew) := new_inode s1 m in {| fs := assign p inew (fs s'); inodes := inodes s'; handles := handles s' |}
          end
      | AtomicRename =>
          let '(s', inew) := new_inode s1 m in {| fs := assign p inew (fs s'); inodes := inodes s'; handles := handles s' |}
      end
  end.

(* the instance behind handle h loads a new temporary build (its earlier library stays mapped, nothing is closed) *)
Definition remap (s : pstate) (h : nat) (hi : handle_info) (i : inode) : pstate :=
  {| fs := fs s; inodes := inodes s;
     handles := set_nth h {| mapped := i; made_from := made_from hi; opened_as := opened_as hi; has_model := has_model hi |} (handles s) |}.

Definition step (sv : save_discipline) (ld : load_discipline) (rc : recompile_discipline) (s : pstate) (o : op) : pstate * outcome :=
  match o with
  | OCompile m save =>
      let '(s1, it) := new_inode s m in                      (* temporary build *)
      let s2 := save_to sv s1 m save in
      let '(s3, h) := new_handle s2 it m None true in (s3, RHandle h)    (* the instance loads its own temporary build *)
  | OLoad p =>
      match lookup p (fs s) with
      | None => (s, RError)
      | Some ip =>
          match ld with
          | ByPath =>
              match cached s p with
              | Some h0 => (* same library object again *)
                  let i0 := match nth_error (handles s) h0 with Some hi => mapped hi | None => ip end in
                  let m0 := match nth_error (inodes s) ip with Some ii => content ii | None => 0 end in
                  let '(s', h) := new_handle s i0 m0 (Some p) false in (s', RHandle h)
              | None =>
                  let m0 := match nth_error (inodes s) ip with Some ii => content ii | None => 0 end in
                  let '(s', h) := new_handle s ip m0 (Some p) false in (s', RHandle h)
              end
          | PrivateCopy =>
              let m0 := match nth_error (inodes s) ip with Some ii => content ii | None => 0 end in
              let '(s1, ic) := new_inode s m0 in
              let '(s', h) := new_handle s1 ic m0 None false in (s', RHandle h)
          end
      end
  | OCall h =>
      match nth_error (handles s) h with
      | None => (s, RError)
      | Some hi =>
          match nth_error (inodes s) (mapped hi) with
          | None => (s, RError)
          | Some ii => if modified ii then (s, RCrash) else (s, RValue (content ii))
          end
      end
  | ORecompile h save =>
      match nth_error (handles s) h with
      | None => (s, RError)
      | Some hi =>
          if has_model hi then
            (* a second compile of an instance that holds its model: new build of the same model, saved, installed *)
            let '(s1, it) := new_inode s (made_from hi) in
            (remap (save_to sv s1 (made_from hi) save) h hi it, RHandle h)
          else
            match rc with
            | Refuses => (s, RError)
            | RebuildsEmpty =>
                (* code generated from no model: an empty logic_net is built, written to `save` and installed in the handle *)
                let '(s1, it) := new_inode s EMPTY in
                (remap (save_to sv s1 EMPTY save) h hi it, RHandle h)
            end
      end
  end.

Fixpoint run (sv : save_discipline) (ld : load_discipline) (rc : recompile_discipline) (s : pstate) (ops : list op) : list outcome :=
  match ops with
  | [] => []
  | o :: r => let '(s', out) := step sv ld rc s o in out :: run sv ld rc s' r
  end.

(* what the property demands of one step in state s *)
Definition expected (s : pstate) (o : op) (out : outcome) : Prop :=
  match o, out with
  | OCall h, RValue m => exists hi, nth_error (handles s) h = Some hi /\ m = made_from hi
  | OCall h, RError => nth_error (handles s) h = None
  | OCall _, _ => False
  | ORecompile h _, RHandle h' => h' = h /\ exists hi, nth_error (handles s) h = Some hi /\ has_model hi = true
  | ORecompile h _, RError => forall hi, nth_error (handles s) h = Some hi -> has_model hi = false
  | ORecompile _ _, _ => False
  | _, RCrash => False
  | _, _ => True
  end.

(* ---------- the abstract specification: a map path -> latest saved model and the list of the models handles were made from *)
Record spec := { saved : list (path * model); made : list model; with_model : list bool }.
Definition spec_empty : spec := {| saved := []; made := []; with_model := [] |}.

Definition spec_step (a : spec) (o : op) : spec * outcome :=
  match o with
  | OCompile m save =>
      ({| saved := match save with Some p => assign p m (saved a) | None => saved a end; made := made a ++ [m];
          with_model := with_model a ++ [true] |},
       RHandle (length (made a)))
  | OLoad p =>
      match lookup p (saved a) with
      | None => (a, RError)
      | Some m => ({| saved := saved a; made := made a ++ [m]; with_model := with_model a ++ [false] |}, RHandle (length (made a)))
      end
  | OCall h => match nth_error (made a) h with Some m => (a, RValue m) | None => (a, RError) end
  | ORecompile h save =>
      (* an instance with a model saves that model again and keeps computing it; one without a model (from load) refuses,
         and nothing changes *)
      match nth_error (made a) h, nth_error (with_model a) h with
      | Some m, Some true =>
          ({| saved := match save with Some p => assign p m (saved a) | None => saved a end; made := made a;
              with_model := with_model a |}, RHandle h)
      | _, _ => (a, RError)
      end
  end.

Fixpoint spec_run (a : spec) (ops : list op) : list outcome :=
  match ops with [] => [] | o :: r => let '(a', out) := spec_step a o in out :: spec_run a' r end.
