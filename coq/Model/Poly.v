(* Model/Poly.v — polynomial expressions in two variables (the relaxed gates),
   with one generic evaluator instantiated at Z and Q (executable) and, in the
   proofs, at R. *)
From Coq Require Import ZArith QArith List.
Import ListNotations.

Inductive pexpr : Type :=
| PA | PB | PK (z : Z)
| PAdd (e1 e2 : pexpr) | PSub (e1 e2 : pexpr) | PMul (e1 e2 : pexpr).

Section Eval.
  Context {T : Type} (add sub mul : T -> T -> T) (ofZ : Z -> T).
  Fixpoint peval (e : pexpr) (a b : T) : T :=
    match e with
    | PA => a | PB => b | PK z => ofZ z
    | PAdd e1 e2 => add (peval e1 a b) (peval e2 a b)
    | PSub e1 e2 => sub (peval e1 a b) (peval e2 a b)
    | PMul e1 e2 => mul (peval e1 a b) (peval e2 a b)
    end.
End Eval.

Definition peval_Z := peval Z.add Z.sub Z.mul (fun z => z).
Definition peval_Q := peval Qplus Qminus Qmult inject_Z.

(* mixture in the index order of the source loop: r = 0; for i in 0..n-1: r = r + w_i * u_i *)
Definition mixture_Q (ops : nat -> pexpr) (n : nat) (w : list Q) (a b : Q) : Q :=
  fold_left (fun r i => Qplus r (Qmult (nth i w 0%Q) (peval_Q (ops i) a b))) (seq 0 n) 0%Q.
