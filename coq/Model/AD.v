(* Model/AD.v — reverse-mode autograd on scalar expressions of one variable, in its equivalent dual-number form:
   a value paired with the derivative that autograd reports.  detach / comparisons / one-hot selections carry a
   zero derivative; GradFactor is the identity on values and scales the derivative flowing back by f. *)
From Coq Require Import Reals.
Local Open Scope R_scope.

Record dual : Type := { v : R; d : R }.

Definition dvar (x : R) : dual := {| v := x; d := 1 |}.
Definition dconst (c : R) : dual := {| v := c; d := 0 |}.
Definition dadd (a b : dual) : dual := {| v := v a + v b; d := d a + d b |}.
Definition dsub (a b : dual) : dual := {| v := v a - v b; d := d a - d b |}.
Definition dmul (a b : dual) : dual := {| v := v a * v b; d := d a * v b + v a * d b |}.
Definition dscale (c : R) (a : dual) : dual := {| v := c * v a; d := c * d a |}.
Definition ddetach (a : dual) : dual := {| v := v a; d := 0 |}.
Definition dsigmoid (a : dual) : dual :=
  let s := / (1 + exp (- v a)) in {| v := s; d := s * (1 - s) * d a |}.
(* indicator [a > t]: piecewise constant, autograd propagates no gradient through it *)
Definition dgt (a : dual) (t : R) : dual := {| v := if Rlt_dec t (v a) then 1 else 0; d := 0 |}.
(* GradFactor.apply(x, f): forward returns x, backward multiplies the incoming gradient by f *)
Definition dgradfactor (f : R) (a : dual) : dual := {| v := v a; d := f * d a |}.

(* straight-through estimators as written in the source *)
Definition ste (hard soft : dual) : dual := dadd (dsub hard (ddetach soft)) soft.       (* x_hard - x.detach() + x *)
Definition ste' (hard soft : dual) : dual := dadd (ddetach (dsub hard soft)) soft.      (* (y_hard - y_soft).detach() + y_soft *)
