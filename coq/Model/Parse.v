(* Model/Parse.v — decision model of CompiledLogicNet._parse_model + _validate_structure over a list of
   module kinds.  None = the constructor raises.  The dispatch table, the behaviour of the final `else`
   and the presence of each structural check come from Gen/Parse.v (translated from the source). *)
From Coq Require Import String List Bool Arith.
From TLX Require Import Gen.Parse Model.ConvNet.
Import ListNotations.
Local Open Scope string_scope.
Local Open Scope nat_scope.

Inductive mkind : Type :=
| MDense (n_in n_out : nat)
| MConv (channels : nat) (dims rf : list nat) (stride pad kernels : nat)
| MPool (kernel stride pad : nat)
| MFlatten
| MGroupSum (k : nat)
| MIdentity
| MForeign (name : string).     (* nested Sequential, residual block, thresholding, any other torch module *)

Inductive lkind : Type := LKConv | LKPool | LKFlat | LKLin.

Definition handled (cls : string) : bool := existsb (fun p => String.eqb (fst p) cls) parse_handled.
Definition check_on (name : string) : bool :=
  existsb (fun p => String.eqb (fst p) name && snd p) structure_checks.

(* the dispatch loop: Some (Some k) = recorded in layer_order, Some None = skipped, None = raise *)
Definition dispatch (m : mkind) : option (option lkind) :=
  match m with
  | MDense _ _ => if handled "LogicDense" then Some (Some LKLin) else None
  | MConv _ dims _ _ _ _ => if handled (if length dims =? 2 then "LogicConv2d" else "LogicConv3d") then Some (Some LKConv) else None
  | MPool _ _ _ => if handled "OrPooling" then Some (Some LKPool) else None
  | MFlatten => if handled "Flatten" then Some (Some LKFlat) else None
  | MGroupSum _ => if handled "GroupSum" then Some None else None
  | MIdentity => if handled "Identity" then Some None else match parse_else with ElseRaise => None | ElseSkip => Some None end
  | MForeign _ => match parse_else with ElseRaise => None | ElseSkip => Some None end
  end.

Fixpoint layer_order (ms : list mkind) : option (list (lkind * mkind)) :=
  match ms with
  | [] => Some []
  | m :: r => match dispatch m, layer_order r with
              | Some (Some k), Some o => Some ((k, m) :: o)
              | Some None, Some o => Some o
              | _, _ => None
              end
  end.

Definition is_spatial (k : lkind) : bool := match k with LKConv | LKPool => true | _ => false end.
Definition is_flat (k : lkind) : bool := match k with LKFlat => true | _ => false end.
Definition is_lin (k : lkind) : bool := match k with LKLin => true | _ => false end.
Definition is_conv (k : lkind) : bool := match k with LKConv => true | _ => false end.

(* [i for i, t in enumerate(order) if P t] *)
Fixpoint idxs_from (start : nat) (P : lkind -> bool) (l : list lkind) : list nat :=
  match l with
  | [] => []
  | k :: r => if P k then start :: idxs_from (S start) P r else idxs_from (S start) P r
  end.
Definition idxs := idxs_from 0.

Fixpoint nat_list_eqb (a b : list nat) : bool :=
  match a, b with
  | [], [] => true
  | x :: r, y :: s => (x =? y) && nat_list_eqb r s
  | _, _ => false
  end.
Definition is_nil {A} (l : list A) : bool := match l with [] => true | _ => false end.

Definition groupsum_ok (ms : list mkind) : bool :=
  let mods := filter (fun m => match m with MIdentity => false | _ => true end) ms in
  let gs := map fst (filter (fun p => match snd p with MGroupSum _ => true | _ => false end)
                            (combine (seq 0 (length mods)) mods)) in
  negb (check_on "groupsum_once_last") ||
  ((length gs <=? 1) && (is_nil gs || (hd 0 gs =? length mods - 1))).

Definition struct_ok (has_gs : bool) (order : list lkind) : bool :=
  let spatial := idxs is_spatial order in
  let flat := idxs is_flat order in
  let lin := idxs is_lin order in
  if negb (is_nil spatial) then
    (negb (check_on "conv_first") || match order with k :: _ => is_conv k | [] => false end)
    && (negb (check_on "spatial_prefix") || nat_list_eqb spatial (seq 0 (length spatial)))
    && (negb (check_on "flatten_after_spatial") || ((length flat <=? 1) && (is_nil flat || (hd 0 flat =? length spatial))))
    && (negb (check_on "flatten_before_dense") || is_nil lin || negb (is_nil flat))
    && (negb (check_on "flatten_before_groupsum") || negb has_gs || negb (is_nil flat))
  else
    negb (check_on "dense_flatten_first") || is_nil flat || nat_list_eqb flat [0].

(* shape propagation: consecutive layers must agree *)
Definition out_shape (shape : list nat) (m : mkind) : option (list nat) :=
  match m with
  | MConv c dims rf s p k =>
      if negb (check_on "conv_shape") || nat_list_eqb shape (c :: dims)
      then Some (k :: map (fun '(n, r) => out_len n p r s) (combine (tl shape) rf)) else None
  | MPool ks s p => Some (hd 0 shape :: map (fun n => out_len n p ks s) (tl shape))
  | MFlatten => Some [fold_right Nat.mul 1 shape]
  | MDense n_in n_out =>
      if negb (check_on "dense_shape") || nat_list_eqb shape [n_in] then Some [n_out] else None
  | _ => Some shape
  end.

Fixpoint shapes_from (shape : list nat) (o : list (lkind * mkind)) : option (list nat) :=
  match o with
  | [] => Some shape
  | (_, m) :: r => match out_shape shape m with Some s => shapes_from s r | None => None end
  end.

Definition input_shape (o : list (lkind * mkind)) : option (list nat) :=
  match find (fun p => is_conv (fst p)) o with
  | Some (_, MConv c dims _ _ _ _) => Some (c :: dims)
  | _ => match find (fun p => is_lin (fst p)) o with
         | Some (_, MDense n _) => Some [n]
         | _ => None
         end
  end.

Definition classes (ms : list mkind) : option nat :=
  match find (fun m => match m with MGroupSum _ => true | _ => false end) ms with
  | Some (MGroupSum k) => Some k
  | _ => None
  end.

(* the constructor: Some (order, final shape) or None (raises) *)
Definition parse (ms : list mkind) : option (list (lkind * mkind) * list nat) :=
  match layer_order ms with
  | None => None
  | Some o =>
      if parse_requires_logic_layer && negb (existsb (fun p => is_conv (fst p) || is_lin (fst p)) o) then None else
      if negb parse_calls_validate then
        match input_shape o with Some s => Some (o, s) | None => None end
      else
      if negb (groupsum_ok ms && struct_ok (existsb (fun m => match m with MGroupSum _ => true | _ => false end) ms) (map fst o)) then None else
      match input_shape o with
      | None => None
      | Some s0 =>
          match shapes_from s0 o with
          | None => None
          | Some s =>
              match classes ms with
              | Some k => if negb (check_on "classes_divide") || (negb (k =? 0) && (fold_right Nat.mul 1 s mod k =? 0))
                          then Some (o, s) else None
              | None => Some (o, s)
              end
          end
      end
  end.
