(* Model/GenStream.v — comparison of a LARGE parsed program (indices as binary N, so that the literal stays small) with the
   generator model gen_net, segment by segment and cell by cell: only one cell of gen_net is alive at a time, the unary
   indices of the generator side are converted and dropped.  Proved sound in Proofs/GenStreamFacts.v:
   gen_net_matchesN pN m = true -> to_prog pN = gen_net m. *)
From Coq Require Import List Bool Arith NArith.
From TLX Require Import Model.Bits Model.CLang Model.Netlist Model.Wiring Model.ConvNet Model.GenDense Model.GenNet.
Import ListNotations.

Inductive gexpN : Type :=
| NLoad (buf : nat) (idx : N) | NZero | NNot (e : gexpN)
| NAnd (e1 e2 : gexpN) | NOr (e1 e2 : gexpN) | NXor (e1 e2 : gexpN).
Inductive stmtN : Type := NAssign (buf : nat) (idx : N) (e : gexpN) | NMemcpy (dst src : nat) (n : N).
Record progN : Type := { sizesN : list N; bodyN : list stmtN }.

Fixpoint to_gexp (e : gexpN) : gexp :=
  match e with
  | NLoad b i => GLoad b (N.to_nat i) | NZero => GZero | NNot e => GNot (to_gexp e)
  | NAnd a b => GAnd (to_gexp a) (to_gexp b) | NOr a b => GOr (to_gexp a) (to_gexp b) | NXor a b => GXor (to_gexp a) (to_gexp b)
  end.
Definition to_stmt (s : stmtN) : stmt :=
  match s with NAssign b i e => SAssign b (N.to_nat i) (to_gexp e) | NMemcpy d s n => SMemcpy d s (N.to_nat n) end.
Definition to_prog (p : progN) : prog := {| sizes := map N.to_nat (sizesN p); body := map to_stmt (bodyN p) |}.

Fixpoint gexp_eqbN (a : gexpN) (b : gexp) : bool :=
  match a, b with
  | NLoad x i, GLoad y j => (x =? y) && N.eqb i (N.of_nat j)
  | NZero, GZero => true
  | NNot a, GNot b => gexp_eqbN a b
  | NAnd a1 a2, GAnd b1 b2 | NOr a1 a2, GOr b1 b2 | NXor a1 a2, GXor b1 b2 => gexp_eqbN a1 b1 && gexp_eqbN a2 b2
  | _, _ => false
  end.
Definition stmt_eqbN (a : stmtN) (b : stmt) : bool :=
  match a, b with
  | NAssign x i e, SAssign y j f => (x =? y) && N.eqb i (N.of_nat j) && gexp_eqbN e f
  | NMemcpy d s n, SMemcpy d' s' n' => (d =? d') && (s =? s') && N.eqb n (N.of_nat n')
  | _, _ => false
  end.

(* consume the statements ss from the front of pN *)
Fixpoint match_prefix (pN : list stmtN) (ss : list stmt) {struct ss} : option (list stmtN) :=
  match ss with
  | [] => Some pN
  | s :: r => match pN with
              | x :: pr => if stmt_eqbN x s then match_prefix pr r else None
              | [] => None
              end
  end.

(* cells q, q+1, .., q+n-1 of one segment *)
Fixpoint stream (f : nat -> list stmt) (q n : nat) (pN : list stmtN) : option (list stmtN) :=
  match n with
  | O => Some pN
  | S n' => match match_prefix pN (f q) with
            | Some rest => stream f (S q) n' rest
            | None => None
            end
  end.

Definition segment : Type := ((nat -> list stmt) * nat)%type.

Fixpoint stream_all (segs : list segment) (pN : list stmtN) : option (list stmtN) :=
  match segs with
  | [] => Some pN
  | (f, n) :: rest => match stream f 0 n pN with
                      | Some r => stream_all rest r
                      | None => None
                      end
  end.

(* gen_net as segments of cells *)
Fixpoint spatial_segments (loc : nat) (ls : list layer) (prev next base : nat) : list segment :=
  match ls with
  | [] => []
  | l :: rest =>
      (match l with
       | LConv cs => let P := prod (cv_out_dims cs) in
                     ((fun q => gen_conv_cell loc prev next cs (q / P) (q mod P)
                                  (base + (q / P * P + q mod P) * locals_per_cell (cv_depth cs))), cv_K cs * P)
       | LPool ps => let P := prod (pl_out_dims ps) in
                     ((fun q => gen_pool_cell prev next ps (q / P) (q mod P)), pl_C ps * P)
       | _ => ((fun _ => []), 0)
       end) :: spatial_segments loc rest next (S next) (base + layer_locals l)
  end.

Definition net_tail (m : spatial_model) : list stmt :=
  let nS := length (sm_spatial m) in
  let last_size := last (map layer_out_size (sm_spatial m)) 0 in
  let lin := 2 + nS in
  if sm_flat m then
    match sm_dense m with
    | [] => [SMemcpy lin (1 + nS) last_size; SMemcpy 1 lin last_size]
    | ds => SMemcpy lin (1 + nS) last_size :: gen_layers_ab lin (S lin) ds
    end
  else [SMemcpy 1 (1 + nS) last_size].

Definition net_loc (m : spatial_model) : nat :=
  2 + length (sm_spatial m) +
  (if sm_flat m then match sm_dense m with [] => 1 | _ => if 1 <? length (sm_dense m) then 2 else 1 end else 0).

Fixpoint sizes_eqbN (l1 : list N) (l2 : list nat) : bool :=
  match l1, l2 with
  | [], [] => true
  | a :: r1, b :: r2 => N.eqb a (N.of_nat b) && sizes_eqbN r1 r2
  | _, _ => false
  end.

Definition gen_net_matchesN (p : progN) (m : spatial_model) : bool :=
  sizes_eqbN (sizesN p) (sizes (gen_net m)) &&
  match stream_all (spatial_segments (net_loc m) (sm_spatial m) 0 2 0) (bodyN p) with
  | Some rest => match match_prefix rest (net_tail m) with Some [] => true | _ => false end
  | None => false
  end.

(* diagnostics only: how many statements matched before the first difference *)
Fixpoint matched_prefix (pN : list stmtN) (ss : list stmt) (acc : N) {struct ss} : N * option (list stmtN) :=
  match ss with
  | [] => (acc, Some pN)
  | s :: r => match pN with
              | x :: pr => if stmt_eqbN x s then matched_prefix pr r (N.succ acc) else (acc, None)
              | [] => (acc, None)
              end
  end.
Fixpoint matched_stream (f : nat -> list stmt) (q n : nat) (pN : list stmtN) (acc : N) : N * option (list stmtN) :=
  match n with
  | O => (acc, Some pN)
  | S n' => match matched_prefix pN (f q) acc with
            | (a, Some rest) => matched_stream f (S q) n' rest a
            | (a, None) => (a, None)
            end
  end.
Fixpoint matched_all (segs : list segment) (pN : list stmtN) (acc : N) : N * option (list stmtN) :=
  match segs with
  | [] => (acc, Some pN)
  | (f, n) :: rest => match matched_stream f 0 n pN acc with
                      | (a, Some r) => matched_all rest r a
                      | (a, None) => (a, None)
                      end
  end.
Definition first_mismatch (p : progN) (m : spatial_model) : N :=
  match matched_all (spatial_segments (net_loc m) (sm_spatial m) 0 2 0) (bodyN p) 0%N with
  | (a, Some rest) => fst (matched_prefix rest (net_tail m) a)
  | (a, None) => a
  end.
