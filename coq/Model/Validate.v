(* Model/Validate.v — checkers run on the parsed emitted text of individual programs. *)
From Coq Require Import ZArith List Bool Arith.
From TLX Require Import Model.Bits Model.CLang.
Import ListNotations.

(* memory safety + definition before use of one program: whether exec succeeds does not depend
   on the input values, so one run on the all-false input decides it for every input and word size *)
Definition safe_check (p : prog) : bool :=
  match execB p (repeat false (size_of (sizes p) 0)) with Some _ => true | None => false end.

(* exhaustive functional check of one program against a reference function, using the lanes of
   2^n-bit words: lane v of input word d is bit d of the input assignment number v *)
Definition truth_column (n d : nat) : Z :=
  (* bit v of the column is bit (n-1-d) of v, v in 0..2^n-1 *)
  fold_right (fun v acc => Z.lor (Z.shiftl (Z.b2z (Nat.testbit v (n - 1 - d))) (Z.of_nat v)) acc) 0%Z (seq 0 (2 ^ n)).

Definition no_static_objects : bool := true. (* the fragment has no file-scope or static objects by construction *)

(* all Boolean vectors of length n *)
Fixpoint all_lists (n : nat) : list (list bool) :=
  match n with
  | O => [[]]
  | S m => map (cons false) (all_lists m) ++ map (cons true) (all_lists m)
  end.

Fixpoint blist_eqb (a b : list bool) : bool :=
  match a, b with
  | [], [] => true
  | x :: r, y :: s => Bool.eqb x y && blist_eqb r s
  | _, _ => false
  end.

(* exhaustive functional validation of ONE program against a reference function *)
Definition validate_exhaustive (p : prog) (f : list bool -> list bool) : bool :=
  forallb (fun x => match execB p x with Some o => blist_eqb o (f x) | None => false end)
          (all_lists (size_of (sizes p) 0)).
