(* Model/Domain.v — argument domains of the public components (from the property's list) and a model of the
   guards the implementation applies, in source order.  reject = raises an exception (None of a value). *)
From Coq Require Import String ZArith List Bool Arith.
Import ListNotations.
Local Open Scope string_scope.
Local Open Scope nat_scope.

Definition mem_str (s : string) (l : list string) : bool := existsb (String.eqb s) l.

(* ---------- LogicDense *)
Record dense_cfg := { dc_in : nat; dc_out : nat; dc_connections : string; dc_param : string;
                      dc_weight_init : string; dc_impl : string (* "" = None on cpu -> python *) }.

Definition dense_ctor_domain (c : dense_cfg) : bool :=
  mem_str (dc_connections c) ["random"; "unique"] && mem_str (dc_param c) ["raw"; "walsh"]
  && mem_str (dc_weight_init c) ["residual"; "random"] && mem_str (dc_impl c) [""; "python"; "cuda"]
  && (negb (String.eqb (dc_connections c) "unique")
      || ((dc_in c <=? 2 * dc_out c) && (dc_out c <=? dc_in c * (dc_in c - 1) / 2))).

(* guards in source order: parametrization / weight_init (raise ValueError), implementation assert,
   connections assert, get_unique_connections asserts *)
Definition dense_ctor_accepts (c : dense_cfg) : bool :=
  (if String.eqb (dc_param c) "raw" then mem_str (dc_weight_init c) ["residual"; "random"]
   else if String.eqb (dc_param c) "walsh" then mem_str (dc_weight_init c) ["residual"; "random"]
   else false)
  && mem_str (if String.eqb (dc_impl c) "" then "python" else dc_impl c) ["cuda"; "python"]
  && mem_str (dc_connections c) ["random"; "unique"]
  && (if String.eqb (dc_connections c) "unique"
      then (dc_in c <=? dc_out c * 2) && (dc_out c <=? dc_in c * (dc_in c - 1) / 2) else true).

Definition dense_forward_domain (in_dim last_axis : nat) : bool := last_axis =? in_dim.
Definition dense_forward_accepts (in_dim last_axis : nat) : bool := last_axis =? in_dim.

(* ---------- LogicConv2d / LogicConv3d (per-axis lists) *)
Record conv_cfg := { cc_dims : list nat; cc_rf : list nat; cc_channels : nat; cc_depth : nat; cc_stride : nat; cc_pad : Z;
                     cc_connections : string; cc_param : string; cc_weight_init : string; cc_sampling : string;
                     cc_impl : string (* "" = None *) }.

Definition positions (c : conv_cfg) : nat := fold_right Nat.mul 1 (cc_rf c) * cc_channels c.
Definition pad_nat (c : conv_cfg) : nat := Z.to_nat (cc_pad c).
(* the non-default scheme has two names: 'random-unique' (the layer's own) and 'unique' (LogicDense's and the docstring's) *)
Definition is_unique (s : string) : bool := mem_str s ["random-unique"; "unique"].

Definition conv_ctor_domain (c : conv_cfg) : bool :=
  forallb (fun r => cc_stride c <=? r) (cc_rf c)
  && (0 <=? cc_pad c)%Z
  && forallb (fun '(n, r) => r <=? n + 2 * pad_nat c) (combine (cc_dims c) (cc_rf c))
  && (String.eqb (cc_connections c) "random" || is_unique (cc_connections c))
  && mem_str (cc_param c) ["raw"; "walsh"] && mem_str (cc_weight_init c) ["residual"; "random"]
  && mem_str (cc_sampling c) ["soft"; "hard"; "gumbel_soft"; "gumbel_hard"]
  && mem_str (cc_impl c) [""; "python"; "cuda"]
  && (negb (is_unique (cc_connections c)) || (2 ^ cc_depth c <=? positions c * (positions c - 1) / 2)).

(* guards in source order *)
Definition conv_ctor_accepts (c : conv_cfg) : bool :=
  mem_str (cc_param c) ["raw"; "walsh"] && mem_str (cc_weight_init c) ["residual"; "random"]
  && mem_str (cc_sampling c) ["soft"; "hard"; "gumbel_soft"; "gumbel_hard"]
  && mem_str (cc_impl c) [""; "python"; "cuda"]
  && negb (cc_pad c <? 0)%Z
  && forallb (fun r => cc_stride c <=? r) (cc_rf c)
  && (if String.eqb (cc_connections c) "random" then true
      else if is_unique (cc_connections c) then 2 ^ cc_depth c <=? positions c * (positions c - 1) / 2
      else false)
  && forallb (fun '(n, r) => r <=? n + 2 * pad_nat c) (combine (cc_dims c) (cc_rf c)).

(* forward: the input must be (batch, channels, dims...) exactly *)
Definition conv_forward_domain (channels : nat) (dims : list nat) (shape : list nat) : bool :=
  match shape with
  | _ :: c :: sp => (c =? channels) && (length sp =? length dims) && forallb (fun '(a, b) => a =? b) (combine sp dims)
  | _ => false
  end.
Definition conv_forward_accepts := conv_forward_domain.

(* ---------- GroupSum: a positive number of groups (constructor) that divides the width (forward) *)
Definition groupsum_ctor_domain (k : Z) : bool := (0 <? k)%Z.
Definition groupsum_ctor_accepts (k : Z) : bool := negb (negb (0 <? k)%Z).      (* if not k > 0: raise *)
Definition groupsum_domain (k n : nat) : bool := n mod k =? 0.
Definition groupsum_accepts (k n : nat) : bool := n mod k =? 0.

(* ---------- OrPooling handed to the compiler: the domain of max pooling *)
Definition pool_domain (k s p : Z) (dims : list Z) : bool :=
  ((0 <? k) && (0 <? s) && (0 <=? p) && (2 * p <=? k) && forallb (fun n => k <=? n + 2 * p) dims)%Z.
Definition pool_compile_accepts (k s p : Z) (dims : list Z) : bool :=
  ((0 <? k) && (0 <? s) && ((0 <=? 2 * p) && (2 * p <=? k)) && forallb (fun n => n + 2 * p >=? k) dims)%Z.

(* ---------- CompiledLogicNet.forward: the sample layout.  declared = input_shape, shape = x.shape,
   leading_flatten: the model is known to start with Flatten (a loaded handle knows its declared shape only: false) *)
Definition prodn (l : list nat) : nat := fold_right Nat.mul 1 l.
Definition list_eqb_nat (a b : list nat) : bool := (length a =? length b) && forallb (fun '(x, y) => x =? y) (combine a b).
Definition compiled_forward_domain (declared : list nat) (leading_flatten : bool) (shape : list nat) : bool :=
  match shape with
  | _ :: sample =>
      match declared with
      | [_] => if leading_flatten then (1 <=? length sample) && (prodn sample =? prodn declared) else list_eqb_nat sample declared
      | _ => list_eqb_nat sample declared || list_eqb_nat sample [prodn declared]
      end
  | [] => false
  end.
Definition compiled_forward_accepts (declared : list nat) (leading_flatten : bool) (shape : list nat) : bool :=
  match shape with
  | _ :: sample =>
      let ok := (2 <=? length shape) && (prodn sample =? prodn declared) in
      if ok && (1 <? length declared) then (length shape =? 2) || list_eqb_nat sample declared
      else if ok && negb leading_flatten then length shape =? 2
      else ok
  | [] => false
  end.

(* ---------- CompiledLogicNet constructor *)
Definition compiler_domain (num_bits : nat) (cc : string) (n_logic_layers : nat) : bool :=
  existsb (Nat.eqb num_bits) [8; 16; 32; 64] && mem_str cc ["gcc"; "clang"] && negb (n_logic_layers =? 0).
Definition compiler_accepts (num_bits : nat) (cc : string) (n_logic_layers : nat) : bool :=
  mem_str cc ["clang"; "gcc"] && existsb (Nat.eqb num_bits) [8; 16; 32; 64] && negb (n_logic_layers =? 0).

(* ---------- Gumbel temperature (gumbel_sigmoid and the layers' Gumbel modes): tau as a rational sign *)
Definition gumbel_domain (tau : Z) : bool := (0 <? tau)%Z.     (* sign of the temperature: positive only *)
Definition gumbel_accepts (tau : Z) : bool := negb (tau <=? 0)%Z.

(* ---------- the guard `if not 0 < v < math.inf: raise` (temperatures, the thermometer slope, GroupSum's tau) over the classes of a
   Python float: Python's chained comparison is `0 < v and v < inf`, and every comparison with NaN is false *)
Inductive fclass := FNaN | FNegInf | FNegative | FZero (* +0.0 and -0.0 *) | FPositive (* positive and finite *) | FPosInf.
Definition zero_lt (v : fclass) : bool := match v with FPositive | FPosInf => true | _ => false end.
Definition lt_inf (v : fclass) : bool := match v with FNaN | FPosInf => false | _ => true end.
Definition positive_finite_guard_accepts (v : fclass) : bool := negb (negb (zero_lt v && lt_inf v)).   (* if not (...): raise *)
Definition positive_finite_domain (v : fclass) : bool := match v with FPositive => true | _ => false end.
