(* Model/Walsh.v — Walsh-parametrised neurons over exact rationals (every float is a rational):
   eval output, the reported gate id (LogicDense.get_gate_ids) and the compiler's discretisation. *)
From Coq Require Import QArith List Bool Arith.
From TLX Require Import Model.Bits Gen.Walsh.
Import ListNotations.
Local Open Scope Q_scope.

Definition wvec : Type := (Q * Q * Q * Q)%type.

(* w0 + w1*A + w2*B + w3*A*B in the association order of the source *)
Definition form (w : wvec) (A B : Q) : Q :=
  let '(w0, w1, w2, w3) := w in w0 + w1 * A + w2 * B + w3 * A * B.

Definition cmpq (k : cmp_kind) (x t : Q) : bool :=
  match k with
  | CmpGt => negb (Qle_bool x t)
  | CmpGe => Qle_bool t x
  | CmpLt => negb (Qle_bool t x)
  | CmpLe => Qle_bool x t
  end.

(* Boolean input a -> A = 2a - 1 in {-1, +1} *)
Definition pm (a : bool) : Q := if a then 1 # 1 else (-1) # 1.

(* eval mode of a dense / conv Walsh neuron on Boolean inputs *)
Definition walsh_eval (w : wvec) (a b : bool) : bool :=
  cmpq dense_walsh_eval_cmp (form w (pm a) (pm b)) dense_walsh_eval_threshold.
Definition walsh_eval_conv (w : wvec) (a b : bool) : bool :=
  cmpq conv_walsh_eval_cmp (form w (pm a) (pm b)) conv_walsh_eval_threshold.

(* get_gate_ids: predictions at the corners, Hamming distance to every truth table, argmin (first minimum) *)
Definition preds (w : wvec) : list bool :=
  map (fun c => cmpq gate_id_cmp (form w (fst c) (snd c)) gate_id_threshold) gate_id_corners.

Definition hamming (p t : list bool) : nat := length (filter (fun x => negb (Bool.eqb (fst x) (snd x))) (combine p t)).

Fixpoint argmin_from (best : nat) (bi i : nat) (l : list nat) : nat :=
  match l with
  | [] => bi
  | x :: r => if x <? best then argmin_from x i (S i) r else argmin_from best bi (S i) r
  end.
Definition argmin (l : list nat) : nat := match l with [] => 0%nat | x :: r => argmin_from x 0 1 r end.

Definition gate_of_preds (p : list bool) : nat := argmin (map (hamming p) gate_id_truth_tables).
Definition walsh_gate_id (w : wvec) : nat := gate_of_preds (preds w).

(* compiled_model._walsh_gate_ids: ids = 2*ids + [form cmp thr] over the corners in loop order *)
Definition compiler_gate_id (w : wvec) : nat :=
  fold_left (fun ids c => (2 * ids + Nat.b2n (cmpq compiler_cmp (form w (fst c) (snd c)) compiler_threshold))%nat)
            compiler_corners 0%nat.

(* gate of one of the built-in coefficient vectors *)
Definition sign_pattern_id (w : wvec) : nat :=
  (8 * Nat.b2n (walsh_eval w false false) + 4 * Nat.b2n (walsh_eval w false true)
   + 2 * Nat.b2n (walsh_eval w true false) + Nat.b2n (walsh_eval w true true))%nat.

Definition corner_values (w : wvec) : list Q :=
  [form w (pm false) (pm false); form w (pm false) (pm true); form w (pm true) (pm false); form w (pm true) (pm true)].
