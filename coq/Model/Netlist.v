(* Model/Netlist.v — the reference circuit, written from the property's words:
   each neuron is the table `tt g` of its two wired inputs. *)
From Coq Require Import ZArith List Bool Arith.
From TLX Require Import Model.Bits.
Import ListNotations.

Notation neuron := (nat * nat * nat)%type.     (* (a, b, gate id) *)
Notation dense_layer := (list (nat * nat * nat)).

Definition eval_neuron (x : list bool) (n : neuron) : bool :=
  let '(a, b, g) := n in tt g (nth a x false) (nth b x false).

Definition eval_dense (l : dense_layer) (x : list bool) : list bool := map (eval_neuron x) l.

Fixpoint eval_dense_net (ls : list dense_layer) (x : list bool) : list bool :=
  match ls with
  | [] => x
  | l :: rest => eval_dense_net rest (eval_dense l x)
  end.

Definition wf_neuron (n_in : nat) (n : neuron) : bool :=
  let '(a, b, g) := n in (a <? n_in) && (b <? n_in) && (g <? 16).

(* well-formed: every wire refers to an existing input of its layer, gate ids < 16,
   every layer non-empty *)
Fixpoint wf_dense_net (n_in : nat) (ls : list dense_layer) : bool :=
  match ls with
  | [] => true
  | l :: rest => negb (length l =? 0) && forallb (wf_neuron n_in) l && wf_dense_net (length l) rest
  end.

(* per-class popcount: k consecutive groups of length (n / k) *)
Fixpoint count_true (l : list bool) : Z :=
  match l with [] => 0%Z | b :: r => (Z.b2z b + count_true r)%Z end.

(* k consecutive groups of g = n / k outputs: group c is outputs c*g .. c*g + g - 1 *)
Definition group_counts (k g : nat) (bits : list bool) : list Z :=
  map (fun c => count_true (map (fun a => nth (c * g + a) bits false) (seq 0 g))) (seq 0 k).
