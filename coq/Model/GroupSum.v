(* Model/GroupSum.v — GroupSum.forward along the last axis, over exact rationals. *)
From Coq Require Import ZArith QArith List Bool Arith.
From TLX Require Import Model.Netlist Gen.GroupSumSrc.
Import ListNotations.

Definition qsum (l : list Q) : Q := fold_right Qplus 0%Q l.

(* x.reshape(.., k, n // k).sum(-1): group c = elements c*g .. c*g+g-1 *)
Definition group_sums (k g : nat) (x : list Q) : list Q :=
  map (fun c => qsum (map (fun a => nth (c * g + a) x 0%Q) (seq 0 g))) (seq 0 k).

(* None = AssertionError *)
Definition groupsum (k : nat) (tau beta : Q) (x : list Q) : option (list Q) :=
  if gs_guard_divisible && negb (length x mod k =? 0) then None
  else Some (map (fun s => match gs_form with
                           | SumPlusBetaOverTau => Qdiv (Qplus s beta) tau
                           end) (group_sums k (length x / k) x)).

(* any leading batch shape: the same function on every index of the leading axes *)
Definition groupsum_batch (k : nat) (tau beta : Q) (xs : list (list Q)) : list (option (list Q)) :=
  map (groupsum k tau beta) xs.

Definition b2q (b : bool) : Q := if b then 1%Q else 0%Q.
