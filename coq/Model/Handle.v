(* Model/Handle.v — the life of ONE CompiledLogicNet object whose container changes between operations.

   The object holds (i) the model it was given (a container that user code may change at any time), (ii) the layer tables of a parse
   (class count, sizes, layer order): forward() sizes and interprets its buffers from them, (iii) the installed library.
   Operations: the container becomes model m; get_c_code() (the documented export); compile(); a call.
   Model 0 stands for a container the compiler refuses.  Two disciplines for the tables:
     TablesOnParse     - every parse (get_c_code, compile - also one that is then refused) rewrites the tables of the object
                         (the code between the repairs F54 and F67);
     TablesWithLibrary - the translation works on a copy; the tables change only when compile() installs a new library, together
                         with it (the code since F67, read from the source by the translators Parse and LibIO). *)
From Coq Require Import List Arith Bool.
Import ListNotations.

Inductive tables_discipline := TablesOnParse | TablesWithLibrary.
Inductive hop := HSet (m : nat) | HGetCode | HCompile | HCall.
Inductive hout := HOk | HRefused | HValue (m : nat) | HGarbage | HNoLibrary.

Record hstate := { cur : nat; described : nat; lib : option nat }.
Definition supported (m : nat) : bool := negb (m =? 0).
(* the constructor parses the model it is given *)
Definition hinit (m0 : nat) : hstate := {| cur := m0; described := m0; lib := None |}.

Definition hstep (d : tables_discipline) (s : hstate) (o : hop) : hstate * hout :=
  match o with
  | HSet m => ({| cur := m; described := described s; lib := lib s |}, HOk)
  | HGetCode =>
      let desc' := match d with TablesOnParse => cur s | TablesWithLibrary => described s end in
      ({| cur := cur s; described := desc'; lib := lib s |}, if supported (cur s) then HOk else HRefused)
  | HCompile =>
      if supported (cur s) then ({| cur := cur s; described := cur s; lib := Some (cur s) |}, HOk)
      else ({| cur := cur s; described := match d with TablesOnParse => cur s | TablesWithLibrary => described s end; lib := lib s |}, HRefused)
  | HCall =>
      match lib s with
      | None => (s, HNoLibrary)
      | Some l => (s, if described s =? l then HValue l else HGarbage)
      end
  end.

Fixpoint hrun (d : tables_discipline) (s : hstate) (ops : list hop) : list hout :=
  match ops with [] => [] | o :: r => let '(s', out) := hstep d s o in out :: hrun d s' r end.

(* specification: a call returns the model of the last successful compile *)
Record hspec := { s_cur : nat; s_installed : option nat }.
Definition hspec_step (a : hspec) (o : hop) : hspec * hout :=
  match o with
  | HSet m => ({| s_cur := m; s_installed := s_installed a |}, HOk)
  | HGetCode => (a, if supported (s_cur a) then HOk else HRefused)
  | HCompile => if supported (s_cur a) then ({| s_cur := s_cur a; s_installed := Some (s_cur a) |}, HOk) else (a, HRefused)
  | HCall => (a, match s_installed a with Some l => HValue l | None => HNoLibrary end)
  end.
Fixpoint hspec_run (a : hspec) (ops : list hop) : list hout :=
  match ops with [] => [] | o :: r => let '(a', out) := hspec_step a o in out :: hspec_run a' r end.
