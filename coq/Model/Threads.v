(* Model/Threads.v — several threads calling compiled networks concurrently, at the granularity of one C statement.

   Every thread performs a list of calls `logic_net_l(inp)` (library l, input words inp), one after the other.  The
   statements of the calls of different threads are interleaved by an arbitrary schedule (a list of thread numbers).

   Storage of a call, as in the emitted code:
     buffer 0 (inp) and buffer 1 (out) are the caller's arrays (`inp_temp` / `out_temp` of apply_logic_net, allocated per
       call of the wrapper, or the rows handed over by the host code): private to the thread.  `out` is NOT cleared between
       calls — the wrapper calls logic_net once per machine word on the same arrays — so it starts with the thread's stale
       contents;
     buffers >= 2 are the arrays declared inside logic_net.  Their storage class is a parameter:
       Private  — automatic arrays or `static __thread` arrays: one copy per thread; at the start of a call they hold
                  arbitrary contents (uninitialised stack, or whatever the thread's previous call left there);
       Shared   — plain `static` arrays: one copy per library for all threads, kept between calls.
   A read of a cell that holds nothing (index outside the declared size, or — only possible for the initial garbage `None` —
   a never-written cell) makes the thread stuck. *)
From Coq Require Import ZArith List Bool Arith.
From TLX Require Import Model.Bits Model.CLang.
Import ListNotations.

Inductive storage := Automatic | ThreadLocal | SharedStatic.
Definition private_storage (s : storage) : bool := match s with SharedStatic => false | _ => true end.

Section Threads.
  Context {V : Type}.
  Variables (vzero : V) (vnot : V -> V) (vand vor vxor : V -> V -> V) (vstore : V -> V).
  Notation mem := (@mem V).
  Notation step1 := (@exec_stmt V vzero vnot vand vor vxor vstore).

  Record thread : Type := {
    t_calls : list (nat * list V);          (* calls still to be made: (library, input) *)
    t_cur : option (nat * list stmt);        (* the call in progress: library and remaining statements *)
    t_priv : mem;                            (* the thread's own arrays: buffers 0 and 1 *)
    t_tls : nat -> mem;                      (* per library: the thread's copy of the declared buffers (Private storage) *)
    t_results : list (list V);               (* results of the finished calls, oldest first *)
    t_stuck : bool }.

  Record world : Type := { w_threads : list thread; w_shared : nat -> mem (* per library, Shared storage *) }.

  Definition view (priv stat : mem) : mem := fun b i => if b <? 2 then priv b i else stat b i.

  Definition set_lib (f : nat -> mem) (l : nat) (m : mem) : nat -> mem := fun l' => if l' =? l then m else f l'.

  Fixpoint set_nth {A} (l : list A) (n : nat) (x : A) : list A :=
    match l, n with
    | [], _ => []
    | _ :: r, 0 => x :: r
    | y :: r, S n => y :: set_nth r n x
    end.

  Definition stuck_thread (t : thread) : thread :=
    {| t_calls := t_calls t; t_cur := t_cur t; t_priv := t_priv t; t_tls := t_tls t; t_results := t_results t; t_stuck := true |}.

  (* one step of thread t of the world: returns the new thread and the new shared store *)
  Definition step_thread (shared_static : bool) (libs : list prog) (t : thread) (sh : nat -> mem) : thread * (nat -> mem) :=
    if t_stuck t then (t, sh) else
    match t_cur t with
    | None =>
        match t_calls t with
        | [] => (t, sh)
        | (l, inp) :: rest =>
            match nth_error libs l with
            | None => (stuck_thread t, sh)
            | Some p =>
                if negb (length inp =? size_of (sizes p) 0) then (stuck_thread t, sh) else
                ({| t_calls := rest; t_cur := Some (l, body p);
                    t_priv := (fun b i => if b =? 0 then nth_error inp i else t_priv t b i);
                    t_tls := t_tls t; t_results := t_results t; t_stuck := false |}, sh)
            end
        end
    | Some (l, ss) =>
        match nth_error libs l with
        | None => (stuck_thread t, sh)
        | Some p =>
            let stat := if shared_static then sh l else t_tls t l in
            let m := view (t_priv t) stat in
            match ss with
            | [] =>
                match read_all m 1 (seq 0 (size_of (sizes p) 1)) with
                | Some out => ({| t_calls := t_calls t; t_cur := None; t_priv := t_priv t; t_tls := t_tls t;
                                  t_results := t_results t ++ [out]; t_stuck := false |}, sh)
                | None => (stuck_thread t, sh)
                end
            | s :: rest =>
                match step1 (sizes p) m s with
                | None => (stuck_thread t, sh)
                | Some m' =>
                    ({| t_calls := t_calls t; t_cur := Some (l, rest); t_priv := m';
                        t_tls := if shared_static then t_tls t else set_lib (t_tls t) l m';
                        t_results := t_results t; t_stuck := false |},
                     if shared_static then set_lib sh l m' else sh)
                end
            end
        end
    end.

  Definition step_world (shared_static : bool) (libs : list prog) (w : world) (k : nat) : world :=
    match nth_error (w_threads w) k with
    | None => w
    | Some t => let '(t', sh') := step_thread shared_static libs t (w_shared w) in
                {| w_threads := set_nth (w_threads w) k t'; w_shared := sh' |}
    end.

  Definition run_schedule (shared_static : bool) (libs : list prog) (w : world) (sched : list nat) : world :=
    fold_left (step_world shared_static libs) sched w.

  (* a thread that has made no call yet: arbitrary garbage in its own arrays and in its copies of the buffers *)
  Definition fresh_thread (calls : list (nat * list V)) (garbage_priv : mem) (garbage_tls : nat -> mem) : thread :=
    {| t_calls := calls; t_cur := None; t_priv := garbage_priv; t_tls := garbage_tls; t_results := []; t_stuck := false |}.

  Definition finished (t : thread) : bool :=
    match t_cur t, t_calls t with None, [] => negb (t_stuck t) | _, _ => false end.

  (* what a call returns when it runs alone on fresh memory *)
  Definition expected (libs : list prog) (c : nat * list V) : option (list V) :=
    match nth_error libs (fst c) with
    | Some p => @exec V vzero vnot vand vor vxor vstore p (snd c)
    | None => None
    end.

  (* every call of the list succeeds when made alone (right input length, memory safe, defined before use: what C11 proves
     of every generated program) *)
  Definition good_calls (libs : list prog) (calls : list (nat * list V)) : Prop := Forall (fun c => expected libs c <> None) calls.

  (* number of scheduler turns a call needs: start, one per statement, return *)
  Definition call_work (libs : list prog) (c : nat * list V) : nat :=
    match nth_error libs (fst c) with Some p => 2 + length (body p) | None => 1 end.
End Threads.

(* word instance: W-bit signed storage, as execZ *)
Definition run_scheduleZ (W : Z) := @run_schedule Z 0%Z Z.lnot Z.land Z.lor Z.lxor (wrap W).
Definition expectedZ (W : Z) := @expected Z 0%Z Z.lnot Z.land Z.lor Z.lxor (wrap W).
Definition good_callsZ (W : Z) := @good_calls Z 0%Z Z.lnot Z.land Z.lor Z.lxor (wrap W).

(* Boolean instance used for the concrete schedules *)
Definition step_worldB := @step_world bool false negb andb orb xorb (fun b => b).
Definition run_scheduleB := @run_schedule bool false negb andb orb xorb (fun b => b).
Definition no_garbage : @mem bool := fun _ _ => None.
Definition results_of (w : @world bool) : list (list (list bool)) := map (@t_results bool) (w_threads w).
Definition stuck_of (w : @world bool) : list bool := map (@t_stuck bool) (w_threads w).
