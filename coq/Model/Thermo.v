(* Model/Thermo.v — LearnableThermometerThresholding over R.
   torch.nn.functional.softplus(x) (beta=1, threshold=20) returns x itself for x > 20; torch.round rounds half to even. *)
From Coq Require Import Reals List ZArith.
From Flocq Require Import Core.Raux Core.Generic_fmt Core.Round_NE.
From TLX Require Import Model.Relax.
Import ListNotations.
Local Open Scope R_scope.

Definition softplus (x : R) : R := if Rlt_dec 20 x then x else ln (1 + exp x).
(* inverse used by the constructor: where(d > 20, d, log(expm1(d))) *)
Definition softplus_inv (dd : R) : R := if Rlt_dec 20 dd then dd else ln (exp dd - 1).

Fixpoint cumsum_from (acc : R) (l : list R) : list R :=
  match l with [] => [] | x :: r => (acc + x) :: cumsum_from (acc + x) r end.
Definition cumsum := cumsum_from 0.

(* torch.diff(t, prepend=0) *)
Fixpoint diff_from (prev : R) (l : list R) : list R :=
  match l with [] => [] | x :: r => (x - prev) :: diff_from x r end.
Definition diff0 := diff_from 0.

Record layer : Type := { raw_diffs : list R; frozen : bool; slope : R }.

Definition init (ts : list R) (sl : R) : layer := {| raw_diffs := map softplus_inv (diff0 ts); frozen := false; slope := sl |}.

Definition thresholds (l : layer) : list R :=
  if frozen l then cumsum (raw_diffs l) else cumsum (map softplus (raw_diffs l)).

Definition rnd (x : R) : R := IZR (ZnearestE x).

Definition freeze (l : layer) : layer :=
  {| raw_diffs := diff0 (map rnd (thresholds l)); frozen := true; slope := slope l |}.

(* encoding of one input value x: one entry per threshold *)
Definition hard_bit (x t : R) : R := if Rlt_dec t x then 1 else 0.
(* (tanh(slope (x - t)) + 1) / 2 = logistic(2 slope (x - t)) *)
Definition soft_bit (sl x t : R) : R := sigmoid (2 * (sl * (x - t))).
Definition encode (l : layer) (x : R) : list R :=
  map (if frozen l then hard_bit x else soft_bit (slope l) x) (thresholds l).
