(* Model/ConvNet.v — reference circuit for logic convolutions (2-D / 3-D), OR pooling, Flatten and
   dense layers, written from the property's words: every neuron is the table `tt g` of its two wired
   inputs, zeros outside the padded image, OR over the clipped pooling window, trees reduced level by
   level, one shared gate tree per kernel applied to every window.
   Activations are flat lists in (C, x1, x2[, x3]) row-major order. *)
From Coq Require Import List Arith Bool.
From TLX Require Import Model.Bits Model.Netlist Model.Wiring.
Import ListNotations.

Definition out_len (n pad rf s : nat) : nat := (n + 2 * pad - rf) / s + 1.

Fixpoint flat_index (dims coords : list nat) (acc : nat) : nat :=
  match dims, coords with
  | n :: ds, x :: xs => flat_index ds xs (acc * n + x)
  | _, _ => acc
  end.

Fixpoint forallb2 {A B} (f : A -> B -> bool) (l1 : list A) (l2 : list B) : bool :=
  match l1, l2 with
  | a :: r1, b :: r2 => f a b && forallb2 f r1 r2
  | [], [] => true
  | _, _ => false
  end.

Definition prod (l : list nat) : nat := fold_right Nat.mul 1 l.

(* ---------- convolution *)
Record conv_spec : Type := {
  cv_dims : list nat;                          (* spatial input size per axis *)
  cv_C : nat; cv_K : nat; cv_depth : nat;
  cv_rf : list nat;                            (* receptive field per axis *)
  cv_stride : nat; cv_pad : nat;
  cv_rel_a : list (list (list nat * nat));     (* [kernel][gate] -> (position inside the field, channel) *)
  cv_rel_b : list (list (list nat * nat));
  cv_gates : list (list (list nat))            (* [level][node][kernel] -> gate id *)
}.

Definition cv_out_dims (cs : conv_spec) : list nat :=
  map (fun '(n, r) => out_len n (cv_pad cs) r (cv_stride cs)) (combine (cv_dims cs) (cv_rf cs)).

Definition in_image (dims : list nat) (pad : nat) (q : list nat) : bool :=
  forallb2 (fun n x => (pad <=? x) && (x <? n + pad)) dims q.

(* window start of output position p: stride * (p unravelled over the output grid) *)
Definition window_start (cs : conv_spec) (p : nat) : list nat :=
  map (fun q => q * cv_stride cs) (unravel (cv_out_dims cs) p).

Definition abs_pos (start rel : list nat) : list nat := map (fun '(s, r) => r + s) (combine start rel).

(* the absolute (padded) index tensor of the implementation: [kernel][pos][gate] -> coords ++ [channel] *)
Definition sliding_indices (cs : conv_spec) (rel : list (list (list nat * nat))) : list (list (list (list nat))) :=
  map (fun kr => map (fun p => map (fun '(r, c) => abs_pos (window_start cs p) r ++ [c]) kr)
                     (seq 0 (prod (cv_out_dims cs)))) rel.

Definition gate_at (gates : list (list (list nat))) (level node k : nat) : nat :=
  nth k (nth node (nth level gates []) []) 0.

(* Generic in the value type V and in the per-node function fn level node kernel : V -> V -> V, which
   may depend on the tree node and the kernel but NOT on the output position.  V = bool with the gate
   tables gives eval mode; V = R with the soft mixtures gives training mode. *)
Section GenericConv.
  Context {V : Type} (dflt : V) (fn : nat -> nat -> nat -> V -> V -> V).

  Fixpoint tree_levels (k : nat) (level : nat) (n_levels : nat) (cur : list V) : list V :=
    match n_levels with
    | O => cur
    | S m => tree_levels k (S level) m
               (map (fun j => fn level j k (nth (2 * j) cur dflt) (nth (2 * j + 1) cur dflt))
                    (seq 0 (length cur / 2)))
    end.

  (* the gate tree of kernel k as a function of the window contents: it does not mention the position *)
  Definition kernel_tree (cs : conv_spec) (k : nat) (win : nat -> list nat -> V) : V :=
    let ra := nth k (cv_rel_a cs) [] in
    let rb := nth k (cv_rel_b cs) [] in
    let leaves := map (fun g => fn 0 g k
                                   (let '(r, c) := nth g ra ([], 0) in win c r)
                                   (let '(r, c) := nth g rb ([], 0) in win c r))
                      (seq 0 (2 ^ cv_depth cs)) in
    nth 0 (tree_levels k 1 (cv_depth cs) leaves) dflt.

  (* value of the zero-padded image at padded coordinates q, channel c *)
  Definition read_padded (dims : list nat) (pad : nat) (x : list V) (c : nat) (q : list nat) : V :=
    if in_image dims pad q then nth (flat_index dims (map (fun v => v - pad) q) c) x dflt else dflt.

  (* the receptive-field window at output position p of the zero-padded input *)
  Definition window (cs : conv_spec) (x : list V) (p : nat) (c : nat) (r : list nat) : V :=
    read_padded (cv_dims cs) (cv_pad cs) x c (abs_pos (window_start cs p) r).

  Definition conv_eval_g (cs : conv_spec) (x : list V) : list V :=
    flat_map (fun k => map (fun p => kernel_tree cs k (window cs x p)) (seq 0 (prod (cv_out_dims cs)))) (seq 0 (cv_K cs)).
End GenericConv.

(* eval mode: Booleans, node function = truth table of the node's gate, zero padding = false *)
Definition conv_eval (cs : conv_spec) (x : list bool) : list bool :=
  conv_eval_g false (fun level node k => tt (gate_at (cv_gates cs) level node k)) cs x.

(* ---------- OR pooling (max pooling with -inf padding on 0/1 values) *)
Record pool_spec : Type := { pl_dims : list nat; pl_C : nat; pl_kernel : nat; pl_stride : nat; pl_pad : nat }.

Definition pl_out_dims (ps : pool_spec) : list nat :=
  map (fun n => out_len n (pl_pad ps) (pl_kernel ps) (pl_stride ps)) (pl_dims ps).

Definition pool_cell (ps : pool_spec) (x : list bool) (c : nat) (o : list nat) : bool :=
  let kd := map (fun _ => pl_kernel ps) (pl_dims ps) in
  existsb (fun t =>
             let q := map (fun '(oo, kk) => oo * pl_stride ps + kk) (combine o (unravel kd t)) in
             read_padded false (pl_dims ps) (pl_pad ps) x c q)
          (seq 0 (prod kd)).

Definition pool_eval (ps : pool_spec) (x : list bool) : list bool :=
  flat_map (fun c => map (fun p => pool_cell ps x c (unravel (pl_out_dims ps) p)) (seq 0 (prod (pl_out_dims ps))))
           (seq 0 (pl_C ps)).

(* ---------- whole networks *)
Inductive layer : Type :=
| LConv (cs : conv_spec) | LPool (ps : pool_spec) | LFlatten | LDense (l : list (nat * nat * nat)).

Definition eval_layer (l : layer) (x : list bool) : list bool :=
  match l with
  | LConv cs => conv_eval cs x
  | LPool ps => pool_eval ps x
  | LFlatten => x
  | LDense d => eval_dense d x
  end.

Definition eval_net (ls : list layer) (x : list bool) : list bool := fold_left (fun a l => eval_layer l a) ls x.
