(* Model/Bits.v — executable definitions only (no proofs).
   Truth tables of the 16 gates, the C expression fragment used by gate
   templates, and signed W-bit storage. *)
From Coq Require Import ZArith List Bool.
Import ListNotations.
Local Open Scope Z_scope.

(* The property's own definition of what gate id g means: the truth table over
   AB = 00,01,10,11 is the 4-bit binary expansion of g, most significant first. *)
Definition b2n (b : bool) : nat := if b then 1%nat else 0%nat.
Definition tt (g : nat) (a b : bool) : bool :=
  Nat.testbit g (3 - (2 * b2n a + b2n b)).

(* Shape of a gate template: C expression over the two operand holes. *)
Inductive cexp : Type :=
| CA | CB | CZero
| CNot (e : cexp)
| CAnd (e1 e2 : cexp) | COr (e1 e2 : cexp) | CXor (e1 e2 : cexp).

(* C semantics of ~ & | ^ on (promoted) two's complement integers. *)
Fixpoint ceval (e : cexp) (x y : Z) : Z :=
  match e with
  | CA => x | CB => y | CZero => 0
  | CNot e => Z.lnot (ceval e x y)
  | CAnd e1 e2 => Z.land (ceval e1 x y) (ceval e2 x y)
  | COr e1 e2 => Z.lor (ceval e1 x y) (ceval e2 x y)
  | CXor e1 e2 => Z.lxor (ceval e1 x y) (ceval e2 x y)
  end.

(* The same expression on a single Boolean lane. *)
Fixpoint cevalb (e : cexp) (x y : bool) : bool :=
  match e with
  | CA => x | CB => y | CZero => false
  | CNot e => negb (cevalb e x y)
  | CAnd e1 e2 => cevalb e1 x y && cevalb e2 x y
  | COr e1 e2 => cevalb e1 x y || cevalb e2 x y
  | CXor e1 e2 => xorb (cevalb e1 x y) (cevalb e2 x y)
  end.

(* Signed reduction to W bits: the (char)/(short) cast and the store into a
   W-bit signed object (gcc/clang: modulo 2^W, implementation-defined but documented). *)
Definition wrap (W : Z) (z : Z) : Z :=
  let m := z mod 2 ^ W in
  if m <? 2 ^ (W - 1) then m else m - 2 ^ W.

Definition word_sizes : list Z := [8; 16; 32; 64].
