(* Model/CLang.v — the straight-line C fragment emitted for logic_net(), with a total
   interpreter that fails (None) on: an index outside the declared size of the named
   array, a read of a never-written cell, a write to the const input, an overlapping or
   oversized memcpy.  `exec ... = Some out` is therefore memory safety + definition
   before use, and `out` is the functional result.
   Buffers are numbered: 0 = inp (read only), 1 = out, 2.. = declared locals
   (arrays; scalar `const T name = e;` temporaries are cells of one pseudo-array). *)
From Coq Require Import ZArith List Bool Arith.
From TLX Require Import Model.Bits.
Import ListNotations.

Inductive gexp : Type :=
| GLoad (buf idx : nat)
| GZero
| GNot (e : gexp)
| GAnd (e1 e2 : gexp) | GOr (e1 e2 : gexp) | GXor (e1 e2 : gexp).

Inductive stmt : Type :=
| SAssign (buf idx : nat) (e : gexp)          (* buf[idx] = (T)(e);  `|=` is SAssign b i (GOr (GLoad b i) x) *)
| SMemcpy (dst src n : nat).                   (* memcpy(dst, src, n * sizeof(T)) *)

Record prog : Type := { sizes : list nat; body : list stmt }.

Definition size_of (p : list nat) (b : nat) : nat := nth b p 0.

(* substitute operands into a gate template *)
Fixpoint subst (e : cexp) (x y : gexp) : gexp :=
  match e with
  | CA => x | CB => y | CZero => GZero
  | CNot e => GNot (subst e x y)
  | CAnd e1 e2 => GAnd (subst e1 x y) (subst e2 x y)
  | COr e1 e2 => GOr (subst e1 x y) (subst e2 x y)
  | CXor e1 e2 => GXor (subst e1 x y) (subst e2 x y)
  end.

Section Exec.
  Context {V : Type}.
  Variables (vzero : V) (vnot : V -> V) (vand vor vxor : V -> V -> V) (vstore : V -> V).

  Definition mem := nat -> nat -> option V.

  Definition bin (f : V -> V -> V) (a b : option V) : option V :=
    match a, b with Some x, Some y => Some (f x y) | _, _ => None end.

  Fixpoint geval (sz : list nat) (m : mem) (e : gexp) : option V :=
    match e with
    | GLoad b i => if i <? size_of sz b then m b i else None
    | GZero => Some vzero
    | GNot e => option_map vnot (geval sz m e)
    | GAnd e1 e2 => bin vand (geval sz m e1) (geval sz m e2)
    | GOr e1 e2 => bin vor (geval sz m e1) (geval sz m e2)
    | GXor e1 e2 => bin vxor (geval sz m e1) (geval sz m e2)
    end.

  Definition upd (m : mem) (b i : nat) (v : V) : mem :=
    fun b' i' => if (b' =? b) && (i' =? i) then Some v else m b' i'.

  Definition all_init (m : mem) (b n : nat) : bool :=
    forallb (fun i => match m b i with Some _ => true | None => false end) (seq 0 n).

  Definition exec_stmt (sz : list nat) (m : mem) (s : stmt) : option mem :=
    match s with
    | SAssign b i e =>
        if (b =? 0) || negb (i <? size_of sz b) then None
        else match geval sz m e with
             | Some v => Some (upd m b i (vstore v))
             | None => None
             end
    | SMemcpy d s n =>
        if (d =? 0) || (d =? s) || negb (n <=? size_of sz d) || negb (n <=? size_of sz s)
           || negb (all_init m s n) then None
        else Some (fun b i => if (b =? d) && (i <? n) then m s i else m b i)
    end.

  Fixpoint exec_body (sz : list nat) (m : mem) (ss : list stmt) : option mem :=
    match ss with
    | [] => Some m
    | s :: rest => match exec_stmt sz m s with
                   | Some m' => exec_body sz m' rest
                   | None => None
                   end
    end.

  Definition init_mem (inp : list V) : mem :=
    fun b i => if b =? 0 then nth_error inp i else None.

  Fixpoint read_all (m : mem) (b : nat) (is : list nat) : option (list V) :=
    match is with
    | [] => Some []
    | i :: rest => match m b i, read_all m b rest with
                   | Some v, Some vs => Some (v :: vs)
                   | _, _ => None
                   end
    end.

  (* run logic_net: inp has size_of 0 cells, the result is all size_of 1 cells of out *)
  Definition exec (p : prog) (inp : list V) : option (list V) :=
    if negb (length inp =? size_of (sizes p) 0) then None else
    match exec_body (sizes p) (init_mem inp) (body p) with
    | Some m => read_all m 1 (seq 0 (size_of (sizes p) 1))
    | None => None
    end.
End Exec.

(* word instance: W-bit signed storage *)
Definition execZ (W : Z) := @exec Z 0%Z Z.lnot Z.land Z.lor Z.lxor (wrap W).
(* single-lane Boolean instance *)
Definition execB := @exec bool false negb andb orb xorb (fun b => b).

(* syntactic equality of programs (used to compare parsed emitted text with the generator model) *)
Fixpoint gexp_eqb (a b : gexp) : bool :=
  match a, b with
  | GLoad x i, GLoad y j => (x =? y) && (i =? j)
  | GZero, GZero => true
  | GNot a, GNot b => gexp_eqb a b
  | GAnd a1 a2, GAnd b1 b2 | GOr a1 a2, GOr b1 b2 | GXor a1 a2, GXor b1 b2 => gexp_eqb a1 b1 && gexp_eqb a2 b2
  | _, _ => false
  end.

Definition stmt_eqb (a b : stmt) : bool :=
  match a, b with
  | SAssign x i e, SAssign y j f => (x =? y) && (i =? j) && gexp_eqb e f
  | SMemcpy d s n, SMemcpy d' s' n' => (d =? d') && (s =? s') && (n =? n')
  | _, _ => false
  end.

Fixpoint list_eqb {A} (eqb : A -> A -> bool) (l1 l2 : list A) : bool :=
  match l1, l2 with
  | [], [] => true
  | x :: r1, y :: r2 => eqb x y && list_eqb eqb r1 r2
  | _, _ => false
  end.

Definition prog_eqb (p q : prog) : bool :=
  list_eqb Nat.eqb (sizes p) (sizes q) && list_eqb stmt_eqb (body p) (body q).

(* index of first difference, for reports *)
Fixpoint first_diff (l1 l2 : list stmt) (k : nat) : option nat :=
  match l1, l2 with
  | [], [] => None
  | x :: r1, y :: r2 => if stmt_eqb x y then first_diff r1 r2 (S k) else Some k
  | _, _ => Some k
  end.
