(* Model/GenDense.v — Gallina model of CompiledLogicNet.get_c_code() for models made of
   (optional leading Flatten) + LogicDense layers: buffer declarations, the flatten memcpy,
   ping-pong buffer selection and one gate statement per neuron.
   Buffer numbering = order of declaration in the emitted text:
     0 inp, 1 out; without Flatten: 2 linear_buf_a, 3 linear_buf_b;
     with Flatten: 2 linear_input, 3 linear_buf_temp. *)
From Coq Require Import List Bool Arith.
From TLX Require Import Model.Bits Model.CLang Model.Netlist Gen.GateCode.
Import ListNotations.

Record dense_model : Type := { dm_in : nat; dm_flat : bool; dm_layers : list dense_layer }.

Definition gate_gexp (g : nat) (x y : gexp) : gexp :=
  match template g with Some e => subst e x y | None => GZero end.

Fixpoint gen_neurons (ib ob : nat) (v : nat) (l : dense_layer) : list stmt :=
  match l with
  | [] => []
  | (a, b, g) :: rest =>
      SAssign ob v (gate_gexp g (GLoad ib a) (GLoad ib b)) :: gen_neurons ib ob (S v) rest
  end.

Definition next_out (ib : nat) : nat := if ib =? 0 then 3 else ib.

(* ib: buffer read by the current layer, ob: buffer it writes unless it is the last layer *)
Fixpoint gen_layers (ib ob : nat) (ls : list dense_layer) : list stmt :=
  match ls with
  | [] => []
  | [l] => gen_neurons ib 1 0 l
  | l :: rest => gen_neurons ib ob 0 l ++ gen_layers ob (next_out ib) rest
  end.

Definition widths (ls : list dense_layer) : list nat := map (@length neuron) ls.
Definition max_list (l : list nat) : nat := fold_right Nat.max 0 l.
Definition out_width (m : dense_model) : nat := last (widths (dm_layers m)) 0.

Definition dense_sizes (m : dense_model) : list nat :=
  let ws := widths (dm_layers m) in
  let mx := max_list ws in
  let many := 1 <? length ws in
  if dm_flat m then
    [dm_in m; out_width m; Nat.max (dm_in m) (max_list (removelast ws))] ++ (if many then [mx] else [])
  else
    [dm_in m; out_width m] ++ (if many then [mx; mx] else []).

Definition gen_dense (m : dense_model) : prog :=
  {| sizes := dense_sizes m;
     body := if dm_flat m
             then SMemcpy 2 0 (dm_in m) :: gen_layers 2 3 (dm_layers m)
             else gen_layers 0 2 (dm_layers m) |}.

Definition wf_dense_model (m : dense_model) : bool :=
  negb (length (dm_layers m) =? 0) && negb (dm_in m =? 0) && wf_dense_net (dm_in m) (dm_layers m).
