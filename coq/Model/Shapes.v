(* Model/Shapes.v — PyTorch-side shape rules of the layers, as a predicate transformer:
   `run layers s K` holds iff the stack accepts an input of shape s and K holds of the output shape. *)
From Coq Require Import ZArith List Bool.
Import ListNotations.
Local Open Scope Z_scope.

Inductive lspec : Type :=
| LSConv (in_dim : list Z) (channels kernels rf stride pad depth : Z)
| LSPool (ks stride pad : Z)
| LSFlatten
| LSDense (n_in n_out : Z)
| LSGroupSum (k : Z)
| LSIdentity
| LSResidual (main short : list lspec).

Inductive shape : Type := Sp (c : Z) (dims : list Z) | Fl (n : Z).

Definition zprod (l : list Z) : Z := fold_right Z.mul 1 l.
Definition out_z (n p r s : Z) : Z := (n + 2 * p - r) / s + 1.

Fixpoint layer (l : lspec) (s : shape) (K : shape -> Prop) {struct l} : Prop :=
  match l with
  | LSConv in_dim channels kernels rf stride pad depth =>
      match s with
      | Sp c dims => c = channels /\ dims = in_dim /\ 0 < stride <= rf /\ 0 <= pad /\ 0 < kernels /\ 0 <= depth
                     /\ Forall (fun n => rf <= n + 2 * pad) dims
                     /\ K (Sp kernels (map (fun n => out_z n pad rf stride) dims))
      | Fl _ => False
      end
  | LSPool ks stride pad =>
      match s with
      | Sp c dims => 0 < stride /\ 0 <= pad /\ 2 * pad <= ks /\ Forall (fun n => ks <= n + 2 * pad) dims
                     /\ K (Sp c (map (fun n => out_z n pad ks stride) dims))
      | Fl _ => False
      end
  | LSFlatten => match s with Sp c dims => K (Fl (c * zprod dims)) | Fl n => K (Fl n) end
  | LSDense n_in n_out => match s with Fl n => n = n_in /\ 0 < n_out /\ K (Fl n_out) | Sp _ _ => False end
  | LSGroupSum k => match s with Fl n => 0 < k /\ n mod k = 0 /\ K (Fl k) | Sp _ _ => False end
  | LSIdentity => K s
  | LSResidual main short =>
      (fix run (ls : list lspec) (s : shape) (K : shape -> Prop) {struct ls} : Prop :=
         match ls with [] => K s | x :: r => layer x s (fun s' => run r s' K) end)
        main s
        (fun s1 => (fix run (ls : list lspec) (s : shape) (K : shape -> Prop) {struct ls} : Prop :=
                      match ls with [] => K s | x :: r => layer x s (fun s' => run r s' K) end)
                     short s (fun s2 => s1 = s2 /\ K s1))
  end.

Fixpoint run (ls : list lspec) (s : shape) (K : shape -> Prop) {struct ls} : Prop :=
  match ls with [] => K s | x :: r => layer x s (fun s' => run r s' K) end.

(* executable variant for concrete models: Some final shape / None *)
Definition zlist_eqb (a b : list Z) : bool :=
  (length a =? length b)%nat && forallb (fun p => fst p =? snd p) (combine a b).

Fixpoint layer_b (fuel : nat) (l : lspec) (s : shape) : option shape :=
  match fuel with O => None | S f =>
  match l, s with
  | LSConv in_dim channels kernels rf stride pad depth, Sp c dims =>
      if (c =? channels) && zlist_eqb dims in_dim && (0 <? stride) && (stride <=? rf) && (0 <=? pad) && (0 <? kernels)
         && forallb (fun n => rf <=? n + 2 * pad) dims
      then Some (Sp kernels (map (fun n => out_z n pad rf stride) dims)) else None
  | LSPool ks stride pad, Sp c dims =>
      if (0 <? stride) && (0 <=? pad) && (2 * pad <=? ks) && forallb (fun n => ks <=? n + 2 * pad) dims
      then Some (Sp c (map (fun n => out_z n pad ks stride) dims)) else None
  | LSFlatten, Sp c dims => Some (Fl (c * zprod dims))
  | LSFlatten, Fl n => Some (Fl n)
  | LSDense n_in n_out, Fl n => if (n =? n_in) && (0 <? n_out) then Some (Fl n_out) else None
  | LSGroupSum k, Fl n => if (0 <? k) && (n mod k =? 0) then Some (Fl k) else None
  | LSIdentity, s => Some s
  | LSResidual main short, s =>
      let go := fix go (ls : list lspec) (s : option shape) : option shape :=
                  match ls, s with [], _ => s | _, None => None | x :: r, Some s' => go r (layer_b f x s') end in
      match go main (Some s), go short (Some s) with
      | Some (Sp c1 d1), Some (Sp c2 d2) => if (c1 =? c2) && zlist_eqb d1 d2 then Some (Sp c1 d1) else None
      | _, _ => None
      end
  | _, _ => None
  end end.

Fixpoint run_b (ls : list lspec) (s : option shape) : option shape :=
  match ls, s with [], _ => s | _, None => None | x :: r, Some s' => run_b r (layer_b 3 x s') end.

(* ---- the 'unique' connection scheme.  LogicDense (functional.get_unique_connections) wires n_out neurons to distinct input
   pairs and insists that every input can be used: n_in <= 2 n_out and n_out <= n_in (n_in - 1) / 2.  A convolution of tree depth d
   draws 2^d distinct pairs among its rf^dims * channels receptive-field positions. *)
Definition pairs (n : Z) : Z := n * (n - 1) / 2.

Fixpoint unique_ok (l : lspec) : Prop :=
  match l with
  | LSConv in_dim channels kernels rf stride pad depth => 2 ^ depth <= pairs (zprod (map (fun _ => rf) in_dim) * channels)
  | LSDense n_in n_out => n_in <= 2 * n_out /\ n_out <= pairs n_in
  | LSResidual main short =>
      (fix all (ls : list lspec) : Prop := match ls with [] => True | x :: r => unique_ok x /\ all r end) main
      /\ (fix all (ls : list lspec) : Prop := match ls with [] => True | x :: r => unique_ok x /\ all r end) short
  | _ => True
  end.

Fixpoint unique_all (ls : list lspec) : Prop := match ls with [] => True | x :: r => unique_ok x /\ unique_all r end.

(* executable variant for the fixed-scale classes *)
Fixpoint unique_b (fuel : nat) (l : lspec) : bool :=
  match fuel with O => false | S f =>
  match l with
  | LSConv in_dim channels kernels rf stride pad depth => 2 ^ depth <=? pairs (zprod (map (fun _ => rf) in_dim) * channels)
  | LSDense n_in n_out => (n_in <=? 2 * n_out) && (n_out <=? pairs n_in)
  | LSResidual main short => forallb (unique_b f) main && forallb (unique_b f) short
  | _ => true
  end end.
Definition unique_all_b (ls : list lspec) : bool := forallb (unique_b 3) ls.
