From Coq Require Import ZArith List Bool Arith Lia.
From TLX Require Import Model.Bits Model.CLang Model.Netlist Model.GenDense Model.Wrapper Model.Host.
From TLX Require Import Proofs.BitsFacts Proofs.CLangFacts Proofs.GenDenseFacts Proofs.WrapperFacts.
Import ListNotations.
Local Open Scope Z_scope.

Lemma dense_lanewise : forall (W : nat) m, (1 < W)%nat -> wf_dense_model m = true ->
  lanewise W (dm_in m) (out_width m) (execZ (Z.of_nat W) (gen_dense m)) (eval_dense_net (dm_layers m)).
Proof.
  intros W m HW Hwf inp Hlen.
  destruct (gen_dense_correct_words (Z.of_nat W) m inp ltac:(lia) Hwf Hlen) as [out [He [Hl Hlanes]]].
  exists out. repeat split; assumption.
Qed.

Theorem dense_counts : forall (W k : nat) m inp len,
  (1 < W)%nat -> wf_dense_model m = true -> Z.of_nat (gsize (out_width m) k) < 2 ^ 31 ->
  apply_logic_net W (dm_in m) (out_width m) k (execZ (Z.of_nat W) (gen_dense m)) inp len
  = Some (expected W (dm_in m) (out_width m) k (eval_dense_net (dm_layers m)) inp len).
Proof.
  intros W k m inp len HW Hwf Hg. apply apply_logic_net_correct; try assumption.
  apply dense_lanewise; assumption.
Qed.

Lemma land_1_bit0 : forall z, Z.land z 1 = Z.b2z (Z.testbit z 0).
Proof. intros z. rewrite Z.bit0_mod. change 1 with (Z.ones 1). apply Z.land_ones. lia. Qed.

Lemma lane0_b2z : forall r, map (lane 0) (map Z.b2z r) = r.
Proof.
  induction r as [|b r IH]; cbn [map]; [reflexivity|]. rewrite IH. unfold lane. now rewrite Z.b2z_bit0.
Qed.

Theorem dense_direct : forall (W : nat) m rows,
  (1 < W)%nat -> wf_dense_model m = true -> Forall (fun r => length r = dm_in m) rows ->
  forward_direct (execZ (Z.of_nat W) (gen_dense m)) rows
  = Some (map (fun r => map Z.b2z (eval_dense_net (dm_layers m) r)) rows).
Proof.
  intros W m rows HW Hwf Hrows. induction Hrows as [|r rest Hr _ IH]; [reflexivity|].
  unfold forward_direct in *. cbn [fold_right map]. rewrite IH.
  destruct (dense_lanewise W m HW Hwf (map Z.b2z r) ltac:(rewrite map_length; exact Hr)) as [out [He [_ Hl]]].
  rewrite He. cbn [option_map]. f_equal. f_equal.
  specialize (Hl 0 ltac:(lia)). rewrite lane0_b2z in Hl. rewrite <- Hl.
  rewrite map_map. apply map_ext. intros z. apply land_1_bit0.
Qed.

(* equal counts give the same arg-max class (first maximal index), and count/tau is order preserving *)
Fixpoint argmax_from (best : Z) (bi : nat) (i : nat) (l : list Z) : nat :=
  match l with
  | [] => bi
  | x :: r => if best <? x then argmax_from x i (S i) r else argmax_from best bi (S i) r
  end.
Definition argmax (l : list Z) : nat := match l with [] => 0%nat | x :: r => argmax_from x 0 1 r end.

Lemma argmax_counts : forall l1 l2 : list Z, l1 = l2 -> argmax l1 = argmax l2.
Proof. intros; subst; reflexivity. Qed.
