From Coq Require Import String List Bool Arith.
From TLX Require Import Gen.Dispatch Model.Bits Model.Netlist Model.ConvNet.
Import ListNotations.
Local Open Scope string_scope.

Definition wfn_eqb (a b : wfn) : bool :=
  match a, b with
  | WOneHotArgmax, WOneHotArgmax | WOneHotArgmaxOfWeighted, WOneHotArgmaxOfWeighted | WPlainSoftmax, WPlainSoftmax => true
  | WSoftRaw t, WSoftRaw u | WHardRaw t, WHardRaw u => Bool.eqb t u
  | WGumbelSoftmax t h, WGumbelSoftmax u g => Bool.eqb t u && Bool.eqb h g
  | _, _ => false
  end.
Definition act_eqb (a b : act) : bool :=
  match a, b with
  | AThreshold c, AThreshold d => String.eqb c d
  | ASoftWalsh t, ASoftWalsh u | AHardWalsh t, AHardWalsh u => Bool.eqb t u
  | AGumbelSigmoid t h, AGumbelSigmoid u g => Bool.eqb t u && Bool.eqb h g
  | ASigmoidTemp, ASigmoidTemp => true
  | _, _ => false
  end.
Definition event_eqb (a b : event) : bool :=
  match a, b with
  | EGradFactor, EGradFactor | EPad, EPad | ECheckTemp, ECheckTemp | ERaise, ERaise => true
  | EWeights w, EWeights v => wfn_eqb w v
  | EMix f, EMix g => String.eqb f g
  | EAct x, EAct y => act_eqb x y
  | _, _ => false
  end.
Fixpoint events_eqb (l1 l2 : list (event * bool)) : bool :=
  match l1, l2 with
  | [], [] => true
  | (e, b) :: r, (f, c) :: s => event_eqb e f && Bool.eqb b c && events_eqb r s
  | _, _ => false
  end.

Definition key_eqb (a b : string * string * bool * string) : bool :=
  let '(l1, p1, t1, m1) := a in let '(l2, p2, t2, m2) := b in
  String.eqb l1 l2 && String.eqb p1 p2 && Bool.eqb t1 t2 && String.eqb m1 m2.

Definition events_of (layer par : string) (training : bool) (mode : string) : option (list (event * bool)) :=
  match find (fun r => key_eqb (fst r) (layer, par, training, mode)) dispatch with
  | Some r => Some (snd r) | None => None end.

Definition modes : list string := ["soft"; "hard"; "gumbel_soft"; "gumbel_hard"].
Definition layer_params : list (string * string) :=
  [("dense", "raw"); ("dense", "walsh"); ("conv2d", "raw"); ("conv2d", "walsh"); ("conv3d", "raw")].

(* an eval-mode event may only be: gradient scaling (identity in the forward direction), zero padding, the one-hot of the
   argmax of the RAW logits, a mixture, or the threshold form > 0 *)
Definition eval_event_ok (e : event) : bool :=
  match e with
  | EGradFactor | EPad | EMix _ => true
  | EWeights WOneHotArgmax => true
  | EAct (AThreshold c) => String.eqb c ">"
  | _ => false
  end.

Definition eval_rows_ok (lp : string * string) : bool :=
  match events_of (fst lp) (snd lp) false "soft" with
  | None => false
  | Some ref =>
      forallb (fun p => eval_event_ok (fst p)) ref
      && forallb (fun m => match events_of (fst lp) (snd lp) false m with
                           | Some ev => events_eqb ev ref | None => false end) modes
      && existsb (fun p => match fst p with EWeights WOneHotArgmax | EAct (AThreshold _) => true | _ => false end) ref
  end.

(* eval mode: the same path for every sampling mode; it consults neither temperature, sampling function nor a random draw *)
Lemma eval_mode_independent : forallb eval_rows_ok layer_params = true.
Proof. vm_compute. reflexivity. Qed.

(* every tree level (first level and the loop over the remaining ones) discretises the same way *)
Definition eval_levels_ok (lp : string * string) : bool :=
  match events_of (fst lp) (snd lp) false "soft" with
  | None => false
  | Some ref =>
      let first := filter (fun p => negb (snd p)) ref in
      let loop := filter (fun p => snd p) ref in
      let sel := fun l => map fst (filter (fun p => match fst p with EWeights _ | EAct _ | EMix _ => true | _ => false end) l) in
      (fix eq (a b : list event) := match a, b with [], [] => true | x :: r, y :: s => event_eqb x y && eq r s | _, _ => false end)
        (sel first) (sel loop)
  end.
Lemma eval_all_levels : forallb eval_levels_ok [("conv2d", "raw"); ("conv2d", "walsh"); ("conv3d", "raw")] = true.
Proof. vm_compute. reflexivity. Qed.

(* a batch is evaluated row by row: no cross-row term exists in the reference semantics *)
Definition eval_batch (net : list layer) (rows : list (list bool)) : list (list bool) := map (eval_net net) rows.
Lemma eval_rowwise : forall net rows i, i < length rows ->
  nth i (eval_batch net rows) [] = eval_net net (nth i rows []).
Proof.
  intros net rows i Hi. unfold eval_batch.
  rewrite nth_indep with (d' := eval_net net []) by (rewrite map_length; exact Hi). apply map_nth.
Qed.
