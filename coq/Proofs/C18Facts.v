From Coq Require Import Reals List ZArith Lra Lia.
From Flocq Require Import Core.Raux Core.Generic_fmt Core.Round_NE.
From TLX Require Import Model.Relax Model.Thermo Proofs.RelaxFacts Proofs.C07Real Proofs.C17Facts.
Import ListNotations.
Local Open Scope R_scope.

Lemma softplus_pos : forall x, 0 < softplus x.
Proof.
  intros x. unfold softplus. destruct (Rlt_dec 20 x); [lra|].
  rewrite <- ln_1. apply ln_increasing; [lra|]. pose proof (exp_pos x). lra.
Qed.

Lemma softplus_inv_spec : forall dd, 0 < dd -> softplus (softplus_inv dd) = dd.
Proof.
  intros dd Hd. unfold softplus_inv. destruct (Rlt_dec 20 dd) as [Hb|Hs].
  - unfold softplus. destruct (Rlt_dec 20 dd); [reflexivity|contradiction].
  - assert (Hex : 1 < exp dd) by (rewrite <- exp_0; apply exp_increasing; exact Hd).
    unfold softplus. destruct (Rlt_dec 20 (ln (exp dd - 1))) as [Hbig|_].
    + exfalso. assert (exp dd - 1 < exp dd) by lra.
      assert (ln (exp dd - 1) < dd). { rewrite <- (ln_exp dd) at 2. apply ln_increasing; lra. } lra.
    + rewrite exp_ln by lra. replace (1 + (exp dd - 1)) with (exp dd) by ring. apply ln_exp.
Qed.

(* strictly increasing: consecutive entries *)
Definition increasing (l : list R) : Prop := forall i, (S i < length l)%nat -> nth i l 0 < nth (S i) l 0.
Definition nondecreasing (l : list R) : Prop := forall i, (S i < length l)%nat -> nth i l 0 <= nth (S i) l 0.

Lemma cumsum_from_increasing : forall l acc, Forall (fun x => 0 < x) l ->
  increasing (cumsum_from acc l) /\ forall i, (i < length l)%nat -> acc < nth i (cumsum_from acc l) 0.
Proof.
  induction l as [|x r IH]; intros acc H.
  - split; [intros i Hi; cbn in Hi; lia|intros i Hi; cbn in Hi; lia].
  - inversion H as [|? ? Hx Hr]; subst. destruct (IH (acc + x) Hr) as [Hinc Hgt]. split.
    + intros i Hi. cbn [cumsum_from length] in *. destruct i as [|i].
      * cbn [nth]. specialize (Hgt 0%nat). destruct r; [cbn in Hi; lia|]. apply Hgt. cbn. lia.
      * cbn [nth]. apply Hinc. lia.
    + intros i Hi. cbn [cumsum_from]. destruct i as [|i]; cbn [nth]; [lra|].
      cbn [length] in Hi. specialize (Hgt i ltac:(lia)). lra.
Qed.

Lemma cumsum_from_length : forall l acc, length (cumsum_from acc l) = length l.
Proof. induction l as [|x r IH]; intros acc; cbn; [reflexivity|]. now rewrite IH. Qed.

(* for ANY raw parameter vector the learnable thresholds are strictly increasing and positive *)
Theorem thresholds_increasing : forall raw sl,
  increasing (thresholds {| raw_diffs := raw; frozen := false; slope := sl |}).
Proof.
  intros raw sl. unfold thresholds. cbn [frozen raw_diffs]. apply cumsum_from_increasing.
  apply Forall_forall. intros v Hv. apply in_map_iff in Hv. destruct Hv as [x [<- _]]. apply softplus_pos.
Qed.

Lemma cumsum_diff_from : forall l prev, cumsum_from prev (diff_from prev l) = l.
Proof.
  induction l as [|x r IH]; intros prev; cbn [diff_from cumsum_from]; [reflexivity|].
  replace (prev + (x - prev)) with x by ring. now rewrite IH.
Qed.

Lemma diff_from_pos : forall l prev, (forall i, (i < length l)%nat -> (if Nat.eqb i 0 then prev else nth (i - 1) l 0) < nth i l 0) ->
  Forall (fun x => 0 < x) (diff_from prev l).
Proof.
  induction l as [|x r IH]; intros prev H; cbn [diff_from]; constructor.
  - specialize (H 0%nat ltac:(cbn; lia)). cbn in H. lra.
  - apply IH. intros i Hi. specialize (H (S i) ltac:(cbn; lia)). cbn [Nat.eqb nth] in H.
    replace (S i - 1)%nat with i in H by lia. destruct i as [|i]; cbn [Nat.eqb]; [cbn in H; exact H|].
    cbn [nth] in H. replace (S i - 1)%nat with i by lia. exact H.
Qed.

(* a fresh layer reports exactly the thresholds it was given (positive, strictly increasing) *)
Theorem fresh_thresholds : forall ts sl, Forall (fun x => 0 < x) (diff0 ts) -> thresholds (init ts sl) = ts.
Proof.
  intros ts sl H. unfold thresholds, init. cbn [frozen raw_diffs]. rewrite map_map.
  assert (E : map (fun x => softplus (softplus_inv x)) (diff0 ts) = diff0 ts).
  { induction (diff0 ts) as [|x r IH]; [reflexivity|]. inversion H; subst. cbn [map]. rewrite softplus_inv_spec by assumption.
    f_equal. apply IH. assumption. }
  rewrite E. apply cumsum_diff_from.
Qed.

(* --- encodings *)
Theorem hard_code_monotone : forall x t1 t2, t1 <= t2 -> hard_bit x t2 <= hard_bit x t1.
Proof. intros x t1 t2 H. unfold hard_bit. destruct (Rlt_dec t2 x), (Rlt_dec t1 x); lra. Qed.

Theorem soft_code_monotone : forall sl x t1 t2, 0 < sl -> t1 <= t2 -> soft_bit sl x t2 <= soft_bit sl x t1.
Proof.
  intros sl x t1 t2 Hs H. unfold soft_bit. destruct (Req_dec t1 t2) as [->|Hne]; [lra|].
  apply Rlt_le. apply sigmoid_increasing. nra.
Qed.

Theorem soft_code_range : forall sl x t, 0 < soft_bit sl x t < 1.
Proof. intros. unfold soft_bit. apply sigmoid_in01. Qed.

Lemma sigmoid_same : forall y, Relax.sigmoid y = C07Real.sigmoid y.
Proof. reflexivity. Qed.

Theorem soft_code_rounds : forall sl x t, 0 < sl -> (soft_bit sl x t > / 2 <-> x > t).
Proof.
  intros sl x t Hs. unfold soft_bit. rewrite sigmoid_same. rewrite sigmoid_half_iff. split; intro H; nra.
Qed.

(* the documented tanh form *)
Theorem soft_bit_tanh : forall sl x t, soft_bit sl x t = (tanh (sl * (x - t)) + 1) / 2.
Proof.
  intros sl x t. unfold soft_bit, Relax.sigmoid, tanh, sinh, cosh. set (y := sl * (x - t)).
  assert (He : exp (- (2 * y)) = exp (- y) * exp (- y)) by (rewrite <- exp_plus; f_equal; ring).
  rewrite He. pose proof (exp_pos y) as H1. pose proof (exp_pos (- y)) as H2.
  assert (Hm : exp y * exp (- y) = 1) by (rewrite <- exp_plus; replace (y + - y) with 0 by ring; apply exp_0).
  apply (Rmult_eq_reg_r ((1 + exp (- y) * exp (- y)) * (exp y + exp (- y)))); [|apply Rmult_integral_contrapositive_currified; nra].
  field_simplify; [|nra|nra]. nra.
Qed.

(* --- freezing *)
Lemma rnd_close : forall x, Rabs (rnd x - x) <= / 2.
Proof. intros x. unfold rnd. rewrite Rabs_minus_sym. apply Znearest_half. Qed.

Lemma rnd_monotone : forall x y, x <= y -> rnd x <= rnd y.
Proof. intros x y H. unfold rnd. apply IZR_le. apply Zrnd_le; [apply valid_rnd_N|exact H]. Qed.

Lemma rnd_idem : forall x, rnd (rnd x) = rnd x.
Proof. intros x. unfold rnd. f_equal. apply Zrnd_IZR. apply valid_rnd_N. Qed.

Lemma thresholds_freeze : forall l, thresholds (freeze l) = map rnd (thresholds l).
Proof. intros l. unfold freeze, thresholds at 1. cbn [frozen raw_diffs]. apply cumsum_diff_from. Qed.

Lemma map_nth_rnd : forall l i, (i < length l)%nat -> nth i (map rnd l) 0 = rnd (nth i l 0).
Proof.
  intros l i Hi. rewrite nth_indep with (d' := rnd 0) by (rewrite map_length; exact Hi). apply map_nth.
Qed.

(* frozen thresholds: rounded trained values, still ordered, within 1/2 of the trained ones *)
Theorem freeze_ordered : forall l, nondecreasing (thresholds l) -> nondecreasing (thresholds (freeze l)).
Proof.
  intros l H i Hi. rewrite thresholds_freeze in *. rewrite map_length in Hi.
  rewrite !map_nth_rnd by lia. apply rnd_monotone. apply H. exact Hi.
Qed.

Theorem freeze_close : forall l i, (i < length (thresholds l))%nat ->
  Rabs (nth i (thresholds (freeze l)) 0 - nth i (thresholds l) 0) <= / 2.
Proof. intros l i Hi. rewrite thresholds_freeze, map_nth_rnd by exact Hi. apply rnd_close. Qed.

Theorem freeze_idempotent : forall l, thresholds (freeze (freeze l)) = thresholds (freeze l).
Proof.
  intros l. rewrite (thresholds_freeze (freeze l)). rewrite thresholds_freeze. rewrite map_map.
  apply map_ext. intros x. apply rnd_idem.
Qed.

(* after freezing the output is exactly the hard code x > threshold *)
Theorem freeze_hard_output : forall l x, encode (freeze l) x = map (hard_bit x) (thresholds (freeze l)).
Proof. intros. reflexivity. Qed.

Lemma increasing_nondecreasing : forall l, increasing l -> nondecreasing l.
Proof. intros l H i Hi. apply Rlt_le. apply H. exact Hi. Qed.
