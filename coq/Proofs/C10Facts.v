From Coq Require Import String Reals List Lra Lia Bool.
From Coquelicot Require Import Coquelicot.
From TLX Require Import Model.Bits Model.Poly Model.Relax Model.AD Gen.Ops Gen.Dispatch.
From TLX Require Import Proofs.RelaxFacts Proofs.C03Facts Proofs.C08Facts.
Import ListNotations.
Local Open Scope R_scope.

(* --- gradient of the mixture with respect to an input: the mixture is affine in a, so the derivative is the slope *)
Theorem mix_derive_a : forall p a b, (length p <= 16)%nat ->
  is_derive (fun t => mix p t b) a (mix p 1 b - mix p 0 b).
Proof.
  intros p a b Hl.
  apply (is_derive_ext (fun t => (1 - t) * mix p 0 b + t * mix p 1 b)).
  - intros t. symmetry. apply mix_affine_a. exact Hl.
  - auto_derive; [exact I|]. ring.
Qed.

(* --- gradient with respect to a logit, reduced to one variable: with C = sum of the other exponentials (> 0),
   p_j(t) = e^(t/tau) / (C + e^(t/tau)) and p_i(t) = E / (C' + e^(t/tau)) for i <> j *)
Theorem softmax_diag_derive : forall C tau t, 0 < C -> tau <> 0 ->
  let p := exp (t / tau) / (C + exp (t / tau)) in
  is_derive (fun u => exp (u / tau) / (C + exp (u / tau))) t (p * (1 - p) / tau).
Proof.
  intros C tau t HC Ht p. unfold p.
  assert (Hpos : 0 < C + exp (t / tau)) by (pose proof (exp_pos (t / tau)); lra).
  auto_derive; [unfold Rdiv in *; lra|]. unfold Rdiv in *. set (E := exp (t * / tau)) in *. field. split; lra.
Qed.

Theorem softmax_offdiag_derive : forall E C tau t, 0 < C -> tau <> 0 ->
  let pj := exp (t / tau) / (C + exp (t / tau)) in
  let pi := E / (C + exp (t / tau)) in
  is_derive (fun u => E / (C + exp (u / tau))) t (- pi * pj / tau).
Proof.
  intros E C tau t HC Ht pj pi. unfold pi, pj.
  assert (Hpos : 0 < C + exp (t / tau)) by (pose proof (exp_pos (t / tau)); lra).
  auto_derive; [unfold Rdiv in *; lra|]. unfold Rdiv in *. set (X := exp (t * / tau)) in *. field. split; lra.
Qed.

(* logistic: d/dx sigmoid(x / tau) = s (1 - s) / tau *)
Theorem sigmoid_derive : forall tau x, tau <> 0 ->
  let s := sigmoid (x / tau) in
  is_derive (fun u => sigmoid (u / tau)) x (s * (1 - s) / tau).
Proof.
  intros tau x Ht s. unfold s, sigmoid.
  assert (Hpos : 0 < 1 + exp (- (x / tau))) by (pose proof (exp_pos (- (x / tau))); lra).
  auto_derive; [unfold Rdiv in *; lra|]. unfold Rdiv in *. set (X := exp (- (x * / tau))) in *. field. split; lra.
Qed.

(* --- dual numbers compute derivatives (soundness of the autograd model on the smooth operations) *)
Definition tracks (f : R -> R) (x : R) (a : dual) : Prop := v a = f x /\ is_derive f x (d a).

Lemma tracks_var : forall x, tracks (fun t => t) x (dvar x).
Proof. intros x. split; [reflexivity|]. apply (is_derive_id x). Qed.
Lemma tracks_const : forall c x, tracks (fun _ => c) x (dconst c).
Proof. intros c x. split; [reflexivity|]. apply (is_derive_const c x). Qed.
Lemma tracks_add : forall f g x a b, tracks f x a -> tracks g x b -> tracks (fun t => f t + g t) x (dadd a b).
Proof. intros f g x a b [Ha Da] [Hb Db]. split; cbn; [congruence|]. apply (is_derive_plus f g x); assumption. Qed.
Lemma tracks_sub : forall f g x a b, tracks f x a -> tracks g x b -> tracks (fun t => f t - g t) x (dsub a b).
Proof. intros f g x a b [Ha Da] [Hb Db]. split; cbn; [congruence|]. apply (is_derive_minus f g x); assumption. Qed.
Lemma tracks_mul : forall f g x a b, tracks f x a -> tracks g x b -> tracks (fun t => f t * g t) x (dmul a b).
Proof.
  intros f g x a b [Ha Da] [Hb Db]. split; cbn; [congruence|].
  rewrite Ha, Hb. apply (is_derive_mult f g x (d a) (d b)); try assumption. intros; apply Rmult_comm.
Qed.
Lemma tracks_sigmoid : forall f x a, tracks f x a -> tracks (fun t => / (1 + exp (- f t))) x (dsigmoid a).
Proof.
  intros f x a [Ha Da]. split; cbn; [now rewrite Ha|]. rewrite Ha.
  assert (Hpos : 0 < 1 + exp (- f x)) by (pose proof (exp_pos (- f x)); lra).
  auto_derive; [repeat split; try exact I; [eexists; exact Da|lra]|].
  change (fun x0 : R => f x0) with f. rewrite (is_derive_unique f x (d a) Da).
  set (X := exp (- f x)) in *. field. lra.
Qed.

(* --- straight-through: the forwarded VALUE is the hard one, the GRADIENT is that of the soft one *)
Theorem ste_value_grad : forall hard soft, d hard = 0 -> v (ste hard soft) = v hard /\ d (ste hard soft) = d soft.
Proof. intros hard soft H. unfold ste. cbn. rewrite H. split; ring. Qed.
Theorem ste'_value_grad : forall hard soft, v (ste' hard soft) = v hard /\ d (ste' hard soft) = d soft.
Proof. intros hard soft. unfold ste'. cbn. split; ring. Qed.

(* hard Walsh: (sigmoid(x/tau) > 0.5) - x.detach() + x with x = sigmoid(logits/tau): gradient of the logistic, never the zero
   gradient of the indicator *)
Theorem hard_walsh_grad : forall soft, d (ste (dgt soft (/ 2)) soft) = d soft
  /\ v (ste (dgt soft (/ 2)) soft) = (if Rlt_dec (/ 2) (v soft) then 1 else 0).
Proof. intros soft. unfold ste, dgt. cbn. split; ring. Qed.

(* the soft selection has a non-zero gradient: p (1 - p) / tau <> 0 for 0 < p < 1 *)
Theorem soft_grad_nonzero : forall p tau, 0 < p < 1 -> 0 < tau -> p * (1 - p) / tau <> 0.
Proof.
  intros p tau Hp Ht. apply Rgt_not_eq. apply Rdiv_lt_0_compat; [|exact Ht]. apply Rmult_lt_0_compat; lra.
Qed.

(* --- gradient factor *)
Theorem gradfactor_spec : forall f a, v (dgradfactor f a) = v a /\ d (dgradfactor f a) = f * d a.
Proof. intros. split; reflexivity. Qed.

(* chain: a layer applied to GradFactor(x) sends f times its own input gradient back to x *)
Theorem gradfactor_chain : forall (layer : dual -> dual) f x,
  (forall a, d (layer a) = d (layer {| v := v a; d := 1 |}) * d a) ->
  (forall a b, v a = v b -> v (layer a) = v (layer b)) ->
  d (layer (dgradfactor f (dvar x))) = f * d (layer (dvar x)) /\ v (layer (dgradfactor f (dvar x))) = v (layer (dvar x)).
Proof.
  intros layer f x Hlin Hval. split.
  - rewrite (Hlin (dgradfactor f (dvar x))). rewrite (Hlin (dvar x)). cbn. ring.
  - apply Hval. reflexivity.
Qed.

(* --- dispatch: every layer applies GradFactor to its input first, in training and in eval mode *)
Definition gradfactor_first (layer par : string) (training : bool) (mode : string) : bool :=
  match events_of layer par training mode with
  | Some ((EGradFactor, false) :: rest) => negb (existsb (fun p => event_eqb (fst p) EGradFactor) rest)
  | _ => false
  end.
Lemma gradfactor_dispatch :
  forallb (fun lp => forallb (fun tr => forallb (fun m => gradfactor_first (fst lp) (snd lp) tr m) modes) [true; false]) layer_params = true.
Proof. vm_compute. reflexivity. Qed.
