(* The slice-level mirror of functional.get_unique_connections (x[::2], x[1::2], the two length-equalising truncations,
   the while loop over offsets) equals the closed form firstn m (all_pairs n) — for EVERY in_dim n and out_dim m in the
   accepted domain (replaces the kernel computation up to n = 24). *)
From Coq Require Import List Arith Bool Lia.
From TLX Require Import Model.Wiring Proofs.WiringFacts.
Import ListNotations.

Lemma stride2_seq : forall k s, stride2 (seq s (2 * k)) = map (fun i => s + 2 * i) (seq 0 k) /\
                               stride2 (seq s (2 * k + 1)) = map (fun i => s + 2 * i) (seq 0 (k + 1)).
Proof.
  induction k as [|k IH]; intros s.
  - split; cbn; [reflexivity|]. now rewrite Nat.add_0_r.
  - destruct (IH (S (S s))) as [H1 H2]. split.
    + replace (2 * S k) with (S (S (2 * k))) by lia. cbn [seq stride2]. rewrite H1.
      cbn [seq map]. f_equal; [lia|]. rewrite <- seq_shift, map_map. apply map_ext. intros i. lia.
    + replace (2 * S k + 1) with (S (S (2 * k + 1))) by lia. cbn [seq stride2]. rewrite H2.
      replace (S k + 1) with (S (k + 1)) by lia. cbn [seq map]. f_equal; [lia|].
      rewrite <- seq_shift, map_map. apply map_ext. intros i. lia.
Qed.

Lemma stride2_seq_gen : forall n s, stride2 (seq s n) = map (fun i => s + 2 * i) (seq 0 ((n + 1) / 2)).
Proof.
  intros n s. pose proof (Nat.div_mod_eq n 2) as E. pose proof (Nat.mod_upper_bound n 2 ltac:(lia)) as Hm.
  destruct (Nat.eq_dec (n mod 2) 0) as [H0|H1].
  - rewrite H0, Nat.add_0_r in E. rewrite E at 1. rewrite (proj1 (stride2_seq (n / 2) s)).
    f_equal. f_equal. rewrite E at 2. replace (2 * (n / 2) + 1) with (1 + (n / 2) * 2) by lia.
    rewrite Nat.div_add by lia. cbn. reflexivity.
  - assert (Hm1 : n mod 2 = 1) by lia. rewrite Hm1 in E. rewrite E at 1. rewrite (proj2 (stride2_seq (n / 2) s)).
    f_equal. f_equal. rewrite E at 2. replace (2 * (n / 2) + 1 + 1) with ((n / 2 + 1) * 2) by lia.
    rewrite Nat.div_mul by lia. reflexivity.
Qed.

Lemma skipn_seq' : forall k s n, skipn k (seq s n) = seq (s + k) (n - k).
Proof.
  induction k as [|k IH]; intros s n; [now rewrite Nat.add_0_r, Nat.sub_0_r|].
  destruct n as [|n]; [reflexivity|]. cbn [seq skipn]. rewrite IH. f_equal; lia.
Qed.

Lemma firstn_seq' : forall k s n, firstn k (seq s n) = seq s (Nat.min k n).
Proof.
  induction k as [|k IH]; intros s n; [reflexivity|].
  destruct n as [|n]; [reflexivity|]. cbn [seq firstn Nat.min]. now rewrite IH.
Qed.

Lemma combine_map2 : forall (A B C : Type) (f : A -> B) (g : A -> C) l,
  combine (map f l) (map g l) = map (fun i => (f i, g i)) l.
Proof. intros A B C f g l. induction l as [|x r IH]; [reflexivity|]. cbn. now rewrite IH. Qed.

Lemma combine_app' : forall (A B : Type) (a a' : list A) (b b' : list B), length a = length b ->
  combine (a ++ a') (b ++ b') = combine a b ++ combine a' b'.
Proof.
  intros A B a. induction a as [|x r IH]; intros a' b b' H; destruct b as [|y s]; cbn in H; try discriminate; [reflexivity|].
  cbn. f_equal. apply IH. lia.
Qed.

Lemma combine_seq_off : forall s d k, combine (seq s k) (seq (s + d) k) = map (fun i => (i, i + d)) (seq s k).
Proof.
  intros s d k. revert s. induction k as [|k IH]; intros s; [reflexivity|].
  cbn [seq combine map]. f_equal. replace (S (s + d)) with (S s + d) by lia. apply IH.
Qed.

(* the prefix of all_pairs produced once offsets 2 .. off-1 have been appended *)
Definition pre (n off : nat) : list (nat * nat) := stage1 n ++ stage2 n ++ flat_map (stage_off n) (seq 2 (off - 2)).

Lemma pre_all : forall n, 2 <= n -> pre n n = all_pairs n.
Proof. reflexivity. Qed.

Lemma pre_succ : forall n off, 2 <= off -> pre n (S off) = pre n off ++ stage_off n off.
Proof.
  intros n off H. unfold pre. replace (S off - 2) with (S (off - 2)) by lia.
  rewrite seq_S, flat_map_app. cbn [flat_map]. rewrite app_nil_r, !app_assoc.
  replace (2 + (off - 2)) with off by lia. reflexivity.
Qed.

Lemma pre_prefix : forall n off, 2 <= off -> off <= n -> exists rest, all_pairs n = pre n off ++ rest.
Proof.
  intros n off H2 Hn. unfold all_pairs, pre.
  replace (n - 2) with ((off - 2) + (n - off)) by lia. rewrite seq_app, flat_map_app.
  exists (flat_map (stage_off n) (seq (2 + (off - 2)) (n - off))). rewrite <- !app_assoc. reflexivity.
Qed.

Lemma loop_correct : forall n m k fuel off a b,
  off + k = n -> 2 <= off -> k <= fuel -> m <= length (all_pairs n) ->
  combine a b = pre n off -> length a = length b ->
  exists a' b' off', offsets_loop fuel (seq 0 n) m off a b = Some (a', b') /\
    length a' = length b' /\ m <= length a' /\ combine a' b' = pre n off' /\ 2 <= off' /\ off' <= n.
Proof.
  intros n m k. induction k as [|k IH]; intros fuel off a b Hk H2 Hf Hm Hc Hl.
  - assert (off = n) by lia. subst off.
    assert (Hla : length a = length (all_pairs n)).
    { rewrite <- (pre_all n H2), <- Hc, combine_length, <- Hl. lia. }
    destruct fuel as [|f]; cbn [offsets_loop]; assert (m <=? length a = true) as -> by (apply Nat.leb_le; lia);
      exists a, b, n; repeat split; try assumption; lia.
  - destruct fuel as [|f]; [lia|]. cbn [offsets_loop].
    destruct (Nat.leb_spec m (length a)) as [Hle|Hgt].
    + exists a, b, off. repeat split; try assumption; lia.
    + rewrite seq_length. rewrite firstn_seq', skipn_seq'. cbn [Nat.add].
      replace (Nat.min (n - off) n) with (n - off) by lia.
      rewrite !app_length, !seq_length, Hl, Nat.eqb_refl.
      apply (IH f (S off) (a ++ seq 0 (n - off)) (b ++ seq off (n - off))); try lia.
      * rewrite combine_app' by exact Hl. rewrite Hc, pre_succ by exact H2. f_equal.
        unfold stage_off. exact (combine_seq_off 0 off (n - off)).
      * rewrite !app_length, !seq_length. lia.
Qed.

Lemma half_sum : forall n, 1 <= n -> n / 2 + (n - 1) / 2 = n - 1.
Proof.
  intros n H. pose proof (Nat.div_mod_eq n 2). pose proof (Nat.mod_upper_bound n 2 ltac:(lia)).
  pose proof (Nat.div_mod_eq (n - 1) 2). pose proof (Nat.mod_upper_bound (n - 1) 2 ltac:(lia)). lia.
Qed.

Theorem unique_slices_closed_form : forall n m, 2 <= n -> n <= 2 * m -> m <= n * (n - 1) / 2 ->
  exists a b, unique_slices n m = Some (a, b) /\ length a = m /\ length b = m /\
    combine a b = firstn m (all_pairs n).
Proof.
  intros n m Hn2 Hlo Hhi.
  assert (Hm : m <= length (all_pairs n)).
  { pose proof (all_pairs_length n) as E.
    assert (n * (n - 1) / 2 = length (all_pairs n)) by (rewrite <- E, Nat.mul_comm, Nat.div_mul; lia). lia. }
  unfold unique_slices.
  (* stage 1 *)
  rewrite skipn_seq', !stride2_seq_gen. cbn [Nat.add].
  unfold equalise at 1. rewrite !map_length, !seq_length.
  assert (Hmin1 : Nat.min ((n + 1) / 2) ((n - 1 + 1) / 2) = n / 2).
  { replace (n - 1 + 1) with n by lia. apply Nat.min_r. apply Nat.div_le_mono; lia. }
  rewrite Hmin1. rewrite !firstn_map, !firstn_seq'.
  replace (Nat.min (n / 2) ((n + 1) / 2)) with (n / 2) by (symmetry; apply Nat.min_l; apply Nat.div_le_mono; lia).
  replace (Nat.min (n / 2) ((n - 1 + 1) / 2)) with (n / 2) by (replace (n - 1 + 1) with n by lia; lia).
  set (a1 := map (fun i => 2 * i) (seq 0 (n / 2))). set (b1 := map (fun i => S (2 * i)) (seq 0 (n / 2))).
  assert (Hc1 : combine a1 b1 = stage1 n).
  { unfold a1, b1, stage1. rewrite combine_map2. apply map_ext. intros i. f_equal; lia. }
  assert (Hl1 : length a1 = n / 2) by (unfold a1; now rewrite map_length, seq_length).
  assert (Hl1b : length b1 = n / 2) by (unfold b1; now rewrite map_length, seq_length).
  (* stage 2 (taken iff n/2 < m) *)
  assert (Hstage : exists a2 b2, (if length a1 <? m
                                 then equalise (a1 ++ map (fun i => S (2 * i)) (seq 0 ((n - 1 + 1) / 2)))
                                               (b1 ++ stride2 (skipn 2 (seq 0 n)))
                                 else (a1, b1)) = (a2, b2) /\
           length a2 = length b2 /\
           ((m <= length a2 /\ combine a2 b2 = stage1 n) \/ combine a2 b2 = pre n 2)).
  { destruct (Nat.ltb_spec (length a1) m) as [Hlt|Hge].
    - rewrite skipn_seq', stride2_seq_gen. cbn [Nat.add].
      replace (n - 1 + 1) with n by lia. replace ((n - 2 + 1) / 2) with ((n - 1) / 2) by (f_equal; lia).
      unfold equalise. rewrite !app_length, !map_length, !seq_length, Hl1, Hl1b.
      assert (Hh : (n - 1) / 2 <= n / 2) by (apply Nat.div_le_mono; lia).
      replace (Nat.min (n / 2 + n / 2) (n / 2 + (n - 1) / 2)) with (n / 2 + (n - 1) / 2) by lia.
      eexists. eexists. split; [reflexivity|]. split.
      + rewrite !firstn_length, !app_length, !map_length, !seq_length, Hl1, Hl1b. lia.
      + right. rewrite <- combine_firstn. rewrite firstn_all2.
        * rewrite combine_firstn_r. rewrite app_length, map_length, seq_length, Hl1b.
          rewrite firstn_app, Hl1. replace (n / 2 + (n - 1) / 2 - n / 2) with ((n - 1) / 2) by lia.
          rewrite firstn_all2 by lia. rewrite firstn_map, firstn_seq'.
          replace (Nat.min ((n - 1) / 2) (n / 2)) with ((n - 1) / 2) by lia.
          rewrite combine_app' by lia. rewrite Hc1. unfold pre. cbn [seq flat_map]. rewrite app_nil_r. f_equal.
          unfold stage2. rewrite combine_map2. apply map_ext. intros i. f_equal; lia.
        * rewrite combine_length, !app_length, !map_length, !seq_length, Hl1, Hl1b. lia.
    - exists a1, b1. split; [reflexivity|]. split; [lia|]. left. split; [lia|exact Hc1]. }
  destruct Hstage as [a2 [b2 [-> [Hl2 Hcase]]]].
  destruct Hcase as [[Hge Hc2]|Hc2].
  - (* already long enough: the loop returns at once *)
    assert (Hloop : offsets_loop n (seq 0 n) m 2 a2 b2 = Some (a2, b2)).
    { destruct n as [|n']; [lia|]. cbn [offsets_loop]. assert (m <=? length a2 = true) as -> by (apply Nat.leb_le; exact Hge). reflexivity. }
    rewrite Hloop. exists (firstn m a2), (firstn m b2). split; [reflexivity|].
    rewrite !firstn_length. split; [lia|]. split; [lia|].
    rewrite <- combine_firstn, Hc2. unfold all_pairs. rewrite firstn_app.
    assert (Hs1 : length (stage1 n) = length a2) by (rewrite <- Hc2, combine_length; lia).
    replace (m - length (stage1 n)) with 0 by lia. rewrite firstn_O, app_nil_r. reflexivity.
  - destruct (loop_correct n m (n - 2) n 2 a2 b2 ltac:(lia) ltac:(lia) ltac:(lia) Hm Hc2 Hl2)
      as [a' [b' [off' [Hloop [Hl' [Hm' [Hc' [Ho2 Hon]]]]]]]].
    rewrite Hloop. exists (firstn m a'), (firstn m b'). split; [reflexivity|].
    rewrite !firstn_length. split; [lia|]. split; [lia|].
    rewrite <- combine_firstn, Hc'. destruct (pre_prefix n off' Ho2 Hon) as [rest ->].
    rewrite firstn_app.
    assert (Hlp : length (pre n off') = length a') by (rewrite <- Hc', combine_length; lia).
    replace (m - length (pre n off')) with 0 by lia. rewrite firstn_O, app_nil_r. reflexivity.
Qed.
