(* Proofs about the batch wrapper: packing, the bit-sliced ripple-carry adder, unpacking,
   and their composition with any lane-wise logic_net. *)
From Coq Require Import ZArith List Bool Arith Lia.
From TLX Require Import Model.Bits Model.CLang Model.Netlist Model.Wrapper Gen.WrapperParams.
From TLX Require Import Proofs.BitsFacts Proofs.CLangFacts.
Import ListNotations.
Local Open Scope Z_scope.

(* ---------- sign extension of in-range words *)
Definition in_range (W t : Z) : Prop := - 2 ^ (W - 1) <= t < 2 ^ (W - 1).

Lemma high_bits : forall W t k, 1 < W -> in_range W t -> W - 1 <= k ->
  Z.testbit t k = Z.testbit t (W - 1).
Proof.
  intros W t k HW [Hlo Hhi] Hk.
  assert (Hsign : forall n, W - 1 <= n -> Z.testbit t n = (t <? 0)).
  { intros n Hn. destruct (Z.ltb_spec t 0) as [Hneg|Hpos].
    - apply Z.bits_above_log2_neg; [exact Hneg|].
      destruct (Z.eq_dec (Z.pred (- t)) 0) as [E|E].
      + rewrite E. cbn. lia.
      + eapply Z.lt_le_trans; [|exact Hn]. apply Z.log2_lt_pow2; lia.
    - destruct (Z.eq_dec t 0) as [->|E]; [apply Z.testbit_0_l|].
      apply Z.bits_above_log2; [exact Hpos|].
      eapply Z.lt_le_trans; [|exact Hn]. apply Z.log2_lt_pow2; lia. }
  rewrite (Hsign k Hk), (Hsign (W - 1)) by lia. reflexivity.
Qed.

Lemma wrap_in_range : forall W z, 0 < W -> in_range W (wrap W z).
Proof. intros. apply wrap_range. assumption. Qed.

Lemma masked_bit_spec : forall (W b : nat) t, (1 < W)%nat -> (b < W)%nat -> in_range (Z.of_nat W) t ->
  masked_bit W t b = Z.b2z (Z.testbit t (Z.of_nat b)).
Proof.
  intros W b t HW Hb Ht. unfold masked_bit, Wz. f_equal.
  set (Wz := Z.of_nat W). set (bz := Z.of_nat b).
  set (mask := wrap Wz (2 ^ bz)).
  assert (HWz : 1 < Wz) by (unfold Wz; lia).
  assert (Hbz : 0 <= bz < Wz) by (unfold bz, Wz; lia).
  assert (Hmlow : forall n, 0 <= n < Wz -> Z.testbit mask n = (bz =? n)).
  { intros n Hn. unfold mask. rewrite wrap_testbit by lia. apply Z.pow2_bits_eqb. lia. }
  assert (Hmr : in_range Wz mask) by (apply wrap_in_range; lia).
  destruct (Z.testbit t bz) eqn:Etb; cbn [negb].
  - (* bit set: the conjunction is non-zero *)
    destruct (Z.eqb_spec (Z.land t mask) 0) as [E|E]; [|reflexivity].
    exfalso. assert (F : Z.testbit (Z.land t mask) bz = true).
    { rewrite Z.land_spec, Etb, Hmlow by lia. now rewrite Z.eqb_refl. }
    rewrite E, Z.testbit_0_l in F. discriminate.
  - (* bit clear: the conjunction is zero *)
    assert (E : Z.land t mask = 0).
    { apply Z.bits_inj'. intros n Hn. rewrite Z.land_spec, Z.testbit_0_l.
      destruct (Z_lt_le_dec n Wz) as [Hlt|Hge].
      - rewrite Hmlow by lia. destruct (Z.eqb_spec bz n) as [<-|]; [now rewrite Etb|apply andb_false_r].
      - rewrite (high_bits Wz mask n) by (assumption || lia).
        rewrite (high_bits Wz t n) by (assumption || lia).
        rewrite Hmlow by lia. destruct (Z.eqb_spec bz (Wz - 1)) as [E1|]; [|apply andb_false_r].
        rewrite <- E1, Etb. reflexivity. }
    rewrite E. reflexivity.
Qed.

(* ---------- packing *)
Lemma pack_fold_lane : forall (W : nat) (f : nat -> bool) n,
  (n <= W)%nat -> (0 < W)%nat ->
  forall p, (p < n)%nat ->
    Z.testbit (fold_left (fun res b => wrap (Z.of_nat W) (2 * res + Z.b2z (f b))) (seq 0 n) 0) (Z.of_nat p)
    = f (n - 1 - p)%nat.
Proof.
  intros W f n. induction n as [|n IH]; intros Hn HW p Hp; [lia|].
  rewrite seq_S, fold_left_app. cbn [fold_left Nat.add].
  set (r := fold_left _ (seq 0 n) 0) in *.
  rewrite wrap_testbit by lia.
  destruct p as [|p].
  - replace (S n - 1 - 0)%nat with n by lia. cbn [Z.of_nat]. apply Z.testbit_0_r.
  - replace (Z.of_nat (S p)) with (Z.succ (Z.of_nat p)) by lia.
    rewrite Z.testbit_succ_r by lia. replace (S n - 1 - S p)%nat with (n - 1 - p)%nat by lia.
    apply IH; lia.
Qed.

Theorem pack_word_lane : forall W in_size inp i d r, (0 < W)%nat -> (r < W)%nat ->
  Z.testbit (pack_word W in_size inp i d) (Z.of_nat r) = inp_bit W in_size inp i r d.
Proof.
  intros W in_size inp i d r HW Hr. unfold pack_word, Wz.
  rewrite (pack_fold_lane W (fun b => inp_bit W in_size inp i (W - b - 1) d) W) by lia.
  f_equal. lia.
Qed.

(* ---------- the adder, one Boolean lane *)
Fixpoint rippleb (c : bool) (o : list bool) : list bool :=
  match o with [] => [] | t :: r => xorb c t :: rippleb (c && t) r end.

Fixpoint valb (o : list bool) : Z :=       (* least significant first *)
  match o with [] => 0 | t :: r => Z.b2z t + 2 * valb r end.

Lemma valb_nonneg : forall o, 0 <= valb o.
Proof. induction o as [|t r IH]; cbn [valb]; [lia|]. destruct t; cbn [Z.b2z]; lia. Qed.

Lemma rippleb_val : forall o c, valb o + Z.b2z c < 2 ^ Z.of_nat (length o) ->
  valb (rippleb c o) = valb o + Z.b2z c.
Proof.
  induction o as [|t r IH]; intros c H.
  - cbn [rippleb valb length Z.of_nat] in *. change (2 ^ 0) with 1 in H. destruct c; cbn [Z.b2z] in *; lia.
  - cbn [rippleb valb length] in *. rewrite Nat2Z.inj_succ, Z.pow_succ_r in H by lia.
    pose proof (valb_nonneg r) as Hr.
    rewrite IH.
    + destruct c, t; cbn [xorb andb Z.b2z]; lia.
    + destruct c, t; cbn [xorb andb Z.b2z] in *; lia.
Qed.

Lemma rippleb_length : forall o c, length (rippleb c o) = length o.
Proof. induction o as [|t r IH]; intros c; cbn; [reflexivity|]. now rewrite IH. Qed.

Lemma ripple_lane : forall (W : nat) j o c, (0 < W)%nat -> 0 <= j < Z.of_nat W ->
  map (lane j) (ripple W c o) = rippleb (lane j c) (map (lane j) o).
Proof.
  intros W j o. induction o as [|t r IH]; intros c HW Hj; cbn [ripple map rippleb]; [reflexivity|].
  rewrite IH by assumption. unfold lane, Wz. rewrite !wrap_testbit by lia.
  rewrite Z.lxor_spec, Z.land_spec. reflexivity.
Qed.

Lemma ripple_in_range : forall (W : nat) o c, (0 < W)%nat -> Forall (in_range (Z.of_nat W)) (ripple W c o).
Proof.
  intros W o. induction o as [|t r IH]; intros c HW; cbn [ripple]; constructor.
  - unfold Wz. apply wrap_in_range. lia.
  - apply IH. exact HW.
Qed.

Lemma ripple_length : forall W o c, length (ripple W c o) = length o.
Proof. intros W o. induction o as [|t r IH]; intros c; cbn; [reflexivity|]. now rewrite IH. Qed.

Lemma valb_bound : forall o, valb o < 2 ^ Z.of_nat (length o).
Proof.
  induction o as [|t r IH]; cbn [valb length]; [change (2 ^ Z.of_nat 0) with 1; lia|].
  rewrite Nat2Z.inj_succ, Z.pow_succ_r by lia. destruct t; cbn [Z.b2z]; lia.
Qed.

(* adding the words xs one after the other: every lane counts its own bits *)
Lemma adder_fold_lane : forall (W : nat) j xs o, (0 < W)%nat -> 0 <= j < Z.of_nat W ->
  valb (map (lane j) o) + count_true (map (lane j) xs) < 2 ^ Z.of_nat (length o) ->
  valb (map (lane j) (fold_left (fun o x => ripple W x o) xs o))
  = valb (map (lane j) o) + count_true (map (lane j) xs)
  /\ length (fold_left (fun o x => ripple W x o) xs o) = length o.
Proof.
  intros W j xs. induction xs as [|x r IH]; intros o HW Hj H; cbn [fold_left map count_true] in *.
  - split; lia.
  - pose proof (valb_nonneg (map (lane j) o)).
    assert (Hcr : 0 <= count_true (map (lane j) r)).
    { clear. induction r as [|y r IH]; cbn [map count_true]; [lia|]. destruct (lane j y); cbn [Z.b2z]; lia. }
    assert (Hstep : valb (map (lane j) (ripple W x o)) = valb (map (lane j) o) + Z.b2z (lane j x)).
    { rewrite ripple_lane by assumption. apply rippleb_val. rewrite map_length. destruct (lane j x); cbn [Z.b2z] in *; lia. }
    destruct (IH (ripple W x o) HW Hj) as [Hv Hl].
    + rewrite Hstep, ripple_length. lia.
    + rewrite Hv, Hstep, Hl, ripple_length. split; lia.
Qed.

Lemma fold_ripple_in_range : forall (W : nat) xs o, (0 < W)%nat -> Forall (in_range (Z.of_nat W)) o ->
  Forall (in_range (Z.of_nat W)) (fold_left (fun o x => ripple W x o) xs o).
Proof.
  intros W xs. induction xs as [|x r IH]; intros o HW Ho; cbn [fold_left]; [exact Ho|].
  apply IH; [exact HW|]. apply ripple_in_range. exact HW.
Qed.

(* ---------- unpacking *)
Lemma unpack_lane_val : forall (W b : nat) o, (1 < W)%nat -> (b < W)%nat ->
  Forall (in_range (Z.of_nat W)) o -> valb (map (lane (Z.of_nat b)) o) < 2 ^ 31 ->
  unpack_lane W o b = valb (map (lane (Z.of_nat b)) o).
Proof.
  intros W b o HW Hb. induction o as [|t r IH]; intros Hr Hv; cbn [unpack_lane fold_right map valb] in *; [reflexivity|].
  inversion Hr as [|? ? Ht Hr']; subst.
  pose proof (valb_nonneg (map (lane (Z.of_nat b)) r)) as Hnn.
  fold (unpack_lane W r b). rewrite IH; [|assumption|destruct (lane (Z.of_nat b) t); cbn [Z.b2z] in Hv; lia].
  rewrite masked_bit_spec by assumption. fold (lane (Z.of_nat b) t).
  rewrite wrap_idem; [lia|lia|]. change (32 - 1) with 31.
  assert (0 < 2 ^ 31) by (apply Z.pow_pos_nonneg; lia).
  destruct (lane (Z.of_nat b) t); cbn [Z.b2z] in *; lia.
Qed.

(* ---------- accumulator width: enough for every count 0..g *)
Theorem width_enough : forall g : Z, 0 <= g -> g < 2 ^ Z.log2_up (g + 1).
Proof.
  intros g Hg. destruct (Z.eq_dec g 0) as [->|Hne]; [vm_compute; reflexivity|].
  pose proof (Z.log2_up_spec (g + 1) ltac:(lia)) as [_ H]. lia.
Qed.

(* the translated Python expression is exactly this width (for k | n it is ceil(log2(n/k + 1))) *)
Lemma acc_width_is_log2_up : forall n k, acc_width n k = Z.log2_up (group_size n k + 1).
Proof. intros. reflexivity. Qed.

(* ---------- composition: one word through pack -> logic_net -> adder -> unpack *)
Section Compose.
  Variables (W in_size n_out k : nat).
  Variable net : list Z -> option (list Z).
  Variable f : list bool -> list bool.
  Hypothesis HW : (1 < W)%nat.
  Let g := gsize n_out k.
  Hypothesis Hg31 : Z.of_nat g < 2 ^ 31.

  (* logic_net is lane-wise f (this is what C01/C02 prove about the generated code) *)
  Definition lanewise : Prop := forall inp, length inp = in_size ->
    exists out, net inp = Some out /\ length out = n_out /\
      forall j, 0 <= j < Z.of_nat W -> map (lane j) out = f (map (lane j) inp).

  Definition row (inp : list bool) (r : nat) : list bool :=
    map (fun d => nth (r * in_size + d) inp false) (seq 0 in_size).

  Lemma pack_length : forall inp i, length (pack W in_size inp i) = in_size.
  Proof. intros. unfold pack. now rewrite map_length, seq_length. Qed.

  Lemma pack_lanes : forall inp i r, (r < W)%nat ->
    map (lane (Z.of_nat r)) (pack W in_size inp i) = row inp (i * W + r).
  Proof.
    intros inp i r Hr. unfold pack, row. rewrite map_map. apply map_ext. intros d.
    unfold lane. rewrite pack_word_lane by lia. unfold inp_bit, inp_index. f_equal. nia.
  Qed.

  Lemma count_true_bound : forall l, 0 <= count_true l <= Z.of_nat (length l).
  Proof. induction l as [|b r IH]; cbn [count_true length]; [lia|]. destruct b; cbn [Z.b2z]; lia. Qed.

  Lemma width_pow : Z.of_nat g < 2 ^ Z.of_nat (width n_out k).
  Proof.
    unfold width, g, gsize. rewrite acc_width_is_log2_up.
    set (gs := group_size (Z.of_nat n_out) (Z.of_nat k)).
    assert (Hgs : 0 <= gs).
    { unfold gs, group_size. destruct (Z.eq_dec (Z.of_nat k) 0) as [E|E]; [rewrite E, Zdiv_0_r; lia|apply Z.div_pos; lia]. }
    rewrite !Z2Nat.id by (try apply Z.log2_up_nonneg; lia).
    apply width_enough. exact Hgs.
  Qed.

  Lemma class_words_lane : forall ot c j,
    map (lane j) (class_words n_out k ot c) = map (fun a => nth (c * g + a) (map (lane j) ot) false) (seq 0 g).
  Proof.
    intros ot c j. unfold class_words. rewrite map_map. apply map_ext. intros a.
    assert (E : lane j 0 = false) by (unfold lane; apply Z.testbit_0_l).
    rewrite <- E. rewrite map_nth. reflexivity.
  Qed.

  Lemma repeat_zero_lane : forall j n, valb (map (lane j) (repeat 0 n)) = 0.
  Proof.
    intros j n. induction n as [|n IH]; cbn [repeat map valb]; [reflexivity|].
    rewrite IH. unfold lane. rewrite Z.testbit_0_l. reflexivity.
  Qed.

  Lemma repeat_zero_range : forall n, Forall (in_range (Z.of_nat W)) (repeat 0 n).
  Proof.
    intros n. induction n as [|n IH]; cbn [repeat]; constructor; [|exact IH].
    unfold in_range. assert (0 < 2 ^ (Z.of_nat W - 1)) by (apply Z.pow_pos_nonneg; lia). lia.
  Qed.

  Lemma cell_correct : forall ot c b, (b < W)%nat ->
    unpack_lane W (adder W n_out k ot c) b
    = count_true (map (fun a => nth (c * g + a) (map (lane (Z.of_nat b)) ot) false) (seq 0 g)).
  Proof.
    intros ot c b Hb. unfold adder.
    set (xs := class_words n_out k ot c). set (j := Z.of_nat b).
    assert (Hj : 0 <= j < Z.of_nat W) by (unfold j; lia).
    assert (Hcnt : 0 <= count_true (map (lane j) xs) <= Z.of_nat g).
    { pose proof (count_true_bound (map (lane j) xs)) as H. rewrite map_length in H.
      unfold xs, class_words in H. rewrite map_length, seq_length in H. exact H. }
    pose proof width_pow as Hwp.
    destruct (adder_fold_lane W j xs (repeat 0 (width n_out k)) ltac:(lia) Hj) as [Hv Hl].
    { rewrite repeat_zero_lane, repeat_length. lia. }
    rewrite unpack_lane_val; try assumption.
    - fold j. rewrite Hv, repeat_zero_lane. unfold xs. rewrite class_words_lane. reflexivity.
    - apply fold_ripple_in_range; [lia|apply repeat_zero_range].
    - fold j. rewrite Hv, repeat_zero_lane. lia.
  Qed.

  Lemma flat_map_ext_in : forall (A B : Type) (h1 h2 : A -> list B) l,
    (forall x, In x l -> h1 x = h2 x) -> flat_map h1 l = flat_map h2 l.
  Proof.
    intros A B h1 h2 l. induction l as [|x r IH]; intros H; cbn [flat_map]; [reflexivity|].
    rewrite H by (left; reflexivity). rewrite IH; [reflexivity|]. intros y Hy. apply H. right. exact Hy.
  Qed.

  Lemma word_result_correct : forall ot,
    word_result W n_out k ot
    = flat_map (fun b => group_counts k g (map (lane (Z.of_nat b)) ot)) (seq 0 W).
  Proof.
    intros ot. unfold word_result, group_counts. apply flat_map_ext_in. intros b Hb. apply in_seq in Hb.
    apply map_ext. intros c. apply cell_correct. lia.
  Qed.

  Definition expected (inp : list bool) (len : nat) : list Z :=
    flat_map (fun i => flat_map (fun b => group_counts k g (f (row inp (i * W + b)))) (seq 0 W)) (seq 0 len).

  Theorem apply_logic_net_correct : lanewise -> forall inp len,
    apply_logic_net W in_size n_out k net inp len = Some (expected inp len).
  Proof.
    intros Hnet inp len. unfold apply_logic_net, expected.
    induction (seq 0 len) as [|i rest IH]; cbn [map all_some flat_map]; [reflexivity|].
    destruct (Hnet (pack W in_size inp i) (pack_length inp i)) as [ot [Hn [Hlen Hl]]].
    rewrite Hn. cbn [option_map]. rewrite IH. f_equal. f_equal.
    rewrite word_result_correct. apply flat_map_ext_in. intros b Hb. apply in_seq in Hb.
    rewrite Hl by lia. rewrite pack_lanes by lia. reflexivity.
  Qed.

  (* every index the wrapper uses is inside the array it indexes, for any number of words,
     provided the host passes len*W*in_size bools, len*W*k ints and logic_net fills n_out words *)
  Theorem wrapper_in_bounds : (k * g <= n_out)%nat -> forall len,
    Forall (fun p => (fst p < snd p)%nat) (index_uses W in_size n_out k len).
  Proof.
    intros Hkg len. unfold index_uses. apply Forall_forall. intros [ix sz] Hin.
    apply in_flat_map in Hin. destruct Hin as [i [Hi Hin]]. apply in_seq in Hi.
    apply in_app_or in Hin. destruct Hin as [Hin|Hin]; [|apply in_app_or in Hin; destruct Hin as [Hin|Hin]].
    - apply in_flat_map in Hin. destruct Hin as [d [Hd Hin]]. apply in_seq in Hd.
      apply in_map_iff in Hin. destruct Hin as [b [E Hb]]. apply in_seq in Hb. inversion E; subst. cbn [fst snd].
      unfold inp_index. remember (W - b - 1)%nat as r eqn:Er.
      assert (Hr : (r + 1 <= W)%nat) by lia.
      assert (H1 : (i * W + r + 1 <= len * W)%nat) by nia.
      assert (H2 : ((i * W + r + 1) * in_size <= len * W * in_size)%nat) by (apply Nat.mul_le_mono_r; exact H1).
      nia.
    - apply in_flat_map in Hin. destruct Hin as [c [Hc Hin]]. apply in_seq in Hc.
      apply in_map_iff in Hin. destruct Hin as [a [E Ha]]. apply in_seq in Ha. inversion E; subst. cbn [fst snd].
      fold g in Ha |- *. assert (H1 : (c * g + g <= k * g)%nat) by nia. lia.
    - apply in_flat_map in Hin. destruct Hin as [b [Hb Hin]]. apply in_seq in Hb.
      apply in_map_iff in Hin. destruct Hin as [c [E Hc]]. apply in_seq in Hc. inversion E; subst. cbn [fst snd].
      assert (H1 : (i * W + b + 1 <= len * W)%nat) by nia.
      assert (H2 : ((i * W + b + 1) * k <= len * W * k)%nat) by (apply Nat.mul_le_mono_r; exact H1).
      nia.
  Qed.
End Compose.
