(* Proofs/ProcAllocFacts.v — rename-on-save + private-copy-on-load refine the specification for EVERY inode allocation policy
   (in particular policies that re-use the numbers of replaced files); a loader that caches by file identity does not. *)
From Coq Require Import List Arith Bool Lia.
From TLX Require Import Gen.LibIO Model.Proc Model.ProcAlloc Proofs.C16Facts.
Import ListNotations.

Definition agood (s : astate) (i : inode) (m : model) : Prop :=
  exists ii, lookup i (a_inodes s) = Some ii /\ modified ii = false /\ content ii = m.

Record ARl (s : astate) (a : spec) : Prop := {
  ar_paths : forall p, match lookup p (a_fs s) with
                       | Some ip => exists m, lookup p (saved a) = Some m /\ agood s ip m
                       | None => lookup p (saved a) = None end;
  ar_len : length (made a) = length (a_handles s);
  ar_handles : forall h hi, nth_error (a_handles s) h = Some hi ->
                 exists m, nth_error (made a) h = Some m /\ agood s (mapped hi) m /\ made_from hi = m;
  ar_lenf : length (with_model a) = length (a_handles s);
  ar_flags : forall h hi, nth_error (a_handles s) h = Some hi -> nth_error (with_model a) h = Some (has_model hi)
}.

Lemma ARl_empty : ARl aempty spec_empty.
Proof. constructor; cbn; intros; try reflexivity; destruct h; discriminate. Qed.

Lemma lookup_in_snd : forall (A : Type) k (v : A) l, lookup k l = Some v -> In v (map snd l).
Proof.
  intros A k v l; induction l as [|[k' v'] r IH]; cbn [lookup map snd]; intros H; [discriminate|].
  destruct (k' =? k); [injection H as ->; left; reflexivity|right; exact (IH H)].
Qed.

Lemma path_referenced : forall s p ip, lookup p (a_fs s) = Some ip -> In ip (referenced s).
Proof. intros s p ip H. unfold referenced. apply in_or_app. left. exact (lookup_in_snd _ _ _ _ H). Qed.

Lemma handle_referenced : forall s h hi, nth_error (a_handles s) h = Some hi -> In (mapped hi) (referenced s).
Proof. intros s h hi H. unfold referenced. apply in_or_app. right. apply in_map. exact (nth_error_In _ _ H). Qed.

Section AnyPolicy.
  Variable alloc : astate -> list inode -> inode.
  Hypothesis Hfresh : fresh_policy alloc.

  (* a new file does not disturb any file that is in use *)
  Lemma agood_new_other : forall s live m' i m, In i (referenced s) \/ In i live -> agood s i m -> agood (fst (anew_inode alloc s live m')) i m.
  Proof.
    intros s live m' i m Hin [ii [H1 [H2 H3]]]. exists ii. repeat split; try assumption. unfold anew_inode. cbn [fst a_inodes].
    rewrite lookup_assign_other; [exact H1|]. intros ->. destruct (Hfresh s live) as [Ha Hb]. destruct Hin; contradiction.
  Qed.

  Lemma agood_new_self : forall s live m, agood (fst (anew_inode alloc s live m)) (snd (anew_inode alloc s live m)) m.
  Proof.
    intros s live m. unfold agood, anew_inode. cbn [fst snd a_inodes]. exists {| content := m; modified := false |}.
    rewrite lookup_assign_same. repeat split.
  Qed.

  Lemma referenced_new : forall s live m, referenced (fst (anew_inode alloc s live m)) = referenced s.
  Proof. reflexivity. Qed.

  (* the relation survives a new, still unnamed and unmapped file *)
  Lemma ARl_new : forall s a live m, ARl s a -> ARl (fst (anew_inode alloc s live m)) a.
  Proof.
    intros s a live m [Rp Rn Rh Rlf Rf]. constructor; cbn [anew_inode fst a_fs a_handles]; try assumption.
    - intros p. specialize (Rp p). destruct (lookup p (a_fs s)) as [ip|] eqn:E; [|exact Rp].
      destruct Rp as [m0 [E0 G]]. exists m0. split; [exact E0|]. apply agood_new_other; [left; exact (path_referenced _ _ _ E)|exact G].
    - intros h hi Hh. destruct (Rh h hi Hh) as [m0 [E [G Hm]]]. exists m0. repeat split; try assumption.
      apply agood_new_other; [left; exact (handle_referenced _ _ _ Hh)|exact G].
  Qed.

  (* saving model m (rename into place) with the temporary `it` alive: path p now names a good file holding m, every other
     path and every handle is untouched, and `it` still holds what it held *)
  Lemma ARl_save : forall s a it mt m save, ARl s a -> agood s it mt ->
    ARl (asave alloc s [it] m save)
        {| saved := match save with Some p => assign p m (saved a) | None => saved a end; made := made a; with_model := with_model a |}
    /\ agood (asave alloc s [it] m save) it mt /\ a_handles (asave alloc s [it] m save) = a_handles s.
  Proof.
    intros s a it mt m [p|] R Git; cbn [asave]; [|split; [destruct R; constructor; assumption|split; [exact Git|reflexivity]]].
    pose proof (ARl_new s a [it] m R) as R1. destruct R1 as [Rp Rn Rh Rlf Rf].
    cbn [anew_inode]. split; [|split].
    - constructor; cbn [a_fs a_inodes a_handles saved made with_model]; try assumption.
      + intros q. destruct (Nat.eq_dec q p) as [->|Hne].
        * rewrite !lookup_assign_same. exists m. split; [reflexivity|]. exact (agood_new_self s [it] m).
        * rewrite !lookup_assign_other by exact Hne. exact (Rp q).
    - apply (agood_new_other s [it] m it mt); [right; left; reflexivity|exact Git].
    - reflexivity.
  Qed.

  Lemma astep_refines : forall s a o, ARl s a ->
    let '(s', out) := astep alloc LPrivateCopy s o in
    let '(a', out') := spec_step a o in
    out = out' /\ ARl s' a'.
  Proof.
    intros s a o R. destruct o as [m save|p|h|h save]; cbn [astep spec_step].
    - (* compile: temporary build, save, the instance maps its temporary build *)
      pose proof (ARl_new s a [] m R) as R1. pose proof (agood_new_self s [] m) as Git.
      destruct (anew_inode alloc s [] m) as [s1 it] eqn:E1. cbn [fst snd] in R1, Git.
      destruct (ARl_save s1 a it m m save R1 Git) as [R2 [Git2 Hh2]].
      set (s2 := asave alloc s1 [it] m save) in *. cbn [anew_handle].
      assert (Hh1 : a_handles s1 = a_handles s) by (unfold anew_inode in E1; injection E1 as <- _; reflexivity).
      destruct R2 as [Rp Rn Rh Rlf Rf]. cbn [saved made with_model] in *.
      split; [rewrite Hh2, Hh1; destruct R as [_ Rn0 _ _ _]; rewrite Rn0; reflexivity|].
      constructor; cbn [a_fs a_inodes a_handles saved made with_model].
      + intros q. specialize (Rp q). destruct (lookup q (a_fs s2)) as [ip|]; [|exact Rp].
        destruct Rp as [m0 [E0 [ii [H1 [H2 H3]]]]]. exists m0. split; [exact E0|]. exists ii. repeat split; assumption.
      + rewrite !app_length. cbn. lia.
      + intros h hi Hh. apply nth_error_snoc in Hh. destruct Hh as [[Hlt Hh]|[-> ->]].
        * destruct (Rh h hi Hh) as [m0 [E [[ii [H1 [H2 H3]]] Hm]]]. exists m0. repeat split; try assumption.
          -- rewrite nth_error_app1 by (rewrite Rn; exact Hlt). exact E.
          -- exists ii. repeat split; assumption.
        * exists m. cbn [mapped made_from]. repeat split.
          -- rewrite <- Rn. rewrite nth_error_app2 by lia. now rewrite Nat.sub_diag.
          -- destruct Git2 as [ii [H1 [H2 H3]]]. exists ii. repeat split; assumption.
      + rewrite !app_length. cbn. lia.
      + apply (flags_snoc _ true); [exact Rlf|exact Rf|reflexivity].
    - (* load: a private copy of the file the path names now *)
      destruct R as [Rp Rn Rh Rlf Rf]. pose proof (Rp p) as Rpp.
      destruct (lookup p (a_fs s)) as [ip|] eqn:Ep.
      + destruct Rpp as [m0 [E0 [ii [H1 [H2 H3]]]]]. rewrite E0.
        assert (Hc : content_of s ip = m0) by (unfold content_of; rewrite H1; exact H3). rewrite Hc.
        pose proof (ARl_new s a [] m0 (Build_ARl s a Rp Rn Rh Rlf Rf)) as R1. pose proof (agood_new_self s [] m0) as Gic.
        destruct (anew_inode alloc s [] m0) as [s1 ic] eqn:E1. cbn [fst snd] in R1, Gic. cbn [anew_handle].
        assert (Hh1 : a_handles s1 = a_handles s) by (unfold anew_inode in E1; injection E1 as <- _; reflexivity).
        split; [rewrite Hh1, Rn; reflexivity|].
        destruct R1 as [Rp1 Rn1 Rh1 Rlf1 Rf1].
        constructor; cbn [a_fs a_inodes a_handles saved made with_model].
        * exact Rp1.
        * rewrite !app_length. cbn. lia.
        * intros h hi Hh. apply nth_error_snoc in Hh. destruct Hh as [[Hlt Hh]|[-> ->]].
          -- destruct (Rh1 h hi Hh) as [m1 [E [G Hm]]]. exists m1. repeat split; try assumption.
             rewrite nth_error_app1 by (rewrite Rn1; exact Hlt). exact E.
          -- exists m0. cbn [mapped made_from]. repeat split; [|exact Gic].
             rewrite <- Rn1. rewrite nth_error_app2 by lia. now rewrite Nat.sub_diag.
        * rewrite !app_length. cbn. lia.
        * apply (flags_snoc _ false); [exact Rlf1|exact Rf1|reflexivity].
      + rewrite Rpp. split; [reflexivity|constructor; assumption].
    - (* call *)
      destruct R as [Rp Rn Rh Rlf Rf]. destruct (nth_error (a_handles s) h) as [hi|] eqn:Eh.
      + destruct (Rh h hi Eh) as [m0 [E [[ii [H1 [H2 H3]]] Hm]]]. rewrite E, H1, H2, H3. split; [reflexivity|constructor; assumption].
      + assert (nth_error (made a) h = None) as -> by (apply nth_error_None; rewrite Rn; apply nth_error_None; exact Eh).
        split; [reflexivity|constructor; assumption].
    - (* compile() again on an existing instance *)
      pose proof R as R0. destruct R as [Rp Rn Rh Rlf Rf]. destruct (nth_error (a_handles s) h) as [hi|] eqn:Eh.
      + destruct (Rh h hi Eh) as [m0 [E [G Hm]]]. rewrite E, (Rf h hi Eh).
        destruct (has_model hi) eqn:Ehm; [|split; [reflexivity|exact R0]].
        rewrite Hm. pose proof (ARl_new s a [] m0 R0) as R1. pose proof (agood_new_self s [] m0) as Git.
        destruct (anew_inode alloc s [] m0) as [s1 it] eqn:E1. cbn [fst snd] in R1, Git.
        destruct (ARl_save s1 a it m0 m0 save R1 Git) as [R2 [Git2 Hh2]].
        set (s2 := asave alloc s1 [it] m0 save) in *.
        assert (Hh1 : a_handles s1 = a_handles s) by (unfold anew_inode in E1; injection E1 as <- _; reflexivity).
        split; [reflexivity|]. destruct R2 as [Rp2 Rn2 Rh2 Rlf2 Rf2]. cbn [saved made with_model] in *.
        assert (Hlt : h < length (a_handles s2)) by (rewrite Hh2, Hh1; apply nth_error_Some; congruence).
        constructor; cbn [aremap a_fs a_inodes a_handles saved made with_model].
        * exact Rp2.
        * rewrite length_set_nth. exact Rn2.
        * intros k hk Hk. destruct (Nat.eq_dec k h) as [->|Hne].
          -- rewrite nth_error_set_nth_same in Hk by exact Hlt. injection Hk as <-. cbn [mapped made_from].
             exists m0. repeat split; [exact E|exact Git2|exact Hm].
          -- rewrite nth_error_set_nth_other in Hk by exact Hne. exact (Rh2 k hk Hk).
        * rewrite length_set_nth. exact Rlf2.
        * intros k hk Hk. destruct (Nat.eq_dec k h) as [->|Hne].
          -- rewrite nth_error_set_nth_same in Hk by exact Hlt. injection Hk as <-. cbn [has_model].
             try rewrite Ehm. pose proof (Rf h hi Eh) as Hf. rewrite Ehm in Hf. exact Hf.
          -- rewrite nth_error_set_nth_other in Hk by exact Hne. exact (Rf2 k hk Hk).
      + assert (nth_error (made a) h = None) as -> by (apply nth_error_None; rewrite Rn; apply nth_error_None; exact Eh).
        split; [reflexivity|exact R0].
  Qed.

  Theorem arun_refines : forall ops s a, ARl s a -> arun alloc LPrivateCopy s ops = spec_run a ops.
  Proof.
    induction ops as [|o r IH]; intros s a R; cbn [arun spec_run]; [reflexivity|].
    pose proof (astep_refines s a o R) as H.
    destruct (astep alloc LPrivateCopy s o) as [s' out]. destruct (spec_step a o) as [a' out'].
    destruct H as [-> R']. f_equal. exact (IH _ _ R').
  Qed.

  (* EVERY history, EVERY allocation policy a file system may follow *)
  Theorem histories_refine_spec_any_policy : forall ops, arun alloc LPrivateCopy aempty ops = spec_run spec_empty ops.
  Proof. intros ops. apply arun_refines. exact ARl_empty. Qed.
End AnyPolicy.

(* ---- the concrete policies are legal ---- *)
Lemma max_ge_in : forall l x, In x l -> x <= fold_right Nat.max 0 l.
Proof. induction l as [|y l IH]; intros x Hx; [destruct Hx|]. destruct Hx as [->|H]; cbn [fold_right]; [lia|specialize (IH _ H); lia]. Qed.

Lemma never_reuse_fresh : fresh_policy alloc_never_reuse.
Proof.
  intros s live. unfold alloc_never_reuse. set (l := map fst (a_inodes s) ++ referenced s ++ live).
  split; intros H.
  - assert (In (S (fold_right Nat.max 0 l)) l) by (unfold l; apply in_or_app; right; apply in_or_app; left; exact H).
    apply max_ge_in in H0. lia.
  - assert (In (S (fold_right Nat.max 0 l)) l) by (unfold l; apply in_or_app; right; apply in_or_app; right; exact H).
    apply max_ge_in in H0. lia.
Qed.

Lemma smallest_free_fresh : fresh_policy alloc_smallest_free.
Proof.
  intros s live. unfold alloc_smallest_free.
  destruct (find _ _) as [i|] eqn:E; [|exact (never_reuse_fresh s live)].
  apply find_some in E. destruct E as [_ E]. apply negb_true_iff in E.
  assert (Hn : ~ In i (referenced s ++ live)).
  { intros Hin. assert (existsb (Nat.eqb i) (referenced s ++ live) = true); [|congruence].
    apply existsb_exists. exists i. split; [exact Hin|apply Nat.eqb_refl]. }
  split; intros H; apply Hn; apply in_or_app; [left|right]; exact H.
Qed.

Lemma two_devices_fresh : fresh_policy alloc_two_devices.
Proof. intros s live. unfold alloc_two_devices. destruct live; [exact (never_reuse_fresh s [])|exact (smallest_free_fresh s _)]. Qed.

(* ---- a loader that remembers mapped libraries by the identity of the saved file ---- *)
Definition recycle_history : list op := [OCompile 1 (Some 0); OLoad 0; OCompile 2 (Some 0); OCompile 2 (Some 0); OLoad 0; OCall 4].
Lemma cached_by_identity_stale :
  arun alloc_two_devices LCachedByIdentity aempty recycle_history = [RHandle 0; RHandle 1; RHandle 2; RHandle 3; RHandle 4; RValue 1]
  /\ spec_run spec_empty recycle_history = [RHandle 0; RHandle 1; RHandle 2; RHandle 3; RHandle 4; RValue 2]
  /\ arun alloc_never_reuse LCachedByIdentity aempty recycle_history = spec_run spec_empty recycle_history.
Proof. repeat split; vm_compute; reflexivity. Qed.
