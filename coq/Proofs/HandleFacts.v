From Coq Require Import List Arith Bool.
From TLX Require Import Model.Handle.
Import ListNotations.

Definition HR (s : hstate) (a : hspec) : Prop :=
  cur s = s_cur a /\ lib s = s_installed a /\ (forall l, lib s = Some l -> described s = l).

Lemma hstep_refines : forall s a o, HR s a ->
  let '(s', out) := hstep TablesWithLibrary s o in
  let '(a', out') := hspec_step a o in out = out' /\ HR s' a'.
Proof.
  intros s a o [Hc [Hl Hd]]. destruct o as [m| | |]; cbn [hstep hspec_step].
  - split; [reflexivity|]. repeat split; cbn; assumption.
  - rewrite Hc. split; [reflexivity|]. repeat split; cbn; assumption.
  - rewrite Hc. destruct (supported (s_cur a)).
    + split; [reflexivity|]. repeat split; cbn; try reflexivity. intros l E. congruence.
    + split; [reflexivity|]. repeat split; cbn; assumption.
  - rewrite <- Hl. destruct (lib s) as [l|] eqn:E.
    + rewrite (Hd l eq_refl), Nat.eqb_refl. split; [reflexivity|]. split; [exact Hc|]. split; [rewrite E; exact Hl|].
      intros l' E'. rewrite E in E'. injection E' as <-. exact (Hd l eq_refl).
    + split; [reflexivity|]. split; [exact Hc|]. split; [rewrite E; exact Hl|]. intros l' E'. rewrite E in E'. discriminate.
Qed.

Theorem handle_refines_spec : forall ops s a, HR s a -> hrun TablesWithLibrary s ops = hspec_run a ops.
Proof.
  induction ops as [|o r IH]; intros s a R; cbn [hrun hspec_run]; [reflexivity|].
  pose proof (hstep_refines s a o R) as H. destruct (hstep TablesWithLibrary s o) as [s' out]. destruct (hspec_step a o) as [a' out'].
  destruct H as [-> R']. f_equal. exact (IH _ _ R').
Qed.

Theorem handle_histories : forall m0 ops, hrun TablesWithLibrary (hinit m0) ops = hspec_run {| s_cur := m0; s_installed := None |} ops.
Proof. intros m0 ops. apply handle_refines_spec. repeat split; cbn; try reflexivity. intros l E; discriminate. Qed.

(* tables rewritten by every parse: exporting the C text of a changed container, or a refused compile, breaks a working handle *)
Lemma tables_on_parse_refuted :
  hrun TablesOnParse (hinit 1) [HCompile; HCall; HSet 2; HGetCode; HCall] = [HOk; HValue 1; HOk; HOk; HGarbage]
  /\ hrun TablesOnParse (hinit 1) [HCompile; HSet 0; HCompile; HSet 1; HCall] = [HOk; HOk; HRefused; HOk; HGarbage]
  /\ hspec_run {| s_cur := 1; s_installed := None |} [HCompile; HCall; HSet 2; HGetCode; HCall] = [HOk; HValue 1; HOk; HOk; HValue 1]
  /\ hspec_run {| s_cur := 1; s_installed := None |} [HCompile; HSet 0; HCompile; HSet 1; HCall] = [HOk; HOk; HRefused; HOk; HValue 1].
Proof. repeat split; vm_compute; reflexivity. Qed.
