(* The documented gate tables (docs/guides/logic_gates.md and the comment table in functional.py), kept apart from C04Facts so that a
   documentation-only change cannot disturb the proofs other properties depend on. *)
From Coq Require Import String ZArith List Bool Arith.
From TLX Require Import Model.Bits Gen.Tables.
Import ListNotations.

(* ---- documented tables *)
Definition table_of_tt : list (nat * (bool * bool * bool * bool)) :=
  map (fun g => (g, (tt g false false, tt g false true, tt g true false, tt g true true))) (seq 0 16).

Lemma docs_table_ok : docs_table = table_of_tt. Proof. vm_compute. reflexivity. Qed.
(* the worded columns of the documented table (operation, name, formula), rendered as Boolean functions by the translator *)
Definition worded_ok (r : nat * list (bool -> bool -> bool)) : bool :=
  forallb (fun f => forallb (fun a => forallb (fun b => Bool.eqb (f a b) (tt (fst r) a b)) [false; true]) [false; true]) (snd r)
  && (2 <=? List.length (snd r))%nat.
Lemma docs_worded_ok : map fst docs_worded = seq 0 16 /\ forallb worded_ok docs_worded = true.
Proof. split; vm_compute; reflexivity. Qed.
Lemma comment_table_ok : comment_table = table_of_tt. Proof. vm_compute. reflexivity. Qed.
