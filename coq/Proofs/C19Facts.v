From Coq Require Import String ZArith List Bool Arith Lia.
From TLX Require Import Model.Domain.
Import ListNotations.
Local Open Scope string_scope.
Local Open Scope nat_scope.

Lemma dense_ctor_reject : forall c, dense_ctor_domain c = false -> dense_ctor_accepts c = false.
Proof.
  intros c H. unfold dense_ctor_domain, dense_ctor_accepts in *.
  destruct c as [n m conn par wi impl]; cbn [dc_in dc_out dc_connections dc_param dc_weight_init dc_impl] in *.
  destruct (mem_str conn ["random"; "unique"]) eqn:Ec; [|now rewrite !andb_false_r].
  destruct (mem_str par ["raw"; "walsh"]) eqn:Ep.
  2:{ unfold mem_str in Ep. cbn in Ep. rewrite !orb_false_r in Ep. apply orb_false_iff in Ep. destruct Ep as [E1 E2].
      rewrite E1, E2. reflexivity. }
  destruct (mem_str wi ["residual"; "random"]) eqn:Ew.
  2:{ destruct (String.eqb (par) "raw"); [reflexivity|]. destruct (String.eqb (par) "walsh"); reflexivity. }
  destruct (mem_str impl [""; "python"; "cuda"]) eqn:Ei.
  2:{ unfold mem_str in Ei. cbn in Ei. rewrite !orb_false_r in Ei. apply orb_false_iff in Ei. destruct Ei as [E1 Ei].
      apply orb_false_iff in Ei. destruct Ei as [E2 E3]. rewrite E1. unfold mem_str. cbn. rewrite E2, E3.
      rewrite !andb_false_r. reflexivity. }
  cbn [andb] in H. destruct (String.eqb (conn) "unique") eqn:Eu; cbn [negb orb] in H; [|discriminate].
  rewrite (Nat.mul_comm m 2). rewrite H. rewrite !andb_false_r. reflexivity.
Qed.

Lemma dense_ctor_accept : forall c, dense_ctor_domain c = true -> dense_ctor_accepts c = true.
Proof.
  intros c H. unfold dense_ctor_domain, dense_ctor_accepts in *.
  destruct c as [n m conn par wi impl]; cbn [dc_in dc_out dc_connections dc_param dc_weight_init dc_impl] in *.
  repeat rewrite andb_true_iff in H. destruct H as [[[[Hc Hp] Hw] Hi] Hu].
  rewrite Hw, Hc. unfold mem_str in Hp, Hi. cbn in Hp, Hi. rewrite !orb_false_r in Hp, Hi.
  apply orb_true_iff in Hp. 
  assert (G1 : (if String.eqb par "raw" then true else if String.eqb par "walsh" then true else false) = true)
    by (destruct Hp as [-> | ->]; [reflexivity|destruct (String.eqb (par) "raw"); reflexivity]).
  rewrite G1.
  assert (G2 : mem_str (if String.eqb impl "" then "python" else impl) ["cuda"; "python"] = true).
  { apply orb_true_iff in Hi. destruct Hi as [E|Hi]; [rewrite E; reflexivity|].
    apply orb_true_iff in Hi. destruct (String.eqb (impl) "") eqn:E0; [reflexivity|]. unfold mem_str. cbn.
    destruct Hi as [-> | ->]; [now rewrite orb_true_r|reflexivity]. }
  rewrite G2. cbn [andb]. destruct (String.eqb (conn) "unique"); [|reflexivity]. cbn [negb orb] in Hu.
  rewrite (Nat.mul_comm m 2). exact Hu.
Qed.

Lemma conv_ctor_reject : forall c, conv_ctor_domain c = false -> conv_ctor_accepts c = false.
Proof.
  intros c H. unfold conv_ctor_domain, conv_ctor_accepts in *.
  destruct (forallb (fun r => cc_stride c <=? r) (cc_rf c)); [|now rewrite !andb_false_r].
  destruct (forallb (fun '(n, r) => r <=? n + 2 * cc_pad c) (combine (cc_dims c) (cc_rf c))); [|now rewrite !andb_false_r].
  destruct (mem_str (cc_param c) ["raw"; "walsh"]); [|reflexivity].
  destruct (mem_str (cc_weight_init c) ["residual"; "random"]); [|reflexivity].
  destruct (mem_str (cc_sampling c) ["soft"; "hard"; "gumbel_soft"; "gumbel_hard"]); [|reflexivity].
  cbn [andb] in *. rewrite !andb_true_r in *.
  unfold mem_str in H. cbn [existsb] in H. rewrite orb_false_r in H.
  destruct (String.eqb (cc_connections c) "random") eqn:E1.
  - apply String.eqb_eq in E1. rewrite E1 in H. cbn in H. discriminate.
  - destruct (String.eqb (cc_connections c) "random-unique") eqn:E2; [|reflexivity]. cbn in H. exact H.
Qed.

Lemma conv_ctor_accept : forall c, conv_ctor_domain c = true -> conv_ctor_accepts c = true.
Proof.
  intros c H. unfold conv_ctor_domain, conv_ctor_accepts in *.
  repeat rewrite andb_true_iff in H. destruct H as [[[[[[Hs Hf] Hc] Hp] Hw] Hm] Hu].
  rewrite Hs, Hf, Hp, Hw, Hm. cbn [andb]. rewrite andb_true_r.
  unfold mem_str in Hc. cbn in Hc. rewrite orb_false_r in Hc.
  destruct (String.eqb (cc_connections c) "random") eqn:E1; [reflexivity|]. cbn in Hc. rewrite Hc in *. cbn in Hu. exact Hu.
Qed.

Lemma compiler_reject : forall b cc n, compiler_domain b cc n = false -> compiler_accepts b cc n = false.
Proof.
  intros b cc n H. unfold compiler_domain, compiler_accepts in *.
  assert (E : mem_str cc ["clang"; "gcc"] = mem_str cc ["gcc"; "clang"]).
  { unfold mem_str. cbn. rewrite !orb_false_r. apply orb_comm. }
  rewrite E. destruct (existsb (Nat.eqb b) [8; 16; 32; 64]), (mem_str cc ["gcc"; "clang"]), (negb (n =? 0)); cbn in *; congruence.
Qed.

Lemma gumbel_reject : forall tau, gumbel_domain tau = false -> gumbel_accepts tau = false.
Proof.
  intros tau H. unfold gumbel_domain, gumbel_accepts in *. apply Z.ltb_ge in H.
  apply negb_false_iff. apply Z.leb_le. exact H.
Qed.
