From Coq Require Import String ZArith List Bool Arith Lia.
From TLX Require Import Model.Domain.
Import ListNotations.
Local Open Scope string_scope.
Local Open Scope nat_scope.

Lemma dense_ctor_reject : forall c, dense_ctor_domain c = false -> dense_ctor_accepts c = false.
Proof.
  intros c H. unfold dense_ctor_domain, dense_ctor_accepts in *.
  destruct c as [n m conn par wi impl]; cbn [dc_in dc_out dc_connections dc_param dc_weight_init dc_impl] in *.
  destruct (mem_str conn ["random"; "unique"]) eqn:Ec; [|now rewrite !andb_false_r].
  destruct (mem_str par ["raw"; "walsh"]) eqn:Ep.
  2:{ unfold mem_str in Ep. cbn in Ep. rewrite !orb_false_r in Ep. apply orb_false_iff in Ep. destruct Ep as [E1 E2].
      rewrite E1, E2. reflexivity. }
  destruct (mem_str wi ["residual"; "random"]) eqn:Ew.
  2:{ destruct (String.eqb (par) "raw"); [reflexivity|]. destruct (String.eqb (par) "walsh"); reflexivity. }
  destruct (mem_str impl [""; "python"; "cuda"]) eqn:Ei.
  2:{ unfold mem_str in Ei. cbn in Ei. rewrite !orb_false_r in Ei. apply orb_false_iff in Ei. destruct Ei as [E1 Ei].
      apply orb_false_iff in Ei. destruct Ei as [E2 E3]. rewrite E1. unfold mem_str. cbn. rewrite E2, E3.
      rewrite !andb_false_r. reflexivity. }
  cbn [andb] in H. destruct (String.eqb (conn) "unique") eqn:Eu; cbn [negb orb] in H; [|discriminate].
  rewrite (Nat.mul_comm m 2). rewrite H. rewrite !andb_false_r. reflexivity.
Qed.

Lemma dense_ctor_accept : forall c, dense_ctor_domain c = true -> dense_ctor_accepts c = true.
Proof.
  intros c H. unfold dense_ctor_domain, dense_ctor_accepts in *.
  destruct c as [n m conn par wi impl]; cbn [dc_in dc_out dc_connections dc_param dc_weight_init dc_impl] in *.
  repeat rewrite andb_true_iff in H. destruct H as [[[[Hc Hp] Hw] Hi] Hu].
  rewrite Hw, Hc. unfold mem_str in Hp, Hi. cbn in Hp, Hi. rewrite !orb_false_r in Hp, Hi.
  apply orb_true_iff in Hp. 
  assert (G1 : (if String.eqb par "raw" then true else if String.eqb par "walsh" then true else false) = true)
    by (destruct Hp as [-> | ->]; [reflexivity|destruct (String.eqb (par) "raw"); reflexivity]).
  rewrite G1.
  assert (G2 : mem_str (if String.eqb impl "" then "python" else impl) ["cuda"; "python"] = true).
  { apply orb_true_iff in Hi. destruct Hi as [E|Hi]; [rewrite E; reflexivity|].
    apply orb_true_iff in Hi. destruct (String.eqb (impl) "") eqn:E0; [reflexivity|]. unfold mem_str. cbn.
    destruct Hi as [-> | ->]; [now rewrite orb_true_r|reflexivity]. }
  rewrite G2. cbn [andb]. destruct (String.eqb (conn) "unique"); [|reflexivity]. cbn [negb orb] in Hu.
  rewrite (Nat.mul_comm m 2). exact Hu.
Qed.

Lemma conv_ctor_reject : forall c, conv_ctor_domain c = false -> conv_ctor_accepts c = false.
Proof.
  intros c H. unfold conv_ctor_domain, conv_ctor_accepts in *.
  destruct (forallb (fun r => cc_stride c <=? r) (cc_rf c)); [|now rewrite !andb_false_r].
  destruct (0 <=? cc_pad c)%Z eqn:Epad.
  2:{ assert ((cc_pad c <? 0)%Z = true) as -> by (apply Z.ltb_lt; apply Z.leb_gt in Epad; exact Epad).
      cbn [negb]. now rewrite !andb_false_r. }
  assert ((cc_pad c <? 0)%Z = false) as -> by (apply Z.ltb_ge; apply Z.leb_le in Epad; exact Epad).
  destruct (forallb (fun '(n, r) => r <=? n + 2 * pad_nat c) (combine (cc_dims c) (cc_rf c))); [|now rewrite !andb_false_r].
  destruct (mem_str (cc_param c) ["raw"; "walsh"]); [|reflexivity].
  destruct (mem_str (cc_weight_init c) ["residual"; "random"]); [|reflexivity].
  destruct (mem_str (cc_sampling c) ["soft"; "hard"; "gumbel_soft"; "gumbel_hard"]); [|reflexivity].
  destruct (mem_str (cc_impl c) [""; "python"; "cuda"]); [|reflexivity].
  cbn [andb negb] in *. rewrite !andb_true_r in *.
  destruct (String.eqb (cc_connections c) "random") eqn:E1.
  - apply String.eqb_eq in E1. rewrite E1 in H. cbn in H. discriminate.
  - cbn [orb] in H. destruct (is_unique (cc_connections c)) eqn:E2; [|reflexivity]. cbn in H. exact H.
Qed.

Lemma conv_ctor_accept : forall c, conv_ctor_domain c = true -> conv_ctor_accepts c = true.
Proof.
  intros c H. unfold conv_ctor_domain, conv_ctor_accepts in *.
  repeat rewrite andb_true_iff in H. destruct H as [[[[[[[[Hs Hpad] Hf] Hc] Hp] Hw] Hm] Hi] Hu].
  assert ((cc_pad c <? 0)%Z = false) as -> by (apply Z.ltb_ge; apply Z.leb_le in Hpad; exact Hpad).
  rewrite Hs, Hf, Hp, Hw, Hm, Hi. cbn [andb negb]. rewrite andb_true_r.
  destruct (String.eqb (cc_connections c) "random") eqn:E1; [reflexivity|]. cbn [orb] in Hc. rewrite Hc in *. cbn in Hu. exact Hu.
Qed.

Lemma groupsum_ctor_reject : forall k, groupsum_ctor_domain k = false -> groupsum_ctor_accepts k = false.
Proof. intros k H. unfold groupsum_ctor_domain, groupsum_ctor_accepts in *. rewrite H. reflexivity. Qed.
Lemma groupsum_ctor_accept : forall k, groupsum_ctor_domain k = true -> groupsum_ctor_accepts k = true.
Proof. intros k H. unfold groupsum_ctor_domain, groupsum_ctor_accepts in *. rewrite H. reflexivity. Qed.

Lemma pool_compile_decides : forall k s p dims, pool_compile_accepts k s p dims = pool_domain k s p dims.
Proof.
  intros k s p dims. unfold pool_compile_accepts, pool_domain.
  assert (E1 : (0 <=? 2 * p)%Z = (0 <=? p)%Z).
  { destruct (0 <=? p)%Z eqn:E; [apply Z.leb_le in E; apply Z.leb_le; lia|apply Z.leb_gt in E; apply Z.leb_gt; lia]. }
  rewrite E1.
  assert (E2 : forallb (fun n => (n + 2 * p >=? k)%Z) dims = forallb (fun n => (k <=? n + 2 * p)%Z) dims).
  { induction dims as [|n dims IHd]; [reflexivity|]. cbn [forallb]. rewrite IHd, Z.geb_leb. reflexivity. }
  rewrite E2. rewrite <- !andb_assoc. reflexivity.
Qed.

Lemma list_eqb_nat_eq : forall a b, list_eqb_nat a b = true <-> a = b.
Proof.
  induction a as [|x a IH]; intros [|y b]; unfold list_eqb_nat; cbn; try (split; [discriminate|discriminate]).
  - split; reflexivity.
  - fold (list_eqb_nat a b) in *. specialize (IH b). unfold list_eqb_nat in IH.
    destruct (x =? y) eqn:E.
    + apply Nat.eqb_eq in E. subst y. cbn [andb].
      split.
      * intros H. f_equal. apply IH. destruct (length a =? length b); [exact H|discriminate].
      * intros H. injection H as ->. assert (R : b = b) by reflexivity. apply IH in R.
        destruct (length b =? length b); [exact R|discriminate].
    + rewrite andb_false_r. split; [discriminate|]. intros H. injection H as -> _. rewrite Nat.eqb_refl in E. discriminate.
Qed.

Lemma compiled_forward_decides : forall d lf sh, d <> [] -> compiled_forward_accepts d lf sh = compiled_forward_domain d lf sh.
Proof.
  intros d lf [|b sample] Hd; [reflexivity|]. unfold compiled_forward_accepts, compiled_forward_domain.
  cbn [length]. 
  assert (Hlen2 : forall l : list nat, (S (length l) =? 2) = (length l =? 1)) by (intros; reflexivity).
  assert (Hge2 : forall l : list nat, (2 <=? S (length l)) = (1 <=? length l)) by (intros; reflexivity).
  rewrite Hlen2, Hge2.
  assert (Hflat : forall n, list_eqb_nat sample [n] = (length sample =? 1) && (prodn sample =? n)).
  { intros n. destruct sample as [|x [|y r]]; unfold list_eqb_nat; cbn; try reflexivity.
    rewrite Nat.mul_1_r. rewrite andb_true_r. reflexivity. }
  assert (Hsame : list_eqb_nat sample d = true -> prodn sample = prodn d /\ length sample = length d).
  { intros H. apply list_eqb_nat_eq in H. subst. split; reflexivity. }
  destruct d as [|d0 [|d1 dr]].
  - congruence.
  - (* declared = [d0] *) cbn [length]. change (1 <? 1) with false. rewrite andb_false_r.
    destruct lf; cbn [negb].
    + rewrite andb_false_r. reflexivity.
    + rewrite andb_true_r.
      destruct ((1 <=? length sample) && (prodn sample =? prodn [d0])) eqn:E.
      * rewrite Hflat. apply andb_true_iff in E. destruct E as [_ E]. cbn [prodn fold_right] in *.
        rewrite Nat.mul_1_r in E. rewrite E. rewrite andb_true_r. reflexivity.
      * rewrite Hflat. cbn [prodn fold_right] in *. rewrite Nat.mul_1_r in E.
        destruct (length sample =? 1) eqn:E1; [|reflexivity]. apply Nat.eqb_eq in E1. rewrite E1 in E. cbn in E. rewrite E. reflexivity.
  - (* declared has rank >= 2 *)
    cbn [length]. change (1 <? S (S (length dr))) with true. rewrite andb_true_r.
    destruct ((1 <=? length sample) && (prodn sample =? prodn (d0 :: d1 :: dr))) eqn:E.
    + rewrite Hflat. apply andb_true_iff in E. destruct E as [_ E]. rewrite E. rewrite andb_true_r. apply orb_comm.
    + rewrite Hflat.
      destruct (list_eqb_nat sample (d0 :: d1 :: dr)) eqn:Es.
      * exfalso. destruct (Hsame eq_refl) as [Hp Hl]. rewrite Hp, Nat.eqb_refl, andb_true_r in E. rewrite Hl in E. discriminate E.
      * cbn [orb]. destruct (length sample =? 1) eqn:E1; [|reflexivity]. apply Nat.eqb_eq in E1. rewrite E1 in E.
        change (1 <=? 1) with true in E. cbn [andb] in *. rewrite E. reflexivity.
Qed.

Lemma compiler_reject : forall b cc n, compiler_domain b cc n = false -> compiler_accepts b cc n = false.
Proof.
  intros b cc n H. unfold compiler_domain, compiler_accepts in *.
  assert (E : mem_str cc ["clang"; "gcc"] = mem_str cc ["gcc"; "clang"]).
  { unfold mem_str. cbn. rewrite !orb_false_r. apply orb_comm. }
  rewrite E. destruct (existsb (Nat.eqb b) [8; 16; 32; 64]), (mem_str cc ["gcc"; "clang"]), (negb (n =? 0)); cbn in *; congruence.
Qed.

Lemma gumbel_reject : forall tau, gumbel_domain tau = false -> gumbel_accepts tau = false.
Proof.
  intros tau H. unfold gumbel_domain, gumbel_accepts in *. apply Z.ltb_ge in H.
  apply negb_false_iff. apply Z.leb_le. exact H.
Qed.

Lemma positive_finite_guard_decides : forall v, positive_finite_guard_accepts v = positive_finite_domain v.
Proof. intros []; reflexivity. Qed.
