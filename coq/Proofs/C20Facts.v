From Coq Require Import ZArith List Lia.
From TLX Require Import Model.Shapes Gen.Models.
Import ListNotations.
Local Open Scope Z_scope.
Ltac Zify.zify_post_hook ::= Z.div_mod_to_equations.

Ltac eval_closed k :=
  repeat match goal with
         | |- context [out_z ?n ?p ?r ?s] =>
             lazymatch constr:((n, p, r, s)) with
             | context [k] => fail
             | _ => let v := eval vm_compute in (out_z n p r s) in change (out_z n p r s) with v
             end
         | |- context [zprod ?l] =>
             lazymatch l with
             | context [k] => fail
             | _ => let v := eval vm_compute in (zprod l) in change (zprod l) with v
             end
         end.

Ltac shapes :=
  intros k Hk;
  cbv [run layer map
       ClgnMnist_layers ClgnCifar10_nbits1_layers ClgnCifar10_nbits2_layers ClgnCifar10_nbits3_layers ClgnCifar10_nbits4_layers ClgnCifar10_nbits5_layers
       ClgnCifar10Res_nbits1_layers ClgnCifar10Res_nbits2_layers ClgnCifar10Res_nbits3_layers ClgnCifar10Res_nbits4_layers ClgnCifar10Res_nbits5_layers
       ClgnCifar10Tiny_layers ClgnCifar10Mini_layers DlgnMnist_layers DlgnCifar10_2_4_layers DlgnCifar10_5_5_layers
       Dlgn_generic_layers CNN_layers RandomlyConnectedNN_layers];
  eval_closed k;
  repeat match goal with
         | |- _ /\ _ => split
         | |- Forall _ _ => constructor
         | |- @eq (list Z) _ _ => f_equal
         | |- @eq shape _ _ => f_equal
         end; try reflexivity; try lia.

Lemma ClgnMnist_ok : forall k, 1 <= k -> run (ClgnMnist_layers k) (Sp 1 [28; 28]) (fun s => s = Fl 10).
Proof. shapes. Qed.
Lemma ClgnCifar10_1_ok : forall k, 1 <= k -> run (ClgnCifar10_nbits1_layers k) (Sp 3 [32; 32]) (fun s => s = Fl 10).
Proof. shapes. Qed.
Lemma ClgnCifar10_2_ok : forall k, 1 <= k -> run (ClgnCifar10_nbits2_layers k) (Sp 6 [32; 32]) (fun s => s = Fl 10).
Proof. shapes. Qed.
Lemma ClgnCifar10_4_ok : forall k, 1 <= k -> run (ClgnCifar10_nbits4_layers k) (Sp 12 [32; 32]) (fun s => s = Fl 10).
Proof. shapes. Qed.
Lemma ClgnCifar10Res_2_ok : forall k, 1 <= k -> run (ClgnCifar10Res_nbits2_layers k) (Sp 6 [32; 32]) (fun s => s = Fl 10).
Proof. shapes. Qed.
Lemma ClgnCifar10Res_4_ok : forall k, 1 <= k -> run (ClgnCifar10Res_nbits4_layers k) (Sp 12 [32; 32]) (fun s => s = Fl 10).
Proof. shapes. Qed.
Lemma ClgnCifar10_3_ok : forall k, 1 <= k -> run (ClgnCifar10_nbits3_layers k) (Sp 9 [32; 32]) (fun s => s = Fl 10).
Proof. shapes. Qed.
Lemma ClgnCifar10_5_ok : forall k, 1 <= k -> run (ClgnCifar10_nbits5_layers k) (Sp 15 [32; 32]) (fun s => s = Fl 10).
Proof. shapes. Qed.
Lemma ClgnCifar10Res_1_ok : forall k, 1 <= k -> run (ClgnCifar10Res_nbits1_layers k) (Sp 3 [32; 32]) (fun s => s = Fl 10).
Proof. shapes. Qed.
Lemma ClgnCifar10Res_3_ok : forall k, 1 <= k -> run (ClgnCifar10Res_nbits3_layers k) (Sp 9 [32; 32]) (fun s => s = Fl 10).
Proof. shapes. Qed.
Lemma ClgnCifar10Res_5_ok : forall k, 1 <= k -> run (ClgnCifar10Res_nbits5_layers k) (Sp 15 [32; 32]) (fun s => s = Fl 10).
Proof. shapes. Qed.
Lemma ClgnCifar10Tiny_ok : forall k, 1 <= k -> run (ClgnCifar10Tiny_layers k) (Sp 9 [32; 32]) (fun s => s = Fl 10).
Proof. shapes. Qed.
Lemma ClgnCifar10Mini_ok : forall k, 1 <= k -> run (ClgnCifar10Mini_layers k) (Sp 9 [32; 32]) (fun s => s = Fl 10).
Proof. shapes. Qed.
(* dense family: neurons_per_layer = 10*k (any multiple of the class count) *)
Lemma DlgnMnist_ok : forall k, 1 <= k -> run (DlgnMnist_layers k) (Sp 1 [28; 28]) (fun s => s = Fl 10).
Proof. shapes. Qed.
Lemma DlgnCifar10_2_4_ok : forall k, 1 <= k -> run (DlgnCifar10_2_4_layers k) (Sp 6 [32; 32]) (fun s => s = Fl 10).
Proof. shapes. Qed.
Lemma DlgnCifar10_5_5_ok : forall k, 1 <= k -> run (DlgnCifar10_5_5_layers k) (Sp 15 [32; 32]) (fun s => s = Fl 10).
Proof. shapes. Qed.
Lemma Dlgn_generic_ok : forall k, 1 <= k -> run (Dlgn_generic_layers k) (Sp 1 [3; 4]) (fun s => s = Fl 4).
Proof. shapes. Qed.
Lemma CNN_ok : forall k, 1 <= k -> run (CNN_layers k) (Sp 1 [28; 28]) (fun s => s = Fl 10).
Proof. shapes. Qed.
Lemma RandomlyConnectedNN_ok : forall k, 1 <= k -> run (RandomlyConnectedNN_layers k) (Sp 1 [3; 4]) (fun s => s = Fl 4).
Proof. shapes. Qed.

(* every fixed-scale subclass: concrete computation *)
Definition fixed_ok (m : list lspec * (Z * list Z)) : bool :=
  match run_b (fst m) (Some (Sp (fst (snd m)) (snd (snd m)))) with Some (Fl 10) => true | _ => false end.
Lemma fixed_models_ok : forallb fixed_ok fixed_models = true /\ length fixed_models = 24%nat.
Proof. split; vm_compute; reflexivity. Qed.

(* the scales at which a comparison in a constructor (e.g. in_channels != out_channels of the residual block) could take the other
   branch: the class is constructed concretely there and must be consistent too *)
Lemma exceptional_models_ok : forallb fixed_ok exceptional_models = true.
Proof. vm_compute. reflexivity. Qed.

(* ---- the connection-scheme axis: which architectures can be wired with connections='unique' *)
Lemma pairs_mono : forall P0 P, 0 <= P0 <= P -> pairs P0 <= pairs P.
Proof.
  intros P0 P H. unfold pairs. apply Z.div_le_mono; [lia|].
  assert (0 <= (P - P0) * (P + P0 - 1)).
  { destruct (Z.eq_dec P P0) as [->|Hne]; [lia|]. apply Z.mul_nonneg_nonneg; lia. }
  lia.
Qed.
Lemma pairs_ge : forall P P0 c, 0 <= P0 <= P -> c <= pairs P0 -> c <= pairs P.
Proof. intros P P0 c H Hc. pose proof (pairs_mono P0 P H). lia. Qed.
Lemma pairs_lower : forall n c, 2 * c <= n * (n - 1) -> c <= pairs n.
Proof. intros n c H. unfold pairs. apply Z.div_le_lower_bound; lia. Qed.

Ltac unique_goal k :=
  match goal with
  | |- ?c <= pairs ?e =>
      lazymatch c with
      | context [k] => apply pairs_lower; nia
      | _ => let f := eval pattern k in e in
             lazymatch f with
             | ?g _ => let v := eval vm_compute in (g 1) in
                       apply (pairs_ge e v c); [lia | vm_compute; discriminate]
             end
      end
  | |- _ <= _ => lia
  | |- True => exact I
  end.

Ltac unique_scheme :=
  intros k Hk;
  cbv [unique_all unique_ok map
       ClgnMnist_layers ClgnCifar10_nbits1_layers ClgnCifar10_nbits2_layers ClgnCifar10_nbits3_layers ClgnCifar10_nbits4_layers ClgnCifar10_nbits5_layers
       ClgnCifar10Res_nbits1_layers ClgnCifar10Res_nbits2_layers ClgnCifar10Res_nbits3_layers ClgnCifar10Res_nbits4_layers ClgnCifar10Res_nbits5_layers
       ClgnCifar10Tiny_layers ClgnCifar10Mini_layers DlgnMnist_layers DlgnCifar10_2_4_layers DlgnCifar10_5_5_layers
       Dlgn_generic_layers CNN_layers RandomlyConnectedNN_layers];
  eval_closed k;
  repeat match goal with |- _ /\ _ => split end; unique_goal k.

Lemma ClgnMnist_unique : forall k, 1 <= k -> unique_all (ClgnMnist_layers k).
Proof. unique_scheme. Qed.
Lemma ClgnCifar10_1_unique : forall k, 1 <= k -> unique_all (ClgnCifar10_nbits1_layers k). Proof. unique_scheme. Qed.
Lemma ClgnCifar10_2_unique : forall k, 1 <= k -> unique_all (ClgnCifar10_nbits2_layers k). Proof. unique_scheme. Qed.
Lemma ClgnCifar10_3_unique : forall k, 1 <= k -> unique_all (ClgnCifar10_nbits3_layers k). Proof. unique_scheme. Qed.
Lemma ClgnCifar10_4_unique : forall k, 1 <= k -> unique_all (ClgnCifar10_nbits4_layers k). Proof. unique_scheme. Qed.
Lemma ClgnCifar10_5_unique : forall k, 1 <= k -> unique_all (ClgnCifar10_nbits5_layers k). Proof. unique_scheme. Qed.
Lemma ClgnCifar10Res_1_unique : forall k, 1 <= k -> unique_all (ClgnCifar10Res_nbits1_layers k). Proof. unique_scheme. Qed.
Lemma ClgnCifar10Res_2_unique : forall k, 1 <= k -> unique_all (ClgnCifar10Res_nbits2_layers k). Proof. unique_scheme. Qed.
Lemma ClgnCifar10Res_3_unique : forall k, 1 <= k -> unique_all (ClgnCifar10Res_nbits3_layers k). Proof. unique_scheme. Qed.
Lemma ClgnCifar10Res_4_unique : forall k, 1 <= k -> unique_all (ClgnCifar10Res_nbits4_layers k). Proof. unique_scheme. Qed.
Lemma ClgnCifar10Res_5_unique : forall k, 1 <= k -> unique_all (ClgnCifar10Res_nbits5_layers k). Proof. unique_scheme. Qed.
Lemma ClgnCifar10Tiny_unique : forall k, 1 <= k -> unique_all (ClgnCifar10Tiny_layers k). Proof. unique_scheme. Qed.
Lemma CNN_unique : forall k, 1 <= k -> unique_all (CNN_layers k). Proof. unique_scheme. Qed.

(* ClgnCifar10Mini ends with LogicDense(128 k -> 60 k): 128 k > 2 * 60 k, so no scale supports the 'unique' scheme (finding F51) *)
Lemma ClgnCifar10Mini_unique_refuted : forall k, 1 <= k -> ~ unique_all (ClgnCifar10Mini_layers k).
Proof.
  intros k Hk H. cbv [unique_all unique_ok ClgnCifar10Mini_layers] in H.
  destruct H as (_ & _ & _ & _ & _ & (H & _) & _). lia.
Qed.
(* ... and that layer is the only obstacle *)
Lemma ClgnCifar10Mini_unique_others : forall k, 1 <= k ->
  match ClgnCifar10Mini_layers k with
  | c :: f :: d1 :: d2 :: d3 :: _ => unique_all [c; f; d1; d2; d3]
  | _ => False
  end.
Proof. unique_scheme. Qed.

(* the dense family under 'unique': the first layer must be at least half as wide as the input and no wider than its pairs *)
Ltac dense_unique lo hi :=
  intros k Hk;
  cbv [unique_all unique_ok DlgnMnist_layers DlgnCifar10_2_4_layers DlgnCifar10_5_5_layers Dlgn_generic_layers];
  repeat match goal with |- context [pairs ?n] =>
           lazymatch n with context [k] => fail | _ => let v := eval vm_compute in (pairs n) in change (pairs n) with v end end;
  split;
  [ intros H; decompose [and] H; lia
  | intros [Hlo Hhi]; repeat match goal with |- _ /\ _ => split end;
    try exact I; try lia; apply pairs_lower; nia ].

Lemma DlgnMnist_unique : forall k, 1 <= k -> (unique_all (DlgnMnist_layers k) <-> 40 <= k <= 30693).
Proof. dense_unique 40 30693. Qed.
Lemma DlgnCifar10_2_4_unique : forall k, 1 <= k -> (unique_all (DlgnCifar10_2_4_layers k) <-> 308 <= k <= 1887129).
Proof. dense_unique 308 1887129. Qed.
Lemma DlgnCifar10_5_5_unique : forall k, 1 <= k -> (unique_all (DlgnCifar10_5_5_layers k) <-> 768 <= k <= 11795712).
Proof. dense_unique 768 11795712. Qed.
Lemma Dlgn_generic_unique : forall k, 1 <= k -> (unique_all (Dlgn_generic_layers k) <-> 2 <= k <= 16).
Proof. dense_unique 2 16. Qed.

(* fixed-scale classes: every one supports 'unique' except the four ClgnCifar10Mini sizes *)
Definition fixed_unique : list bool := map (fun m => unique_all_b (fst m)) fixed_models.
Lemma fixed_unique_ok :
  fixed_unique = [true; true; true; true; true; true; true; true; true; true; true; true; true;
                  false; false; false; false; true; true; true; true; true; true; true].
Proof. vm_compute. reflexivity. Qed.
