From Coq Require Import ZArith List Lia.
From TLX Require Import Model.Shapes Gen.Models.
Import ListNotations.
Local Open Scope Z_scope.
Ltac Zify.zify_post_hook ::= Z.div_mod_to_equations.

Ltac eval_closed k :=
  repeat match goal with
         | |- context [out_z ?n ?p ?r ?s] =>
             lazymatch constr:((n, p, r, s)) with
             | context [k] => fail
             | _ => let v := eval vm_compute in (out_z n p r s) in change (out_z n p r s) with v
             end
         | |- context [zprod ?l] =>
             lazymatch l with
             | context [k] => fail
             | _ => let v := eval vm_compute in (zprod l) in change (zprod l) with v
             end
         end.

Ltac shapes :=
  intros k Hk;
  cbv [run layer map
       ClgnMnist_layers ClgnCifar10_nbits1_layers ClgnCifar10_nbits2_layers ClgnCifar10_nbits3_layers ClgnCifar10_nbits4_layers ClgnCifar10_nbits5_layers
       ClgnCifar10Res_nbits1_layers ClgnCifar10Res_nbits2_layers ClgnCifar10Res_nbits3_layers ClgnCifar10Res_nbits4_layers ClgnCifar10Res_nbits5_layers
       ClgnCifar10Tiny_layers ClgnCifar10Mini_layers DlgnMnist_layers DlgnCifar10_2_4_layers DlgnCifar10_5_5_layers
       Dlgn_generic_layers CNN_layers RandomlyConnectedNN_layers];
  eval_closed k;
  repeat match goal with
         | |- _ /\ _ => split
         | |- Forall _ _ => constructor
         | |- @eq (list Z) _ _ => f_equal
         | |- @eq shape _ _ => f_equal
         end; try reflexivity; try lia.

Lemma ClgnMnist_ok : forall k, 1 <= k -> run (ClgnMnist_layers k) (Sp 1 [28; 28]) (fun s => s = Fl 10).
Proof. shapes. Qed.
Lemma ClgnCifar10_1_ok : forall k, 1 <= k -> run (ClgnCifar10_nbits1_layers k) (Sp 3 [32; 32]) (fun s => s = Fl 10).
Proof. shapes. Qed.
Lemma ClgnCifar10_2_ok : forall k, 1 <= k -> run (ClgnCifar10_nbits2_layers k) (Sp 6 [32; 32]) (fun s => s = Fl 10).
Proof. shapes. Qed.
Lemma ClgnCifar10_4_ok : forall k, 1 <= k -> run (ClgnCifar10_nbits4_layers k) (Sp 12 [32; 32]) (fun s => s = Fl 10).
Proof. shapes. Qed.
Lemma ClgnCifar10Res_2_ok : forall k, 1 <= k -> run (ClgnCifar10Res_nbits2_layers k) (Sp 6 [32; 32]) (fun s => s = Fl 10).
Proof. shapes. Qed.
Lemma ClgnCifar10Res_4_ok : forall k, 1 <= k -> run (ClgnCifar10Res_nbits4_layers k) (Sp 12 [32; 32]) (fun s => s = Fl 10).
Proof. shapes. Qed.
Lemma ClgnCifar10_3_ok : forall k, 1 <= k -> run (ClgnCifar10_nbits3_layers k) (Sp 9 [32; 32]) (fun s => s = Fl 10).
Proof. shapes. Qed.
Lemma ClgnCifar10_5_ok : forall k, 1 <= k -> run (ClgnCifar10_nbits5_layers k) (Sp 15 [32; 32]) (fun s => s = Fl 10).
Proof. shapes. Qed.
Lemma ClgnCifar10Res_1_ok : forall k, 1 <= k -> run (ClgnCifar10Res_nbits1_layers k) (Sp 3 [32; 32]) (fun s => s = Fl 10).
Proof. shapes. Qed.
Lemma ClgnCifar10Res_3_ok : forall k, 1 <= k -> run (ClgnCifar10Res_nbits3_layers k) (Sp 9 [32; 32]) (fun s => s = Fl 10).
Proof. shapes. Qed.
Lemma ClgnCifar10Res_5_ok : forall k, 1 <= k -> run (ClgnCifar10Res_nbits5_layers k) (Sp 15 [32; 32]) (fun s => s = Fl 10).
Proof. shapes. Qed.
Lemma ClgnCifar10Tiny_ok : forall k, 1 <= k -> run (ClgnCifar10Tiny_layers k) (Sp 9 [32; 32]) (fun s => s = Fl 10).
Proof. shapes. Qed.
Lemma ClgnCifar10Mini_ok : forall k, 1 <= k -> run (ClgnCifar10Mini_layers k) (Sp 9 [32; 32]) (fun s => s = Fl 10).
Proof. shapes. Qed.
(* dense family: neurons_per_layer = 10*k (any multiple of the class count) *)
Lemma DlgnMnist_ok : forall k, 1 <= k -> run (DlgnMnist_layers k) (Sp 1 [28; 28]) (fun s => s = Fl 10).
Proof. shapes. Qed.
Lemma DlgnCifar10_2_4_ok : forall k, 1 <= k -> run (DlgnCifar10_2_4_layers k) (Sp 6 [32; 32]) (fun s => s = Fl 10).
Proof. shapes. Qed.
Lemma DlgnCifar10_5_5_ok : forall k, 1 <= k -> run (DlgnCifar10_5_5_layers k) (Sp 15 [32; 32]) (fun s => s = Fl 10).
Proof. shapes. Qed.
Lemma Dlgn_generic_ok : forall k, 1 <= k -> run (Dlgn_generic_layers k) (Sp 1 [3; 4]) (fun s => s = Fl 4).
Proof. shapes. Qed.
Lemma CNN_ok : forall k, 1 <= k -> run (CNN_layers k) (Sp 1 [28; 28]) (fun s => s = Fl 10).
Proof. shapes. Qed.
Lemma RandomlyConnectedNN_ok : forall k, 1 <= k -> run (RandomlyConnectedNN_layers k) (Sp 1 [3; 4]) (fun s => s = Fl 4).
Proof. shapes. Qed.

(* every fixed-scale subclass: concrete computation *)
Definition fixed_ok (m : list lspec * (Z * list Z)) : bool :=
  match run_b (fst m) (Some (Sp (fst (snd m)) (snd (snd m)))) with Some (Fl 10) => true | _ => false end.
Lemma fixed_models_ok : forallb fixed_ok fixed_models = true /\ length fixed_models = 24%nat.
Proof. split; vm_compute; reflexivity. Qed.

(* the scales at which a comparison in a constructor (e.g. in_channels != out_channels of the residual block) could take the other
   branch: the class is constructed concretely there and must be consistent too *)
Lemma exceptional_models_ok : forallb fixed_ok exceptional_models = true.
Proof. vm_compute. reflexivity. Qed.
