(* Proofs/UniqueCover.v — which inputs the dense 'unique' wiring uses, exactly.

   get_unique_connections takes the first `out_dim` pairs of the enumeration (0,1),(2,3),... then (1,2),(3,4),... then the
   larger offsets.  Its lower bound `in_dim <= 2*out_dim` is explained in the source by "otherwise not all inputs could be
   used".  The exact statement: every input is used, EXCEPT the last one when in_dim is odd and out_dim <= in_dim - 2. *)
From Coq Require Import ZArith List Arith Bool Lia ZifyNat Permutation.
From TLX Require Import Model.Wiring Proofs.WiringFacts.
Import ListNotations.
Ltac Zify.zify_post_hook ::= Z.div_mod_to_equations.

Definition uses (l : list (nat * nat)) (i : nat) : Prop := exists p, In p l /\ (fst p = i \/ snd p = i).

Lemma firstn_seq_min : forall k s len, firstn k (seq s len) = seq s (Nat.min k len).
Proof.
  induction k as [|k IH]; intros s len; [reflexivity|].
  destruct len as [|len]; [reflexivity|]. cbn [firstn seq Nat.min]. f_equal. apply IH.
Qed.

Lemma in_firstn_app_l : forall (A : Type) (l1 l2 : list A) m x, length l1 <= m -> In x l1 -> In x (firstn m (l1 ++ l2)).
Proof.
  intros A l1 l2 m x H Hin. rewrite firstn_app, (@firstn_all2 _ m l1) by exact H. apply in_or_app; left; exact Hin.
Qed.

Lemma in_firstn : forall (A : Type) m (l : list A) x, In x (firstn m l) -> In x l.
Proof. intros A m l x H. rewrite <- (firstn_skipn m l). apply in_or_app; left; exact H. Qed.

Lemma stage1_length : forall n, length (stage1 n) = n / 2.
Proof. intros n. unfold stage1. now rewrite map_length, seq_length. Qed.
Lemma stage2_length : forall n, length (stage2 n) = (n - 1) / 2.
Proof. intros n. unfold stage2. now rewrite map_length, seq_length. Qed.

Lemma in_stage1 : forall n j, j < n / 2 -> In (2 * j, 2 * j + 1) (stage1 n).
Proof. intros n j H. unfold stage1. apply in_map_iff. exists j. split; [reflexivity|apply in_seq; lia]. Qed.
Lemma in_stage2 : forall n j, j < (n - 1) / 2 -> In (2 * j + 1, 2 * j + 2) (stage2 n).
Proof. intros n j H. unfold stage2. apply in_map_iff. exists j. split; [reflexivity|apply in_seq; lia]. Qed.

(* every input below 2*(n/2) is used as soon as the first stage fits *)
Lemma stage1_covers : forall n m i, n <= 2 * m -> i < 2 * (n / 2) -> uses (firstn m (all_pairs n)) i.
Proof.
  intros n m i Hm Hi. exists (2 * (i / 2), 2 * (i / 2) + 1). split.
  - unfold all_pairs. apply in_firstn_app_l; [rewrite stage1_length; lia|]. apply in_stage1. lia.
  - cbn [fst snd]. lia.
Qed.

Lemma last_covered_odd : forall n m, 3 <= n -> n mod 2 = 1 -> n - 1 <= m -> uses (firstn m (all_pairs n)) (n - 1).
Proof.
  intros n m Hn Hodd Hm. exists (2 * ((n - 1) / 2 - 1) + 1, 2 * ((n - 1) / 2 - 1) + 2). split.
  - unfold all_pairs. rewrite app_assoc. apply in_firstn_app_l.
    + rewrite app_length, stage1_length, stage2_length. lia.
    + apply in_or_app; right. apply in_stage2. lia.
  - cbn [fst snd]. right. lia.
Qed.

Lemma last_unused_odd : forall n m, n mod 2 = 1 -> m + 2 <= n -> ~ uses (firstn m (all_pairs n)) (n - 1).
Proof.
  intros n m Hodd Hm [p [Hin Hp]].
  assert (Hall : In p (all_pairs n)) by (eapply in_firstn; exact Hin).
  destruct (in_all_pairs n p Hall) as [Hlt Hsn].
  destruct Hp as [Hp|Hp]; [lia|].
  unfold all_pairs in Hin. rewrite firstn_app, firstn_app in Hin.
  rewrite stage1_length, stage2_length in Hin.
  replace (m - n / 2 - (n - 1) / 2) with 0 in Hin by lia. cbn [firstn] in Hin. rewrite app_nil_r in Hin.
  apply in_app_or in Hin as [Hin|Hin].
  - apply in_firstn in Hin. unfold stage1 in Hin. apply in_map_iff in Hin as [j [<- Hj]]. apply in_seq in Hj. cbn [snd] in Hp. lia.
  - unfold stage2 in Hin. rewrite firstn_map, firstn_seq_min in Hin. apply in_map_iff in Hin as [j [<- Hj]]. apply in_seq in Hj.
    cbn [snd] in Hp. lia.
Qed.

Theorem unique_cover_char : forall n m i, 2 <= n -> n <= 2 * m -> i < n ->
  (uses (firstn m (all_pairs n)) i <-> (n mod 2 = 0 \/ i < n - 1 \/ n - 1 <= m)).
Proof.
  intros n m i Hn Hm Hi. split.
  - intros Hu. destruct (Nat.eq_dec (n mod 2) 0) as [E|E]; [left; exact E|]. right.
    destruct (Nat.lt_ge_cases i (n - 1)) as [Hlt|Hge]; [left; exact Hlt|]. right.
    destruct (Nat.le_gt_cases (n - 1) m) as [Hle|Hgt]; [exact Hle|]. exfalso.
    replace i with (n - 1) in Hu by lia. apply (last_unused_odd n m); [lia|lia|exact Hu].
  - intros [E|[Hlt|Hle]].
    + apply stage1_covers; [exact Hm|lia].
    + apply stage1_covers; [exact Hm|lia].
    + destruct (Nat.eq_dec (n mod 2) 0) as [E|E]; [apply stage1_covers; [exact Hm|lia]|].
      destruct (Nat.lt_ge_cases i (n - 1)) as [Hlt|Hge]; [apply stage1_covers; [exact Hm|lia]|].
      replace i with (n - 1) by lia. apply last_covered_odd; lia.
Qed.

(* the same for the wiring the constructor returns: the permutation only reorders the neurons *)
Lemma uses_permutation : forall l l' i, Permutation l l' -> (uses l i <-> uses l' i).
Proof.
  intros l l' i H. split; intros [p [Hin Hp]]; exists p; split; try exact Hp.
  - eapply Permutation_in; [exact H|exact Hin].
  - eapply Permutation_in; [apply Permutation_sym; exact H|exact Hin].
Qed.

Theorem unique_connections_cover : forall n m perm ps i, 2 <= n -> Permutation perm (seq 0 m) ->
  unique_connections n m perm = Some ps -> i < n ->
  (uses ps i <-> (n mod 2 = 0 \/ i < n - 1 \/ n - 1 <= m)).
Proof.
  intros n m perm ps i Hn Hperm Hu Hi. unfold unique_connections in Hu.
  destruct ((n <=? 2 * m) && (m <=? n * (n - 1) / 2)) eqn:G; [|discriminate]. injection Hu as <-.
  apply andb_prop in G as [G1 G2]. apply Nat.leb_le in G1. apply Nat.leb_le in G2.
  rewrite <- (unique_cover_char n m i Hn G1 Hi). apply uses_permutation. apply apply_perm_permutation.
  rewrite firstn_length_le; [exact Hperm|].
  pose proof (all_pairs_length n) as HL. nia.
Qed.

(* the source's explanation of the lower bound ("otherwise not all inputs could be used") read as a guarantee is false *)
Theorem unique_cover_all_refuted : exists n m perm ps, n <= 2 * m /\ m <= n * (n - 1) / 2 /\ Permutation perm (seq 0 m) /\
  unique_connections n m perm = Some ps /\ ~ uses ps (n - 1).
Proof.
  exists 5, 3, [0; 1; 2], [(0, 1); (2, 3); (1, 2)]. repeat split; try (cbn; lia); try reflexivity.
  intros [p [Hin Hp]]. cbn in Hin. destruct Hin as [<-|[<-|[<-|[]]]]; cbn in Hp; lia.
Qed.
