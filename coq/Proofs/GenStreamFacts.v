(* Soundness of the streaming comparison: gen_net_matchesN p m = true -> to_prog p = gen_net m. *)
From Coq Require Import List Bool Arith NArith ZArith Lia.
From TLX Require Import Model.Bits Model.CLang Model.Netlist Model.Wiring Model.ConvNet Model.GenDense Model.GenNet Model.GenStream.
From TLX Require Import Proofs.CLangFacts Proofs.GenNetFacts.
Import ListNotations.

Lemma N_eqb_of_nat : forall i j, N.eqb i (N.of_nat j) = true -> N.to_nat i = j.
Proof. intros i j H. apply N.eqb_eq in H. subst. apply Nat2N.id. Qed.

Lemma gexp_eqbN_sound : forall a b, gexp_eqbN a b = true -> to_gexp a = b.
Proof.
  induction a as [x i| |a IH|a1 IH1 a2 IH2|a1 IH1 a2 IH2|a1 IH1 a2 IH2]; intros b H; destruct b; cbn in H; try discriminate;
    cbn [to_gexp].
  - apply andb_prop in H. destruct H as [H1 H2]. apply Nat.eqb_eq in H1. apply N_eqb_of_nat in H2. now subst.
  - reflexivity.
  - f_equal. apply IH. exact H.
  - apply andb_prop in H. destruct H as [H1 H2]. f_equal; [apply IH1|apply IH2]; assumption.
  - apply andb_prop in H. destruct H as [H1 H2]. f_equal; [apply IH1|apply IH2]; assumption.
  - apply andb_prop in H. destruct H as [H1 H2]. f_equal; [apply IH1|apply IH2]; assumption.
Qed.

Lemma stmt_eqbN_sound : forall a b, stmt_eqbN a b = true -> to_stmt a = b.
Proof.
  intros [x i e|d s n] [y j f|d' s' n'] H; cbn in H; try discriminate; cbn [to_stmt].
  - apply andb_prop in H. destruct H as [H H3]. apply andb_prop in H. destruct H as [H1 H2].
    apply Nat.eqb_eq in H1. apply N_eqb_of_nat in H2. apply gexp_eqbN_sound in H3. now subst.
  - apply andb_prop in H. destruct H as [H H3]. apply andb_prop in H. destruct H as [H1 H2].
    apply Nat.eqb_eq in H1, H2. apply N_eqb_of_nat in H3. now subst.
Qed.

Lemma match_prefix_sound : forall ss pN rest, match_prefix pN ss = Some rest ->
  map to_stmt pN = ss ++ map to_stmt rest.
Proof.
  induction ss as [|s r IH]; intros pN rest H; cbn [match_prefix] in H.
  - injection H as ->. reflexivity.
  - destruct pN as [|x pr]; [discriminate|]. destruct (stmt_eqbN x s) eqn:E; [|discriminate].
    apply stmt_eqbN_sound in E. cbn [map app]. rewrite E. f_equal. apply IH. exact H.
Qed.

Lemma stream_sound : forall f n q pN rest, stream f q n pN = Some rest ->
  map to_stmt pN = flat_map f (seq q n) ++ map to_stmt rest.
Proof.
  intros f n. induction n as [|n IH]; intros q pN rest H; cbn [stream] in H.
  - injection H as ->. reflexivity.
  - destruct (match_prefix pN (f q)) as [r1|] eqn:E; [|discriminate].
    apply match_prefix_sound in E. rewrite E. cbn [seq flat_map]. rewrite <- app_assoc. f_equal. apply IH. exact H.
Qed.

Definition seg_stmts (s : segment) : list stmt := flat_map (fst s) (seq 0 (snd s)).

Lemma stream_all_sound : forall segs pN rest, stream_all segs pN = Some rest ->
  map to_stmt pN = flat_map seg_stmts segs ++ map to_stmt rest.
Proof.
  induction segs as [|[f n] segs IH]; intros pN rest H; cbn [stream_all] in H.
  - injection H as ->. reflexivity.
  - destruct (stream f 0 n pN) as [r1|] eqn:E; [|discriminate].
    apply stream_sound in E. rewrite E. cbn [flat_map]. unfold seg_stmts at 1. cbn [fst snd].
    rewrite <- app_assoc. f_equal. apply IH. exact H.
Qed.

Lemma spatial_segments_spec : forall ls loc prev next base,
  flat_map seg_stmts (spatial_segments loc ls prev next base) = gen_spatial loc ls prev next base.
Proof.
  induction ls as [|l rest IH]; intros loc prev next base; [reflexivity|].
  cbn [spatial_segments gen_spatial flat_map]. rewrite IH. f_equal.
  destruct l as [cs|ps| |d]; unfold seg_stmts; cbn [fst snd].
  - unfold gen_conv. rewrite flat_map_grid. reflexivity.
  - unfold gen_pool. rewrite flat_map_grid. reflexivity.
  - reflexivity.
  - reflexivity.
Qed.

Lemma gen_net_body : forall m, body (gen_net m) = gen_spatial (net_loc m) (sm_spatial m) 0 2 0 ++ net_tail m.
Proof.
  intros [C dims ls flat ds]. unfold gen_net, net_loc, net_tail. cbv zeta. cbn [body sm_C sm_dims sm_spatial sm_flat sm_dense].
  destruct flat; [destruct ds as [|d ds]|]; try reflexivity.
  - cbn [length]. unfold widths. rewrite map_length. cbn [length].
    destruct (1 <? S (length ds)); reflexivity.
Qed.

Lemma sizes_eqb_sound : forall l1 l2, sizes_eqbN l1 l2 = true -> map N.to_nat l1 = l2.
Proof.
  induction l1 as [|a r IH]; intros [|b r2] H; cbn in H; try discriminate; [reflexivity|].
  apply andb_prop in H. destruct H as [H1 H2]. cbn [map]. f_equal; [apply N_eqb_of_nat; exact H1|apply IH; exact H2].
Qed.

Theorem matches_sound : forall p m, gen_net_matchesN p m = true -> to_prog p = gen_net m.
Proof.
  intros [sN bN] m H. unfold gen_net_matchesN in H. cbn [sizesN bodyN] in H.
  apply andb_prop in H. destruct H as [Hs Hb].
  apply sizes_eqb_sound in Hs.
  destruct (stream_all (spatial_segments (net_loc m) (sm_spatial m) 0 2 0) bN) as [rest|] eqn:E; [|discriminate].
  destruct (match_prefix rest (net_tail m)) as [[|x r]|] eqn:E2; try discriminate.
  apply stream_all_sound in E. apply match_prefix_sound in E2. rewrite E2 in E. cbn [map] in E. rewrite app_nil_r in E.
  rewrite spatial_segments_spec in E.
  unfold to_prog. cbn [sizesN bodyN]. rewrite E, Hs, <- gen_net_body. destruct (gen_net m); reflexivity.
Qed.

(* a parsed program accepted by the streaming comparison inherits the generator theorem *)
Theorem matches_correct : forall p m (W : Z) (inp : list Z),
  gen_net_matchesN p m = true -> wf_spatial_model m = true -> (0 < W)%Z -> length inp = net_in m ->
  exists out, execZ W (to_prog p) inp = Some out /\ length out = net_out m /\
    forall j, (0 <= j < W)%Z -> map (lane j) out = eval_model m (map (lane j) inp).
Proof.
  intros p m W inp Hm Hwf HW Hlen. rewrite (matches_sound p m Hm). apply gen_net_correct_words; assumption.
Qed.
