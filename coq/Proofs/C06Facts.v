From Coq Require Import ZArith QArith List Bool Arith Lia.
From TLX Require Import Model.Netlist Model.GroupSum Gen.GroupSumSrc.
Import ListNotations.

Lemma qsum_b2q : forall l, qsum (map b2q l) == inject_Z (count_true l).
Proof.
  induction l as [|b r IH]; cbn [map qsum fold_right count_true]; [reflexivity|].
  fold (qsum (map b2q r)). rewrite IH. rewrite inject_Z_plus. destruct b; cbn [b2q Z.b2z]; reflexivity.
Qed.

Lemma nth_map_b2q : forall l i, nth i (map b2q l) 0%Q = b2q (nth i l false).
Proof. intros l i. change 0%Q with (b2q false). apply map_nth. Qed.

(* on Boolean activations the group sum is the per-class count (plus beta) over tau *)
Theorem groupsum_counts : forall k tau beta bits, (0 < k)%nat -> (length bits mod k = 0)%nat ->
  exists ys, groupsum k tau beta (map b2q bits) = Some ys /\
    Forall2 (fun y c => y == (inject_Z c + beta) / tau) ys (group_counts k (length bits / k) bits).
Proof.
  intros k tau beta bits Hk Hdiv. unfold groupsum. rewrite map_length, Hdiv. cbn [Nat.eqb negb andb].
  rewrite andb_false_r. eexists. split; [reflexivity|].
  unfold group_sums, group_counts. rewrite map_map.
  induction (seq 0 k) as [|c cs IH]; cbn [map]; constructor; [|exact IH].
  assert (E : map (fun a => nth (c * (length bits / k) + a) (map b2q bits) 0%Q) (seq 0 (length bits / k))
              = map b2q (map (fun a => nth (c * (length bits / k) + a) bits false) (seq 0 (length bits / k)))).
  { rewrite map_map. apply map_ext. intros a. apply nth_map_b2q. }
  rewrite E. unfold gs_form. rewrite qsum_b2q. reflexivity.
Qed.

Theorem groupsum_rejects : forall k tau beta x, (length x mod k <> 0)%nat -> groupsum k tau beta x = None.
Proof.
  intros k tau beta x H. unfold groupsum. apply Nat.eqb_neq in H. rewrite H. reflexivity.
Qed.

(* leading batch axes: each row is treated alone *)
Theorem groupsum_rowwise : forall k tau beta xs i,
  nth i (groupsum_batch k tau beta xs) None = match nth_error xs i with Some x => groupsum k tau beta x | None => None end.
Proof.
  intros k tau beta xs. unfold groupsum_batch. induction xs as [|x r IH]; intros i; destruct i; cbn; try reflexivity.
  apply IH.
Qed.
