(* Proofs/ThreadsCounts.v — a thread's whole wrapper call into a compiled dense network, under any schedule: the per-class counts. *)
From Coq Require Import ZArith List Bool Arith Lia.
From TLX Require Import Model.Bits Model.CLang Model.Netlist Model.GenDense Model.Wrapper Model.Threads Gen.Storage.
From TLX Require Import Proofs.WrapperFacts Proofs.ThreadsFacts Proofs.ThreadsWrapper Proofs.C01Facts.
Import ListNotations.

Theorem threads_dense_counts :
  forall (W k : nat) (m : dense_model) (libs : list prog) (inits : list (list (nat * list Z) * @mem Z * (nat -> @mem Z))) (sh : nat -> @mem Z)
         (sched : list nat) j l inp len gp gt,
    (1 < W)%nat -> wf_dense_model m = true -> (Z.of_nat (gsize (out_width m) k) < 2 ^ 31)%Z ->
    nth_error libs l = Some (gen_dense m) ->
    Forall (good_callsZ (Z.of_nat W) libs) (map (fun x => fst (fst x)) inits) ->
    nth_error inits j = Some (wrapper_calls W (dm_in m) l inp len, gp, gt) ->
    list_sum (map (call_work libs) (wrapper_calls W (dm_in m) l inp len)) <= count_occ Nat.eq_dec sched j ->
    let w0 := {| w_threads := map (fun x => fresh_thread (fst (fst x)) (snd (fst x)) (snd x)) inits; w_shared := sh |} in
    exists t, nth_error (w_threads (run_scheduleZ (Z.of_nat W) (negb (private_storage buffer_storage)) libs w0 sched)) j = Some t /\
              finished t = true /\
              @all_some Z (map (fun o => Some (word_result W (out_width m) k o)) (t_results t))
              = Some (WrapperFacts.expected W (dm_in m) (out_width m) k (eval_dense_net (dm_layers m)) inp len).
Proof.
  intros W k m libs inits sh sched j l inp len gp gt HW Hwf Hg Hl Hgood Hj Hcnt w0.
  destruct (threads_wrapper_call W (dm_in m) (out_width m) k libs inits sh sched j l inp len gp gt Hgood Hj Hcnt) as [t [Hn [Hf Hres]]].
  exists t. split; [exact Hn|]. split; [exact Hf|]. rewrite <- Hres.
  rewrite (apply_logic_net_ext W (dm_in m) (out_width m) k _ (execZ (Z.of_nat W) (gen_dense m))).
  - exact (dense_counts W k m inp len HW Hwf Hg).
  - intros x. unfold expectedZ, Threads.expected. cbn [fst snd]. rewrite Hl. reflexivity.
Qed.
