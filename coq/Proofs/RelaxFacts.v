From Coq Require Import Reals List Lra Lia Psatz.
From TLX Require Import Model.Bits Model.Poly Model.Relax Gen.Ops.
Import ListNotations.
Local Open Scope R_scope.

(* --- gates over R (re-proved here for Model.Relax.peval_R) *)
Definition b2r (b : bool) : R := if b then 1 else 0.

Lemma lt16_cases : forall i, (i < 16)%nat ->
  i = 0%nat \/ i = 1%nat \/ i = 2%nat \/ i = 3%nat \/ i = 4%nat \/ i = 5%nat \/ i = 6%nat \/ i = 7%nat \/
  i = 8%nat \/ i = 9%nat \/ i = 10%nat \/ i = 11%nat \/ i = 12%nat \/ i = 13%nat \/ i = 14%nat \/ i = 15%nat.
Proof. intros i H. lia. Qed.

Ltac cases16 i H :=
  destruct (lt16_cases i H) as
    [->|[->|[->|[->|[->|[->|[->|[->|[->|[->|[->|[->|[->|[->|[->| ->]]]]]]]]]]]]]]].

(* every relaxed gate is multilinear: affine in a for fixed b, and in b for fixed a *)
Lemma op_affine_a : forall i, (i < 16)%nat -> forall a b,
  peval_R (op i) a b = (1 - a) * peval_R (op i) 0 b + a * peval_R (op i) 1 b.
Proof. intros i H a b. cases16 i H; unfold peval_R; cbn; ring. Qed.

Lemma op_affine_b : forall i, (i < 16)%nat -> forall a b,
  peval_R (op i) a b = (1 - b) * peval_R (op i) a 0 + b * peval_R (op i) a 1.
Proof. intros i H a b. cases16 i H; unfold peval_R; cbn; ring. Qed.

Lemma op_corner : forall i, (i < 16)%nat -> forall x y : bool,
  peval_R (op i) (b2r x) (b2r y) = b2r (tt i x y).
Proof. intros i H x y. cases16 i H; destruct x, y; unfold peval_R, b2r, tt; cbn; ring. Qed.

Lemma convex01 : forall t x y, 0 <= t <= 1 -> 0 <= x <= 1 -> 0 <= y <= 1 -> 0 <= (1 - t) * x + t * y <= 1.
Proof. intros t x y Ht Hx Hy. nra. Qed.

Lemma op_in01 : forall i, (i < 16)%nat -> forall a b, in01 a -> in01 b -> in01 (peval_R (op i) a b).
Proof.
  intros i H a b [Ha0 Ha1] [Hb0 Hb1]. unfold in01.
  rewrite (op_affine_a i H a b), (op_affine_b i H 0 b), (op_affine_b i H 1 b).
  assert (C : forall x y : bool, 0 <= peval_R (op i) (b2r x) (b2r y) <= 1).
  { intros x y. rewrite op_corner by exact H. unfold b2r. destruct (tt i x y); lra. }
  pose proof (C false false) as C00. pose proof (C false true) as C01. pose proof (C true false) as C10. pose proof (C true true) as C11.
  unfold b2r in *. apply convex01; [lra| |]; apply convex01; (lra || assumption).
Qed.

Lemma mix_n_16 : mix_n = 16%nat. Proof. reflexivity. Qed.

Lemma gate_values_in01 : forall a b, in01 a -> in01 b -> Forall in01 (gate_values a b).
Proof.
  intros a b Ha Hb. unfold gate_values. apply Forall_forall. intros v Hv.
  apply in_map_iff in Hv. destruct Hv as [i [<- Hi]]. apply in_seq in Hi. rewrite mix_n_16 in Hi.
  apply op_in01; [lia|assumption|assumption].
Qed.

Lemma gate_values_length : forall a b, length (gate_values a b) = 16%nat.
Proof. intros. unfold gate_values. now rewrite map_length, seq_length. Qed.

(* --- sums *)
Lemma fold_left_rsum : forall (l : list (R * R)) acc,
  fold_left (fun r pv => r + fst pv * snd pv) l acc = acc + rsum (map (fun pv => fst pv * snd pv) l).
Proof.
  induction l as [|x r IH]; intros acc; cbn [fold_left map rsum fold_right]; [ring|].
  rewrite IH. fold (rsum (map (fun pv => fst pv * snd pv) r)). ring.
Qed.

(* the loop of the source computes the mixture *)
Lemma mix_loop_eq : forall p a b, mix_loop p a b = mix p a b.
Proof. intros. unfold mix_loop, mix. rewrite fold_left_rsum. ring. Qed.

Lemma weighted_bounds : forall (p v : list R),
  Forall (fun x => 0 <= x) p -> Forall in01 v -> length p = length v ->
  0 <= rsum (map (fun pv => fst pv * snd pv) (combine p v)) <= rsum p.
Proof.
  induction p as [|x p IH]; intros v Hp Hv Hl.
  - cbn. lra.
  - destruct v as [|y v]; [discriminate|]. inversion Hp; inversion Hv; subst. cbn [length] in Hl.
    cbn [combine map rsum fold_right fst snd].
    fold (rsum (map (fun pv => fst pv * snd pv) (combine p v))). fold (rsum p).
    specialize (IH v ltac:(assumption) ltac:(assumption) ltac:(lia)). unfold in01 in *. nra.
Qed.

(* the mixture of a probability vector stays in [0,1] *)
Theorem mix_in01 : forall p a b, Forall (fun x => 0 <= x) p -> rsum p = 1 -> length p = 16%nat ->
  in01 a -> in01 b -> in01 (mix p a b).
Proof.
  intros p a b Hp Hs Hl Ha Hb. unfold in01, mix.
  pose proof (weighted_bounds p (gate_values a b) Hp (gate_values_in01 a b Ha Hb)
                ltac:(rewrite gate_values_length; exact Hl)) as H. lra.
Qed.

(* --- softmax *)
Lemma rsum_exp_pos : forall w, w <> [] -> 0 < rsum (map exp w).
Proof.
  intros w Hne. destruct w as [|x r]; [congruence|]. cbn [map rsum fold_right].
  assert (0 <= rsum (map exp r)).
  { clear. induction r as [|y r IH]; cbn; [lra|]. pose proof (exp_pos y). fold (rsum (map exp r)). lra. }
  pose proof (exp_pos x). fold (rsum (map exp r)). lra.
Qed.

Theorem softmax_pos : forall w, w <> [] -> Forall (fun x => 0 < x) (softmax w).
Proof.
  intros w Hne. unfold softmax. apply Forall_forall. intros v Hv. apply in_map_iff in Hv.
  destruct Hv as [x [<- _]]. apply Rdiv_lt_0_compat; [apply exp_pos|apply rsum_exp_pos; exact Hne].
Qed.

Lemma rsum_div : forall (l : list R) s, rsum (map (fun x => x / s) l) = rsum l / s.
Proof.
  induction l as [|x r IH]; intros s; cbn [map rsum fold_right]; [unfold Rdiv; ring|].
  fold (rsum (map (fun x => x / s) r)). fold (rsum r). rewrite IH. unfold Rdiv. ring.
Qed.

Theorem softmax_sum : forall w, w <> [] -> rsum (softmax w) = 1.
Proof.
  intros w Hne. unfold softmax.
  replace (map (fun x => exp x / rsum (map exp w)) w) with (map (fun x => x / rsum (map exp w)) (map exp w))
    by (rewrite map_map; reflexivity).
  rewrite rsum_div. apply Rinv_r. pose proof (rsum_exp_pos w Hne). lra.
Qed.

Lemma softmax_length : forall w, length (softmax w) = length w.
Proof. intros. unfold softmax. now rewrite map_length. Qed.

(* soft training output of a raw neuron: in [0,1] for every weight vector and every temperature *)
Theorem soft_neuron_in01 : forall w tau a b, length w = 16%nat -> in01 a -> in01 b ->
  in01 (mix (soft_raw w tau) a b).
Proof.
  intros w tau a b Hl Ha Hb. unfold soft_raw.
  set (ws := map (fun x => x / tau) w).
  assert (Hne : ws <> []) by (unfold ws; destruct w; [discriminate|discriminate]).
  apply mix_in01; try assumption.
  - eapply Forall_impl; [|apply softmax_pos; exact Hne]. intros; lra.
  - apply softmax_sum. exact Hne.
  - rewrite softmax_length. unfold ws. now rewrite map_length.
Qed.

(* a one-hot weight vector selects exactly one gate *)
Lemma onehot_sum_from : forall (v : list R) s g,
  rsum (map (fun pv => fst pv * snd pv)
            (combine (map (fun i => if Nat.eqb i g then 1 else 0) (seq s (length v))) v))
  = if ((s <=? g)%nat && (g <? s + length v)%nat)%bool then nth (g - s) v 0 else 0.
Proof.
  induction v as [|y r IH]; intros s g.
  - cbn [length seq map combine rsum fold_right].
    destruct ((s <=? g)%nat && (g <? s + 0)%nat)%bool; [|reflexivity]. destruct (g - s)%nat; reflexivity.
  - cbn [length seq map combine rsum fold_right fst snd].
    fold (rsum (map (fun pv => fst pv * snd pv) (combine (map (fun i => if Nat.eqb i g then 1 else 0) (seq (S s) (length r))) r))).
    rewrite IH. destruct (Nat.eqb_spec s g) as [->|Hne].
    + assert ((S g <=? g)%nat = false) as -> by (apply Nat.leb_gt; lia). cbn [andb].
      assert ((g <=? g)%nat = true) as -> by (apply Nat.leb_refl).
      assert ((g <? g + S (length r))%nat = true) as -> by (apply Nat.ltb_lt; lia). cbn [andb].
      rewrite Nat.sub_diag. cbn [nth]. ring.
    + destruct (le_lt_dec s g) as [Hle|Hgt].
      * assert (Hlt : (s < g)%nat) by lia.
        assert ((s <=? g)%nat = true) as -> by (apply Nat.leb_le; lia).
        assert ((S s <=? g)%nat = true) as -> by (apply Nat.leb_le; lia). cbn [andb].
        replace (s + S (length r))%nat with (S s + length r)%nat by lia.
        destruct (g <? S s + length r)%nat; [|ring].
        replace (g - s)%nat with (S (g - S s)) by lia. cbn [nth]. ring.
      * assert ((s <=? g)%nat = false) as -> by (apply Nat.leb_gt; lia).
        assert ((S s <=? g)%nat = false) as -> by (apply Nat.leb_gt; lia). cbn [andb]. ring.
Qed.

Theorem mix_onehot : forall g a b, (g < 16)%nat -> mix (one_hot 16 g) a b = peval_R (op g) a b.
Proof.
  intros g a b Hg. unfold mix, one_hot.
  pose proof (onehot_sum_from (gate_values a b) 0 g) as H. rewrite gate_values_length in H. rewrite H.
  assert ((0 <=? g)%nat = true) as -> by (apply Nat.leb_le; lia).
  assert ((g <? 0 + 16)%nat = true) as -> by (apply Nat.ltb_lt; lia). cbn [andb]. rewrite Nat.sub_0_r.
  unfold gate_values. rewrite mix_n_16.
  rewrite nth_indep with (d' := (fun i => peval_R (op i) a b) 0%nat) by (rewrite map_length, seq_length; exact Hg).
  rewrite (map_nth (fun i => peval_R (op i) a b)). rewrite seq_nth by exact Hg. reflexivity.
Qed.

(* on Boolean inputs a saturated (one-hot) gate choice gives exactly the eval output *)
Theorem saturated_is_eval : forall g (x y : bool), (g < 16)%nat ->
  mix (one_hot 16 g) (b2r x) (b2r y) = b2r (tt g x y).
Proof. intros. rewrite mix_onehot by assumption. now apply op_corner. Qed.

(* the mixture is multilinear: affine in each input, hence its derivative in a is the difference of its values at 1 and 0 *)
Lemma mix_affine_a : forall p a b, (length p <= 16)%nat ->
  mix p a b = (1 - a) * mix p 0 b + a * mix p 1 b.
Proof.
  intros p a b Hl. unfold mix, gate_values. rewrite mix_n_16.
  assert (G : forall k s (q : list R), (s + k <= 16)%nat ->
             rsum (map (fun pv => fst pv * snd pv) (combine q (map (fun i => peval_R (op i) a b) (seq s k))))
             = (1 - a) * rsum (map (fun pv => fst pv * snd pv) (combine q (map (fun i => peval_R (op i) 0 b) (seq s k))))
               + a * rsum (map (fun pv => fst pv * snd pv) (combine q (map (fun i => peval_R (op i) 1 b) (seq s k))))).
  { induction k as [|k IH]; intros s q Hs.
    - destruct q; cbn; ring.
    - destruct q as [|x q]; [cbn; ring|]. cbn [seq map combine rsum fold_right fst snd].
      rewrite (op_affine_a s ltac:(lia) a b).
      specialize (IH (S s) q ltac:(lia)). unfold rsum in IH |- *. rewrite IH. ring. }
  apply G. lia.
Qed.

Lemma sigmoid_in01 : forall x, 0 < sigmoid x < 1.
Proof.
  intros x. unfold sigmoid. assert (0 < exp (- x)) by apply exp_pos. split.
  - apply Rinv_0_lt_compat. lra.
  - rewrite <- Rinv_1 at 2. apply Rinv_lt_contravar; [rewrite Rmult_1_l; lra|lra].
Qed.
