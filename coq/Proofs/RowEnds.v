(* Proofs/RowEnds.v — the two ends of every row of the pair triangle (what the harness supplies as draws for large receptive fields):
   the first number of row i is the pair (i, i+1), the last one the pair (i, P-1); in particular no pair number of a valid row
   unranks to a degenerate pair (j, j). *)
From Coq Require Import List Arith Lia.
From TLX Require Import Model.Wiring Proofs.WiringFacts.
Import ListNotations.

Theorem unrank_row_first : forall P i, i + 1 < P -> unrank P (row_start P i) = (i, i + 1).
Proof.
  intros P i H. rewrite (unrank_arith P i (row_start P i)); [f_equal; lia|lia|].
  split; [lia|]. rewrite row_start_S by lia. lia.
Qed.

Theorem unrank_row_last : forall P i, i + 1 < P -> unrank P (row_start P (S i) - 1) = (i, P - 1).
Proof.
  intros P i H. assert (E : row_start P (S i) = row_start P i + (P - S i)) by (apply row_start_S; lia).
  rewrite (unrank_arith P i (row_start P (S i) - 1)); [f_equal; lia|lia|]. lia.
Qed.

Theorem unrank_never_degenerate : forall P i v, i < P -> row_start P i <= v < row_start P (S i) ->
  fst (unrank P v) < snd (unrank P v) /\ snd (unrank P v) < P.
Proof.
  intros P i v Hi Hv. rewrite (unrank_arith P i v Hi Hv). cbn [fst snd].
  destruct Hv as [Hlo Hhi]. rewrite row_start_S in Hhi by exact Hi. lia.
Qed.
