(* Proofs/ThreadsNet.v — the same composition for conv / pool / flatten / dense stacks (generator theorem C02_logic_net). *)
From Coq Require Import ZArith List Bool Arith Lia.
From TLX Require Import Model.Bits Model.CLang Model.Netlist Model.ConvNet Model.GenNet Model.Threads Gen.Storage.
From TLX Require Import Proofs.CLangFacts Proofs.GenNetFacts Proofs.ThreadsFacts.
Import ListNotations.

Definition ncall_ok (ms : list spatial_model) (c : nat * list Z) : Prop :=
  exists m, nth_error ms (fst c) = Some m /\ wf_spatial_model m = true /\ length (snd c) = net_in m.

Definition nresult_ok (W : Z) (ms : list spatial_model) (c : nat * list Z) (out : list Z) : Prop :=
  exists m, nth_error ms (fst c) = Some m /\ length out = net_out m /\
    forall j, (0 <= j < W)%Z -> map (lane j) out = eval_model m (map (lane j) (snd c)).

Lemma ncall_ok_expected : forall W ms c, (0 < W)%Z -> ncall_ok ms c ->
  exists out, expectedZ W (map gen_net ms) c = Some out /\ nresult_ok W ms c out.
Proof.
  intros W ms [l inp] HW [m [Hm [Hwf Hlen]]]. cbn [fst snd] in *.
  destruct (gen_net_correct_words W m inp HW Hwf Hlen) as [out [Hex [Hlo Hlanes]]].
  exists out. split.
  - unfold expectedZ, expected. cbn [fst snd]. rewrite nth_error_map, Hm. exact Hex.
  - exists m. cbn [fst snd]. repeat split; assumption.
Qed.

Lemma nresults_ok_of_expected : forall W ms calls results, (0 < W)%Z -> Forall (ncall_ok ms) calls ->
  map Some results = map (expectedZ W (map gen_net ms)) calls -> Forall2 (nresult_ok W ms) calls results.
Proof.
  intros W ms calls; induction calls as [|c rest IH]; intros results HW Hok H; destruct results as [|r rs]; cbn [map] in H; try discriminate; [constructor|].
  inversion Hok as [|? ? Hc Hrest]; subst. injection H as Hr Hrs.
  destruct (ncall_ok_expected W ms c HW Hc) as [out [He Hres]]. rewrite He in Hr. injection Hr as ->.
  constructor; [exact Hres|exact (IH rs HW Hrest Hrs)].
Qed.

Theorem threads_spatial_networks :
  forall (W : Z) (ms : list spatial_model) (inits : list (list (nat * list Z) * @mem Z * (nat -> @mem Z))) (sh : nat -> @mem Z)
         (sched : list nat) j calls gp gt,
    (0 < W)%Z ->
    Forall (Forall (ncall_ok ms)) (map (fun x => fst (fst x)) inits) ->
    nth_error inits j = Some (calls, gp, gt) ->
    list_sum (map (call_work (map gen_net ms)) calls) <= count_occ Nat.eq_dec sched j ->
    let w0 := {| w_threads := map (fun x => fresh_thread (fst (fst x)) (snd (fst x)) (snd x)) inits; w_shared := sh |} in
    exists t, nth_error (w_threads (run_scheduleZ W (negb (private_storage buffer_storage)) (map gen_net ms) w0 sched)) j = Some t /\
              finished t = true /\ Forall2 (nresult_ok W ms) calls (t_results t).
Proof.
  intros W ms inits sh sched j calls gp gt HW Hok Hj Hcnt w0.
  assert (Hgood : Forall (good_callsZ W (map gen_net ms)) (map (fun x => fst (fst x)) inits)).
  { rewrite Forall_forall in *. intros cs Hin. specialize (Hok cs Hin). unfold good_callsZ, good_calls.
    rewrite Forall_forall in *. intros c Hc. destruct (ncall_ok_expected W ms c HW (Hok c Hc)) as [out [He _]].
    unfold expectedZ in He. rewrite He. discriminate. }
  destruct (private_schedules_complete 0%Z Z.lnot Z.land Z.lor Z.lxor (wrap W) (map gen_net ms) inits sh sched j calls gp gt Hgood Hj Hcnt)
    as [t [Hn [Hf Hres]]].
  exists t. split; [exact Hn|]. split; [exact Hf|].
  apply (nresults_ok_of_expected W ms calls (t_results t) HW); [|exact Hres].
  rewrite Forall_forall in Hok. apply Hok. apply in_map_iff. exists (calls, gp, gt). split; [reflexivity|exact (nth_error_In _ _ Hj)].
Qed.
