From Coq Require Import QArith List Bool Arith Lia.
From TLX Require Import Model.Bits Model.Walsh Model.Validate Gen.Walsh Proofs.ValidateFacts.
Import ListNotations.

Definition table_ok (p : list bool) : bool :=
  forallb (fun a => forallb (fun b => Bool.eqb (tt (gate_of_preds p) a b) (nth (2 * Nat.b2n a + Nat.b2n b) p false))
                            [false; true]) [false; true].

Lemma gate_of_preds_all : forallb table_ok (all_lists 4) = true.
Proof. vm_compute. reflexivity. Qed.

Lemma gate_of_preds_table : forall p, length p = 4%nat -> forall a b,
  tt (gate_of_preds p) a b = nth (2 * Nat.b2n a + Nat.b2n b) p false.
Proof.
  intros p Hl a b. pose proof gate_of_preds_all as H. rewrite forallb_forall in H.
  specialize (H p). rewrite <- Hl in H. specialize (H (all_lists_complete p)).
  unfold table_ok in H. cbn [forallb] in H. rewrite !andb_true_r in H.
  repeat rewrite andb_true_iff in H. destruct H as [[H00 H01] [H10 H11]].
  destruct a, b; apply eqb_prop; assumption.
Qed.

(* the predictions of get_gate_ids are the eval outputs at AB = 00, 01, 10, 11 *)
Lemma preds_are_eval : forall w,
  preds w = [walsh_eval w false false; walsh_eval w false true; walsh_eval w true false; walsh_eval w true true].
Proof. intros w. reflexivity. Qed.

Theorem gate_id_is_eval_table : forall w a b, tt (walsh_gate_id w) a b = walsh_eval w a b.
Proof.
  intros w a b. unfold walsh_gate_id. rewrite gate_of_preds_table by (rewrite preds_are_eval; reflexivity).
  rewrite preds_are_eval. destruct a, b; reflexivity.
Qed.

Lemma tt_of_bits : forall p0 p1 p2 p3 a b,
  tt (8 * Nat.b2n p0 + 4 * Nat.b2n p1 + 2 * Nat.b2n p2 + Nat.b2n p3) a b
  = nth (2 * Nat.b2n a + Nat.b2n b) [p0; p1; p2; p3] false.
Proof. intros [] [] [] [] [] []; reflexivity. Qed.

Theorem sign_pattern_table : forall w a b, tt (sign_pattern_id w) a b = walsh_eval w a b.
Proof. intros w a b. unfold sign_pattern_id. rewrite tt_of_bits. destruct a, b; reflexivity. Qed.

(* the compiler's discretisation is the same function *)
Theorem compiler_is_sign_pattern : forall w, compiler_gate_id w = sign_pattern_id w.
Proof.
  intros w. unfold compiler_gate_id, sign_pattern_id, walsh_eval. cbn [compiler_corners fold_left fst snd].
  unfold compiler_cmp, compiler_threshold, dense_walsh_eval_cmp, dense_walsh_eval_threshold, pm.
  generalize (cmpq CmpGt (form w ((-1) # 1) ((-1) # 1)) (0 # 1)), (cmpq CmpGt (form w ((-1) # 1) (1 # 1)) (0 # 1)),
             (cmpq CmpGt (form w (1 # 1) ((-1) # 1)) (0 # 1)), (cmpq CmpGt (form w (1 # 1) (1 # 1)) (0 # 1)).
  intros [] [] [] []; reflexivity.
Qed.

Theorem compiler_table : forall w a b, tt (compiler_gate_id w) a b = walsh_eval w a b.
Proof. intros. rewrite compiler_is_sign_pattern. apply sign_pattern_table. Qed.

Theorem reported_eq_compiled : forall w, forall a b, tt (walsh_gate_id w) a b = tt (compiler_gate_id w) a b.
Proof. intros. now rewrite gate_id_is_eval_table, compiler_table. Qed.

Theorem conv_eval_same : forall w a b, walsh_eval_conv w a b = walsh_eval w a b.
Proof. intros. reflexivity. Qed.

(* eval output = [form > 0] *)
Theorem eval_is_sign : forall w a b, walsh_eval w a b = true <-> (0 < form w (pm a) (pm b))%Q.
Proof.
  intros w a b. unfold walsh_eval, dense_walsh_eval_cmp, dense_walsh_eval_threshold, cmpq.
  rewrite negb_true_iff. split.
  - intro H. apply Qnot_le_lt. intro Hle. apply Qle_bool_iff in Hle. unfold Qle_bool in *. congruence.
  - intro H. destruct (Qle_bool (form w (pm a) (pm b)) (0 # 1)) eqn:E; [|reflexivity].
    apply Qle_bool_iff in E. exfalso. apply (Qlt_not_le _ _ H). exact E.
Qed.

(* the 16 built-in vectors: corner values are exactly -1 or +1 and the 16 gates are all different *)
Definition builtin_corners_ok : bool :=
  forallb (fun w => forallb (fun v => Qeq_bool v (1 # 1) || Qeq_bool v ((-1) # 1)) (corner_values w)) walsh_coefficients.
Definition builtin_ids : list nat := map sign_pattern_id walsh_coefficients.
Fixpoint nodupb (l : list nat) : bool :=
  match l with [] => true | x :: r => negb (existsb (Nat.eqb x) r) && nodupb r end.

Theorem builtin_ok : builtin_corners_ok = true /\ length builtin_ids = 16%nat /\ nodupb builtin_ids = true
  /\ forallb (fun g => g <? 16) builtin_ids = true.
Proof. repeat split; vm_compute; reflexivity. Qed.
