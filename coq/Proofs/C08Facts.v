From Coq Require Import String Reals List Lra Lia Bool.
From TLX Require Import Model.Bits Model.Poly Model.Relax Model.ConvNet Model.Wiring Gen.Ops Gen.Dispatch.
From TLX Require Import Proofs.RelaxFacts Proofs.C03Facts.
Import ListNotations.
Local Open Scope R_scope.

Lemma in01_0 : in01 0. Proof. unfold in01. lra. Qed.

Lemma nth_in01 : forall l i, Forall in01 l -> in01 (nth i l 0).
Proof.
  intros l i H. destruct (le_lt_dec (length l) i) as [Hge|Hlt].
  - rewrite nth_overflow by exact Hge. apply in01_0.
  - rewrite Forall_forall in H. apply H. apply nth_In. exact Hlt.
Qed.

(* every tree level of a convolution keeps activations in [0,1], for any per-node function that does *)
Section TreeRange.
  Variable fn : nat -> nat -> nat -> R -> R -> R.
  Hypothesis fn_in01 : forall l n k a b, in01 a -> in01 b -> in01 (fn l n k a b).

  Lemma tree_levels_in01 : forall m k level cur, Forall in01 cur -> Forall in01 (tree_levels 0 fn k level m cur).
  Proof.
    induction m as [|m IH]; intros k level cur H; cbn [tree_levels]; [exact H|].
    apply IH. apply Forall_forall. intros v Hv. apply in_map_iff in Hv. destruct Hv as [j [<- _]].
    apply fn_in01; apply nth_in01; exact H.
  Qed.

  Lemma kernel_tree_in01 : forall cs k win, (forall c r, in01 (win c r)) -> in01 (kernel_tree 0 fn cs k win).
  Proof.
    intros cs k win Hw. unfold kernel_tree. apply nth_in01. apply tree_levels_in01.
    apply Forall_forall. intros v Hv. apply in_map_iff in Hv. destruct Hv as [g [<- _]].
    destruct (nth g (nth k (cv_rel_a cs) []) ([], 0%nat)) as [ra ca].
    destruct (nth g (nth k (cv_rel_b cs) []) ([], 0%nat)) as [rb cb]. apply fn_in01; apply Hw.
  Qed.

  Theorem conv_in01 : forall cs x, Forall in01 x -> Forall in01 (conv_eval_g 0 fn cs x).
  Proof.
    intros cs x Hx. unfold conv_eval_g. apply Forall_forall. intros v Hv.
    apply in_flat_map in Hv. destruct Hv as [k [_ Hv]]. apply in_map_iff in Hv. destruct Hv as [p [<- _]].
    apply kernel_tree_in01. intros c r. unfold window, read_padded.
    destruct (in_image (cv_dims cs) (cv_pad cs) (abs_pos (window_start cs p) r)); [apply nth_in01; exact Hx|apply in01_0].
  Qed.
End TreeRange.

(* raw soft node: softmax(logits/tau)-weighted mixture;  Walsh soft node: logistic(form/tau) *)
Definition raw_soft_node (W : nat -> nat -> nat -> list R) (tau : R) (l n k : nat) (a b : R) : R :=
  mix (soft_raw (W l n k) tau) a b.
Definition walsh_soft_node (W : nat -> nat -> nat -> R * R * R * R) (tau : R) (l n k : nat) (a b : R) : R :=
  let '(w0, w1, w2, w3) := W l n k in soft_walsh (wform w0 w1 w2 w3 a b) tau.

Theorem raw_conv_soft_in01 : forall W tau cs x, (forall l n k, length (W l n k) = 16%nat) ->
  Forall in01 x -> Forall in01 (conv_eval_g 0 (raw_soft_node W tau) cs x).
Proof.
  intros W tau cs x HW Hx. apply conv_in01; [|exact Hx].
  intros l n k a b Ha Hb. unfold raw_soft_node. apply soft_neuron_in01; [apply HW|exact Ha|exact Hb].
Qed.

Theorem walsh_conv_soft_in01 : forall W tau cs x,
  Forall in01 x -> Forall in01 (conv_eval_g 0 (walsh_soft_node W tau) cs x).
Proof.
  intros W tau cs x Hx. apply conv_in01; [|exact Hx].
  intros l n k a b Ha Hb. unfold walsh_soft_node. destruct (W l n k) as [[[w0 w1] w2] w3].
  unfold soft_walsh, in01. pose proof (sigmoid_in01 (wform w0 w1 w2 w3 a b / tau)). lra.
Qed.

(* --- dispatch: what the soft training rows of the current source apply *)
Definition weights_events (l : list (event * bool)) (in_loop : bool) : list event :=
  map fst (filter (fun p => Bool.eqb (snd p) in_loop && match fst p with EWeights _ | EAct _ => true | _ => false end) l).

Definition soft_row_ok (layer par : string) (expect : event) (has_loop : bool) : bool :=
  match events_of layer par true "soft" with
  | None => false
  | Some ev =>
      (match weights_events ev false with [e] => event_eqb e expect | _ => false end)
      && (if has_loop then match weights_events ev true with [e] => event_eqb e expect | _ => false end
          else match weights_events ev true with [] => true | _ => false end)
  end.

(* soft mode applies softmax(w / self.temperature) (raw) or logistic(form / self.temperature) (Walsh), with
   tau = self.temperature, at the first tree level and in the loop over the remaining levels *)
Lemma soft_dispatch :
  soft_row_ok "dense" "raw" (EWeights (WSoftRaw true)) false = true
  /\ soft_row_ok "dense" "walsh" (EAct (ASoftWalsh true)) false = true
  /\ soft_row_ok "conv2d" "raw" (EWeights (WSoftRaw true)) true = true
  /\ soft_row_ok "conv2d" "walsh" (EAct (ASoftWalsh true)) true = true
  /\ soft_row_ok "conv3d" "raw" (EWeights WPlainSoftmax) true = true.
Proof. repeat split; vm_compute; reflexivity. Qed.
