(* Lane-parallelism of the C fragment: running a program on W-bit words is, in every
   bit lane j < W, running it on Booleans; and it succeeds on words iff it succeeds on a lane. *)
From Coq Require Import ZArith List Bool Arith Lia.
From TLX Require Import Model.Bits Model.CLang Proofs.BitsFacts.
Import ListNotations.

Section Lane.
  Variable W : Z.
  Variable j : Z.
  Hypothesis HW : (0 < W)%Z.
  Hypothesis Hj : (0 <= j < W)%Z.

  Notation memZ := (@mem Z).
  Notation memB := (@mem bool).
  Definition lane (z : Z) : bool := Z.testbit z j.
  Definition R (mz : memZ) (mb : memB) : Prop := forall b i, option_map lane (mz b i) = mb b i.

  Notation gevalZ := (@geval Z 0%Z Z.lnot Z.land Z.lor Z.lxor).
  Notation gevalB := (@geval bool false negb andb orb xorb).
  Notation stepZ := (@exec_stmt Z 0%Z Z.lnot Z.land Z.lor Z.lxor (wrap W)).
  Notation stepB := (@exec_stmt bool false negb andb orb xorb (fun b => b)).
  Notation bodyZ := (@exec_body Z 0%Z Z.lnot Z.land Z.lor Z.lxor (wrap W)).
  Notation bodyB := (@exec_body bool false negb andb orb xorb (fun b => b)).

  Lemma geval_lane : forall sz mz mb e, R mz mb ->
    option_map lane (gevalZ sz mz e) = gevalB sz mb e.
  Proof.
    intros sz mz mb e HR.
    induction e as [b i| |e IH|e1 IH1 e2 IH2|e1 IH1 e2 IH2|e1 IH1 e2 IH2]; cbn [geval].
    - destruct (i <? size_of sz b); [apply HR|reflexivity].
    - cbn. unfold lane. now rewrite Z.testbit_0_l.
    - rewrite <- IH. destruct (gevalZ sz mz e) as [z|]; cbn; [|reflexivity].
      unfold lane. rewrite Z.lnot_spec by lia. reflexivity.
    - rewrite <- IH1, <- IH2. destruct (gevalZ sz mz e1), (gevalZ sz mz e2); cbn; try reflexivity.
      unfold lane. now rewrite Z.land_spec.
    - rewrite <- IH1, <- IH2. destruct (gevalZ sz mz e1), (gevalZ sz mz e2); cbn; try reflexivity.
      unfold lane. now rewrite Z.lor_spec.
    - rewrite <- IH1, <- IH2. destruct (gevalZ sz mz e1), (gevalZ sz mz e2); cbn; try reflexivity.
      unfold lane. now rewrite Z.lxor_spec.
  Qed.

  Lemma all_init_lane : forall mz mb b n, R mz mb -> all_init mz b n = all_init mb b n.
  Proof.
    intros mz mb b n HR. unfold all_init.
    induction (seq 0 n) as [|i l IH]; cbn [forallb]; [reflexivity|]. rewrite IH. f_equal.
    specialize (HR b i). destruct (mz b i), (mb b i); cbn in HR; congruence.
  Qed.

  Lemma step_lane : forall sz mz mb s, R mz mb ->
    match stepB sz mb s with
    | Some mb' => exists mz', stepZ sz mz s = Some mz' /\ R mz' mb'
    | None => stepZ sz mz s = None
    end.
  Proof.
    intros sz mz mb s HR. destruct s as [b i e|d s n]; cbn [exec_stmt].
    - destruct ((b =? 0) || negb (i <? size_of sz b)); [reflexivity|].
      pose proof (geval_lane sz mz mb e HR) as He.
      destruct (gevalB sz mb e) as [vb|]; destruct (gevalZ sz mz e) as [vz|]; cbn in He; try discriminate.
      + eexists. split; [reflexivity|]. intros b' i'. unfold upd.
        destruct ((b' =? b) && (i' =? i)); [|apply HR].
        cbn. f_equal. injection He as He. unfold lane in *. rewrite wrap_testbit by lia. exact He.
      + reflexivity.
    - rewrite (all_init_lane mz mb s n HR).
      destruct ((d =? 0) || (d =? s) || negb (n <=? size_of sz d) || negb (n <=? size_of sz s) || negb (all_init mb s n));
        [reflexivity|].
      eexists. split; [reflexivity|]. intros b i. cbv beta. destruct ((b =? d) && (i <? n)); apply HR.
  Qed.

  Lemma body_lane : forall sz ss mz mb, R mz mb ->
    match bodyB sz mb ss with
    | Some mb' => exists mz', bodyZ sz mz ss = Some mz' /\ R mz' mb'
    | None => bodyZ sz mz ss = None
    end.
  Proof.
    intros sz ss. induction ss as [|s rest IH]; intros mz mb HR; cbn [exec_body].
    - exists mz. split; [reflexivity|exact HR].
    - pose proof (step_lane sz mz mb s HR) as Hs.
      destruct (stepB sz mb s) as [mb'|].
      + destruct Hs as [mz' [Hz HR']]. rewrite Hz. apply IH. exact HR'.
      + rewrite Hs. reflexivity.
  Qed.

  Lemma init_lane : forall inp, R (init_mem inp) (init_mem (map lane inp)).
  Proof.
    intros inp b i. unfold init_mem. destruct (b =? 0); [|reflexivity].
    rewrite nth_error_map. reflexivity.
  Qed.

  Lemma read_all_lane : forall mz mb b is, R mz mb ->
    option_map (map lane) (read_all mz b is) = read_all mb b is.
  Proof.
    intros mz mb b is HR. induction is as [|i rest IH]; cbn [read_all]; [reflexivity|].
    rewrite <- IH, <- (HR b i). destruct (mz b i), (read_all mz b rest); reflexivity.
  Qed.

  Theorem exec_lane : forall p inp,
    option_map (map lane) (execZ W p inp) = execB p (map lane inp).
  Proof.
    intros p inp. unfold execZ, execB, exec. rewrite map_length.
    destruct (negb (length inp =? size_of (sizes p) 0)); [reflexivity|].
    pose proof (body_lane (sizes p) (body p) _ _ (init_lane inp)) as Hb.
    destruct (bodyB (sizes p) (init_mem (map lane inp)) (body p)) as [mb|].
    - destruct Hb as [mz [Hz HR]]. rewrite Hz. apply read_all_lane. exact HR.
    - rewrite Hb. reflexivity.
  Qed.
End Lane.

(* consequence: success on one Boolean lane gives success on words, and every lane agrees *)
Corollary exec_words : forall W p inp ob0, (0 < W)%Z ->
  execB p (map (lane 0) inp) = Some ob0 ->
  exists out, execZ W p inp = Some out /\
    forall j, (0 <= j < W)%Z -> execB p (map (lane j) inp) = Some (map (lane j) out).
Proof.
  intros W p inp ob0 HW H0.
  pose proof (exec_lane W 0 HW ltac:(lia) p inp) as E0. rewrite H0 in E0.
  destruct (execZ W p inp) as [out|] eqn:Ez; [|discriminate].
  exists out. split; [reflexivity|]. intros j Hj.
  pose proof (exec_lane W j HW Hj p inp) as Ej. rewrite Ez in Ej. cbn in Ej. now rewrite <- Ej.
Qed.
