(* Facts about the logic-convolution reference model: positions, shared tree, equivariance. *)
From Coq Require Import List Arith Bool Lia.
From TLX Require Import Model.Bits Model.Netlist Model.Wiring Model.ConvNet Proofs.WiringFacts.
Import ListNotations.

(* number of elements of torch.arange(0, stop, step) *)
Definition arange_len (stop step : nat) : nat := (stop + step - 1) / step.

Lemma positions_count : forall n p rf s, 0 < s -> rf <= n + 2 * p ->
  arange_len (n + 2 * p - rf + 1) s = out_len n p rf s.
Proof.
  intros n p rf s Hs Hrf. unfold arange_len, out_len.
  replace (n + 2 * p - rf + 1 + s - 1) with ((n + 2 * p - rf) + 1 * s) by lia.
  rewrite Nat.div_add by lia. reflexivity.
Qed.

(* every window lies inside the padded image *)
Lemma window_fits : forall n p rf s q, 0 < s -> rf <= n + 2 * p -> q < out_len n p rf s ->
  q * s + rf <= n + 2 * p.
Proof.
  intros n p rf s q Hs Hrf Hq. unfold out_len in Hq.
  pose proof (Nat.div_mod_eq (n + 2 * p - rf) s) as E.
  assert (q <= (n + 2 * p - rf) / s) by lia. nia.
Qed.

Lemma unravel_bound : forall dims idx, Forall (fun d => 0 < d) dims -> idx < fold_right Nat.mul 1 dims ->
  Forall2 lt (unravel dims idx) dims.
Proof.
  induction dims as [|d ds IH]; intros idx Hpos Hidx; cbn [unravel]; [constructor|].
  inversion Hpos as [|? ? Hd Hds]; subst. cbn [fold_right] in Hidx.
  set (p := fold_right Nat.mul 1 ds) in *.
  assert (Hp : 0 < p) by (apply prod_pos; exact Hds).
  constructor.
  - apply Nat.div_lt_upper_bound; [lia|]. rewrite Nat.mul_comm. exact Hidx.
  - apply IH; [exact Hds|]. apply Nat.mod_upper_bound. lia.
Qed.

(* nth of a flat_map with blocks of constant length *)
Lemma nth_flat_map_const : forall (A B : Type) (f : A -> list B) (l : list A) n d i j,
  (forall a, length (f a) = n) -> j < n -> i < length l ->
  forall da, nth (i * n + j) (flat_map f l) d = nth j (f (nth i l da)) d.
Proof.
  intros A B f l n d i j Hlen Hj. revert i. induction l as [|a r IH]; intros i Hi da; [cbn in Hi; lia|].
  cbn [flat_map]. destruct i as [|i].
  - cbn [Nat.mul Nat.add nth]. rewrite app_nth1 by (rewrite Hlen; exact Hj). reflexivity.
  - cbn [length] in Hi. rewrite app_nth2 by (rewrite Hlen; nia).
    rewrite Hlen. replace (S i * n + j - n) with (i * n + j) by nia. cbn [nth]. apply IH. lia.
Qed.

Section Generic.
  Context {V : Type} (dflt : V) (fn : nat -> nat -> nat -> V -> V -> V).

  (* out[k][p] = f_k (window at p of the zero-padded input), f_k = kernel_tree cs k: one tree per kernel *)
  Theorem conv_shared_tree : forall cs x k p,
    k < cv_K cs -> p < prod (cv_out_dims cs) ->
    nth (k * prod (cv_out_dims cs) + p) (conv_eval_g dflt fn cs x) dflt
    = kernel_tree dflt fn cs k (window dflt cs x p).
  Proof.
    intros cs x k p Hk Hp. unfold conv_eval_g.
    rewrite (nth_flat_map_const nat V _ (seq 0 (cv_K cs)) (prod (cv_out_dims cs)) dflt k p) with (da := 0).
    - rewrite seq_nth by exact Hk. cbn [Nat.add].
      rewrite nth_indep with (d' := (fun p => kernel_tree dflt fn cs k (window dflt cs x p)) 0)
        by (rewrite map_length, seq_length; exact Hp).
      rewrite (map_nth (fun p => kernel_tree dflt fn cs k (window dflt cs x p))). rewrite seq_nth by exact Hp. reflexivity.
    - intros a. now rewrite map_length, seq_length.
    - exact Hp.
    - rewrite seq_length. exact Hk.
  Qed.

  Lemma kernel_tree_ext : forall cs k w1 w2, (forall c r, w1 c r = w2 c r) ->
    kernel_tree dflt fn cs k w1 = kernel_tree dflt fn cs k w2.
  Proof.
    intros cs k w1 w2 H. unfold kernel_tree. f_equal. f_equal. apply map_ext. intros g.
    destruct (nth g (nth k (cv_rel_a cs) []) ([], 0)) as [ra ca].
    destruct (nth g (nth k (cv_rel_b cs) []) ([], 0)) as [rb cb]. now rewrite !H.
  Qed.

  (* equivariance: equal windows give equal outputs, whatever the images and positions *)
  Theorem conv_equivariance : forall cs x x' k p q,
    k < cv_K cs -> p < prod (cv_out_dims cs) -> q < prod (cv_out_dims cs) ->
    (forall c r, window dflt cs x' q c r = window dflt cs x p c r) ->
    nth (k * prod (cv_out_dims cs) + q) (conv_eval_g dflt fn cs x') dflt
    = nth (k * prod (cv_out_dims cs) + p) (conv_eval_g dflt fn cs x) dflt.
  Proof.
    intros cs x x' k p q Hk Hp Hq Hw. rewrite !conv_shared_tree by assumption.
    apply kernel_tree_ext. exact Hw.
  Qed.

  Theorem conv_out_length : forall cs x,
    length (conv_eval_g dflt fn cs x) = cv_K cs * prod (cv_out_dims cs).
  Proof.
    intros cs x. unfold conv_eval_g.
    assert (G : forall s n, length (flat_map (fun k => map (fun p => kernel_tree dflt fn cs k (window dflt cs x p))
                                                     (seq 0 (prod (cv_out_dims cs)))) (seq s n))
                            = n * prod (cv_out_dims cs)).
    { intros s n. revert s. induction n as [|n IHn]; intros s; [reflexivity|].
      cbn [seq flat_map]. rewrite app_length, map_length, seq_length, IHn. lia. }
    apply G.
  Qed.
End Generic.

Lemma nth_map_in : forall (A B : Type) (f : A -> B) (l : list A) i d d',
  i < length l -> nth i (map f l) d = f (nth i l d').
Proof.
  intros A B f l. induction l as [|a r IH]; intros i d d' Hi; [cbn in Hi; lia|].
  destruct i as [|i]; [reflexivity|]. cbn [map nth]. apply IH. cbn in Hi. lia.
Qed.

(* the index tensor: absolute index = relative index + stride * (position unravelled over the output grid) *)
Theorem sliding_indices_spec : forall cs rel k p g,
  k < length rel -> p < prod (cv_out_dims cs) -> g < length (nth k rel []) ->
  nth g (nth p (nth k (sliding_indices cs rel) []) []) []
  = let '(r, c) := nth g (nth k rel []) ([], 0) in abs_pos (window_start cs p) r ++ [c].
Proof.
  intros cs rel k p g Hk Hp Hg. unfold sliding_indices.
  rewrite (nth_map_in _ _ _ rel k [] []) by exact Hk.
  rewrite (nth_map_in _ _ _ (seq 0 (prod (cv_out_dims cs))) p [] 0) by (rewrite seq_length; exact Hp).
  rewrite seq_nth by exact Hp. cbn [Nat.add].
  rewrite (nth_map_in _ _ _ (nth k rel []) g [] ([], 0)) by exact Hg. reflexivity.
Qed.

(* a read at start + rel with rel < rf stays inside the window [start, start + rf) *)
Theorem read_inside_window : forall start rel rf, rel < rf -> start <= rel + start < start + rf.
Proof. intros. lia. Qed.
