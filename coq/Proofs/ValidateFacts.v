From Coq Require Import ZArith List Bool Arith Lia.
From TLX Require Import Model.Bits Model.CLang Model.Validate Proofs.BitsFacts Proofs.CLangFacts.
Import ListNotations.

(* success of the Boolean interpreter is independent of the values *)
Section Shape.
  Notation memB := (@mem bool).
  Notation gevalB := (@geval bool false negb andb orb xorb).
  Notation stepB := (@exec_stmt bool false negb andb orb xorb (fun b => b)).
  Notation bodyB := (@exec_body bool false negb andb orb xorb (fun b => b)).

  Definition isS {A} (o : option A) : bool := match o with Some _ => true | None => false end.
  Definition S2 (m1 m2 : memB) : Prop := forall b i, isS (m1 b i) = isS (m2 b i).

  Lemma geval_shape : forall sz m1 m2 e, S2 m1 m2 -> isS (gevalB sz m1 e) = isS (gevalB sz m2 e).
  Proof.
    intros sz m1 m2 e H. induction e as [b i| |e IH|e1 IH1 e2 IH2|e1 IH1 e2 IH2|e1 IH1 e2 IH2]; cbn [geval].
    - destruct (i <? size_of sz b); [apply H|reflexivity].
    - reflexivity.
    - destruct (gevalB sz m1 e), (gevalB sz m2 e); cbn in *; congruence.
    - destruct (gevalB sz m1 e1), (gevalB sz m2 e1), (gevalB sz m1 e2), (gevalB sz m2 e2); cbn in *; congruence.
    - destruct (gevalB sz m1 e1), (gevalB sz m2 e1), (gevalB sz m1 e2), (gevalB sz m2 e2); cbn in *; congruence.
    - destruct (gevalB sz m1 e1), (gevalB sz m2 e1), (gevalB sz m1 e2), (gevalB sz m2 e2); cbn in *; congruence.
  Qed.

  Lemma all_init_shape : forall m1 m2 b n, S2 m1 m2 -> all_init m1 b n = all_init m2 b n.
  Proof.
    intros m1 m2 b n H. unfold all_init. induction (seq 0 n) as [|i l IH]; cbn [forallb]; [reflexivity|].
    rewrite IH. f_equal. specialize (H b i). destruct (m1 b i), (m2 b i); cbn in H; congruence.
  Qed.

  Lemma step_shape : forall sz m1 m2 s, S2 m1 m2 ->
    match stepB sz m1 s, stepB sz m2 s with
    | Some a, Some b => S2 a b
    | None, None => True
    | _, _ => False
    end.
  Proof.
    intros sz m1 m2 s H. destruct s as [b i e|d s n]; cbn [exec_stmt].
    - destruct ((b =? 0) || negb (i <? size_of sz b)); [exact I|].
      pose proof (geval_shape sz m1 m2 e H) as He.
      destruct (gevalB sz m1 e), (gevalB sz m2 e); cbn in He; try discriminate; [|exact I].
      intros b' i'. unfold upd. destruct ((b' =? b) && (i' =? i)); [reflexivity|apply H].
    - rewrite (all_init_shape m1 m2 s n H).
      destruct ((d =? 0) || (d =? s) || negb (n <=? size_of sz d) || negb (n <=? size_of sz s) || negb (all_init m2 s n));
        [exact I|].
      intros b i. cbv beta. destruct ((b =? d) && (i <? n)); apply H.
  Qed.

  Lemma body_shape : forall sz ss m1 m2, S2 m1 m2 -> isS (bodyB sz m1 ss) = isS (bodyB sz m2 ss)
    /\ forall a b, bodyB sz m1 ss = Some a -> bodyB sz m2 ss = Some b -> S2 a b.
  Proof.
    intros sz ss. induction ss as [|s r IH]; intros m1 m2 H; cbn [exec_body].
    - split; [reflexivity|]. intros a b Ha Hb. inversion Ha; inversion Hb; subst. exact H.
    - pose proof (step_shape sz m1 m2 s H) as Hs.
      destruct (stepB sz m1 s), (stepB sz m2 s); try contradiction.
      + apply IH. exact Hs.
      + split; [reflexivity|]. intros; discriminate.
  Qed.

  Lemma read_all_shape : forall (m1 m2 : memB) b is, S2 m1 m2 -> isS (read_all m1 b is) = isS (read_all m2 b is).
  Proof.
    intros m1 m2 b is H. induction is as [|i r IH]; cbn [read_all]; [reflexivity|].
    specialize (H b i). destruct (m1 b i), (m2 b i); cbn in H; try discriminate; [|reflexivity].
    destruct (read_all m1 b r), (read_all m2 b r); cbn in *; congruence.
  Qed.

  Lemma execB_shape : forall p x1 x2, length x1 = length x2 -> isS (execB p x1) = isS (execB p x2).
  Proof.
    intros p x1 x2 Hl. unfold execB, exec. rewrite Hl.
    destruct (negb (length x2 =? size_of (sizes p) 0)); [reflexivity|].
    assert (H0 : S2 (init_mem x1) (init_mem x2)).
    { intros b i. unfold init_mem. destruct (b =? 0); [|reflexivity].
      destruct (nth_error x1 i) eqn:E1, (nth_error x2 i) eqn:E2; try reflexivity.
      - apply nth_error_None in E2. assert (i < length x1) by (apply nth_error_Some; congruence). lia.
      - apply nth_error_None in E1. assert (i < length x2) by (apply nth_error_Some; congruence). lia. }
    destruct (body_shape (sizes p) (body p) _ _ H0) as [Hs Hm].
    destruct (bodyB (sizes p) (init_mem x1) (body p)) as [a|], (bodyB (sizes p) (init_mem x2) (body p)) as [b|];
      cbn in Hs; try discriminate; [|reflexivity].
    apply read_all_shape. apply Hm; reflexivity.
  Qed.
End Shape.

Theorem safe_check_sound : forall p, safe_check p = true ->
  forall W inp, (0 < W)%Z -> length inp = size_of (sizes p) 0 -> execZ W p inp <> None.
Proof.
  intros p Hs W inp HW Hlen. unfold safe_check in Hs.
  assert (Hb : isS (execB p (map (lane 0) inp)) = true).
  { rewrite (execB_shape p (map (lane 0) inp) (repeat false (size_of (sizes p) 0))).
    - destruct (execB p (repeat false (size_of (sizes p) 0))); [reflexivity|discriminate].
    - rewrite map_length, repeat_length. exact Hlen. }
  destruct (execB p (map (lane 0) inp)) as [ob|] eqn:E; [|discriminate].
  destruct (exec_words W p inp ob HW E) as [out [Hz _]]. congruence.
Qed.

Lemma all_lists_complete : forall x, In x (all_lists (length x)).
Proof.
  induction x as [|b r IH]; cbn [length all_lists]; [left; reflexivity|].
  apply in_or_app. destruct b; [right|left]; apply in_map; exact IH.
Qed.

Lemma blist_eqb_eq : forall a b, blist_eqb a b = true -> a = b.
Proof.
  induction a as [|x r IH]; intros [|y s] H; cbn in H; try discriminate; [reflexivity|].
  apply andb_true_iff in H. destruct H as [H1 H2]. apply eqb_prop in H1. subst. f_equal. apply IH. exact H2.
Qed.

(* a program validated exhaustively on Booleans computes f in every lane of every word size *)
Theorem validate_exhaustive_sound : forall p f, validate_exhaustive p f = true ->
  forall W inp, (0 < W)%Z -> length inp = size_of (sizes p) 0 ->
  exists out, execZ W p inp = Some out /\
    forall j, (0 <= j < W)%Z -> map (lane j) out = f (map (lane j) inp).
Proof.
  intros p f Hv W inp HW Hlen. unfold validate_exhaustive in Hv. rewrite forallb_forall in Hv.
  assert (Hb : forall x, length x = size_of (sizes p) 0 -> execB p x = Some (f x)).
  { intros x Hx. specialize (Hv x). rewrite <- Hx in Hv. specialize (Hv (all_lists_complete x)).
    destruct (execB p x) as [o|]; [|discriminate]. apply blist_eqb_eq in Hv. now subst. }
  destruct (exec_words W p inp _ HW (Hb (map (lane 0) inp) ltac:(rewrite map_length; exact Hlen))) as [out [Hz Hall]].
  exists out. split; [exact Hz|]. intros j Hj. specialize (Hall j Hj).
  rewrite Hb in Hall by (rewrite map_length; exact Hlen). injection Hall as Hall. symmetry. exact Hall.
Qed.
