From Coq Require Import ZArith List Bool Arith Lia.
From TLX Require Import Model.Bits Model.CLang Model.Validate Proofs.BitsFacts Proofs.CLangFacts.
Import ListNotations.

(* success of the Boolean interpreter is independent of the values *)
Section Shape.
  Notation memB := (@mem bool).
  Notation gevalB := (@geval bool false negb andb orb xorb).
  Notation stepB := (@exec_stmt bool false negb andb orb xorb (fun b => b)).
  Notation bodyB := (@exec_body bool false negb andb orb xorb (fun b => b)).

  Definition isS {A} (o : option A) : bool := match o with Some _ => true | None => false end.
  Definition S2 (m1 m2 : memB) : Prop := forall b i, isS (m1 b i) = isS (m2 b i).

  Lemma geval_shape : forall sz m1 m2 e, S2 m1 m2 -> isS (gevalB sz m1 e) = isS (gevalB sz m2 e).
  Proof.
    intros sz m1 m2 e H. induction e as [b i| |e IH|e1 IH1 e2 IH2|e1 IH1 e2 IH2|e1 IH1 e2 IH2]; cbn [geval].
    - destruct (i <? size_of sz b); [apply H|reflexivity].
    - reflexivity.
    - destruct (gevalB sz m1 e), (gevalB sz m2 e); cbn in *; congruence.
    - destruct (gevalB sz m1 e1), (gevalB sz m2 e1), (gevalB sz m1 e2), (gevalB sz m2 e2); cbn in *; congruence.
    - destruct (gevalB sz m1 e1), (gevalB sz m2 e1), (gevalB sz m1 e2), (gevalB sz m2 e2); cbn in *; congruence.
    - destruct (gevalB sz m1 e1), (gevalB sz m2 e1), (gevalB sz m1 e2), (gevalB sz m2 e2); cbn in *; congruence.
  Qed.

  Lemma all_init_shape : forall m1 m2 b n, S2 m1 m2 -> all_init m1 b n = all_init m2 b n.
  Proof.
    intros m1 m2 b n H. unfold all_init. induction (seq 0 n) as [|i l IH]; cbn [forallb]; [reflexivity|].
    rewrite IH. f_equal. specialize (H b i). destruct (m1 b i), (m2 b i); cbn in H; congruence.
  Qed.

  Lemma step_shape : forall sz m1 m2 s, S2 m1 m2 ->
    match stepB sz m1 s, stepB sz m2 s with
    | Some a, Some b => S2 a b
    | None, None => True
    | _, _ => False
    end.
  Proof.
    intros sz m1 m2 s H. destruct s as [b i e|d s n]; cbn [exec_stmt].
    - destruct ((b =? 0) || negb (i <? size_of sz b)); [exact I|].
      pose proof (geval_shape sz m1 m2 e H) as He.
      destruct (gevalB sz m1 e), (gevalB sz m2 e); cbn in He; try discriminate; [|exact I].
      intros b' i'. unfold upd. destruct ((b' =? b) && (i' =? i)); [reflexivity|apply H].
    - rewrite (all_init_shape m1 m2 s n H).
      destruct ((d =? 0) || (d =? s) || negb (n <=? size_of sz d) || negb (n <=? size_of sz s) || negb (all_init m2 s n));
        [exact I|].
      intros b i. cbv beta. destruct ((b =? d) && (i <? n)); apply H.
  Qed.

  Lemma body_shape : forall sz ss m1 m2, S2 m1 m2 -> isS (bodyB sz m1 ss) = isS (bodyB sz m2 ss)
    /\ forall a b, bodyB sz m1 ss = Some a -> bodyB sz m2 ss = Some b -> S2 a b.
  Proof.
    intros sz ss. induction ss as [|s r IH]; intros m1 m2 H; cbn [exec_body].
    - split; [reflexivity|]. intros a b Ha Hb. inversion Ha; inversion Hb; subst. exact H.
    - pose proof (step_shape sz m1 m2 s H) as Hs.
      destruct (stepB sz m1 s), (stepB sz m2 s); try contradiction.
      + apply IH. exact Hs.
      + split; [reflexivity|]. intros; discriminate.
  Qed.

  Lemma read_all_shape : forall (m1 m2 : memB) b is, S2 m1 m2 -> isS (read_all m1 b is) = isS (read_all m2 b is).
  Proof.
    intros m1 m2 b is H. induction is as [|i r IH]; cbn [read_all]; [reflexivity|].
    specialize (H b i). destruct (m1 b i), (m2 b i); cbn in H; try discriminate; [|reflexivity].
    destruct (read_all m1 b r), (read_all m2 b r); cbn in *; congruence.
  Qed.

  Lemma execB_shape : forall p x1 x2, length x1 = length x2 -> isS (execB p x1) = isS (execB p x2).
  Proof.
    intros p x1 x2 Hl. unfold execB, exec. rewrite Hl.
    destruct (negb (length x2 =? size_of (sizes p) 0)); [reflexivity|].
    assert (H0 : S2 (init_mem x1) (init_mem x2)).
    { intros b i. unfold init_mem. destruct (b =? 0); [|reflexivity].
      destruct (nth_error x1 i) eqn:E1, (nth_error x2 i) eqn:E2; try reflexivity.
      - apply nth_error_None in E2. assert (i < length x1) by (apply nth_error_Some; congruence). lia.
      - apply nth_error_None in E1. assert (i < length x2) by (apply nth_error_Some; congruence). lia. }
    destruct (body_shape (sizes p) (body p) _ _ H0) as [Hs Hm].
    destruct (bodyB (sizes p) (init_mem x1) (body p)) as [a|], (bodyB (sizes p) (init_mem x2) (body p)) as [b|];
      cbn in Hs; try discriminate; [|reflexivity].
    apply read_all_shape. apply Hm; reflexivity.
  Qed.
End Shape.

Theorem safe_check_sound : forall p, safe_check p = true ->
  forall W inp, (0 < W)%Z -> length inp = size_of (sizes p) 0 -> execZ W p inp <> None.
Proof.
  intros p Hs W inp HW Hlen. unfold safe_check in Hs.
  assert (Hb : isS (execB p (map (lane 0) inp)) = true).
  { rewrite (execB_shape p (map (lane 0) inp) (repeat false (size_of (sizes p) 0))).
    - destruct (execB p (repeat false (size_of (sizes p) 0))); [reflexivity|discriminate].
    - rewrite map_length, repeat_length. exact Hlen. }
  destruct (execB p (map (lane 0) inp)) as [ob|] eqn:E; [|discriminate].
  destruct (exec_words W p inp ob HW E) as [out [Hz _]]. congruence.
Qed.
