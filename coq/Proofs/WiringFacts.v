From Coq Require Import List Arith Bool Lia Permutation.
From TLX Require Import Model.Wiring.
Import ListNotations.

(* ---------- generic list facts *)
Lemma NoDup_app_intro : forall (A : Type) (l1 l2 : list A),
  NoDup l1 -> NoDup l2 -> (forall x, In x l1 -> ~ In x l2) -> NoDup (l1 ++ l2).
Proof.
  intros A l1. induction l1 as [|a r IH]; intros l2 H1 H2 Hd; [exact H2|].
  cbn [app]. inversion H1 as [|? ? Hna Hr]; subst. constructor.
  - intro Hin. apply in_app_or in Hin. destruct Hin as [Hin|Hin]; [contradiction|].
    apply (Hd a); [left; reflexivity|exact Hin].
  - apply IH; [exact Hr|exact H2|]. intros x Hx. apply Hd. right. exact Hx.
Qed.

Lemma NoDup_app_l : forall (A : Type) (l1 l2 : list A), NoDup (l1 ++ l2) -> NoDup l1.
Proof.
  intros A l1. induction l1 as [|a r IH]; intros l2 H; [constructor|].
  cbn [app] in H. inversion H as [|? ? Hn Hr]; subst. constructor.
  - intro Hin. apply Hn. apply in_or_app. left. exact Hin.
  - eapply IH. exact Hr.
Qed.

Lemma NoDup_flat_map_disjoint : forall (A B : Type) (f : A -> list B) (ds : list A),
  NoDup ds -> (forall d, NoDup (f d)) ->
  (forall d1 d2 x, In x (f d1) -> In x (f d2) -> d1 = d2) -> NoDup (flat_map f ds).
Proof.
  intros A B f ds Hds Hf Hdis. induction Hds as [|d r Hnin Hr IH]; [constructor|].
  cbn [flat_map]. apply NoDup_app_intro; [apply Hf|exact IH|].
  intros x Hx Hin. apply in_flat_map in Hin. destruct Hin as [d2 [Hd2 Hx2]].
  assert (d = d2) by (eapply Hdis; eassumption). subst. contradiction.
Qed.

Lemma NoDup_map_inj : forall (A B : Type) (f : A -> B) (l : list A),
  (forall x y, In x l -> In y l -> f x = f y -> x = y) -> NoDup l -> NoDup (map f l).
Proof.
  intros A B f l Hinj Hnd. induction Hnd as [|a r Hnin Hr IH]; [constructor|].
  cbn [map]. constructor.
  - intro Hin. apply in_map_iff in Hin. destruct Hin as [y [Hy Hyin]].
    assert (y = a) by (apply Hinj; [right; exact Hyin|left; reflexivity|exact Hy]). subst. contradiction.
  - apply IH. intros x y Hx Hy. apply Hinj; right; assumption.
Qed.

Lemma map_nth_seq_gen : forall (A : Type) (d : A) (l : list A), map (fun i => nth i l d) (seq 0 (length l)) = l.
Proof.
  intros A d l. apply nth_ext with (d := d) (d' := d).
  - now rewrite map_length, seq_length.
  - intros i Hi. rewrite map_length, seq_length in Hi.
    rewrite nth_indep with (d' := (fun i => nth i l d) 0) by (rewrite map_length, seq_length; lia).
    rewrite (map_nth (fun i => nth i l d) (seq 0 (length l)) 0 i). now rewrite seq_nth by lia.
Qed.

Lemma apply_perm_permutation : forall (A : Type) (d : A) (l : list A) perm,
  Permutation perm (seq 0 (length l)) -> Permutation (apply_perm d l perm) l.
Proof.
  intros A d l perm H. unfold apply_perm.
  transitivity (map (fun i => nth i l d) (seq 0 (length l))); [apply Permutation_map; exact H|].
  rewrite map_nth_seq_gen. apply Permutation_refl.
Qed.

(* ---------- dense 'unique' *)
Lemma in_all_pairs : forall n p, In p (all_pairs n) -> fst p < snd p /\ snd p < n.
Proof.
  intros n [a b] H. unfold all_pairs in H. cbn [fst snd].
  apply in_app_or in H. destruct H as [H|H]; [|apply in_app_or in H; destruct H as [H|H]].
  - apply in_map_iff in H. destruct H as [i [E Hi]]. apply in_seq in Hi. inversion E; subst.
    pose proof (Nat.div_mod_eq n 2). pose proof (Nat.mod_upper_bound n 2). lia.
  - apply in_map_iff in H. destruct H as [i [E Hi]]. apply in_seq in Hi. inversion E; subst.
    pose proof (Nat.div_mod_eq (n - 1) 2). pose proof (Nat.mod_upper_bound (n - 1) 2). lia.
  - apply in_flat_map in H. destruct H as [d [Hd H]]. apply in_seq in Hd.
    apply in_map_iff in H. destruct H as [i [E Hi]]. apply in_seq in Hi. inversion E; subst. lia.
Qed.

Lemma all_pairs_NoDup : forall n, NoDup (all_pairs n).
Proof.
  intros n. unfold all_pairs. apply NoDup_app_intro; [|apply NoDup_app_intro|].
  - apply NoDup_map_inj; [|apply seq_NoDup]. intros x y _ _ E. inversion E. lia.
  - apply NoDup_map_inj; [|apply seq_NoDup]. intros x y _ _ E. inversion E. lia.
  - apply NoDup_flat_map_disjoint; [apply seq_NoDup| |].
    + intros d. apply NoDup_map_inj; [|apply seq_NoDup]. intros x y _ _ E. inversion E. lia.
    + intros d1 d2 [a b] H1 H2. apply in_map_iff in H1. destruct H1 as [i [E1 Hi]]. apply in_seq in Hi.
      apply in_map_iff in H2. destruct H2 as [j [E2 Hj]]. inversion E1; inversion E2; subst. lia.
  - intros [a b] H1 H2. apply in_map_iff in H1. destruct H1 as [i [E1 _]]. inversion E1; subst.
    apply in_flat_map in H2. destruct H2 as [d [Hd H2]]. apply in_seq in Hd.
    apply in_map_iff in H2. destruct H2 as [j [E2 _]]. inversion E2; subst. lia.
  - intros [a b] H1 H2. apply in_map_iff in H1. destruct H1 as [i [E1 _]]. inversion E1; subst.
    apply in_app_or in H2. destruct H2 as [H2|H2].
    + apply in_map_iff in H2. destruct H2 as [j [E2 _]]. inversion E2; subst. lia.
    + apply in_flat_map in H2. destruct H2 as [d [Hd H2]]. apply in_seq in Hd.
      apply in_map_iff in H2. destruct H2 as [j [E2 _]]. inversion E2; subst. lia.
Qed.

Lemma offsets_length : forall n k, k <= n ->
  2 * length (flat_map (stage_off n) (seq (n - k) k)) = k * (k + 1).
Proof.
  intros n k. induction k as [|k IH]; intros Hk; [reflexivity|].
  replace (n - S k) with (n - k - 1) by lia.
  cbn [seq flat_map]. rewrite app_length. replace (S (n - k - 1)) with (n - k) by lia.
  unfold stage_off at 1. rewrite map_length, seq_length.
  specialize (IH ltac:(lia)). lia.
Qed.

Lemma all_pairs_length : forall n, 2 * length (all_pairs n) = n * (n - 1).
Proof.
  intros n. unfold all_pairs. rewrite !app_length. unfold stage1, stage2. rewrite !map_length, !seq_length.
  destruct (le_lt_dec n 1) as [Hs|Hl].
  - destruct n as [|[|n]]; [reflexivity|reflexivity|lia].
  - pose proof (offsets_length n (n - 2) ltac:(lia)) as Ho.
    replace (n - (n - 2)) with 2 in Ho by lia.
    pose proof (Nat.div_mod_eq n 2). pose proof (Nat.mod_upper_bound n 2).
    pose proof (Nat.div_mod_eq (n - 1) 2). pose proof (Nat.mod_upper_bound (n - 1) 2).
    assert (n / 2 + (n - 1) / 2 = n - 1) by lia. nia.
Qed.

(* every size and every permutation ("every seed") *)
Theorem unique_connections_ok : forall n m perm, n <= 2 * m -> m <= n * (n - 1) / 2 ->
  Permutation perm (seq 0 m) ->
  exists ps, unique_connections n m perm = Some ps /\ length ps = m /\ NoDup ps /\
    forall p, In p ps -> fst p < snd p /\ snd p < n.
Proof.
  intros n m perm H1 H2 Hp. unfold unique_connections.
  assert ((n <=? 2 * m) && (m <=? n * (n - 1) / 2) = true) as ->
    by (apply andb_true_iff; split; apply Nat.leb_le; assumption).
  eexists. split; [reflexivity|].
  assert (Hlen : length (firstn m (all_pairs n)) = m).
  { apply firstn_length_le. pose proof (all_pairs_length n) as E.
    pose proof (Nat.div_mod_eq (n * (n - 1)) 2). pose proof (Nat.mod_upper_bound (n * (n - 1)) 2). lia. }
  assert (HP : Permutation (apply_perm (0, 0) (firstn m (all_pairs n)) perm) (firstn m (all_pairs n)))
    by (apply apply_perm_permutation; rewrite Hlen; exact Hp).
  split; [|split].
  - unfold apply_perm. rewrite map_length. apply Permutation_length in Hp. now rewrite Hp, seq_length.
  - eapply Permutation_NoDup; [apply Permutation_sym; exact HP|].
    apply NoDup_app_l with (l2 := skipn m (all_pairs n)). rewrite firstn_skipn. apply all_pairs_NoDup.
  - intros p Hin. apply in_all_pairs. eapply Permutation_in in Hin; [|exact HP].
    rewrite <- (firstn_skipn m (all_pairs n)). apply in_or_app. left. exact Hin.
Qed.

Theorem unique_connections_rejects : forall n m perm, (2 * m < n \/ n * (n - 1) / 2 < m) ->
  unique_connections n m perm = None.
Proof.
  intros n m perm H. unfold unique_connections.
  destruct H as [H|H].
  - assert (n <=? 2 * m = false) as -> by (apply Nat.leb_gt; exact H). reflexivity.
  - assert (m <=? n * (n - 1) / 2 = false) as -> by (apply Nat.leb_gt; exact H). rewrite andb_false_r. reflexivity.
Qed.

(* the slice-level mirror of the source agrees with the closed form (kernel-checked up to in_dim 24) *)
Definition pair_eqb (p q : nat * nat) : bool := (fst p =? fst q) && (snd p =? snd q).
Fixpoint pairs_eqb (l1 l2 : list (nat * nat)) : bool :=
  match l1, l2 with
  | [], [] => true
  | x :: r, y :: s => pair_eqb x y && pairs_eqb r s
  | _, _ => false
  end.
Definition slices_agree (n : nat) : bool :=
  forallb (fun m => match unique_slices n m with
                    | Some (a, b) => pairs_eqb (combine a b) (firstn m (all_pairs n))
                    | None => false end)
          (seq ((n + 1) / 2) (n * (n - 1) / 2 + 1 - (n + 1) / 2)).
Lemma slices_agree_upto_24 : forallb slices_agree (seq 2 23) = true.
Proof. vm_compute. reflexivity. Qed.

(* ---------- dense 'random' *)
Lemma perm_seq_bound : forall p n v, Permutation p (seq 0 n) -> In v p -> v < n.
Proof. intros p n v H Hin. eapply Permutation_in in Hin; [|exact H]. apply in_seq in Hin. lia. Qed.

Lemma nth_perm_bound : forall p n v, Permutation p (seq 0 n) -> v < n -> nth v p 0 < n.
Proof.
  intros p n v H Hv. eapply perm_seq_bound; [exact H|]. apply nth_In.
  apply Permutation_length in H. rewrite seq_length in H. lia.
Qed.

Theorem random_connections_range : forall n m p1 p2, 0 < n ->
  Permutation p1 (seq 0 (2 * m)) -> Permutation p2 (seq 0 n) ->
  let '(a, b) := random_connections n m p1 p2 in
  length a = m /\ length b = m /\ forall v, In v (a ++ b) -> v < n.
Proof.
  intros n m p1 p2 Hn H1 H2. unfold random_connections.
  set (c' := map (fun v => nth v p2 0) (map (fun v => v mod n) p1)).
  assert (Hl : length c' = 2 * m).
  { unfold c'. rewrite !map_length. apply Permutation_length in H1. now rewrite H1, seq_length. }
  split; [|split].
  - rewrite firstn_length_le; lia.
  - rewrite skipn_length. lia.
  - intros v Hin. rewrite firstn_skipn in Hin. unfold c' in Hin. apply in_map_iff in Hin.
    destruct Hin as [u [<- Hu]]. apply in_map_iff in Hu. destruct Hu as [w [<- _]].
    apply nth_perm_bound with (n := n); [exact H2|]. apply Nat.mod_upper_bound. lia.
Qed.

Theorem random_connections_cover : forall n m p1 p2, 0 < n -> n <= 2 * m ->
  Permutation p1 (seq 0 (2 * m)) -> Permutation p2 (seq 0 n) ->
  let '(a, b) := random_connections n m p1 p2 in
  forall j, j < n -> In j (a ++ b).
Proof.
  intros n m p1 p2 Hn Hnm H1 H2. unfold random_connections. intros j Hj.
  rewrite firstn_skipn.
  assert (Hjp : In j p2) by (eapply Permutation_in; [apply Permutation_sym; exact H2|apply in_seq; lia]).
  destruct (In_nth p2 j 0 Hjp) as [v [Hv Hnth]].
  apply Permutation_length in H2 as Hl2. rewrite seq_length in Hl2.
  apply in_map_iff. exists v. split; [exact Hnth|].
  apply in_map_iff. exists v. split; [apply Nat.mod_small; lia|].
  eapply Permutation_in; [apply Permutation_sym; exact H1|]. apply in_seq. lia.
Qed.

(* ---------- conv 'random-unique' *)
Lemma in_triu : forall P p, In p (triu P) -> fst p < snd p /\ snd p < P.
Proof.
  intros P [i j] H. unfold triu in H. apply in_flat_map in H. destruct H as [i' [Hi H]].
  apply in_seq in Hi. apply in_map_iff in H. destruct H as [j' [E Hj]]. apply in_seq in Hj.
  inversion E; subst. cbn [fst snd]. lia.
Qed.

Lemma triu_NoDup : forall P, NoDup (triu P).
Proof.
  intros P. unfold triu. apply NoDup_flat_map_disjoint; [apply seq_NoDup| |].
  - intros i. apply NoDup_map_inj; [|apply seq_NoDup]. intros x y _ _ E. now inversion E.
  - intros i1 i2 [a b] H1 H2. apply in_map_iff in H1. destruct H1 as [x [E1 _]].
    apply in_map_iff in H2. destruct H2 as [y [E2 _]]. inversion E1; inversion E2; subst. reflexivity.
Qed.

(* the kept numbers are distinct, not among those seen before, and come from the draws *)
Lemma first_distinct_spec : forall draws s seen,
  NoDup (first_distinct s draws seen)
  /\ (forall v, In v (first_distinct s draws seen) -> In v draws /\ ~ In v seen)
  /\ length (first_distinct s draws seen) <= s.
Proof.
  induction draws as [|v r IH]; intros s seen; cbn [first_distinct].
  - split; [constructor|split; [intros v []|cbn; lia]].
  - destruct s as [|s']; [split; [constructor|split; [intros w []|cbn; lia]]|].
    destruct (existsb (Nat.eqb v) seen) eqn:E.
    + destruct (IH (S s') seen) as [H1 [H2 H3]]. split; [exact H1|split; [|exact H3]].
      intros w Hw. split; [right; apply H2; exact Hw|apply H2; exact Hw].
    + destruct (IH s' (v :: seen)) as [H1 [H2 H3]].
      assert (Hv : ~ In v seen).
      { intros Hin. assert (existsb (Nat.eqb v) seen = true) by (apply existsb_exists; exists v; split; [exact Hin|apply Nat.eqb_refl]). congruence. }
      split; [|split].
      * constructor; [|exact H1]. intros Hin. apply H2 in Hin. destruct Hin as [_ Hn]. apply Hn. left. reflexivity.
      * intros w Hw. destruct Hw as [<-|Hw].
        -- split; [left; reflexivity|exact Hv].
        -- apply H2 in Hw. destruct Hw as [Hd Hn]. split; [right; exact Hd|]. intros Hin. apply Hn. right. exact Hin.
      * cbn [length]. lia.
Qed.

Theorem conv_unique_ok : forall P s draws, s <= P * (P - 1) / 2 ->
  Forall (fun v => v < length (triu P)) draws ->
  length (first_distinct s draws []) = s ->          (* the draws contained s distinct numbers: the sampling loop has ended *)
  exists ps, conv_unique_pairs P s draws = Some ps /\ length ps = s /\ NoDup ps /\
    forall p, In p ps -> fst p < snd p /\ snd p < P.
Proof.
  intros P s draws Hs Hb Hlen. unfold conv_unique_pairs.
  assert (s <=? P * (P - 1) / 2 = true) as -> by (apply Nat.leb_le; exact Hs).
  destruct (first_distinct_spec draws s []) as [Hnd [Hin _]].
  assert (Hlt : forall z, In z (first_distinct s draws []) -> z < length (triu P)).
  { intros z Hz. rewrite Forall_forall in Hb. apply Hb. apply Hin. exact Hz. }
  eexists. split; [reflexivity|]. split; [|split].
  - rewrite map_length. exact Hlen.
  - apply NoDup_map_inj; [|exact Hnd]. intros x y Hx Hy E. unfold unrank in E.
    apply (proj1 (NoDup_nth (triu P) (0, 0)) (triu_NoDup P)); [apply Hlt; exact Hx|apply Hlt; exact Hy|exact E].
  - intros p Hp. apply in_map_iff in Hp. destruct Hp as [t [<- Ht]]. unfold unrank. apply in_triu. apply nth_In. apply Hlt. exact Ht.
Qed.

Theorem conv_unique_rejects : forall P s perm, P * (P - 1) / 2 < s -> conv_unique_pairs P s perm = None.
Proof.
  intros P s perm H. unfold conv_unique_pairs.
  assert (s <=? P * (P - 1) / 2 = false) as -> by (apply Nat.leb_gt; exact H). reflexivity.
Qed.

(* distinct position indices are distinct (h, w, c) positions *)
Theorem position_injective : forall wk cn i j, 0 < wk -> 0 < cn ->
  position wk cn i = position wk cn j -> i = j.
Proof.
  intros wk cn i j Hw Hc E. unfold position in E. inversion E as [[E1 E2 E3]].
  rewrite (Nat.mul_comm wk cn) in E1. rewrite <- !Nat.div_div in E1 by lia.
  pose proof (Nat.div_mod_eq (i / cn) wk) as H3. pose proof (Nat.div_mod_eq (j / cn) wk) as H4.
  rewrite E1, E2 in H3. assert (Hq : i / cn = j / cn) by lia.
  pose proof (Nat.div_mod_eq i cn) as H5. pose proof (Nat.div_mod_eq j cn) as H6.
  rewrite Hq, E3 in H5. lia.
Qed.

(* ---------- tree: full binary tree, every node of a level feeds exactly one gate of the next *)
Theorem tree_level_full : forall size, Nat.even size = true ->
  let '(l, r) := tree_level size in
  length l = size / 2 /\ length r = size / 2 /\
  (forall g, g < size / 2 -> nth g l 0 = 2 * g /\ nth g r 0 = 2 * g + 1) /\
  Permutation (l ++ r) (seq 0 size).
Proof.
  intros size He. unfold tree_level. repeat split.
  - now rewrite map_length, seq_length.
  - now rewrite map_length, seq_length.
  - rewrite nth_indep with (d' := (fun i => 2 * i) 0) by (rewrite map_length, seq_length; lia).
    rewrite (map_nth (fun i => 2 * i)). rewrite seq_nth by lia. lia.
  - rewrite nth_indep with (d' := (fun i => 2 * i + 1) 0) by (rewrite map_length, seq_length; lia).
    rewrite (map_nth (fun i => 2 * i + 1)). rewrite seq_nth by lia. lia.
  - apply NoDup_Permutation.
    + apply NoDup_app_intro.
      * apply NoDup_map_inj; [|apply seq_NoDup]. intros x y _ _ E. lia.
      * apply NoDup_map_inj; [|apply seq_NoDup]. intros x y _ _ E. lia.
      * intros x H1 H2. apply in_map_iff in H1. destruct H1 as [i [E1 _]].
        apply in_map_iff in H2. destruct H2 as [j [E2 _]]. lia.
    + apply seq_NoDup.
    + intros x. apply Nat.even_spec in He. destruct He as [h Hh]. subst size.
      replace (2 * h / 2) with h by (rewrite Nat.mul_comm, Nat.div_mul; lia).
      split; intro Hin.
      * apply in_seq. apply in_app_or in Hin. destruct Hin as [Hin|Hin];
          apply in_map_iff in Hin; destruct Hin as [i [E Hi]]; apply in_seq in Hi; lia.
      * apply in_seq in Hin. apply in_or_app. destruct (Nat.even x) eqn:Ex.
        -- left. apply Nat.even_spec in Ex. destruct Ex as [q Hq]. apply in_map_iff. exists q. split; [lia|apply in_seq; lia].
        -- right. assert (Ho : Nat.odd x = true) by (unfold Nat.odd; now rewrite Ex).
           apply Nat.odd_spec in Ho. destruct Ho as [q Hq]. apply in_map_iff. exists q. split; [lia|apply in_seq; lia].
Qed.

Theorem tree_sizes : forall depth level, level < depth ->
  fst (nth level (tree_indices depth) ([], [])) = map (fun i => 2 * i) (seq 0 (2 ^ (depth - level) / 2)).
Proof.
  intros depth level H. unfold tree_indices.
  rewrite nth_indep with (d' := (fun l => tree_level (2 ^ (depth - l))) 0) by (rewrite map_length, seq_length; lia).
  rewrite (map_nth (fun l => tree_level (2 ^ (depth - l)))). rewrite seq_nth by lia. reflexivity.
Qed.

Lemma prod_pos : forall ds, Forall (fun d => 0 < d) ds -> 0 < fold_right Nat.mul 1 ds.
Proof. induction 1 as [|d ds Hd _ IH]; cbn [fold_right]; [lia|]. apply Nat.mul_pos_pos; assumption. Qed.

Theorem unravel_injective : forall dims i j, Forall (fun d => 0 < d) (tl dims) ->
  unravel dims i = unravel dims j -> dims <> [] -> i = j.
Proof.
  induction dims as [|d ds IH]; intros i j Hpos E Hne; [congruence|].
  cbn [unravel] in E. cbn [tl] in Hpos. injection E as E1 E2.
  set (p := fold_right Nat.mul 1 ds) in *.
  assert (Hp : 0 < p) by (apply prod_pos; exact Hpos).
  assert (Em : i mod p = j mod p).
  { destruct ds as [|d2 ds2].
    - cbn in p. subst p. now rewrite !Nat.mod_1_r.
    - apply IH; [inversion Hpos; assumption|exact E2|discriminate]. }
  pose proof (Nat.div_mod_eq i p) as Hi. pose proof (Nat.div_mod_eq j p) as Hj.
  rewrite E1, Em in Hi. lia.
Qed.

(* ---- the arithmetic of unranking: row i of the strict upper triangle starts at number i (2P - i - 1) / 2, so the pair of
   number v is (i, v - start i + i + 1) for the row i with start i <= v < start (i + 1) — what the sampler computes with an
   integer square root and two correcting loops *)
Definition row_start (P i : nat) : nat := i * (2 * P - i - 1) / 2.

Lemma row_start_S : forall P i, i < P -> row_start P (S i) = row_start P i + (P - S i).
Proof.
  intros P i H. unfold row_start.
  assert (E : S i * (2 * P - S i - 1) = i * (2 * P - i - 1) + (P - S i) * 2) by nia.
  rewrite E. rewrite Nat.div_add by lia. reflexivity.
Qed.

Lemma triu_rows_length : forall P i, i <= P ->
  length (flat_map (fun i => map (fun j => (i, j)) (seq (S i) (P - S i))) (seq 0 i)) = row_start P i.
Proof.
  intros P i. induction i as [|i IH]; intros Hi; [reflexivity|].
  rewrite seq_S, flat_map_app, app_length, IH by lia. cbn [flat_map]. rewrite app_nil_r, map_length, seq_length.
  rewrite row_start_S by lia. reflexivity.
Qed.

Theorem unrank_arith : forall P i v, i < P -> row_start P i <= v < row_start P (S i) ->
  unrank P v = (i, v - row_start P i + i + 1).
Proof.
  intros P i v Hi [Hlo Hhi]. unfold unrank, triu.
  assert (Hsplit : seq 0 P = seq 0 i ++ i :: seq (S i) (P - S i)).
  { replace P with (i + (P - i)) at 1 by lia. rewrite seq_app. cbn [plus]. replace (P - i) with (S (P - S i)) by lia. reflexivity. }
  rewrite Hsplit, flat_map_app. rewrite app_nth2; rewrite triu_rows_length by lia; [|lia].
  cbn [flat_map]. rewrite row_start_S in Hhi by exact Hi.
  rewrite app_nth1 by (rewrite map_length, seq_length; lia).
  rewrite (nth_indep _ (0, 0) ((fun j => (i, j)) 0)) by (rewrite map_length, seq_length; lia).
  rewrite map_nth. rewrite seq_nth by lia. f_equal. lia.
Qed.
