From Coq Require Import ZArith List Bool Lia.
From TLX Require Import Model.Bits.
Local Open Scope Z_scope.

Lemma ceval_testbit : forall e x y j, 0 <= j ->
  Z.testbit (ceval e x y) j = cevalb e (Z.testbit x j) (Z.testbit y j).
Proof.
  induction e as [| | |e IH|e1 IH1 e2 IH2|e1 IH1 e2 IH2|e1 IH1 e2 IH2];
    intros x y j Hj; cbn [ceval cevalb].
  - reflexivity.
  - reflexivity.
  - apply Z.testbit_0_l.
  - rewrite Z.lnot_spec by exact Hj. now rewrite IH.
  - rewrite Z.land_spec. now rewrite IH1, IH2.
  - rewrite Z.lor_spec. now rewrite IH1, IH2.
  - rewrite Z.lxor_spec. now rewrite IH1, IH2.
Qed.

Lemma wrap_testbit : forall W z j, 0 < W -> 0 <= j < W ->
  Z.testbit (wrap W z) j = Z.testbit z j.
Proof.
  intros W z j HW Hj. unfold wrap.
  assert (Hlow : Z.testbit (z mod 2 ^ W) j = Z.testbit z j)
    by (apply Z.mod_pow2_bits_low; lia).
  destruct (z mod 2 ^ W <? 2 ^ (W - 1)); [exact Hlow|].
  rewrite <- Hlow.
  rewrite <- (Z.mod_pow2_bits_low (z mod 2 ^ W - 2 ^ W) W j) by lia.
  rewrite <- (Z.mod_pow2_bits_low (z mod 2 ^ W) W j) by lia.
  f_equal.
  replace (z mod 2 ^ W - 2 ^ W) with (z mod 2 ^ W + (-1) * 2 ^ W) by ring.
  apply Z.mod_add. apply Z.pow_nonzero; lia.
Qed.

Lemma wrap_range : forall W z, 0 < W -> - 2 ^ (W - 1) <= wrap W z < 2 ^ (W - 1).
Proof.
  intros W z HW. unfold wrap.
  assert (H2 : 2 ^ W = 2 * 2 ^ (W - 1)).
  { replace W with (1 + (W - 1)) at 1 by ring. rewrite Z.pow_add_r by lia. reflexivity. }
  assert (Hm : 0 <= z mod 2 ^ W < 2 ^ W) by (apply Z.mod_pos_bound; apply Z.pow_pos_nonneg; lia).
  destruct (Z.ltb_spec (z mod 2 ^ W) (2 ^ (W - 1))); lia.
Qed.

Lemma wrap_idem : forall W z, 0 < W -> - 2 ^ (W - 1) <= z < 2 ^ (W - 1) -> wrap W z = z.
Proof.
  intros W z HW Hz. unfold wrap.
  assert (H2 : 2 ^ W = 2 * 2 ^ (W - 1)).
  { replace W with (1 + (W - 1)) at 1 by ring. rewrite Z.pow_add_r by lia. reflexivity. }
  assert (Hp : 0 < 2 ^ (W - 1)) by (apply Z.pow_pos_nonneg; lia).
  destruct (Z.ltb_spec (z mod 2 ^ W) (2 ^ (W - 1))) as [Hlt|Hge].
  - destruct (Z_lt_le_dec z 0) as [Hneg|Hpos].
    + exfalso. assert (z mod 2 ^ W = z + 2 ^ W).
      { symmetry. apply Z.mod_unique with (q := -1); lia. } lia.
    + apply Z.mod_small. lia.
  - destruct (Z_lt_le_dec z 0) as [Hneg|Hpos].
    + assert (z mod 2 ^ W = z + 2 ^ W).
      { symmetry. apply Z.mod_unique with (q := -1); lia. } lia.
    + exfalso. rewrite Z.mod_small in Hge by lia. lia.
Qed.
