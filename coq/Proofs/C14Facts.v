From Coq Require Import String List Bool Arith Lia.
From TLX Require Import Gen.Parse Model.ConvNet Model.Parse.
Import ListNotations.

Definition is_layer_module (m : mkind) : bool :=
  match m with MDense _ _ | MConv _ _ _ _ _ _ | MPool _ _ _ | MFlatten => true | _ => false end.
Definition is_foreign (m : mkind) : bool := match m with MForeign _ => true | _ => false end.

(* with the dispatch table of the current source: foreign modules raise, every layer module is recorded,
   in order; only Identity and GroupSum are not recorded *)
Lemma dispatch_table : forall m,
  dispatch m = match m with
               | MDense _ _ => Some (Some LKLin) | MConv _ _ _ _ _ _ => Some (Some LKConv)
               | MPool _ _ _ => Some (Some LKPool) | MFlatten => Some (Some LKFlat)
               | MGroupSum _ => Some None | MIdentity => Some None | MForeign _ => None end.
Proof. intros [n o|c d r s p k|k s p| |k| |nm]; try reflexivity. cbn. destruct (length d =? 2); reflexivity. Qed.

Lemma layer_order_sound : forall ms o, layer_order ms = Some o ->
  existsb is_foreign ms = false /\ map snd o = filter is_layer_module ms
  /\ Forall (fun p => match fst p, snd p with
                      | LKLin, MDense _ _ | LKConv, MConv _ _ _ _ _ _ | LKPool, MPool _ _ _ | LKFlat, MFlatten => True
                      | _, _ => False end) o.
Proof.
  induction ms as [|m r IH]; intros o H.
  - cbn in H. inversion H. repeat split; constructor.
  - cbn [layer_order] in H. rewrite dispatch_table in H.
    destruct m; destruct (layer_order r) as [o'|] eqn:E; try discriminate;
      destruct (IH o' eq_refl) as [Hf [Hm Hk]]; inversion H; subst; cbn [existsb is_foreign filter is_layer_module map snd orb];
      repeat split; try assumption; try (now rewrite Hm); try (constructor; [exact I|assumption]).
Qed.

Lemma nat_list_eqb_eq : forall a b, nat_list_eqb a b = true -> a = b.
Proof.
  induction a as [|x r IH]; intros [|y s] H; cbn in H; try discriminate; [reflexivity|].
  apply andb_prop in H. destruct H as [H1 H2]. apply Nat.eqb_eq in H1. subst. f_equal. now apply IH.
Qed.

Lemma In_idxs_from : forall P l s i,
  In i (idxs_from s P l) <-> (s <= i < s + length l /\ P (nth (i - s) l LKLin) = true).
Proof.
  intros P l. induction l as [|k r IH]; intros s i; cbn [idxs_from length].
  - split; [intros []|intros [H _]; lia].
  - destruct (P k) eqn:Ek.
    + cbn [In]. rewrite IH. split.
      * intros [<-|[H1 H2]]; [rewrite Nat.sub_diag; cbn; split; [lia|exact Ek]|].
        split; [lia|]. replace (i - s) with (S (i - S s)) by lia. exact H2.
      * intros [H1 H2]. destruct (Nat.eq_dec s i) as [->|Hne]; [left; reflexivity|right].
        split; [lia|]. replace (i - s) with (S (i - S s)) in H2 by lia. exact H2.
    + rewrite IH. split.
      * intros [H1 H2]. split; [lia|]. replace (i - s) with (S (i - S s)) by lia. exact H2.
      * intros [H1 H2]. destruct (Nat.eq_dec s i) as [->|Hne].
        -- rewrite Nat.sub_diag in H2. cbn in H2. congruence.
        -- split; [lia|]. replace (i - s) with (S (i - S s)) in H2 by lia. exact H2.
Qed.

Lemma In_idxs : forall P l i, In i (idxs P l) <-> (i < length l /\ P (nth i l LKLin) = true).
Proof. intros. unfold idxs. rewrite In_idxs_from. rewrite Nat.sub_0_r. split; intros [H1 H2]; (split; [lia|exact H2]). Qed.

Lemma idxs_from_NoDup_sorted : forall P l s, NoDup (idxs_from s P l).
Proof.
  intros P l. induction l as [|k r IH]; intros s; cbn [idxs_from]; [constructor|].
  destruct (P k); [|apply IH]. constructor; [|apply IH].
  rewrite In_idxs_from. lia.
Qed.

Lemma check_on_all : forall n, In n ["groupsum_once_last"; "conv_first"; "spatial_prefix"; "flatten_after_spatial";
                                     "flatten_before_dense"; "flatten_before_groupsum"; "dense_flatten_first"; "conv_shape"; "dense_shape";
                                     "classes_divide"]%string -> check_on n = true.
Proof. intros n H. cbn in H. repeat (destruct H as [<-|H]; [vm_compute; reflexivity|]). contradiction. Qed.

(* structure: if there is a spatial layer then the first layer is a convolution, the spatial layers are exactly
   the first s layers, there is at most one Flatten and it sits right after them, and dense layers require it;
   otherwise Flatten may only be the first layer *)
Theorem struct_ok_spec : forall gs order, struct_ok gs order = true ->
  let s := length (idxs is_spatial order) in
  (s > 0 ->
     (exists k r, order = k :: r /\ is_conv k = true)
     /\ (forall i, i < length order -> is_spatial (nth i order LKLin) = (i <? s))
     /\ (forall i, i < length order -> is_flat (nth i order LKLin) = true -> i = s)
     /\ ((gs = true \/ exists i, i < length order /\ is_lin (nth i order LKLin) = true) -> s < length order /\ is_flat (nth s order LKLin) = true))
  /\ (s = 0 -> forall i, i < length order -> is_flat (nth i order LKLin) = true -> i = 0).
Proof.
  intros gs order H. unfold struct_ok in H. cbv zeta. set (sp := idxs is_spatial order) in *.
  rewrite !check_on_all in H by (cbn; tauto). cbn [negb orb] in H.
  split.
  - intros Hs. destruct sp as [|s0 sr] eqn:Esp; [cbn in Hs; lia|]. cbn [is_nil negb] in H.
    repeat rewrite andb_true_iff in H. destruct H as [[[[Hc Hp] Hf] Hl] Hg].
    apply nat_list_eqb_eq in Hp.
    assert (Hin : forall i, In i sp <-> i < length sp).
    { intros i. rewrite Esp, Hp. rewrite in_seq. rewrite seq_length. lia. }
    assert (Hlen : length sp = length (s0 :: sr)) by (rewrite Esp; reflexivity).
    split; [|split; [|split]].
    + destruct order as [|k r]; [discriminate|]. exists k, r. split; [reflexivity|exact Hc].
    + intros i Hi. destruct (is_spatial (nth i order LKLin)) eqn:E.
      * symmetry. apply Nat.ltb_lt. rewrite <- Hlen. apply Hin. unfold sp. apply In_idxs. split; assumption.
      * symmetry. apply Nat.ltb_ge. destruct (le_lt_dec (length (s0 :: sr)) i) as [Hle|Hlt]; [exact Hle|].
        exfalso. rewrite <- Hlen in Hlt. apply Hin in Hlt. unfold sp in Hlt. apply In_idxs in Hlt. destruct Hlt as [_ Ht]. congruence.
    + intros i Hi Hfl. assert (Hif : In i (idxs is_flat order)) by (apply In_idxs; split; assumption).
      destruct (idxs is_flat order) as [|f0 fr] eqn:Ef; [contradiction|].
      cbn [length is_nil orb hd] in Hf. destruct Hf as [Hf1 Hf2].
      apply Nat.leb_le in Hf1. destruct fr; [|cbn in Hf1; lia]. apply Nat.eqb_eq in Hf2.
      destruct Hif as [<-|[]]. exact Hf2.
    + intros Hor.
      assert (Hnf : is_nil (idxs is_flat order) = false).
      { destruct Hor as [->|[i [Hi Hli]]].
        - cbn [negb orb] in Hg. now apply negb_true_iff in Hg.
        - assert (Hil : In i (idxs is_lin order)) by (apply In_idxs; split; assumption).
          destruct (idxs is_lin order) as [|l0 lr]; [contradiction|]. cbn [is_nil orb] in Hl. now apply negb_true_iff in Hl. }
      destruct (idxs is_flat order) as [|f0 fr] eqn:Ef; [discriminate|].
      assert (Hf0 : In f0 (idxs is_flat order)) by (rewrite Ef; left; reflexivity).
      apply In_idxs in Hf0. destruct Hf0 as [Hf0l Hf0f].
      cbn [length is_nil orb hd] in Hf. destruct Hf as [_ Hf2]. apply Nat.eqb_eq in Hf2. subst f0.
      split; assumption.
  - intros Hs. destruct sp as [|s0 sr]; [|cbn in Hs; lia]. cbn [is_nil negb] in H.
    intros i Hi Hfl. assert (Hif : In i (idxs is_flat order)) by (apply In_idxs; split; assumption).
    destruct (idxs is_flat order) as [|f0 fr]; [contradiction|]. cbn [is_nil orb] in H.
    apply nat_list_eqb_eq in H. inversion H; subst. destruct Hif as [<-|[]]. reflexivity.
Qed.

(* parse = Some: nothing dropped, nothing foreign, structure and group sum constraints hold *)
Theorem parse_sound : forall ms o s, parse ms = Some (o, s) ->
  existsb is_foreign ms = false
  /\ map snd o = filter is_layer_module ms
  /\ existsb (fun p => is_conv (fst p) || is_lin (fst p)) o = true
  /\ groupsum_ok ms = true
  /\ struct_ok (existsb (fun m => match m with MGroupSum _ => true | _ => false end) ms) (map fst o) = true
  /\ (exists s0, input_shape o = Some s0 /\ shapes_from s0 o = Some s)
  /\ (forall k, classes ms = Some k -> k <> 0 /\ fold_right Nat.mul 1 s mod k = 0).
Proof.
  intros ms o s H. unfold parse in H.
  destruct (layer_order ms) as [o'|] eqn:Elo; [|discriminate].
  destruct (layer_order_sound ms o' Elo) as [Hf [Hm _]].
  change parse_requires_logic_layer with true in H. change parse_calls_validate with true in H. cbn [andb negb] in H.
  destruct (existsb (fun p => is_conv (fst p) || is_lin (fst p)) o') eqn:Ee; [|discriminate]. cbn [negb] in H.
  destruct (groupsum_ok ms) eqn:Eg; [|discriminate].
  destruct (struct_ok (existsb (fun m => match m with MGroupSum _ => true | _ => false end) ms) (map fst o')) eqn:Es; [|discriminate].
  cbn [andb negb] in H. destruct (input_shape o') as [s0|] eqn:Ei; [|discriminate].
  destruct (shapes_from s0 o') as [s'|] eqn:Esh; [|discriminate].
  rewrite check_on_all in H by (cbn; tauto). cbn [negb orb] in H.
  destruct (classes ms) as [k|] eqn:Ec.
  - destruct (negb (k =? 0) && (fold_right Nat.mul 1 s' mod k =? 0)) eqn:Ek; [|discriminate]. inversion H; subst.
    split; [assumption|]. split; [assumption|]. split; [assumption|]. split; [reflexivity|]. split; [assumption|].
    split; [exists s0; split; assumption|].
    intros k' Hk'. inversion Hk'; subst. apply andb_prop in Ek. destruct Ek as [E1 E2]. split.
    + intro Hz. subst. discriminate.
    + now apply Nat.eqb_eq.
  - inversion H; subst.
    split; [assumption|]. split; [assumption|]. split; [assumption|]. split; [reflexivity|]. split; [assumption|].
    split; [exists s0; split; assumption|]. intros k' Hk'. discriminate.
Qed.

Theorem parse_rejects_foreign : forall ms, existsb is_foreign ms = true -> parse ms = None.
Proof.
  intros ms H. unfold parse. destruct (layer_order ms) as [o|] eqn:E; [|reflexivity].
  destruct (layer_order_sound ms o E) as [Hf _]. congruence.
Qed.

(* the group sum, if present, is unique and is the last non-identity module *)
Theorem groupsum_ok_spec : forall ms, groupsum_ok ms = true ->
  let mods := filter (fun m => match m with MIdentity => false | _ => true end) ms in
  forall i, i < length mods -> (match nth i mods MIdentity with MGroupSum _ => True | _ => False end) -> i = length mods - 1.
Proof.
  intros ms H mods i Hi Hg. unfold groupsum_ok in H. fold mods in H.
  rewrite check_on_all in H by (cbn; tauto). cbn [negb orb] in H.
  set (gs := map fst (filter (fun p => match snd p with MGroupSum _ => true | _ => false end) (combine (seq 0 (length mods)) mods))) in *.
  assert (Hin : In i gs).
  { unfold gs. apply in_map_iff. exists (i, nth i mods MIdentity). split; [reflexivity|].
    apply filter_In. split.
    - assert (G : forall (l : list mkind) s j, j < length l -> In (s + j, nth j l MIdentity) (combine (seq s (length l)) l)).
      { induction l as [|a r IHl]; intros s j Hj; [cbn in Hj; lia|]. cbn [length seq combine]. destruct j as [|j].
        - left. now rewrite Nat.add_0_r.
        - right. replace (s + S j) with (S s + j) by lia. apply IHl. cbn in Hj. lia. }
      apply (G mods 0 i Hi).
    - cbn [snd]. destruct (nth i mods MIdentity); try contradiction. reflexivity. }
  apply andb_prop in H. destruct H as [H1 H2]. apply Nat.leb_le in H1.
  destruct gs as [|g0 gr]; [contradiction|]. destruct gr; [|cbn in H1; lia].
  cbn [is_nil orb hd] in H2. apply Nat.eqb_eq in H2. destruct Hin as [<-|[]]. exact H2.
Qed.
