(* wf_pool from arithmetic: with padding < kernel (PyTorch demands 2*padding <= kernel), positive stride and image sizes, and
   kernel <= size + 2*padding, every clipped pooling window contains at least one image cell. *)
From Coq Require Import List Bool Arith Lia.
From TLX Require Import Model.Bits Model.CLang Model.Netlist Model.Wiring Model.ConvNet Model.GenDense Model.GenNet.
From TLX Require Import Proofs.WiringFacts Proofs.ConvFacts Proofs.GenNetFacts.
Import ListNotations.

Lemma flat_index_acc : forall dims xs acc, length xs = length dims ->
  flat_index dims xs acc = acc * prod dims + flat_index dims xs 0.
Proof.
  induction dims as [|n ds IH]; intros xs acc Hl; destruct xs as [|x r]; cbn in Hl; try discriminate.
  - cbn. lia.
  - cbn [flat_index prod fold_right]. fold (prod ds). rewrite (IH r (acc * n + x)) by lia. rewrite (IH r (0 * n + x)) by lia. nia.
Qed.

Lemma Forall2_len : forall (A B : Type) (R : A -> B -> Prop) l1 l2, Forall2 R l1 l2 -> length l1 = length l2.
Proof. intros A B R l1 l2 H. induction H; cbn; congruence. Qed.

Lemma unravel_flat_index : forall dims xs, Forall2 lt xs dims ->
  unravel dims (flat_index dims xs 0) = xs /\ flat_index dims xs 0 < prod dims.
Proof.
  induction dims as [|n ds IH]; intros xs H; inversion H as [|x ? r ? Hx Hr]; subst.
  - split; [reflexivity|cbn; lia].
  - destruct (IH r Hr) as [Hu Hlt].
    assert (Hlen : length r = length ds) by (eapply Forall2_len; eassumption).
    cbn [flat_index unravel prod fold_right]. fold (prod ds).
    rewrite (flat_index_acc ds r (0 * n + x)) by exact Hlen. cbn [Nat.mul Nat.add].
    assert (Hp : 0 < prod ds) by lia.
    split.
    + f_equal.
      * rewrite Nat.div_add_l by lia. rewrite Nat.div_small by exact Hlt. lia.
      * rewrite Nat.add_comm, Nat.mod_add by lia. rewrite Nat.mod_small by exact Hlt. exact Hu.
    + nia.
Qed.

(* one axis: some offset kk < kernel lands inside the image *)
Lemma axis_witness : forall n k s p o, 0 < n -> 0 < s -> p < k -> k <= n + 2 * p -> o < out_len n p k s ->
  exists kk, kk < k /\ p <= o * s + kk /\ o * s + kk < n + p.
Proof.
  intros n k s p o Hn Hs Hp Hk Ho.
  pose proof (window_fits n p k s o Hs Hk Ho) as Hfit.
  destruct (le_lt_dec p (o * s)) as [Hge|Hlt].
  - exists 0. repeat split; lia.
  - exists (p - o * s). repeat split; lia.
Qed.

Lemma window_witness : forall dims k s p o, Forall (fun n => 0 < n) dims -> 0 < s -> p < k ->
  Forall (fun n => k <= n + 2 * p) dims ->
  Forall2 lt o (map (fun n => out_len n p k s) dims) ->
  exists kks, Forall2 lt kks (map (fun _ => k) dims) /\
    in_image dims p (map (fun '(oo, kk) => oo * s + kk) (combine o kks)) = true.
Proof.
  induction dims as [|n ds IH]; intros k s p o Hpos Hs Hp Hk Ho.
  - cbn in Ho. inversion Ho; subst. exists []. split; [constructor|reflexivity].
  - cbn [map] in Ho. inversion Ho as [|o1 ? orest ? Ho1 Hor]; subst.
    inversion Hpos as [|? ? Hn Hds]; subst. inversion Hk as [|? ? Hkn Hkds]; subst.
    destruct (IH k s p orest Hds Hs Hp Hkds Hor) as [kks [Hkks Him]].
    destruct (axis_witness n k s p o1 Hn Hs Hp Hkn Ho1) as [kk [Hkk [Hlo Hhi]]].
    exists (kk :: kks). split; [cbn [map]; constructor; assumption|].
    unfold in_image in *. cbn [combine map forallb2]. rewrite Him.
    assert (p <=? o1 * s + kk = true) as -> by (apply Nat.leb_le; exact Hlo).
    assert (o1 * s + kk <? n + p = true) as -> by (apply Nat.ltb_lt; exact Hhi). reflexivity.
Qed.

Theorem wf_pool_arith : forall ps,
  Forall (fun n => 0 < n) (pl_dims ps) -> 0 < pl_stride ps -> pl_pad ps < pl_kernel ps ->
  Forall (fun n => pl_kernel ps <= n + 2 * pl_pad ps) (pl_dims ps) ->
  wf_pool ps = true.
Proof.
  intros ps Hpos Hs Hp Hk. unfold wf_pool. apply forallb_forall. intros oi Hoi. apply in_seq in Hoi.
  assert (Hopos : Forall (fun d => 0 < d) (pl_out_dims ps)).
  { unfold pl_out_dims. apply Forall_forall. intros d Hd. apply in_map_iff in Hd. destruct Hd as [n [<- _]]. unfold out_len. lia. }
  pose proof (unravel_bound (pl_out_dims ps) oi Hopos ltac:(unfold prod in Hoi; lia)) as Ho.
  unfold pl_out_dims in Ho at 2.
  destruct (window_witness (pl_dims ps) (pl_kernel ps) (pl_stride ps) (pl_pad ps) _ Hpos Hs Hp Hk Ho) as [kks [Hkks Him]].
  destruct (unravel_flat_index _ kks Hkks) as [Hu Hlt].
  set (kd := map (fun _ => pl_kernel ps) (pl_dims ps)) in *.
  assert (Hin : In (map (fun '(oo, kk) => oo * pl_stride ps + kk) (combine (unravel (pl_out_dims ps) oi) kks))
                   (pool_window ps (unravel (pl_out_dims ps) oi))).
  { unfold pool_window. fold kd. apply filter_In. split; [|exact Him].
    apply in_map_iff. exists (flat_index kd kks 0). split; [rewrite Hu; reflexivity|]. apply in_seq. lia. }
  destruct (pool_window ps (unravel (pl_out_dims ps) oi)); [contradiction|reflexivity].
Qed.

(* what the compiler accepts for an OrPooling layer (Model/Domain.pool_compile_accepts, the guard in
   CompiledLogicNet._validate_structure) lies inside the generator theorem's well-formedness condition *)
From Coq Require Import ZArith.
From TLX Require Import Model.Domain.
Theorem pool_compile_accepts_wf : forall ps,
  Forall (fun n => 0 < n) (pl_dims ps) ->
  pool_compile_accepts (Z.of_nat (pl_kernel ps)) (Z.of_nat (pl_stride ps)) (Z.of_nat (pl_pad ps))
                       (map Z.of_nat (pl_dims ps)) = true ->
  wf_pool ps = true.
Proof.
  intros ps Hpos H. unfold pool_compile_accepts in H.
  repeat rewrite andb_true_iff in H. destruct H as [[[Hk Hs] [_ Hp]] Hall].
  apply Z.ltb_lt in Hk. apply Z.ltb_lt in Hs. apply Z.leb_le in Hp.
  apply wf_pool_arith; try assumption; try lia.
  rewrite forallb_forall in Hall. apply Forall_forall. intros n Hn.
  specialize (Hall (Z.of_nat n) (in_map Z.of_nat _ _ Hn)). apply Z.geb_le in Hall. lia.
Qed.
