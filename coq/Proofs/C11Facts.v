From Coq Require Import ZArith List Bool Arith Lia.
From TLX Require Import Model.Bits Model.CLang Model.Netlist Model.GenDense Model.Wrapper.
From TLX Require Import Proofs.CLangFacts Proofs.GenDenseFacts Proofs.WrapperFacts.
Import ListNotations.

Lemma safe_dense : forall W m inp,
  (0 < W)%Z -> wf_dense_model m = true -> length inp = dm_in m ->
  exists out, execZ W (gen_dense m) inp = Some out /\ length out = out_width m.
Proof.
  intros W m inp HW Hwf Hlen. destruct (gen_dense_correct_words W m inp HW Hwf Hlen) as [out [H1 [H2 _]]].
  exists out. split; assumption.
Qed.

Lemma exec_deterministic : forall W p inp o1 o2,
  execZ W p inp = Some o1 -> execZ W p inp = Some o2 -> o1 = o2.
Proof. intros W p inp o1 o2 H1 H2. rewrite H1 in H2. now inversion H2. Qed.

Lemma group_extent : forall n k : nat, (k * gsize n k <= n)%nat.
Proof.
  intros n k. unfold gsize, Gen.WrapperParams.group_size.
  destruct k as [|k]; [cbn; apply Nat.le_0_l|].
  rewrite <- Nat2Z.inj_div, Nat2Z.id. apply Nat.mul_div_le. discriminate.
Qed.
