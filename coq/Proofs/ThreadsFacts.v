(* Proofs/ThreadsFacts.v — every interleaving of concurrent calls behaves like the calls made alone, as long as the
   buffers declared in logic_net are private to the thread (automatic or `static __thread`); with plain `static`
   buffers there is a schedule with a wrong result. *)
From Coq Require Import List Bool Arith Lia.
From TLX Require Import Model.Bits Model.CLang Model.Threads.
Import ListNotations.

Section Mono.
  Context {V : Type}.
  Variables (vzero : V) (vnot : V -> V) (vand vor vxor : V -> V -> V) (vstore : V -> V).
  Notation mem := (@mem V).
  Notation gev := (@geval V vzero vnot vand vor vxor).
  Notation step1 := (@exec_stmt V vzero vnot vand vor vxor vstore).
  Notation bodyx := (@exec_body V vzero vnot vand vor vxor vstore).
  Notation execx := (@exec V vzero vnot vand vor vxor vstore).

  (* m' holds everything m holds (and possibly garbage where m holds nothing) *)
  Definition mem_le (m m' : mem) : Prop := forall b i v, m b i = Some v -> m' b i = Some v.

  Lemma mem_le_refl : forall m, mem_le m m.
  Proof. intros m b i v H; exact H. Qed.

  Lemma geval_mono : forall sz m m' e v, mem_le m m' -> gev sz m e = Some v -> gev sz m' e = Some v.
  Proof.
    intros sz m m' e; induction e as [b i| |e IH|e1 IH1 e2 IH2|e1 IH1 e2 IH2|e1 IH1 e2 IH2]; intros v Hle H; cbn [geval] in *.
    - destruct (i <? size_of sz b); [apply Hle; exact H|discriminate].
    - exact H.
    - destruct (gev sz m e) as [x|] eqn:E; [|discriminate]. rewrite (IH x Hle eq_refl). exact H.
    - destruct (gev sz m e1) as [x|] eqn:E1; [|discriminate]. destruct (gev sz m e2) as [y|] eqn:E2; [|discriminate].
      rewrite (IH1 x Hle eq_refl), (IH2 y Hle eq_refl). exact H.
    - destruct (gev sz m e1) as [x|] eqn:E1; [|discriminate]. destruct (gev sz m e2) as [y|] eqn:E2; [|discriminate].
      rewrite (IH1 x Hle eq_refl), (IH2 y Hle eq_refl). exact H.
    - destruct (gev sz m e1) as [x|] eqn:E1; [|discriminate]. destruct (gev sz m e2) as [y|] eqn:E2; [|discriminate].
      rewrite (IH1 x Hle eq_refl), (IH2 y Hle eq_refl). exact H.
  Qed.

  Lemma all_init_mono : forall m m' b n, mem_le m m' -> all_init m b n = true -> all_init m' b n = true.
  Proof.
    intros m m' b n Hle H. unfold all_init in *. rewrite forallb_forall in *. intros i Hi. specialize (H i Hi).
    destruct (m b i) as [v|] eqn:E; [|discriminate]. rewrite (Hle _ _ _ E). reflexivity.
  Qed.

  Lemma upd_mono : forall m m' b i v, mem_le m m' -> mem_le (upd m b i v) (upd m' b i v).
  Proof. intros m m' b i v Hle b' i' v'. unfold upd. destruct ((b' =? b) && (i' =? i)); [auto|apply Hle]. Qed.

  Lemma step_mono : forall sz m m' s m1, mem_le m m' -> step1 sz m s = Some m1 ->
    exists m1', step1 sz m' s = Some m1' /\ mem_le m1 m1'.
  Proof.
    intros sz m m' s m1 Hle H. destruct s as [b i e|d s n]; cbn [exec_stmt] in *.
    - destruct ((b =? 0) || negb (i <? size_of sz b)); [discriminate|].
      destruct (gev sz m e) as [v|] eqn:E; [|discriminate]. rewrite (geval_mono _ _ _ _ _ Hle E).
      injection H as <-. eexists; split; [reflexivity|apply upd_mono; exact Hle].
    - destruct ((d =? 0) || (d =? s) || negb (n <=? size_of sz d) || negb (n <=? size_of sz s)) eqn:G; cbn [orb] in *.
      + discriminate.
      + destruct (all_init m s n) eqn:A; cbn [negb] in *; [|discriminate].
        rewrite (all_init_mono _ _ _ _ Hle A). cbn [negb]. injection H as <-. eexists; split; [reflexivity|].
        intros b i v. destruct ((b =? d) && (i <? n)); apply Hle.
  Qed.

  Lemma read_all_mono : forall m m' b is out, mem_le m m' -> read_all m b is = Some out -> read_all m' b is = Some out.
  Proof.
    intros m m' b is; induction is as [|i rest IH]; intros out Hle H; cbn [read_all] in *; [exact H|].
    destruct (m b i) as [v|] eqn:E; [|discriminate]. destruct (read_all m b rest) as [vs|] eqn:R; [|discriminate].
    rewrite (Hle _ _ _ E), (IH vs Hle eq_refl). exact H.
  Qed.

  Lemma body_mono : forall sz ss m m' mf, mem_le m m' -> bodyx sz m ss = Some mf ->
    exists mf', bodyx sz m' ss = Some mf' /\ mem_le mf mf'.
  Proof.
    intros sz ss; induction ss as [|s rest IH]; intros m m' mf Hle H; cbn [exec_body] in *.
    - injection H as <-. eexists; split; [reflexivity|exact Hle].
    - destruct (step1 sz m s) as [m1|] eqn:E; [|discriminate].
      destruct (step_mono _ _ _ _ _ Hle E) as [m1' [E' Hle']]. rewrite E'. exact (IH _ _ _ Hle' H).
  Qed.

  (* a call that succeeds on fresh memory returns the same result from memory holding arbitrary stale contents in `out`
     and in every declared buffer: the result does not depend on earlier calls *)
  Theorem stale_memory_same_result : forall p inp out (stale : mem),
    execx p inp = Some out ->
    exists mf, bodyx (sizes p) (fun b i => if b =? 0 then nth_error inp i else stale b i) (body p) = Some mf
               /\ read_all mf 1 (seq 0 (size_of (sizes p) 1)) = Some out.
  Proof.
    intros p inp out stale H. unfold exec in H. destruct (negb (length inp =? size_of (sizes p) 0)); [discriminate|].
    destruct (bodyx (sizes p) (init_mem inp) (body p)) as [mf|] eqn:E; [|discriminate].
    assert (Hle : mem_le (init_mem inp) (fun b i => if b =? 0 then nth_error inp i else stale b i)).
    { intros b i v. unfold init_mem. destruct (b =? 0); [auto|discriminate]. }
    destruct (body_mono _ _ _ _ _ Hle E) as [mf' [E' Hle']]. exists mf'. split; [exact E'|].
    exact (read_all_mono _ _ _ _ _ Hle' H).
  Qed.

  (* ---- threads ---- *)
  Notation thread := (@thread V).
  Notation world := (@world V).
  Notation stepT := (@step_thread V vzero vnot vand vor vxor vstore).
  Notation stepW := (@step_world V vzero vnot vand vor vxor vstore).
  Notation runW := (@run_schedule V vzero vnot vand vor vxor vstore).
  Notation expect := (@expected V vzero vnot vand vor vxor vstore).

  Lemma skipn_cons_nth : forall {A} k (l : list A) x r, skipn k l = x :: r -> nth_error l k = Some x /\ skipn (S k) l = r.
  Proof.
    intros A k; induction k as [|k IH]; intros l x r H.
    - destruct l as [|y l']; cbn in *; [discriminate|]. injection H as -> ->. split; reflexivity.
    - destruct l as [|y l']; [discriminate|]. cbn [skipn nth_error] in *. exact (IH _ _ _ H).
  Qed.

  Lemma firstn_S_nth : forall {A} k (l : list A) x, nth_error l k = Some x -> firstn (S k) l = firstn k l ++ [x].
  Proof.
    intros A k; induction k as [|k IH]; intros l x H; destruct l as [|y l']; cbn [nth_error] in H; try discriminate.
    - injection H as ->. reflexivity.
    - rewrite !firstn_cons. rewrite (IH _ _ H). reflexivity.
  Qed.

  Lemma skipn_nil_firstn : forall {A} k (l : list A), skipn k l = [] -> firstn k l = l.
  Proof. intros A k l H. rewrite <- (firstn_skipn k l) at 2. rewrite H, app_nil_r. reflexivity. Qed.

  Section Inv.
    Variable libs : list prog.

    (* thread t has faithfully performed the first k calls of calls0 and is (possibly) in the middle of call k *)
    Definition TInv (calls0 : list (nat * list V)) (t : thread) : Prop :=
      t_stuck t = false /\
      exists k, map Some (t_results t) = map (expect libs) (firstn k calls0) /\
        match t_cur t with
        | None => t_calls t = skipn k calls0
        | Some (l, ss) =>
            exists inp p m0 mf out,
              nth_error calls0 k = Some (l, inp) /\ t_calls t = skipn (S k) calls0 /\ nth_error libs l = Some p /\
              mem_le m0 (view (t_priv t) (t_tls t l)) /\ bodyx (sizes p) m0 ss = Some mf /\
              read_all mf 1 (seq 0 (size_of (sizes p) 1)) = Some out /\ expect libs (l, inp) = Some out
        end.

    Notation good_calls := (@good_calls V vzero vnot vand vor vxor vstore libs).
    Notation call_work := (@call_work V libs).

    Lemma step_private_shared : forall t sh, snd (stepT false libs t sh) = sh.
    Proof.
      intros t sh. unfold step_thread. destruct (t_stuck t); [reflexivity|].
      destruct (t_cur t) as [[l ss]|].
      - destruct (nth_error libs l) as [p|]; [|reflexivity]. destruct ss as [|s rest].
        + destruct (read_all _ _ _); reflexivity.
        + destruct (step1 _ _ _); reflexivity.
      - destruct (t_calls t) as [|[l inp] rest]; [reflexivity|]. destruct (nth_error libs l) as [p|]; [|reflexivity].
        destruct (negb _); reflexivity.
    Qed.

    Lemma step_preserves : forall calls0 t sh, good_calls calls0 -> TInv calls0 t -> TInv calls0 (fst (stepT false libs t sh)).
    Proof.
      intros calls0 t sh Hgood [Hst [k [Hres Hcur]]]. unfold step_thread. rewrite Hst.
      destruct (t_cur t) as [[l ss]|] eqn:Ecur.
      - destruct Hcur as [inp [p [m0 [mf [out [Hk [Hcalls [Hp [Hle [Hbody [Hread Hexp]]]]]]]]]]]. rewrite Hp.
        destruct ss as [|s rest].
        + (* the call returns *)
          cbn [exec_body] in Hbody. injection Hbody as <-.
          rewrite (read_all_mono _ _ _ _ _ Hle Hread). cbn [fst]. split; [reflexivity|]. exists (S k). cbn [t_results t_cur t_calls]. split.
          * rewrite map_app, Hres, (firstn_S_nth _ _ _ Hk), map_app. cbn [map]. rewrite Hexp. reflexivity.
          * exact Hcalls.
        + (* one statement *)
          cbn [exec_body] in Hbody. destruct (step1 (sizes p) m0 s) as [m1|] eqn:E1; [|discriminate].
          destruct (step_mono _ _ _ _ _ Hle E1) as [m1' [E1' Hle1]]. rewrite E1'. cbn [fst]. split; [reflexivity|].
          exists k. cbn [t_results t_cur t_calls t_priv t_tls]. split; [exact Hres|].
          exists inp, p, m1, mf, out. repeat split; try assumption.
          intros b i v Hv. specialize (Hle1 _ _ _ Hv). unfold view, set_lib. rewrite Nat.eqb_refl. destruct (b <? 2); exact Hle1.
      - (* the next call starts *)
        destruct (t_calls t) as [|[l inp] rest] eqn:Ecalls.
        + cbn [fst]. split; [exact Hst|]. exists k. rewrite Ecur, Ecalls. split; [exact Hres|exact Hcur].
        + symmetry in Hcur. destruct (skipn_cons_nth _ _ _ _ Hcur) as [Hk Hrest].
          assert (Hg : expect libs (l, inp) <> None).
          { unfold good_calls in Hgood. rewrite Forall_forall in Hgood. apply Hgood. exact (nth_error_In _ _ Hk). }
          unfold expected in Hg. cbn [fst snd] in Hg. destruct (nth_error libs l) as [p|] eqn:Hp; [|congruence].
          destruct (execx p inp) as [out|] eqn:Hex; [|congruence]. clear Hg.
          pose proof Hex as Hex'. unfold exec in Hex'. destruct (negb (length inp =? size_of (sizes p) 0)); [discriminate|].
          destruct (bodyx (sizes p) (init_mem inp) (body p)) as [mf|] eqn:Eb; [|discriminate].
          cbn [fst]. split; [reflexivity|]. exists k. cbn [t_results t_cur t_calls t_priv t_tls]. split; [exact Hres|].
          exists inp, p, (init_mem inp), mf, out. repeat split; try assumption.
          * symmetry; exact Hrest.
          * intros b i v. unfold init_mem, view. destruct (b =? 0) eqn:Eb0; [|discriminate].
            apply Nat.eqb_eq in Eb0. subst b. cbn. auto.
          * unfold expected. cbn [fst snd]. rewrite Hp. exact Hex.
    Qed.

    Lemma Forall2_set_nth : forall {A B} (P : A -> B -> Prop) la lb k b',
      Forall2 P la lb -> (forall a b, nth_error la k = Some a -> nth_error lb k = Some b -> P a b') ->
      Forall2 P la (set_nth lb k b').
    Proof.
      intros A B P la lb k b' H; revert k; induction H as [|a b la lb Hab H IH]; intros k Hk; [constructor|].
      destruct k as [|k]; cbn [set_nth].
      - constructor; [apply (Hk a b); reflexivity|exact H].
      - constructor; [exact Hab|]. apply IH. intros a0 b0 Ha Hb. exact (Hk a0 b0 Ha Hb).
    Qed.

    Lemma Forall2_nth : forall {A B} (P : A -> B -> Prop) la lb k a b,
      Forall2 P la lb -> nth_error la k = Some a -> nth_error lb k = Some b -> P a b.
    Proof.
      intros A B P la lb k a b H; revert k; induction H as [|a0 b0 la lb Hab H IH]; intros k Ha Hb; destruct k; cbn in *; try discriminate.
      - injection Ha as <-; injection Hb as <-; exact Hab.
      - exact (IH _ Ha Hb).
    Qed.

    Lemma Forall2_weaken : forall {A B} (P Q : A -> B -> Prop) la lb,
      (forall a b, P a b -> Q a b) -> Forall2 P la lb -> Forall2 Q la lb.
    Proof. intros A B P Q la lb HPQ H; induction H; constructor; auto. Qed.

    Definition WInv (callss : list (list (nat * list V))) (w : world) : Prop := Forall2 TInv callss (w_threads w).

    Lemma world_step_preserves : forall callss w k, Forall good_calls callss -> WInv callss w -> WInv callss (stepW false libs w k).
    Proof.
      intros callss w k Hgood H. unfold step_world. destruct (nth_error (w_threads w) k) as [t|] eqn:Et; [|exact H].
      destruct (stepT false libs t (w_shared w)) as [t' sh'] eqn:Es. unfold WInv. cbn [w_threads].
      apply Forall2_set_nth; [exact H|]. intros c0 t0 Hc Ht0. rewrite Et in Ht0. injection Ht0 as <-.
      replace t' with (fst (stepT false libs t (w_shared w))) by (rewrite Es; reflexivity).
      apply step_preserves; [|exact (Forall2_nth _ _ _ _ _ _ H Hc Et)].
      rewrite Forall_forall in Hgood. apply Hgood. exact (nth_error_In _ _ Hc).
    Qed.

    Lemma run_preserves : forall sched callss w, Forall good_calls callss -> WInv callss w -> WInv callss (runW false libs w sched).
    Proof.
      intros sched; induction sched as [|k rest IH]; intros callss w Hg H; cbn [run_schedule fold_left]; [exact H|].
      apply IH; [exact Hg|]. apply world_step_preserves; assumption.
    Qed.

    Lemma fresh_inv : forall calls gp gt, TInv calls (fresh_thread calls gp gt).
    Proof. intros calls gp gt. split; [reflexivity|]. exists 0. cbn. split; reflexivity. Qed.

    Lemma inv_results : forall calls0 t, TInv calls0 t ->
      t_stuck t = false /\
      (exists k, map Some (t_results t) = map (expect libs) (firstn k calls0)) /\
      (finished t = true -> map Some (t_results t) = map (expect libs) calls0).
    Proof.
      intros calls0 t [Hst [k [Hres Hcur]]]. split; [exact Hst|]. split; [exists k; exact Hres|].
      unfold finished. destruct (t_cur t) as [[l ss]|]; [discriminate|]. destruct (t_calls t) eqn:Ec; [|discriminate].
      intros _. rewrite Hres. symmetry in Hcur. rewrite (skipn_nil_firstn _ _ Hcur). reflexivity.
    Qed.

    (* EVERY schedule: with private buffers no thread gets stuck, the results a thread has obtained so far are exactly what its
       calls return when made alone on fresh memory, in order, and a thread that has finished has all of them — whatever
       garbage its arrays and buffers held at the start, whatever the other threads do, whatever the shared store holds *)
    Theorem private_schedules_sequential :
      forall (inits : list (list (nat * list V) * mem * (nat -> mem))) (sh : nat -> mem) (sched : list nat),
        Forall good_calls (map (fun x => fst (fst x)) inits) ->
        let w0 := {| w_threads := map (fun x => fresh_thread (fst (fst x)) (snd (fst x)) (snd x)) inits; w_shared := sh |} in
        Forall2 (fun calls0 t =>
                   t_stuck t = false /\
                   (exists k, map Some (t_results t) = map (expect libs) (firstn k calls0)) /\
                   (finished t = true -> map Some (t_results t) = map (expect libs) calls0))
                (map (fun x => fst (fst x)) inits) (w_threads (runW false libs w0 sched)).
    Proof.
      intros inits sh sched Hg w0.
      assert (H0 : WInv (map (fun x => fst (fst x)) inits) w0).
      { unfold WInv, w0. cbn [w_threads]. clear Hg. induction inits as [|x rest IH]; cbn [map]; constructor; [apply fresh_inv|exact IH]. }
      pose proof (run_preserves sched _ _ Hg H0) as H. unfold WInv in H.
      eapply Forall2_weaken; [|exact H]. intros c t Hi. exact (inv_results _ _ Hi).
    Qed.

    (* ---- progress: a thread that is scheduled often enough finishes ---- *)
    Definition work (t : thread) : nat :=
      match t_cur t with Some (_, ss) => S (length ss) | None => 0 end + list_sum (map call_work (t_calls t)).

    Lemma step_progress : forall calls0 t sh, good_calls calls0 -> TInv calls0 t -> finished t = false ->
      S (work (fst (stepT false libs t sh))) = work t.
    Proof.
      intros calls0 t sh Hgood [Hst [k [Hres Hcur]]] Hfin. unfold step_thread. rewrite Hst. unfold work at 2.
      destruct (t_cur t) as [[l ss]|] eqn:Ecur.
      - destruct Hcur as [inp [p [m0 [mf [out [Hk [Hcalls [Hp [Hle [Hbody [Hread Hexp]]]]]]]]]]]. rewrite Hp.
        destruct ss as [|s rest].
        + cbn [exec_body] in Hbody. injection Hbody as <-. rewrite (read_all_mono _ _ _ _ _ Hle Hread). reflexivity.
        + cbn [exec_body] in Hbody. destruct (step1 (sizes p) m0 s) as [m1|] eqn:E1; [|discriminate].
          destruct (step_mono _ _ _ _ _ Hle E1) as [m1' [E1' Hle1]]. rewrite E1'. reflexivity.
      - destruct (t_calls t) as [|[l inp] rest] eqn:Ecalls.
        + unfold finished in Hfin. rewrite Ecur, Ecalls, Hst in Hfin. discriminate.
        + symmetry in Hcur. destruct (skipn_cons_nth _ _ _ _ Hcur) as [Hk Hrest].
          assert (Hg : expect libs (l, inp) <> None).
          { unfold good_calls in Hgood. rewrite Forall_forall in Hgood. apply Hgood. exact (nth_error_In _ _ Hk). }
          unfold expected in Hg. cbn [fst snd] in Hg. destruct (nth_error libs l) as [p|] eqn:Hp; [|congruence].
          destruct (execx p inp) as [out|] eqn:Hex; [|congruence]. clear Hg.
          unfold exec in Hex. destruct (negb (length inp =? size_of (sizes p) 0)); [discriminate|].
          cbn [fst]. unfold work. cbn [t_cur t_calls map list_sum]. unfold call_work at 2. cbn [fst]. rewrite Hp. unfold list_sum. cbn [fold_right]. lia.
    Qed.

    Lemma step_finished_stays : forall t sh, finished t = true -> stepT false libs t sh = (t, sh).
    Proof.
      intros t sh H. unfold finished in H. unfold step_thread. destruct (t_cur t) as [[l ss]|]; [discriminate|].
      destruct (t_calls t); [|discriminate]. destruct (t_stuck t); reflexivity.
    Qed.

    Lemma nth_set_nth_same : forall {A} (l : list A) k x y, nth_error l k = Some y -> nth_error (set_nth l k x) k = Some x.
    Proof. intros A l; induction l as [|a l IH]; intros k x y H; destruct k; cbn in *; try discriminate; [reflexivity|exact (IH _ _ _ H)]. Qed.
    Lemma nth_set_nth_other : forall {A} (l : list A) k j x, j <> k -> nth_error (set_nth l k x) j = nth_error l j.
    Proof.
      intros A l; induction l as [|a l IH]; intros k j x H; destruct k; destruct j; cbn; try reflexivity; try congruence.
      apply IH. congruence.
    Qed.

    (* after any schedule in which thread j is scheduled at least `work` times, thread j has finished *)
    Lemma run_finishes : forall sched callss w j c0 t0,
      Forall good_calls callss -> WInv callss w -> nth_error callss j = Some c0 -> nth_error (w_threads w) j = Some t0 ->
      work t0 <= count_occ Nat.eq_dec sched j ->
      exists t, nth_error (w_threads (runW false libs w sched)) j = Some t /\ finished t = true.
    Proof.
      intros sched; induction sched as [|k rest IH]; intros callss w j c0 t0 Hg Hw Hc Ht Hcnt; cbn [run_schedule fold_left].
      - cbn in Hcnt. exists t0. split; [exact Ht|]. pose proof (Forall2_nth _ _ _ _ _ _ Hw Hc Ht) as [Hst [k [Hres Hcur]]].
        unfold work in Hcnt. unfold finished. destruct (t_cur t0) as [[l ss]|]; [lia|]. destruct (t_calls t0) as [|c r] eqn:Ec.
        + rewrite Hst. reflexivity.
        + exfalso. cbn [map] in Hcnt. unfold list_sum in Hcnt. cbn [fold_right] in Hcnt. unfold call_work at 1 in Hcnt. destruct (nth_error libs (fst c)); lia.
      - pose proof (world_step_preserves callss w k Hg Hw) as Hw'. cbn [count_occ] in Hcnt.
        assert (Hgc : good_calls c0). { rewrite Forall_forall in Hg. apply Hg. exact (nth_error_In _ _ Hc). }
        pose proof (Forall2_nth _ _ _ _ _ _ Hw Hc Ht) as Hinv.
        destruct (Nat.eq_dec k j) as [->|Hne].
        + (* thread j steps *)
          destruct (finished t0) eqn:Hf.
          * assert (Hsame : stepW false libs w j = w).
            { unfold step_world. rewrite Ht. rewrite (step_finished_stays _ _ Hf). destruct w as [ths shw]. cbn [w_threads w_shared] in *. f_equal.
              clear -Ht. revert j Ht. induction ths as [|a ths IHt]; intros j Ht; destruct j; cbn in *; try discriminate; [congruence|].
              f_equal. apply IHt. exact Ht. }
            fold (runW false libs (stepW false libs w j) rest). rewrite Hsame.
            destruct rest as [|x r]; [exists t0; split; [exact Ht|exact Hf]|].
            (* finished threads stay finished: use the induction hypothesis with work 0 *)
            apply (IH callss w j c0 t0 Hg Hw Hc Ht).
            assert (Hw0 : work t0 = 0).
            { unfold finished in Hf. unfold work. destruct (t_cur t0) as [[? ?]|]; [discriminate|]. destruct (t_calls t0); [reflexivity|discriminate]. }
            lia.
          * pose proof (step_progress c0 t0 (w_shared w) Hgc Hinv Hf) as Hp.
            assert (Ht' : nth_error (w_threads (stepW false libs w j)) j = Some (fst (stepT false libs t0 (w_shared w)))).
            { unfold step_world. rewrite Ht. destruct (stepT false libs t0 (w_shared w)) as [t' sh'] eqn:Es. cbn [w_threads fst].
              exact (nth_set_nth_same _ _ _ _ Ht). }
            fold (runW false libs (stepW false libs w j) rest).
            apply (IH callss _ j c0 _ Hg Hw' Hc Ht'). lia.
        + (* another thread steps: thread j is untouched *)
          assert (Ht' : nth_error (w_threads (stepW false libs w k)) j = Some t0).
          { unfold step_world. destruct (nth_error (w_threads w) k) as [tk|]; [|exact Ht].
            destruct (stepT false libs tk (w_shared w)) as [t' sh']. cbn [w_threads]. rewrite nth_set_nth_other; [exact Ht|congruence]. }
          fold (runW false libs (stepW false libs w k) rest).
          apply (IH callss _ j c0 t0 Hg Hw' Hc Ht'). exact Hcnt.
    Qed.

    (* EVERY schedule that gives thread j enough turns: thread j ends with exactly the results of its calls made alone *)
    Theorem private_schedules_complete :
      forall (inits : list (list (nat * list V) * mem * (nat -> mem))) (sh : nat -> mem) (sched : list nat) j calls gp gt,
        Forall good_calls (map (fun x => fst (fst x)) inits) ->
        nth_error inits j = Some (calls, gp, gt) ->
        list_sum (map call_work calls) <= count_occ Nat.eq_dec sched j ->
        let w0 := {| w_threads := map (fun x => fresh_thread (fst (fst x)) (snd (fst x)) (snd x)) inits; w_shared := sh |} in
        exists t, nth_error (w_threads (runW false libs w0 sched)) j = Some t /\ finished t = true /\
                  map Some (t_results t) = map (expect libs) calls.
    Proof.
      intros inits sh sched j calls gp gt Hg Hj Hcnt w0.
      assert (H0 : WInv (map (fun x => fst (fst x)) inits) w0).
      { unfold WInv, w0. cbn [w_threads]. clear. induction inits as [|x rest IH]; cbn [map]; constructor; [apply fresh_inv|exact IH]. }
      assert (Hc : nth_error (map (fun x => fst (fst x)) inits) j = Some calls) by (rewrite nth_error_map, Hj; reflexivity).
      assert (Ht : nth_error (w_threads w0) j = Some (fresh_thread calls gp gt)) by (unfold w0; cbn [w_threads]; rewrite nth_error_map, Hj; reflexivity).
      destruct (run_finishes sched _ w0 j calls _ Hg H0 Hc Ht Hcnt) as [t [Hn Hf]].
      exists t. split; [exact Hn|]. split; [exact Hf|].
      pose proof (run_preserves sched _ _ Hg H0) as Hfin.
      destruct (inv_results _ _ (Forall2_nth _ _ _ _ _ _ Hfin Hc Hn)) as [_ [_ Hall]]. exact (Hall Hf).
    Qed.
  End Inv.
End Mono.

(* ---- plain `static` buffers: a schedule with a wrong result ---- *)
(* one library: buf2[0] = inp[0]; out[0] = buf2[0];  (sizes: inp 1, out 1, buf2 1) *)
Definition copy_lib : prog := {| sizes := [1; 1; 1]; body := [SAssign 2 0 (GLoad 0 0); SAssign 1 0 (GLoad 2 0)] |}.
Definition two_threads : @world bool :=
  {| w_threads := [fresh_thread [(0, [true])] no_garbage (fun _ => no_garbage);
                   fresh_thread [(0, [false])] no_garbage (fun _ => no_garbage)];
     w_shared := fun _ => no_garbage |}.
(* thread 0 starts and writes the buffer, thread 1 starts and overwrites it, thread 0 reads it back *)
Definition bad_schedule : list nat := [0; 0; 1; 1; 0; 0; 1; 1].

Lemma shared_static_wrong :
  results_of (run_scheduleB true [copy_lib] two_threads bad_schedule) = [[[false]]; [[false]]]
  /\ map (@expected bool false negb andb orb xorb (fun b => b) [copy_lib]) [(0, [true]); (0, [false])] = [Some [true]; Some [false]].
Proof. split; vm_compute; reflexivity. Qed.

(* the same schedule with private buffers: the sequential results (non-vacuity of the theorem's premises and conclusion) *)
Lemma private_same_schedule :
  results_of (run_scheduleB false [copy_lib] two_threads bad_schedule) = [[[true]]; [[false]]]
  /\ stuck_of (run_scheduleB false [copy_lib] two_threads bad_schedule) = [false; false]
  /\ map (@finished bool) (w_threads (run_scheduleB false [copy_lib] two_threads bad_schedule)) = [true; true].
Proof. repeat split; vm_compute; reflexivity. Qed.

(* a program that reads a buffer cell before writing it (what the generator produced for tree depth 0 before F16) has no
   result on fresh memory, and with buffers that persist between calls its result is whatever the previous call left:
   out[0] = buf2[0]; buf2[0] = inp[0]; *)
Definition stale_lib : prog := {| sizes := [1; 1; 1]; body := [SAssign 1 0 (GLoad 2 0); SAssign 2 0 (GLoad 0 0)] |}.
Lemma unwritten_read_depends_on_history :
  execB stale_lib [true] = None
  /\ results_of (run_scheduleB false [stale_lib]
        {| w_threads := [fresh_thread [(0, [true]); (0, [true])] no_garbage (fun _ b i => if (b =? 2) && (i =? 0) then Some false else None)];
           w_shared := fun _ => no_garbage |} [0; 0; 0; 0; 0; 0; 0; 0]) = [[[false]; [true]]].
Proof. split; vm_compute; reflexivity. Qed.
