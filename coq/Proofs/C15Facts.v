From Coq Require Import List Bool.
From TLX Require Import Model.Bits Model.Netlist Model.Persist Gen.Persist.
Import ListNotations.

Theorem state_roundtrip : forall fresh_w fresh_g l, rebuild fresh_w fresh_g (save_state true l) = l.
Proof. intros fresh_w fresh_g [g w]. reflexivity. Qed.

Theorem state_roundtrip_eval : forall fresh_w fresh_g l x,
  eval_layer_state (rebuild fresh_w fresh_g (save_state true l)) x = eval_layer_state l x.
Proof. intros. now rewrite state_roundtrip. Qed.

(* if the wiring were not persisted the round trip would fail: two RNG states give two functions *)
Theorem state_roundtrip_needs_wiring :
  exists l fresh_w x, eval_layer_state (rebuild fresh_w [] (save_state false l)) x <> eval_layer_state l x.
Proof.
  exists {| gates := [3]; wiring := [(0, 1)] |}, [(1, 0)], [true; false]. vm_compute. discriminate.
Qed.

(* the current source persists the wiring of every layer class and connection scheme (observed by introspection) *)
Lemma wiring_persisted : forallb snd persisted_wiring = true /\ length persisted_wiring = 6.
Proof. split; vm_compute; reflexivity. Qed.
