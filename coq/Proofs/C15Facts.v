From Coq Require Import List Bool.
From TLX Require Import Model.Bits Model.Netlist Model.Persist Gen.Persist.
Import ListNotations.

Theorem state_roundtrip : forall fresh_w fresh_g l, rebuild fresh_w fresh_g (save_state true l) = l.
Proof. intros fresh_w fresh_g [g w]. reflexivity. Qed.

Theorem state_roundtrip_eval : forall fresh_w fresh_g l x,
  eval_layer_state (rebuild fresh_w fresh_g (save_state true l)) x = eval_layer_state l x.
Proof. intros. now rewrite state_roundtrip. Qed.

(* if the wiring were not persisted the round trip would fail: two RNG states give two functions *)
Theorem state_roundtrip_needs_wiring :
  exists l fresh_w x, eval_layer_state (rebuild fresh_w [] (save_state false l)) x <> eval_layer_state l x.
Proof.
  exists {| gates := [3]; wiring := [(0, 1)] |}, [(1, 0)], [true; false]. vm_compute. discriminate.
Qed.

(* the current source persists the wiring of every layer class and connection scheme (observed by introspection) *)
Lemma wiring_persisted : forallb snd persisted_wiring = true /\ length persisted_wiring = 6.
Proof. split; vm_compute; reflexivity. Qed.

(* ================= the persistence code as written (Model/Persist.v, second part) ================= *)
From Coq Require Import ZArith Arith Lia.
From TLX Require Import Model.CLang.

Lemma list_eqb_nat_eq : forall a b : list nat, list_eqb Nat.eqb a b = true -> a = b.
Proof.
  induction a as [|x a IH]; intros [|y b] H; cbn [list_eqb] in H; try discriminate; [reflexivity|].
  apply andb_prop in H as [H1 H2]. apply Nat.eqb_eq in H1. subst y. f_equal. exact (IH _ H2).
Qed.

Lemma list_eqb_nat_refl : forall a : list nat, list_eqb Nat.eqb a a = true.
Proof. induction a as [|x a IH]; cbn [list_eqb]; [reflexivity|]. rewrite Nat.eqb_refl, IH. reflexivity. Qed.

Lemma geom_eqb_eq : forall a b, geom_eqb a b = true -> a = b.
Proof.
  intros [i1 c1 k1 d1 s1 p1 r1] [i2 c2 k2 d2 s2 p2 r2] H. unfold geom_eqb in H. cbn [g_in g_channels g_kernels g_depth g_stride g_padding g_rf] in H.
  repeat (apply andb_prop in H as [H ?]).
  apply list_eqb_nat_eq in H.
  repeat match goal with E : (_ =? _) = true |- _ => apply Nat.eqb_eq in E end. subst.
  assert (r1 = r2).
  { destruct r1 as [x|x], r2 as [y|y]; cbn [rf_eqb] in *; try discriminate.
    - match goal with E : (x =? y) = true |- _ => apply Nat.eqb_eq in E; subst; reflexivity end.
    - match goal with E : list_eqb Nat.eqb x y = true |- _ => apply list_eqb_nat_eq in E; subst; reflexivity end. }
  subst. reflexivity.
Qed.

(* ---- LogicDense ---- *)
Theorem dense_state_roundtrip : forall fresh l,
  dense_wf l = true -> dl_in fresh = dl_in l -> dl_out fresh = dl_out l ->
  dense_load fresh (dense_save l) = Some l.
Proof.
  intros fresh [n m g a b] Hwf Hin Hout. unfold dense_wf in Hwf. cbn [dl_in dl_out dl_gates dl_a dl_b] in *.
  repeat (apply andb_prop in Hwf as [Hwf ?]).
  unfold dense_load, dense_save, dense_extra_fits. cbn [sv_gates sv_extra dl_in dl_out dl_gates dl_a dl_b length forallb nth].
  rewrite Hin, Hout. rewrite Hwf. cbn [negb]. rewrite Nat.eqb_refl.
  repeat match goal with E : _ = true |- _ => rewrite E end. cbn [andb]. reflexivity.
Qed.

Theorem dense_load_sound : forall fresh sv l',
  dense_wf fresh = true -> dense_load fresh sv = Some l' ->
  dense_wf l' = true /\ dl_in l' = dl_in fresh /\ dl_out l' = dl_out fresh /\ dl_gates l' = sv_gates sv.
Proof.
  intros fresh sv l' Hwf H. unfold dense_load in H.
  destruct (length (sv_gates sv) =? dl_out fresh) eqn:Eg; cbn [negb] in H; [|discriminate].
  unfold dense_wf in Hwf. repeat (apply andb_prop in Hwf as [Hwf ?]).
  destruct (sv_extra sv) as [idx|].
  - destruct (dense_extra_fits fresh idx) eqn:Ef; [|discriminate]. injection H as <-.
    unfold dense_wf. cbn [dl_in dl_out dl_gates dl_a dl_b]. rewrite Eg.
    unfold dense_extra_fits in Ef. apply andb_prop in Ef as [E2 Eall].
    destruct idx as [|a [|b [|c r]]]; cbn [length] in E2; try discriminate.
    cbn [forallb] in Eall. apply andb_prop in Eall as [Ea Eb]. apply andb_prop in Eb as [Eb _].
    apply andb_prop in Ea as [Ea1 Ea2]. apply andb_prop in Eb as [Eb1 Eb2]. cbn [nth].
    rewrite Ea1, Ea2, Eb1, Eb2. repeat split; reflexivity.
  - injection H as <-. unfold dense_wf. cbn [dl_in dl_out dl_gates dl_a dl_b]. rewrite Eg.
    repeat match goal with E : _ = true |- _ => rewrite E end. repeat split; reflexivity.
Qed.

Theorem dense_load_installs : forall fresh sv l' a b,
  dense_load fresh sv = Some l' -> sv_extra sv = Some [a; b] -> dl_a l' = a /\ dl_b l' = b.
Proof.
  intros fresh sv l' a b H He. unfold dense_load in H. rewrite He in H.
  destruct (negb _); [discriminate|]. destruct (dense_extra_fits fresh [a; b]); [|discriminate]. injection H as <-. split; reflexivity.
Qed.

Theorem dense_roundtrip_eval : forall fresh l x,
  dense_wf l = true -> dl_in fresh = dl_in l -> dl_out fresh = dl_out l ->
  option_map (fun l' => dense_eval l' x) (dense_load fresh (dense_save l)) = Some (dense_eval l x).
Proof. intros. rewrite dense_state_roundtrip by assumption. reflexivity. Qed.

(* a checkpoint whose wiring does not fit is refused: a wire beyond the receiving layer's inputs, a negative wire, another
   number of neurons *)
Lemma dense_load_rejects :
  let fresh := {| dl_in := 4; dl_out := 2; dl_gates := [3; 3]; dl_a := [0; 1]%Z; dl_b := [2; 3]%Z |} in
  dense_load fresh {| sv_gates := [1; 2]; sv_extra := Some [[0; 9]; [1; 2]]%Z |} = None
  /\ dense_load fresh {| sv_gates := [1; 2]; sv_extra := Some [[0; -1]; [1; 2]]%Z |} = None
  /\ dense_load fresh {| sv_gates := [1; 2; 3]; sv_extra := Some [[0; 1; 2]; [1; 2; 3]]%Z |} = None
  /\ dense_load fresh {| sv_gates := [1; 2]; sv_extra := Some [[0; 1]]%Z |} = None
  /\ dense_load fresh {| sv_gates := [1; 2]; sv_extra := None |} = Some {| dl_in := 4; dl_out := 2; dl_gates := [1; 2]; dl_a := [0; 1]%Z; dl_b := [2; 3]%Z |}.
Proof. repeat split; vm_compute; reflexivity. Qed.

(* ---- convolutions ---- *)
Lemma forallb2_and : forall {A B} (f g : A -> B -> bool) l1 l2,
  forallb2 f l1 l2 = true -> forallb2 g l1 l2 = true -> forallb2 (fun x y => f x y && g x y) l1 l2 = true.
Proof.
  intros A B f g l1; induction l1 as [|x r IH]; intros [|y s] Hf Hg; cbn [forallb2] in *; try discriminate; [reflexivity|].
  apply andb_prop in Hf as [Hf1 Hf2]. apply andb_prop in Hg as [Hg1 Hg2]. rewrite Hf1, Hg1, (IH _ Hf2 Hg2). reflexivity.
Qed.

Lemma forallb2_self_to : forall {A} (f : A -> A -> bool) (g h : A -> A -> bool) l1 l2,
  (forall x y, f x x = true -> g x y = true -> h x y = true) ->
  forallb2 f l1 l1 = true -> forallb2 g l1 l2 = true -> forallb2 h l1 l2 = true.
Proof.
  intros A f g h l1; induction l1 as [|x r IH]; intros [|y s] Hfg Hf Hg; cbn [forallb2] in *; try discriminate; [reflexivity|].
  apply andb_prop in Hf as [Hf1 Hf2]. apply andb_prop in Hg as [Hg1 Hg2]. rewrite (Hfg _ _ Hf1 Hg1), (IH _ Hfg Hf2 Hg2). reflexivity.
Qed.

Theorem conv_state_roundtrip : forall rc fresh l,
  geom_eqb (c_geom l) (c_geom fresh) = true -> gates_shape_eqb (c_gates l) (c_gates fresh) = true ->
  length (c_pairs l) = length (c_pairs fresh) -> forallb2 tens_shape_eqb (c_pairs l) (c_pairs fresh) = true ->
  index_shapes_eqb (c_indices l) (c_indices fresh) = true ->
  conv_pairs_wf l = true ->
  conv_load rc fresh (conv_save l) = Some l.
Proof.
  intros rc fresh [g gt pr ix] Hg Hgs Hlen Hps His Hwf. cbn [c_geom c_gates c_pairs c_indices] in *.
  pose proof (geom_eqb_eq _ _ Hg) as Heq.
  unfold conv_load, conv_save. cbn [cs_gates cs_extra c_geom c_gates c_pairs c_indices]. rewrite Hgs. cbn [negb].
  assert (Hfit : pairs_fit fresh pr = true).
  { unfold pairs_fit. rewrite Hlen, Nat.eqb_refl. cbn [andb]. rewrite <- Heq.
    unfold conv_pairs_wf, pairs_fit in Hwf. cbn [c_pairs c_geom] in Hwf. apply andb_prop in Hwf as [_ Hwf].
    eapply forallb2_self_to; [|exact Hwf|exact Hps].
    intros x y Hx Hxy. unfold pair_fits in *. repeat (apply andb_prop in Hx as [Hx ?]). rewrite Hxy.
    repeat match goal with E : _ = true |- _ => rewrite E end. reflexivity. }
  rewrite Hfit. cbn [negb]. rewrite Hg. cbn [negb]. rewrite His. cbn [negb]. rewrite <- Heq. reflexivity.
Qed.

Theorem conv_load_sound : forall rc fresh sv l',
  conv_load rc fresh sv = Some l' ->
  c_geom l' = c_geom fresh /\ gates_shape_eqb (c_gates l') (c_gates fresh) = true /\ c_gates l' = cs_gates sv /\
  match cs_extra sv with
  | None => c_pairs l' = c_pairs fresh /\ c_indices l' = c_indices fresh
  | Some (og, pairs, idx) =>
      c_pairs l' = pairs /\ pairs_fit fresh pairs = true /\
      match og with
      | Some g => g = c_geom fresh /\ c_indices l' = idx /\ index_shapes_eqb idx (c_indices fresh) = true
      | None => c_indices l' = rc (c_geom fresh) pairs
      end
  end.
Proof.
  intros rc fresh sv l' H. unfold conv_load in H.
  destruct (gates_shape_eqb (cs_gates sv) (c_gates fresh)) eqn:Eg; cbn [negb] in H; [|discriminate].
  destruct (cs_extra sv) as [[[og pairs] idx]|].
  - destruct (pairs_fit fresh pairs) eqn:Ef; cbn [negb] in H; [|discriminate].
    destruct og as [g|].
    + destruct (geom_eqb g (c_geom fresh)) eqn:Egeo; cbn [negb] in H; [|discriminate].
      destruct (index_shapes_eqb idx (c_indices fresh)) eqn:Ei; cbn [negb] in H; [|discriminate].
      injection H as <-. cbn [c_geom c_gates c_pairs c_indices]. repeat split; try assumption. exact (geom_eqb_eq _ _ Egeo).
    + injection H as <-. cbn [c_geom c_gates c_pairs c_indices]. repeat split; assumption.
  - injection H as <-. cbn [c_geom c_gates c_pairs c_indices]. repeat split; assumption.
Qed.

(* a checkpoint written by a layer of another geometry is refused *)
Theorem conv_load_rejects_geometry : forall rc fresh sv g pairs idx,
  cs_extra sv = Some (Some g, pairs, idx) -> geom_eqb g (c_geom fresh) = false -> conv_load rc fresh sv = None.
Proof.
  intros rc fresh sv g pairs idx He Hg. unfold conv_load. rewrite He, Hg.
  destruct (negb (gates_shape_eqb _ _)); [reflexivity|]. destruct (negb (pairs_fit fresh pairs)); reflexivity.
Qed.
(* ... and so is one whose kernel pairs leave the receiving layer's receptive field or channels *)
Theorem conv_load_rejects_pairs : forall rc fresh sv og pairs idx,
  cs_extra sv = Some (og, pairs, idx) -> pairs_fit fresh pairs = false -> conv_load rc fresh sv = None.
Proof.
  intros rc fresh sv og pairs idx He Hp. unfold conv_load. rewrite He, Hp.
  destruct (negb (gates_shape_eqb _ _)); reflexivity.
Qed.

(* ---- thermometer ---- *)
Theorem thermo_state_roundtrip : forall fresh t, length (th_raw fresh) = length (th_raw t) -> thermo_load fresh (thermo_save t) = Some t.
Proof. intros fresh [r f] H. unfold thermo_load, thermo_save. cbn [ts_raw ts_extra th_raw th_frozen] in *. rewrite H, Nat.eqb_refl. reflexivity. Qed.
(* without the flag in the saved state a frozen layer comes back unfrozen (F39) *)
Lemma thermo_needs_flag :
  thermo_load {| th_raw := [0; 0]%Z; th_frozen := false |} {| ts_raw := [1; 1]%Z; ts_extra := None |}
  = Some {| th_raw := [1; 1]%Z; th_frozen := false |}.
Proof. reflexivity. Qed.
