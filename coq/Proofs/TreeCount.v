(* Proofs/TreeCount.v — how many gates and how many window positions one kernel of a logic convolution has.

   tree_depth = d: 2^d first-level gates (one per sampled pair) and d further levels that halve the width: 2^(d+1) - 1 gates
   reading 2^(d+1) window positions.  (docs/guides/logic_gates.md counts "depth n: 2^n - 1 operations", i.e. calls the
   tree of tree_depth = n - 1 a tree of depth n; the property and the code agree with each other.) *)
From Coq Require Import List Arith Lia.
From TLX Require Import Model.Wiring.
Import ListNotations.

Definition level_gates (lv : list nat * list nat) : nat := length (fst lv).
Definition gates_per_kernel (depth : nat) : nat := 2 ^ depth + list_sum (map level_gates (tree_indices depth)).
Definition inputs_per_kernel (depth : nat) : nat := 2 * 2 ^ depth.

Lemma tree_indices_S : forall d, tree_indices (S d) = tree_level (2 ^ S d) :: tree_indices d.
Proof.
  intros d. unfold tree_indices. cbn [seq map]. rewrite <- seq_shift, map_map. reflexivity.
Qed.

Lemma level_gates_pow : forall d, level_gates (tree_level (2 ^ S d)) = 2 ^ d.
Proof.
  intros d. unfold level_gates, tree_level. cbn [fst]. rewrite map_length, seq_length.
  rewrite Nat.pow_succ_r', Nat.mul_comm, Nat.div_mul; lia.
Qed.

Lemma pow2_pos : forall d, 0 < 2 ^ d.
Proof. intros d. induction d as [|d IH]; [cbn; lia|rewrite Nat.pow_succ_r'; lia]. Qed.

Lemma upper_levels_count : forall d, list_sum (map level_gates (tree_indices d)) = 2 ^ d - 1.
Proof.
  induction d as [|d IH]; [reflexivity|].
  rewrite tree_indices_S. cbn [map list_sum fold_right]. fold (list_sum (map level_gates (tree_indices d))).
  rewrite IH, level_gates_pow, Nat.pow_succ_r'. pose proof (pow2_pos d). lia.
Qed.

Theorem gates_per_kernel_count : forall d, gates_per_kernel d = 2 ^ (d + 1) - 1 /\ inputs_per_kernel d = 2 ^ (d + 1) /\
  length (tree_indices d) = d.
Proof.
  intros d. unfold gates_per_kernel, inputs_per_kernel. rewrite upper_levels_count.
  replace (d + 1) with (S d) by lia. rewrite Nat.pow_succ_r'. pose proof (pow2_pos d).
  repeat split; try lia. unfold tree_indices. now rewrite map_length, seq_length.
Qed.

(* every level feeds exactly the gates of the level before it, and the last level has one gate *)
Theorem tree_levels_halve : forall d level, level < d ->
  level_gates (nth level (tree_indices d) ([], [])) = 2 ^ (d - level - 1).
Proof.
  intros d level H. unfold tree_indices.
  rewrite nth_indep with (d' := (fun l => tree_level (2 ^ (d - l))) 0) by (rewrite map_length, seq_length; lia).
  rewrite (map_nth (fun l => tree_level (2 ^ (d - l)))). rewrite seq_nth by lia. cbn [Nat.add].
  remember (d - level - 1) as k eqn:Ek. replace (d - level) with (S k) by lia. apply level_gates_pow.
Qed.

Theorem documented_count_refuted : exists d, 1 <= d /\ gates_per_kernel d <> 2 ^ d - 1.
Proof. exists 1. split; [lia|]. cbn. lia. Qed.
