From Coq Require Import ZArith List Bool Arith Lia.
From TLX Require Import Model.Bits Model.CLang Model.Netlist Model.ConvNet Model.Wrapper Model.Validate.
From TLX Require Import Proofs.CLangFacts Proofs.ValidateFacts Proofs.WrapperFacts Proofs.HostFacts.
Import ListNotations.
Local Open Scope Z_scope.

(* a program validated against the reference circuit of a conv/pool/flatten/dense stack computes that circuit in every
   lane, and together with the (proved) wrapper and host it returns the per-class counts of the circuit for every batch *)
Theorem validated_counts : forall (W in_size n_out k : nat) p (net : list layer),
  (1 < W)%nat -> validate_exhaustive p (eval_net net) = true ->
  size_of (sizes p) 0 = in_size -> (forall x, length x = in_size -> length (eval_net net x) = n_out) ->
  Z.of_nat (gsize n_out k) < 2 ^ 31 ->
  forall rows, Forall (fun r => length r = in_size) rows ->
    forward_with_groupsum W in_size n_out k (execZ (Z.of_nat W) p) rows
    = Some (map (per_row n_out k (eval_net net)) rows).
Proof.
  intros W in_size n_out k p net HW Hv Hsz Hout Hg rows HF.
  apply forward_with_groupsum_correct; try assumption.
  intros inp Hlen. destruct (validate_exhaustive_sound p (eval_net net) Hv (Z.of_nat W) inp ltac:(lia) ltac:(lia)) as [out [He Hl]].
  exists out. split; [exact He|]. split.
  - specialize (Hl 0 ltac:(lia)). apply (f_equal (@length bool)) in Hl. rewrite map_length in Hl. rewrite Hl.
    apply Hout. rewrite map_length. exact Hlen.
  - exact Hl.
Qed.
