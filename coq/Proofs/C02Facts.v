From Coq Require Import ZArith List Bool Arith Lia.
From TLX Require Import Model.Bits Model.CLang Model.Netlist Model.ConvNet Model.Wrapper Model.Validate.
From TLX Require Import Proofs.CLangFacts Proofs.ValidateFacts Proofs.WrapperFacts Proofs.HostFacts.
Import ListNotations.
Local Open Scope Z_scope.

(* a program validated against the reference circuit of a conv/pool/flatten/dense stack computes that circuit in every
   lane, and together with the (proved) wrapper and host it returns the per-class counts of the circuit for every batch *)
Theorem validated_counts : forall (W in_size n_out k : nat) p (net : list layer),
  (1 < W)%nat -> validate_exhaustive p (eval_net net) = true ->
  size_of (sizes p) 0 = in_size -> (forall x, length x = in_size -> length (eval_net net x) = n_out) ->
  Z.of_nat (gsize n_out k) < 2 ^ 31 ->
  forall rows, Forall (fun r => length r = in_size) rows ->
    forward_with_groupsum W in_size n_out k (execZ (Z.of_nat W) p) rows
    = Some (map (per_row n_out k (eval_net net)) rows).
Proof.
  intros W in_size n_out k p net HW Hv Hsz Hout Hg rows HF.
  apply forward_with_groupsum_correct; try assumption.
  intros inp Hlen. destruct (validate_exhaustive_sound p (eval_net net) Hv (Z.of_nat W) inp ltac:(lia) ltac:(lia)) as [out [He Hl]].
  exists out. split; [exact He|]. split.
  - specialize (Hl 0 ltac:(lia)). apply (f_equal (@length bool)) in Hl. rewrite map_length in Hl. rewrite Hl.
    apply Hout. rewrite map_length. exact Hlen.
  - exact Hl.
Qed.

(* ---------- the generator model: for EVERY well-formed Conv (Conv|Pool)* [Flatten Dense*] network *)
From TLX Require Import Model.GenNet Model.Host Proofs.GenNetFacts Proofs.C01Facts.

Lemma net_lanewise : forall (W : nat) m, (1 < W)%nat -> wf_spatial_model m = true ->
  lanewise W (net_in m) (net_out m) (execZ (Z.of_nat W) (gen_net m)) (eval_model m).
Proof.
  intros W m HW Hwf inp Hlen.
  destruct (gen_net_correct_words (Z.of_nat W) m inp ltac:(lia) Hwf Hlen) as [out [He [Hl Hlanes]]].
  exists out. repeat split; assumption.
Qed.

Theorem net_counts : forall (W k : nat) m rows,
  (1 < W)%nat -> wf_spatial_model m = true -> Z.of_nat (gsize (net_out m) k) < 2 ^ 31 ->
  Forall (fun r => length r = net_in m) rows ->
  forward_with_groupsum W (net_in m) (net_out m) k (execZ (Z.of_nat W) (gen_net m)) rows
  = Some (map (per_row (net_out m) k (eval_model m)) rows).
Proof.
  intros W k m rows HW Hwf Hg HF. apply forward_with_groupsum_correct; try assumption.
  apply net_lanewise; assumption.
Qed.

Theorem net_direct : forall (W : nat) m rows,
  (1 < W)%nat -> wf_spatial_model m = true -> Forall (fun r => length r = net_in m) rows ->
  forward_direct (execZ (Z.of_nat W) (gen_net m)) rows
  = Some (map (fun r => map Z.b2z (eval_model m r)) rows).
Proof.
  intros W m rows HW Hwf Hrows. induction Hrows as [|r rest Hr _ IH]; [reflexivity|].
  unfold forward_direct in *. cbn [fold_right map]. rewrite IH.
  destruct (net_lanewise W m HW Hwf (map Z.b2z r) ltac:(rewrite map_length; exact Hr)) as [out [He [_ Hl]]].
  rewrite He. cbn [option_map]. f_equal. f_equal.
  specialize (Hl 0 ltac:(lia)). rewrite lane0_b2z in Hl. rewrite <- Hl.
  rewrite map_map. apply map_ext. intros z. apply land_1_bit0.
Qed.

(* ---------- parsed programs accepted by the streaming comparison (the library's predefined architectures) *)
From TLX Require Import Model.GenStream Proofs.GenStreamFacts.

Theorem emitted_counts : forall (W k : nat) p m rows,
  gen_net_matchesN p m = true ->
  (1 < W)%nat -> wf_spatial_model m = true -> Z.of_nat (gsize (net_out m) k) < 2 ^ 31 ->
  Forall (fun r => length r = net_in m) rows ->
  forward_with_groupsum W (net_in m) (net_out m) k (execZ (Z.of_nat W) (to_prog p)) rows
  = Some (map (per_row (net_out m) k (eval_model m)) rows).
Proof. intros W k p m rows Hm. rewrite (matches_sound p m Hm). apply net_counts. Qed.
