(* Proofs for C04: the 16 gate ids mean the same function in every representation. *)
From Coq Require Import ZArith List Bool Reals Lra Psatz String.
From TLX Require Import Model.Bits Model.Poly Proofs.BitsFacts.
From TLX Require Import Gen.Ops Gen.GateCode.
Import ListNotations.

Definition peval_R := peval Rplus Rminus Rmult IZR.
Definition b2r (b : bool) : R := if b then 1%R else 0%R.
Definition ttR (g : nat) (a b : bool) : R := b2r (tt g a b).

(* multilinear extension of the truth table of g *)
Definition multilinear (g : nat) (a b : R) : R :=
  (ttR g false false * (1 - a) * (1 - b) + ttR g false true * (1 - a) * b
   + ttR g true false * a * (1 - b) + ttR g true true * a * b)%R.

Ltac each16 i H :=
  do 16 (destruct i as [|i]; [clear H|]); [..|exfalso; repeat apply Nat.succ_lt_mono in H; inversion H].

Lemma lt16_cases : forall i, (i < 16)%nat ->
  i = 0%nat \/ i = 1%nat \/ i = 2%nat \/ i = 3%nat \/ i = 4%nat \/ i = 5%nat \/ i = 6%nat \/ i = 7%nat \/
  i = 8%nat \/ i = 9%nat \/ i = 10%nat \/ i = 11%nat \/ i = 12%nat \/ i = 13%nat \/ i = 14%nat \/ i = 15%nat.
Proof. intros i H. lia. Qed.

Ltac cases16 i H :=
  destruct (lt16_cases i H) as
    [->|[->|[->|[->|[->|[->|[->|[->|[->|[->|[->|[->|[->|[->|[->| ->]]]]]]]]]]]]]]].

Lemma n_ops_16 : n_ops = 16%nat. Proof. reflexivity. Qed.
Lemma n_opvec_16 : n_opvec = 16%nat. Proof. reflexivity. Qed.
Lemma mix_n_16 : mix_n = 16%nat. Proof. reflexivity. Qed.

Lemma op_multilinear : forall i, (i < 16)%nat -> forall a b : R,
  peval_R (op i) a b = multilinear i a b.
Proof.
  intros i H a b. cases16 i H;
    unfold peval_R, multilinear, ttR, tt, b2r; cbn; ring.
Qed.

Lemma op_boolean : forall i, (i < 16)%nat -> forall a b : bool,
  peval_R (op i) (b2r a) (b2r b) = ttR i a b.
Proof.
  intros i H a b. rewrite op_multilinear by exact H.
  unfold multilinear. destruct a, b; unfold b2r at 1 2 3 4 5 6 7 8; ring_simplify; reflexivity.
Qed.

Lemma ttR_01 : forall g a b, ttR g a b = 0%R \/ ttR g a b = 1%R.
Proof. intros. unfold ttR, b2r. destruct (tt g a b); auto. Qed.

Lemma multilinear_range : forall g a b, (0 <= a <= 1)%R -> (0 <= b <= 1)%R ->
  (0 <= multilinear g a b <= 1)%R.
Proof.
  intros g a b Ha Hb. unfold multilinear.
  destruct (ttR_01 g false false) as [-> | ->], (ttR_01 g false true) as [-> | ->],
           (ttR_01 g true false) as [-> | ->], (ttR_01 g true true) as [-> | ->]; nra.
Qed.

Lemma op_range : forall i, (i < 16)%nat -> forall a b, (0 <= a <= 1)%R -> (0 <= b <= 1)%R ->
  (0 <= peval_R (op i) a b <= 1)%R.
Proof. intros. rewrite op_multilinear by assumption. now apply multilinear_range. Qed.

Lemma opvec_eq_op : forall i, (i < 16)%nat -> forall a b : R,
  peval_R (opvec i) a b = peval_R (op i) a b.
Proof.
  intros i H a b. cases16 i H; unfold peval_R; cbn; ring.
Qed.

(* ---- C templates *)
Definition template_ok (g : nat) : bool :=
  match template g with
  | Some e => forallb (fun a => forallb (fun b => Bool.eqb (cevalb e a b) (tt g a b)) [false; true]) [false; true]
  | None => false
  end.

Lemma templates_ok : forallb template_ok (seq 0 16) = true.
Proof. vm_compute. reflexivity. Qed.

Lemma template_lane : forall g, (g < 16)%nat -> exists e, template g = Some e /\
  forall x y j, (0 <= j)%Z ->
    Z.testbit (ceval e x y) j = tt g (Z.testbit x j) (Z.testbit y j).
Proof.
  intros g Hg.
  assert (Hok : template_ok g = true).
  { pose proof templates_ok as H. rewrite forallb_forall in H. apply H. apply in_seq. lia. }
  unfold template_ok in Hok. destruct (template g) as [e|]; [|discriminate].
  exists e. split; [reflexivity|]. intros x y j Hj.
  rewrite ceval_testbit by exact Hj.
  cbn [forallb] in Hok. rewrite !andb_true_r in Hok.
  repeat rewrite andb_true_iff in Hok. destruct Hok as [[H00 H01] [H10 H11]].
  destruct (Z.testbit x j), (Z.testbit y j);
    [apply eqb_prop in H11|apply eqb_prop in H10|apply eqb_prop in H01|apply eqb_prop in H00]; assumption.
Qed.

Lemma template_lane_wrapped : forall g W, (g < 16)%nat -> In W word_sizes -> exists e, template g = Some e /\
  forall x y j, (0 <= j < W)%Z ->
    Z.testbit (wrap W (ceval e x y)) j = tt g (Z.testbit x j) (Z.testbit y j).
Proof.
  intros g W Hg HW. destruct (template_lane g Hg) as [e [He Hl]].
  exists e. split; [exact He|]. intros x y j Hj.
  assert (0 < W)%Z by (cbn in HW; intuition lia).
  rewrite wrap_testbit by lia. apply Hl. lia.
Qed.

(* the cast suffix is applied exactly for the sub-int widths, with the width's own type,
   and the accepted word sizes are exactly the four modelled ones *)
Lemma casts_ok : cast_of_bits = [(8%Z, "char"%string); (16%Z, "short"%string)]
  /\ bits_to_dtype = [(8%Z, "char"%string); (16%Z, "short"%string); (32%Z, "int"%string); (64%Z, "long long"%string)]
  /\ accepted_num_bits = word_sizes.
Proof. repeat split; reflexivity. Qed.

(* ---- names: the documented meaning of each operation name *)
Definition name_meaning (s : string) : option (bool -> bool -> bool) :=
  if String.eqb s "zero" then Some (fun _ _ => false) else
  if String.eqb s "and" then Some andb else
  if String.eqb s "not_implies" then Some (fun a b => negb (implb a b)) else
  if String.eqb s "a" then Some (fun a _ => a) else
  if String.eqb s "not_implied_by" then Some (fun a b => negb (implb b a)) else
  if String.eqb s "b" then Some (fun _ b => b) else
  if String.eqb s "xor" then Some xorb else
  if String.eqb s "or" then Some orb else
  if String.eqb s "not_or" then Some (fun a b => negb (orb a b)) else
  if String.eqb s "not_xor" then Some (fun a b => negb (xorb a b)) else
  if String.eqb s "not_b" then Some (fun _ b => negb b) else
  if String.eqb s "implied_by" then Some (fun a b => implb b a) else
  if String.eqb s "not_a" then Some (fun a _ => negb a) else
  if String.eqb s "implies" then Some implb else
  if String.eqb s "not_and" then Some (fun a b => negb (andb a b)) else
  if String.eqb s "one" then Some (fun _ _ => true) else None.

Definition name_ok (g : nat) : bool :=
  match nth_error gate_names g with
  | Some n => match name_meaning n with
              | Some f => forallb (fun a => forallb (fun b => Bool.eqb (f a b) (tt g a b)) [false; true]) [false; true]
              | None => false end
  | None => false
  end.

Lemma names_ok : List.length gate_names = 16%nat /\ forallb name_ok (seq 0 16) = true.
Proof. split; vm_compute; reflexivity. Qed.
