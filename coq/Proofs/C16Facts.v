From Coq Require Import List Arith Bool Lia.
From TLX Require Import Gen.LibIO Model.Proc.
Import ListNotations.

Lemma lookup_assign_same : forall (A : Type) k (v : A) l, lookup k (assign k v l) = Some v.
Proof.
  intros A k v l. induction l as [|[k' v'] r IH]; cbn; [now rewrite Nat.eqb_refl|].
  destruct (Nat.eqb_spec k' k) as [->|Hne]; cbn; [now rewrite Nat.eqb_refl|].
  destruct (Nat.eqb_spec k' k); [contradiction|exact IH].
Qed.

Lemma lookup_assign_other : forall (A : Type) k k' (v : A) l, k' <> k -> lookup k' (assign k v l) = lookup k' l.
Proof.
  intros A k k' v l Hne. induction l as [|[k0 v0] r IH]; cbn.
  - destruct (Nat.eqb_spec k k'); [congruence|reflexivity].
  - destruct (Nat.eqb_spec k0 k) as [->|H0]; cbn.
    + destruct (Nat.eqb_spec k k'); [congruence|reflexivity].
    + destruct (Nat.eqb_spec k0 k'); [reflexivity|exact IH].
Qed.

(* refinement relation between the machine (with rename-on-save and private-copy-on-load) and the specification *)
Definition good_inode (s : pstate) (i : inode) (m : model) : Prop :=
  exists ii, nth_error (inodes s) i = Some ii /\ modified ii = false /\ content ii = m.

Record Rl (s : pstate) (a : spec) : Prop := {
  r_paths : forall p, match lookup p (fs s) with
                      | Some ip => exists m, lookup p (saved a) = Some m /\ good_inode s ip m
                      | None => lookup p (saved a) = None end;
  r_len : length (made a) = length (handles s);
  r_handles : forall h hi, nth_error (handles s) h = Some hi ->
                exists m, nth_error (made a) h = Some m /\ good_inode s (mapped hi) m /\ made_from hi = m;
  r_clean : forall i ii, nth_error (inodes s) i = Some ii -> modified ii = false;
  r_lenf : length (with_model a) = length (handles s);
  r_flags : forall h hi, nth_error (handles s) h = Some hi -> nth_error (with_model a) h = Some (has_model hi)
}.

Lemma good_inode_grow : forall s i m m', good_inode s i m -> good_inode (fst (new_inode s m')) i m.
Proof.
  intros s i m m' [ii [H1 [H2 H3]]]. exists ii. repeat split; try assumption. unfold new_inode. cbn [fst inodes].
  rewrite nth_error_app1; [exact H1|]. apply nth_error_Some. congruence.
Qed.

Lemma good_inode_new : forall s m, good_inode (fst (new_inode s m)) (snd (new_inode s m)) m.
Proof.
  intros s m. unfold new_inode. cbn [fst snd]. exists {| content := m; modified := false |}. repeat split. cbn [inodes].
  rewrite nth_error_app2 by lia. now rewrite Nat.sub_diag.
Qed.

Lemma Rl_empty : Rl empty spec_empty.
Proof.
  constructor; cbn; intros; try reflexivity.
  - destruct h; discriminate.
  - destruct i; discriminate.
  - destruct h; discriminate.
Qed.

Lemma length_set_nth : forall (A : Type) (l : list A) n v, length (set_nth n v l) = length l.
Proof. induction l as [|x r IH]; intros [|n] v; cbn; try reflexivity. now rewrite IH. Qed.
Lemma nth_error_set_nth_same : forall (A : Type) (l : list A) n v, n < length l -> nth_error (set_nth n v l) n = Some v.
Proof. induction l as [|x r IH]; intros [|n] v H; cbn in *; try lia; [reflexivity|]. apply IH. lia. Qed.
Lemma nth_error_set_nth_other : forall (A : Type) (l : list A) n k v, k <> n -> nth_error (set_nth n v l) k = nth_error l k.
Proof.
  induction l as [|x r IH]; intros [|n] [|k] v H; cbn; try reflexivity; try congruence. apply IH. congruence.
Qed.

(* the flags of the handles after one more handle was appended *)
Lemma flags_snoc : forall (a : spec) (b : bool) (hs : list handle_info) x,
  length (with_model a) = length hs ->
  (forall h hi, nth_error hs h = Some hi -> nth_error (with_model a) h = Some (has_model hi)) ->
  has_model x = b ->
  forall h hi, nth_error (hs ++ [x]) h = Some hi -> nth_error (with_model a ++ [b]) h = Some (has_model hi).
Proof.
  intros a b hs x Hl Hf Hb h hi Hh.
  destruct (lt_dec h (length hs)) as [Hlt|Hge].
  - rewrite nth_error_app1 in Hh by exact Hlt. rewrite nth_error_app1 by (rewrite Hl; exact Hlt). apply Hf. exact Hh.
  - rewrite nth_error_app2 in Hh by lia. rewrite nth_error_app2 by lia. rewrite Hl.
    destruct (h - length hs) as [|k]; cbn in *; [inversion Hh; subst; reflexivity|destruct k; discriminate].
Qed.

Lemma nth_error_snoc : forall (A : Type) (l : list A) x h v,
  nth_error (l ++ [x]) h = Some v -> (h < length l /\ nth_error l h = Some v) \/ (h = length l /\ v = x).
Proof.
  intros A l x h v H. destruct (lt_dec h (length l)) as [Hlt|Hge].
  - left. split; [exact Hlt|]. now rewrite nth_error_app1 in H by exact Hlt.
  - right. rewrite nth_error_app2 in H by lia. destruct (h - length l) as [|k] eqn:E.
    + cbn in H. inversion H. split; [lia|reflexivity].
    + cbn in H. destruct k; discriminate.
Qed.

(* one step: same output, relation preserved *)
Lemma step_refines : forall s a o, Rl s a ->
  let '(s', out) := step AtomicRename PrivateCopy Refuses s o in
  let '(a', out') := spec_step a o in
  out = out' /\ Rl s' a'.
Proof.
  intros s a o R. destruct R as [Rp Rn Rh Rc Rlf Rf]. destruct o as [m save|p|h|h save]; cbn [step spec_step].
  - (* compile *)
    set (s1 := fst (new_inode s m)). set (it := snd (new_inode s m)).
    assert (Hit : it = length (inodes s)) by reflexivity.
    destruct save as [p|].
    + cbn [new_inode new_handle save_to fst snd]. split; [now rewrite Rn|].
      constructor; cbn [fs inodes handles saved made with_model].
      * intros q. destruct (Nat.eq_dec q p) as [->|Hne].
        -- rewrite lookup_assign_same. exists m. split; [apply lookup_assign_same|].
           exists {| content := m; modified := false |}. repeat split. cbn [inodes].
           rewrite nth_error_app2 by (rewrite app_length; cbn; lia). rewrite app_length. cbn.
           replace (length (inodes s) + 1 - (length (inodes s) + 1)) with 0 by lia. reflexivity.
        -- rewrite !lookup_assign_other by exact Hne. specialize (Rp q).
           destruct (lookup q (fs s)) as [ip|]; [|exact Rp]. destruct Rp as [m0 [E [ii [H1 [H2 H3]]]]].
           exists m0. split; [exact E|]. exists ii. repeat split; try assumption. cbn [inodes].
           rewrite <- app_assoc. rewrite nth_error_app1; [exact H1|]. apply nth_error_Some. congruence.
      * rewrite !app_length. cbn. lia.
      * intros h hi Hh. apply nth_error_snoc in Hh. destruct Hh as [[Hlt Hh]|[-> ->]].
        -- destruct (Rh h hi Hh) as [m0 [E [[ii [H1 [H2 H3]]] Hm]]]. exists m0. repeat split; try assumption.
           ++ rewrite nth_error_app1 by (rewrite Rn; exact Hlt). exact E.
           ++ exists ii. repeat split; try assumption. cbn [inodes].
              rewrite <- app_assoc. rewrite nth_error_app1; [exact H1|]. apply nth_error_Some. congruence.
        -- exists m. cbn [mapped made_from]. repeat split.
           ++ rewrite <- Rn. rewrite nth_error_app2 by lia. now rewrite Nat.sub_diag.
           ++ exists {| content := m; modified := false |}. repeat split. cbn [inodes].
              rewrite <- app_assoc. rewrite nth_error_app2 by lia. now rewrite Nat.sub_diag.
      * intros i ii Hi. rewrite <- app_assoc in Hi. apply nth_error_In in Hi. apply in_app_or in Hi.
        destruct Hi as [Hi|Hi]; [apply In_nth_error in Hi; destruct Hi as [k Hk]; eapply Rc; exact Hk|].
        cbn in Hi. destruct Hi as [<-|[<-|[]]]; reflexivity.
      * rewrite !app_length. cbn. lia.
      * apply (flags_snoc a true); [exact Rlf|exact Rf|reflexivity].
    + cbn [new_inode new_handle save_to fst snd]. split; [now rewrite Rn|].
      constructor; cbn [fs inodes handles saved made with_model].
      * intros q. specialize (Rp q). destruct (lookup q (fs s)) as [ip|]; [|exact Rp].
        destruct Rp as [m0 [E [ii [H1 [H2 H3]]]]]. exists m0. split; [exact E|]. exists ii. repeat split; try assumption. cbn [inodes].
        rewrite nth_error_app1; [exact H1|]. apply nth_error_Some. congruence.
      * rewrite !app_length. cbn. lia.
      * intros h hi Hh. apply nth_error_snoc in Hh. destruct Hh as [[Hlt Hh]|[-> ->]].
        -- destruct (Rh h hi Hh) as [m0 [E [[ii [H1 [H2 H3]]] Hm]]]. exists m0. repeat split; try assumption.
           ++ rewrite nth_error_app1 by (rewrite Rn; exact Hlt). exact E.
           ++ exists ii. repeat split; try assumption. cbn [inodes]. rewrite nth_error_app1; [exact H1|]. apply nth_error_Some. congruence.
        -- exists m. cbn [mapped made_from]. repeat split.
           ++ rewrite <- Rn. rewrite nth_error_app2 by lia. now rewrite Nat.sub_diag.
           ++ exists {| content := m; modified := false |}. repeat split. cbn [inodes]. rewrite nth_error_app2 by lia. now rewrite Nat.sub_diag.
      * intros i ii Hi. apply nth_error_In in Hi. apply in_app_or in Hi.
        destruct Hi as [Hi|Hi]; [apply In_nth_error in Hi; destruct Hi as [k Hk]; eapply Rc; exact Hk|].
        cbn in Hi. destruct Hi as [<-|[]]; reflexivity.
      * rewrite !app_length. cbn. lia.
      * apply (flags_snoc a true); [exact Rlf|exact Rf|reflexivity].
  - (* load *)
    pose proof (Rp p) as Hp. destruct (lookup p (fs s)) as [ip|].
    + destruct Hp as [m0 [E [ii [H1 [H2 H3]]]]]. rewrite E, H1. cbn [new_inode new_handle fst snd]. rewrite H3.
      split; [now rewrite Rn|]. constructor; cbn [fs inodes handles saved made with_model].
      * intros q. specialize (Rp q). destruct (lookup q (fs s)) as [iq|]; [|exact Rp].
        destruct Rp as [m1 [E1 [i1 [G1 [G2 G3]]]]]. exists m1. split; [exact E1|]. exists i1. repeat split; try assumption. cbn [inodes].
        rewrite nth_error_app1; [exact G1|]. apply nth_error_Some. congruence.
      * rewrite !app_length. cbn. lia.
      * intros h hi Hh. apply nth_error_snoc in Hh. destruct Hh as [[Hlt Hh]|[-> ->]].
        -- destruct (Rh h hi Hh) as [m1 [E1 [[i1 [G1 [G2 G3]]] Hm]]]. exists m1. repeat split; try assumption.
           ++ rewrite nth_error_app1 by (rewrite Rn; exact Hlt). exact E1.
           ++ exists i1. repeat split; try assumption. cbn [inodes]. rewrite nth_error_app1; [exact G1|]. apply nth_error_Some. congruence.
        -- exists m0. cbn [mapped made_from]. repeat split.
           ++ rewrite <- Rn. rewrite nth_error_app2 by lia. now rewrite Nat.sub_diag.
           ++ exists {| content := m0; modified := false |}. repeat split. cbn [inodes]. rewrite nth_error_app2 by lia. now rewrite Nat.sub_diag.
      * intros i i' Hi. apply nth_error_In in Hi. apply in_app_or in Hi.
        destruct Hi as [Hi|Hi]; [apply In_nth_error in Hi; destruct Hi as [k Hk]; eapply Rc; exact Hk|].
        cbn in Hi. destruct Hi as [<-|[]]; reflexivity.
      * rewrite !app_length. cbn. lia.
      * apply (flags_snoc a false); [exact Rlf|exact Rf|reflexivity].
    + rewrite Hp. split; [reflexivity|]. constructor; assumption.
  - (* call *)
    destruct (nth_error (handles s) h) as [hi|] eqn:Eh.
    + destruct (Rh h hi Eh) as [m0 [E [[ii [H1 [H2 H3]]] Hm]]]. rewrite H1, H2, E. split; [now rewrite H3|].
      constructor; assumption.
    + assert (nth_error (made a) h = None) as -> by (apply nth_error_None; rewrite Rn; now apply nth_error_None).
      split; [reflexivity|]. constructor; assumption.
  - (* compile() again on the instance behind handle h *)
    destruct (nth_error (handles s) h) as [hi|] eqn:Eh.
    2:{ assert (nth_error (made a) h = None) as -> by (apply nth_error_None; rewrite Rn; now apply nth_error_None).
        split; [reflexivity|]. constructor; assumption. }
    destruct (Rh h hi Eh) as [m0 [E [[ii0 [K1 [K2 K3]]] Hm]]]. rewrite E, (Rf h hi Eh).
    assert (Hlt : h < length (handles s)) by (apply nth_error_Some; congruence).
    destruct (has_model hi) eqn:Ehm.
    2:{ split; [reflexivity|]. constructor; assumption. }
    rewrite Hm.
    destruct save as [p|]; cbn [new_inode save_to fst snd]; unfold remap; (split; [reflexivity|]);
      constructor; cbn [fs inodes handles saved made with_model].
    + (* paths, saved to p *)
      intros q. destruct (Nat.eq_dec q p) as [->|Hne].
      * rewrite lookup_assign_same. exists m0. split; [apply lookup_assign_same|].
        exists {| content := m0; modified := false |}. repeat split. cbn [inodes].
        rewrite nth_error_app2 by (rewrite app_length; cbn; lia). rewrite app_length. cbn.
        replace (length (inodes s) + 1 - (length (inodes s) + 1)) with 0 by lia. reflexivity.
      * rewrite !lookup_assign_other by exact Hne. specialize (Rp q).
        destruct (lookup q (fs s)) as [ip|]; [|exact Rp]. destruct Rp as [m1 [E1 [ii [H1 [H2 H3]]]]].
        exists m1. split; [exact E1|]. exists ii. repeat split; try assumption. cbn [inodes].
        rewrite <- app_assoc. rewrite nth_error_app1; [exact H1|]. apply nth_error_Some. congruence.
    + rewrite length_set_nth. exact Rn.
    + intros h' hi' Hh'. destruct (Nat.eq_dec h' h) as [->|Hne].
      * rewrite nth_error_set_nth_same in Hh' by exact Hlt. inversion Hh'; subst hi'. cbn [mapped made_from].
        exists m0. repeat split; try assumption.
        exists {| content := m0; modified := false |}. repeat split. cbn [inodes].
        rewrite <- app_assoc. rewrite nth_error_app2 by lia. now rewrite Nat.sub_diag.
      * rewrite nth_error_set_nth_other in Hh' by exact Hne.
        destruct (Rh h' hi' Hh') as [m1 [E1 [[ii [H1 [H2 H3]]] Hm1]]]. exists m1. repeat split; try assumption.
        exists ii. repeat split; try assumption. cbn [inodes].
        rewrite <- app_assoc. rewrite nth_error_app1; [exact H1|]. apply nth_error_Some. congruence.
    + intros i ii Hi. rewrite <- app_assoc in Hi. apply nth_error_In in Hi. apply in_app_or in Hi.
      destruct Hi as [Hi|Hi]; [apply In_nth_error in Hi; destruct Hi as [k Hk]; eapply Rc; exact Hk|].
      cbn in Hi. destruct Hi as [<-|[<-|[]]]; reflexivity.
    + rewrite length_set_nth. exact Rlf.
    + intros h' hi' Hh'. destruct (Nat.eq_dec h' h) as [->|Hne].
      * rewrite nth_error_set_nth_same in Hh' by exact Hlt. inversion Hh'; subst hi'. cbn [has_model]. apply Rf. exact Eh.
      * rewrite nth_error_set_nth_other in Hh' by exact Hne. apply Rf. exact Hh'.
    + (* paths, nothing saved *)
      intros q. specialize (Rp q). destruct (lookup q (fs s)) as [ip|]; [|exact Rp].
      destruct Rp as [m1 [E1 [ii [H1 [H2 H3]]]]]. exists m1. split; [exact E1|]. exists ii. repeat split; try assumption. cbn [inodes].
      rewrite nth_error_app1; [exact H1|]. apply nth_error_Some. congruence.
    + rewrite length_set_nth. exact Rn.
    + intros h' hi' Hh'. destruct (Nat.eq_dec h' h) as [->|Hne].
      * rewrite nth_error_set_nth_same in Hh' by exact Hlt. inversion Hh'; subst hi'. cbn [mapped made_from].
        exists m0. repeat split; try assumption.
        exists {| content := m0; modified := false |}. repeat split. cbn [inodes].
        rewrite nth_error_app2 by lia. now rewrite Nat.sub_diag.
      * rewrite nth_error_set_nth_other in Hh' by exact Hne.
        destruct (Rh h' hi' Hh') as [m1 [E1 [[ii [H1 [H2 H3]]] Hm1]]]. exists m1. repeat split; try assumption.
        exists ii. repeat split; try assumption. cbn [inodes]. rewrite nth_error_app1; [exact H1|]. apply nth_error_Some. congruence.
    + intros i ii Hi. apply nth_error_In in Hi. apply in_app_or in Hi.
      destruct Hi as [Hi|Hi]; [apply In_nth_error in Hi; destruct Hi as [k Hk]; eapply Rc; exact Hk|].
      cbn in Hi. destruct Hi as [<-|[]]; reflexivity.
    + rewrite length_set_nth. exact Rlf.
    + intros h' hi' Hh'. destruct (Nat.eq_dec h' h) as [->|Hne].
      * rewrite nth_error_set_nth_same in Hh' by exact Hlt. inversion Hh'; subst hi'. cbn [has_model]. apply Rf. exact Eh.
      * rewrite nth_error_set_nth_other in Hh' by exact Hne. apply Rf. exact Hh'.
Qed.

Theorem run_refines : forall ops s a, Rl s a -> run AtomicRename PrivateCopy Refuses s ops = spec_run a ops.
Proof.
  induction ops as [|o r IH]; intros s a R; cbn [run spec_run]; [reflexivity|].
  pose proof (step_refines s a o R) as H.
  destruct (step AtomicRename PrivateCopy Refuses s o) as [s' out]. destruct (spec_step a o) as [a' out'].
  destruct H as [-> R']. f_equal. apply IH. exact R'.
Qed.

(* every finite history: the machine behaves as the specification (no crash; a call returns the model its handle was
   created from; load(p) yields the model most recently saved to p) *)
Theorem histories_refine_spec : forall ops, run AtomicRename PrivateCopy Refuses empty ops = spec_run spec_empty ops.
Proof. intros. apply run_refines. apply Rl_empty. Qed.

Lemma spec_never_crashes : forall ops a, ~ In RCrash (spec_run a ops).
Proof.
  induction ops as [|o r IH]; intros a H; cbn [spec_run] in H; [exact H|].
  destruct (spec_step a o) as [a' out] eqn:E. destruct H as [H|H]; [|exact (IH a' H)].
  destruct o as [m save|p|h|h save]; cbn in E.
  - inversion E; subst. discriminate.
  - destruct (lookup p (saved a)); inversion E; subst; discriminate.
  - destruct (nth_error (made a) h); inversion E; subst; discriminate.
  - destruct (nth_error (made a) h) as [m|]; [|inversion E; subst; discriminate].
    destruct (nth_error (with_model a) h) as [[|]|]; inversion E; subst; discriminate.
Qed.

Theorem no_history_crashes : forall ops, ~ In RCrash (run AtomicRename PrivateCopy Refuses empty ops).
Proof. intros ops. rewrite histories_refine_spec. apply spec_never_crashes. Qed.

(* the disciplines of the current source are the safe ones *)
Lemma current_disciplines : save_mode = AtomicRename /\ load_mode = PrivateCopy /\ load_passes_num_bits = true
  /\ load_sets_shape_and_classes = true /\ recompile_mode = Refuses.
Proof. repeat split; reflexivity. Qed.

(* with the other disciplines the specification is violated: concrete histories *)
Lemma inplace_bypath_crashes :
  In RCrash (run InPlace ByPath Refuses empty [OCompile 1 (Some 0); OLoad 0; OCompile 2 (Some 0); OCall 1]).
Proof. vm_compute. tauto. Qed.
Lemma bypath_stale :
  run AtomicRename ByPath Refuses empty [OCompile 1 (Some 0); OLoad 0; OCompile 2 (Some 0); OLoad 0; OCall 3]
  <> spec_run spec_empty [OCompile 1 (Some 0); OLoad 0; OCompile 2 (Some 0); OLoad 0; OCall 3].
Proof. vm_compute. discriminate. Qed.

(* save then load (from any reachable state): the loaded library computes the model just saved *)
Lemma save_load_spec : forall a m p,
  spec_run a [OCompile m (Some p); OLoad p; OCall (S (length (made a)))]
  = [RHandle (length (made a)); RHandle (S (length (made a))); RValue m].
Proof.
  intros a m p. cbn [spec_run spec_step saved made with_model]. rewrite lookup_assign_same. cbn [spec_run spec_step saved made with_model].
  rewrite app_length. cbn [length]. replace (length (made a) + 1) with (S (length (made a))) by lia.
  rewrite nth_error_app2 by (rewrite app_length; cbn; lia). rewrite app_length. cbn [length].
  replace (S (length (made a)) - (length (made a) + 1)) with 0 by lia. reflexivity.
Qed.

Theorem save_load_roundtrip : forall s a m p, Rl s a ->
  run AtomicRename PrivateCopy Refuses s [OCompile m (Some p); OLoad p; OCall (S (length (handles s)))]
  = [RHandle (length (handles s)); RHandle (S (length (handles s))); RValue m].
Proof.
  intros s a m p R. rewrite (run_refines _ s a R). rewrite <- (r_len s a R). apply save_load_spec.
Qed.

(* compile() on a loaded handle, had it been accepted (code generated from no model): the handle computes the empty
   network afterwards and so does every later load of the path it saved to *)
Lemma rebuilds_empty_refuted :
  run AtomicRename PrivateCopy RebuildsEmpty empty [OCompile 1 (Some 0); OLoad 0; ORecompile 1 (Some 0); OCall 1; OLoad 0; OCall 2]
  = [RHandle 0; RHandle 1; RHandle 1; RValue EMPTY; RHandle 2; RValue EMPTY]
  /\ spec_run spec_empty [OCompile 1 (Some 0); OLoad 0; ORecompile 1 (Some 0); OCall 1; OLoad 0; OCall 2]
  = [RHandle 0; RHandle 1; RError; RValue 1; RHandle 2; RValue 1].
Proof. split; vm_compute; reflexivity. Qed.

(* a second compile of an instance that holds its model: allowed, saves that model, the handle keeps computing it *)
Lemma recompile_with_model_spec :
  run AtomicRename PrivateCopy Refuses empty [OCompile 1 None; ORecompile 0 (Some 3); OCall 0; OLoad 3; OCall 1]
  = [RHandle 0; RHandle 0; RValue 1; RHandle 1; RValue 1].
Proof. vm_compute. reflexivity. Qed.
