(* Correctness of the dense generator model, for every network:
   execB (gen_dense m) x = Some (eval_dense_net layers x), hence memory safety and
   definition-before-use, for all depths, widths, wirings (self-pairs included) and gates. *)
From Coq Require Import ZArith List Bool Arith Lia.
From TLX Require Import Model.Bits Model.CLang Model.Netlist Model.GenDense Gen.GateCode.
From TLX Require Import Proofs.BitsFacts Proofs.C04Facts Proofs.CLangFacts.
Import ListNotations.

Notation gevalB := (@geval bool false negb andb orb xorb).
Notation stepB := (@exec_stmt bool false negb andb orb xorb (fun b => b)).
Notation bodyB := (@exec_body bool false negb andb orb xorb (fun b => b)).
Notation memB := (@mem bool).

Definition holds (m : memB) (b : nat) (x : list bool) : Prop :=
  forall i, i < length x -> m b i = Some (nth i x false).

Lemma body_app : forall sz s1 s2 (m : memB),
  bodyB sz m (s1 ++ s2) = match bodyB sz m s1 with Some m' => bodyB sz m' s2 | None => None end.
Proof.
  intros sz s1. induction s1 as [|s r IH]; intros s2 m; cbn [app exec_body]; [reflexivity|].
  destruct (stepB sz m s); [apply IH|reflexivity].
Qed.

Lemma geval_subst : forall sz (m : memB) e x y vx vy,
  gevalB sz m x = Some vx -> gevalB sz m y = Some vy ->
  gevalB sz m (subst e x y) = Some (cevalb e vx vy).
Proof.
  intros sz m e x y vx vy Hx Hy.
  induction e as [| | |e IH|e1 IH1 e2 IH2|e1 IH1 e2 IH2|e1 IH1 e2 IH2]; cbn [subst geval cevalb];
    try assumption; try reflexivity.
  - now rewrite IH.
  - now rewrite IH1, IH2.
  - now rewrite IH1, IH2.
  - now rewrite IH1, IH2.
Qed.

Lemma template_tt : forall g, g < 16 -> exists e, template g = Some e /\ forall a b, cevalb e a b = tt g a b.
Proof.
  intros g Hg.
  assert (Hok : template_ok g = true).
  { pose proof templates_ok as H. rewrite forallb_forall in H. apply H. apply in_seq. lia. }
  unfold template_ok in Hok. destruct (template g) as [e|]; [|discriminate].
  exists e. split; [reflexivity|]. intros a b.
  cbn [forallb] in Hok. rewrite !andb_true_r in Hok.
  repeat rewrite andb_true_iff in Hok. destruct Hok as [[H00 H01] [H10 H11]].
  destruct a, b; apply eqb_prop; assumption.
Qed.

Lemma geval_gate : forall sz (m : memB) g ib a b x,
  g < 16 -> holds m ib x -> a < length x -> b < length x -> length x <= size_of sz ib ->
  gevalB sz m (gate_gexp g (GLoad ib a) (GLoad ib b)) = Some (tt g (nth a x false) (nth b x false)).
Proof.
  intros sz m g ib a b x Hg Hh Ha Hb Hsz.
  destruct (template_tt g Hg) as [e [He Htt]]. unfold gate_gexp. rewrite He.
  rewrite <- Htt. apply geval_subst; cbn [geval].
  - assert (a <? size_of sz ib = true) as -> by (apply Nat.ltb_lt; lia). now apply Hh.
  - assert (b <? size_of sz ib = true) as -> by (apply Nat.ltb_lt; lia). now apply Hh.
Qed.

(* one layer: writes cells v.. of ob, leaves everything else alone *)
Lemma gen_neurons_correct : forall sz ib ob x l v (m : memB),
  ob <> 0 -> ob <> ib -> holds m ib x -> length x <= size_of sz ib ->
  v + length l <= size_of sz ob ->
  forallb (wf_neuron (length x)) l = true ->
  exists m', bodyB sz m (gen_neurons ib ob v l) = Some m' /\
    (forall i, i < length l -> m' ob (v + i) = Some (nth i (eval_dense l x) false)) /\
    (forall b i, (b <> ob \/ i < v) -> m' b i = m b i).
Proof.
  intros sz ib ob x l. induction l as [|[[a b] g] rest IH]; intros v m Hob Hne Hh Hx Hsz Hwf.
  - exists m. cbn. split; [reflexivity|]. split; [intros i Hi; lia|reflexivity].
  - cbn [gen_neurons exec_body exec_stmt]. cbn [forallb wf_neuron] in Hwf.
    rewrite !andb_true_iff in Hwf. destruct Hwf as [[[Ha Hb] Hg] Hrest].
    apply Nat.ltb_lt in Ha, Hb, Hg. cbn [length] in Hsz.
    assert (ob =? 0 = false) as -> by (apply Nat.eqb_neq; exact Hob).
    assert (v <? size_of sz ob = true) as -> by (apply Nat.ltb_lt; lia). cbn [orb negb].
    rewrite (geval_gate sz m g ib a b x) by assumption.
    set (m1 := upd m ob v (tt g (nth a x false) (nth b x false))).
    assert (Hh1 : holds m1 ib x).
    { intros i Hi. unfold m1, upd. assert (ib =? ob = false) as -> by (apply Nat.eqb_neq; congruence).
      cbn. now apply Hh. }
    destruct (IH (S v) m1 Hob Hne Hh1 Hx ltac:(lia) Hrest) as [m' [He [Hv Ho]]].
    exists m'. split; [exact He|]. split.
    + intros i Hi. destruct i as [|i].
      * rewrite Nat.add_0_r. rewrite Ho by (right; lia). unfold m1, upd. rewrite !Nat.eqb_refl. reflexivity.
      * replace (v + S i) with (S v + i) by lia. rewrite Hv by (cbn [length] in Hi; lia). reflexivity.
    + intros b' i' Hc. rewrite Ho by (destruct Hc; [left; assumption|right; lia]).
      unfold m1, upd. destruct (Nat.eqb_spec b' ob) as [->|]; [|reflexivity].
      destruct (Nat.eqb_spec i' v) as [->|]; [|reflexivity]. destruct Hc; [congruence|lia].
Qed.

Lemma eval_dense_length : forall l x, length (eval_dense l x) = length l.
Proof. intros. unfold eval_dense. apply map_length. Qed.

Lemma gen_layer_holds : forall sz ib ob x l (m : memB),
  ob <> 0 -> ob <> ib -> holds m ib x -> length x <= size_of sz ib ->
  length l <= size_of sz ob -> forallb (wf_neuron (length x)) l = true ->
  exists m', bodyB sz m (gen_neurons ib ob 0 l) = Some m' /\ holds m' ob (eval_dense l x).
Proof.
  intros sz ib ob x l m Hob Hne Hh Hx Hsz Hwf.
  destruct (gen_neurons_correct sz ib ob x l 0 m Hob Hne Hh Hx ltac:(lia) Hwf) as [m' [He [Hv _]]].
  exists m'. split; [exact He|]. intros i Hi. rewrite eval_dense_length in Hi.
  specialize (Hv i Hi). cbn in Hv. exact Hv.
Qed.

(* all layers, any ping-pong position *)
Lemma gen_layers_correct : forall sz ls ib ob x (m : memB),
  ls <> [] ->
  (ib = 0 \/ ib = 2 \/ ib = 3) -> (ob = 2 \/ ob = 3) -> ib <> ob -> (ib = 0 -> ob = 2) ->
  holds m ib x -> length x <= size_of sz ib ->
  (forall l, In l (removelast ls) -> length l <= size_of sz 2 /\ length l <= size_of sz 3) ->
  length (last ls []) <= size_of sz 1 ->
  wf_dense_net (length x) ls = true ->
  exists m', bodyB sz m (gen_layers ib ob ls) = Some m' /\ holds m' 1 (eval_dense_net ls x).
Proof.
  intros sz ls. induction ls as [|l rest IH]; intros ib ob x m Hne Hib Hob Hd Hi0 Hh Hx Hmid Hlast Hwf;
    [congruence|].
  cbn [wf_dense_net] in Hwf. rewrite !andb_true_iff in Hwf. destruct Hwf as [[_ Hwl] Hwr].
  destruct rest as [|l2 rest'].
  - cbn [gen_layers eval_dense_net]. cbn [last] in Hlast.
    apply gen_layer_holds with (ib := ib); try assumption; lia.
  - cbn [gen_layers]. rewrite body_app.
    assert (Hlsz : length l <= size_of sz ob).
    { destruct (Hmid l) as [H2 H3]; [cbn; left; reflexivity|]. destruct Hob; subst; assumption. }
    destruct (gen_layer_holds sz ib ob x l m ltac:(lia) ltac:(congruence) Hh Hx Hlsz Hwl) as [m1 [He1 Hh1]].
    rewrite He1. cbn [eval_dense_net].
    rewrite <- (eval_dense_length l x) in Hwr.
    apply (IH ob (next_out ib) (eval_dense l x) m1).
    + discriminate.
    + destruct Hob; auto.
    + unfold next_out. destruct (Nat.eqb_spec ib 0); [right; reflexivity|]. destruct Hib as [?|[?|?]]; [lia|left; assumption|right; assumption].
    + unfold next_out. destruct (Nat.eqb_spec ib 0) as [E|E]; [specialize (Hi0 E); lia|congruence].
    + intros E. destruct Hob; lia.
    + exact Hh1.
    + rewrite eval_dense_length. exact Hlsz.
    + intros l' Hin. apply Hmid. cbn [removelast]. right. exact Hin.
    + exact Hlast.
    + exact Hwr.
Qed.

Lemma max_list_ge : forall l x, In x l -> x <= max_list l.
Proof.
  induction l as [|y r IH]; intros x Hin; [inversion Hin|].
  unfold max_list. cbn [fold_right]. fold (max_list r). destruct Hin as [->|Hin]; [lia|].
  specialize (IH x Hin). lia.
Qed.

Lemma removelast_incl : forall (A : Type) (l : list A) x, In x (removelast l) -> In x l.
Proof.
  intros A l. induction l as [|y r IH]; intros x Hin; [inversion Hin|].
  destruct r as [|z r']; [inversion Hin|]. cbn [removelast] in Hin. destruct Hin as [->|Hin]; [left; reflexivity|].
  right. apply IH. exact Hin.
Qed.

Lemma removelast_map : forall (A B : Type) (f : A -> B) l, removelast (map f l) = map f (removelast l).
Proof.
  intros A B f l. induction l as [|y r IH]; [reflexivity|]. destruct r as [|z r']; [reflexivity|].
  cbn [map removelast] in *. now rewrite IH.
Qed.

Lemma last_map_length : forall (ls : list dense_layer), last (widths ls) 0 = length (last ls []).
Proof.
  induction ls as [|l r IH]; [reflexivity|]. destruct r as [|l2 r']; [reflexivity|].
  cbn [widths map last] in *. exact IH.
Qed.

Lemma map_nth_seq : forall x : list bool, map (fun i => nth i x false) (seq 0 (length x)) = x.
Proof.
  intro x. apply nth_ext with (d := false) (d' := false).
  - rewrite map_length, seq_length. reflexivity.
  - intros i Hi. rewrite map_length, seq_length in Hi.
    rewrite nth_indep with (d' := (fun i => nth i x false) 0) by (rewrite map_length, seq_length; lia).
    rewrite (map_nth (fun i => nth i x false) (seq 0 (length x)) 0 i). rewrite seq_nth by lia. reflexivity.
Qed.

Lemma read_all_seq : forall (m : memB) b x n k,
  (forall i, k <= i < k + n -> m b i = Some (nth i x false)) ->
  read_all m b (seq k n) = Some (map (fun i => nth i x false) (seq k n)).
Proof.
  intros m b x n. induction n as [|n IH]; intros k H; [reflexivity|].
  cbn [seq read_all map]. rewrite H by lia. rewrite IH; [reflexivity|]. intros i Hi. apply H. lia.
Qed.

Lemma read_all_holds : forall (m : memB) b x, holds m b x ->
  read_all m b (seq 0 (length x)) = Some x.
Proof.
  intros m b x Hh. rewrite read_all_seq with (x := x); [now rewrite map_nth_seq|].
  intros i Hi. apply Hh. lia.
Qed.

Lemma eval_dense_net_length : forall ls x, ls <> [] -> length (eval_dense_net ls x) = length (last ls []).
Proof.
  induction ls as [|l r IH]; intros x Hne; [congruence|]. destruct r as [|l2 r'].
  - cbn. apply eval_dense_length.
  - change (eval_dense_net (l :: l2 :: r') x) with (eval_dense_net (l2 :: r') (eval_dense l x)).
    rewrite IH by discriminate. reflexivity.
Qed.

Theorem gen_dense_correct_bool : forall m x,
  wf_dense_model m = true -> length x = dm_in m ->
  execB (gen_dense m) x = Some (eval_dense_net (dm_layers m) x).
Proof.
  intros [n flat ls] x Hwf Hlen. unfold wf_dense_model in Hwf. cbn [dm_in dm_flat dm_layers] in *.
  rewrite !andb_true_iff in Hwf. destruct Hwf as [[Hne Hn0] Hwf].
  assert (Hls : ls <> []) by (destruct ls; [discriminate|discriminate]).
  unfold execB, exec, gen_dense. cbn [sizes body dm_flat dm_in dm_layers].
  set (sz := dense_sizes {| dm_in := n; dm_flat := flat; dm_layers := ls |}).
  assert (Hs0 : size_of sz 0 = n) by (unfold sz, dense_sizes; cbn [dm_flat dm_in]; destruct flat; reflexivity).
  assert (Hs1 : size_of sz 1 = length (last ls [])).
  { unfold sz, dense_sizes, out_width; cbn [dm_flat dm_in dm_layers]. rewrite <- last_map_length. destruct flat; reflexivity. }
  rewrite Hs0, Hlen, Nat.eqb_refl. cbn [negb].
  assert (Hmid : 2 <= length ls -> forall l, In l (removelast ls) -> length l <= size_of sz 2 /\ length l <= size_of sz 3).
  { intros H2 l Hin. unfold sz, dense_sizes. cbn [dm_flat dm_in dm_layers].
    assert (1 <? length (widths ls) = true) as -> by (unfold widths; rewrite map_length; apply Nat.ltb_lt; lia).
    assert (Hall : length l <= max_list (widths ls)).
    { apply max_list_ge. unfold widths. apply in_map. eapply removelast_incl; eassumption. }
    assert (Hrl : length l <= max_list (removelast (widths ls))).
    { apply max_list_ge. unfold widths. rewrite removelast_map. apply in_map. exact Hin. }
    destruct flat; cbn [app size_of nth]; lia. }
  assert (Hmid' : forall l, In l (removelast ls) -> length l <= size_of sz 2 /\ length l <= size_of sz 3).
  { intros l Hin. apply Hmid; [|exact Hin]. destruct ls as [|a [|b r]]; cbn in *; try contradiction; lia. }
  rewrite <- Hlen in Hwf.
  destruct flat.
  - (* Flatten first: memcpy(linear_input, inp, n) *)
    cbn [exec_body exec_stmt]. cbn [Nat.eqb orb].
    assert (Hs2 : n <= size_of sz 2) by (unfold sz, dense_sizes; cbn; lia).
    assert (n <=? size_of sz 2 = true) as -> by (apply Nat.leb_le; exact Hs2).
    rewrite Hs0, Nat.leb_refl. cbn [negb orb].
    assert (Hinit : all_init (init_mem x) 0 n = true).
    { unfold all_init. apply forallb_forall. intros i Hi. apply in_seq in Hi. unfold init_mem. cbn.
      destruct (nth_error x i) eqn:E; [reflexivity|]. apply nth_error_None in E. lia. }
    rewrite Hinit. cbn [negb].
    set (m1 := fun b i : nat => if (b =? 2) && (i <? n) then init_mem x 0 i else init_mem x b i).
    assert (Hh : holds m1 2 x).
    { intros i Hi. unfold m1. cbn [Nat.eqb andb]. assert (i <? n = true) as -> by (apply Nat.ltb_lt; lia).
      unfold init_mem. cbn. apply nth_error_nth'. exact Hi. }
    destruct (gen_layers_correct sz ls 2 3 x m1 Hls ltac:(auto) ltac:(auto) ltac:(lia) ltac:(lia) Hh
                ltac:(lia) Hmid' ltac:(lia) Hwf) as [m' [He Hout]].
    rewrite He. rewrite Hs1. rewrite <- eval_dense_net_length with (x := x) by exact Hls.
    apply read_all_holds. exact Hout.
  - assert (Hh : holds (init_mem x) 0 x).
    { intros i Hi. unfold init_mem. cbn. apply nth_error_nth'. exact Hi. }
    destruct (gen_layers_correct sz ls 0 2 x (init_mem x) Hls ltac:(auto) ltac:(auto) ltac:(lia) ltac:(auto) Hh
                ltac:(lia) Hmid' ltac:(lia) Hwf) as [m' [He Hout]].
    rewrite He. rewrite Hs1. rewrite <- eval_dense_net_length with (x := x) by exact Hls.
    apply read_all_holds. exact Hout.
Qed.

(* words: every bit lane of every word size *)
Theorem gen_dense_correct_words : forall W m inp,
  (0 < W)%Z -> wf_dense_model m = true -> length inp = dm_in m ->
  exists out, execZ W (gen_dense m) inp = Some out /\
    length out = out_width m /\
    forall j, (0 <= j < W)%Z -> map (lane j) out = eval_dense_net (dm_layers m) (map (lane j) inp).
Proof.
  intros W m inp HW Hwf Hlen.
  assert (H0 := gen_dense_correct_bool m (map (lane 0) inp) Hwf ltac:(rewrite map_length; exact Hlen)).
  destruct (exec_words W (gen_dense m) inp _ HW H0) as [out [Hz Hall]].
  exists out. split; [exact Hz|]. split.
  - assert (E := Hall 0%Z ltac:(lia)). rewrite H0 in E. injection E as E.
    apply (f_equal (@length bool)) in E. rewrite map_length in E. rewrite <- E.
    unfold wf_dense_model in Hwf. rewrite !andb_true_iff in Hwf. destruct Hwf as [[Hne _] _].
    rewrite eval_dense_net_length by (destruct (dm_layers m); [discriminate|discriminate]).
    unfold out_width. now rewrite last_map_length.
  - intros j Hj. specialize (Hall j Hj).
    rewrite (gen_dense_correct_bool m (map (lane j) inp) Hwf) in Hall by (rewrite map_length; exact Hlen).
    injection Hall as Hall. symmetry. exact Hall.
Qed.
