(* soft Walsh output: logistic(form / temperature); thresholding it at one half gives the sign *)
From Coq Require Import Reals Lra.
Local Open Scope R_scope.

Definition sigmoid (x : R) : R := / (1 + exp (- x)).

Lemma sigmoid_half_iff : forall y, sigmoid y > / 2 <-> y > 0.
Proof.
  intros y. unfold sigmoid.
  assert (He : 0 < exp (- y)) by apply exp_pos.
  split; intro H.
  - assert (1 + exp (- y) < 2).
    { destruct (Rlt_or_le (1 + exp (- y)) 2) as [Hlt|Hge]; [exact Hlt|]. exfalso.
      assert (/ (1 + exp (- y)) <= / 2) by (apply Rinv_le_contravar; lra). lra. }
    assert (exp (- y) < exp 0) by (rewrite exp_0; lra).
    apply exp_lt_inv in H1. lra.
  - assert (exp (- y) < exp 0) by (apply exp_increasing; lra). rewrite exp_0 in H0.
    apply Rinv_lt_contravar; [|lra]. apply Rmult_lt_0_compat; lra.
Qed.

Theorem soft_threshold : forall x tau, 0 < tau -> (sigmoid (x / tau) > / 2 <-> x > 0).
Proof.
  intros x tau Ht. rewrite sigmoid_half_iff. unfold Rdiv. split; intro H.
  - assert (0 < / tau) by (apply Rinv_0_lt_compat; exact Ht).
    destruct (Rle_or_lt x 0) as [Hx|Hx]; [|lra]. exfalso.
    assert (x * / tau <= 0 * / tau) by (apply Rmult_le_compat_r; lra). lra.
  - apply Rmult_lt_0_compat; [lra|]. apply Rinv_0_lt_compat. exact Ht.
Qed.

Lemma sigmoid_range : forall x, 0 < sigmoid x < 1.
Proof.
  intros x. unfold sigmoid. assert (0 < exp (- x)) by apply exp_pos. split.
  - apply Rinv_0_lt_compat. lra.
  - rewrite <- Rinv_1 at 2. apply Rinv_lt_contravar; [rewrite Rmult_1_l; lra|lra].
Qed.
