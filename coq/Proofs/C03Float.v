(* binary32: with one-hot weights and inputs in {0,1} the source's summation
     r = 0; for i in 0..15: r = r + w_i * op_i(a, b)
   yields exactly the table bit of the selected gate (finite domain: 16 gates x 4 inputs, kernel computation
   over Flocq's IEEE-754 binary32 with round-to-nearest-even).  Uses the relaxations regenerated in Gen/Ops.v. *)
From Coq Require Import ZArith List Bool.
From Flocq Require Import IEEE754.BinarySingleNaN IEEE754.Bits IEEE754.Binary.
From TLX Require Import Model.Bits Model.Poly Gen.Ops.
Import ListNotations.

Definition f32_of_Z (z : Z) : binary32 :=
  b32_of_bits (match z with 0 => 0 | 1 => 1065353216 | 2 => 1073741824 | _ => 2143289344 (* NaN: unknown literal *) end)%Z.

Definition add32 := b32_plus mode_NE.
Definition sub32 := b32_minus mode_NE.
Definition mul32 := b32_mult mode_NE.
Definition peval32 := peval add32 sub32 mul32 f32_of_Z.

Definition onehot32 (g i : nat) : binary32 := f32_of_Z (if Nat.eqb g i then 1 else 0)%Z.

Definition mixture32 (g : nat) (a b : binary32) : binary32 :=
  fold_left (fun r i => add32 r (mul32 (onehot32 g i) (peval32 (op i) a b))) (seq 0 mix_n) (f32_of_Z 0).

Definition b2f (x : bool) : binary32 := f32_of_Z (if x then 1 else 0)%Z.

Definition exact_case (g : nat) (a b : bool) : bool :=
  Z.eqb (bits_of_b32 (mixture32 g (b2f a) (b2f b))) (bits_of_b32 (b2f (tt g a b))).

Lemma mixture32_exact : forallb (fun g => forallb (fun a => forallb (fun b => exact_case g a b) [false; true]) [false; true]) (seq 0 16) = true.
Proof. vm_compute. reflexivity. Qed.

(* the same for the vectorised table used by the conv layers (any summation order gives the same result when at most one
   summand is non-zero; here the order of the list) *)
Definition mixture32_vec (g : nat) (a b : binary32) : binary32 :=
  fold_left (fun r i => add32 r (mul32 (onehot32 g i) (peval32 (opvec i) a b))) (seq 0 n_opvec) (f32_of_Z 0).
Definition exact_case_vec (g : nat) (a b : bool) : bool :=
  Z.eqb (bits_of_b32 (mixture32_vec g (b2f a) (b2f b))) (bits_of_b32 (b2f (tt g a b))).
Lemma mixture32_vec_exact : forallb (fun g => forallb (fun a => forallb (fun b => exact_case_vec g a b) [false; true]) [false; true]) (seq 0 16) = true.
Proof. vm_compute. reflexivity. Qed.
