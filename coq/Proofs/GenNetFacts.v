(* Correctness of the generator model for conv / pool / flatten / dense stacks (Model/GenNet.v), for every network. *)
From Coq Require Import ZArith List Bool Arith Lia.
From TLX Require Import Model.Bits Model.CLang Model.Netlist Model.Wiring Model.ConvNet Model.GenDense Model.GenNet Gen.GateCode.
From TLX Require Import Proofs.BitsFacts Proofs.CLangFacts Proofs.GenDenseFacts Proofs.WiringFacts Proofs.ConvFacts.
Import ListNotations.

Definition agree_outside (m m' : memB) (B base : nat) : Prop :=
  forall b i, (b <> B \/ i < base) -> m' b i = m b i.

(* a block of assignments B[base + j] = es j, j = 0..n-1, whose right-hand sides read nothing in B[base..] *)
Lemma block_correct : forall sz n (es : nat -> gexp) (vs : nat -> bool) B base (m : memB),
  B <> 0 -> base + n <= size_of sz B ->
  (forall j m', j < n -> agree_outside m m' B base -> gevalB sz m' (es j) = Some (vs j)) ->
  exists m', bodyB sz m (map (fun j => SAssign B (base + j) (es j)) (seq 0 n)) = Some m' /\
    (forall j, j < n -> m' B (base + j) = Some (vs j)) /\
    (forall b i, (b <> B \/ i < base \/ base + n <= i) -> m' b i = m b i).
Proof.
  intros sz n es vs B base m HB. induction n as [|n IH]; intros Hsz Hev.
  - exists m. split; [reflexivity|]. split; [intros j Hj; lia|reflexivity].
  - assert (H1 : base + n <= size_of sz B) by lia.
    assert (H2 : forall j m', j < n -> agree_outside m m' B base -> gevalB sz m' (es j) = Some (vs j))
      by (intros j m' Hj Ha; apply Hev; [lia|exact Ha]).
    destruct (IH H1 H2) as [m1 [He [Hv Ho]]].
    rewrite seq_S, map_app, body_app, He. cbn [Nat.add map exec_body exec_stmt].
    assert (B =? 0 = false) as -> by (apply Nat.eqb_neq; exact HB).
    assert (base + n <? size_of sz B = true) as -> by (apply Nat.ltb_lt; lia). cbn [orb negb].
    assert (Hag : agree_outside m m1 B base).
    { intros b i Hc. apply Ho. destruct Hc as [Hc|Hc]; [left; exact Hc|right; left; exact Hc]. }
    rewrite (Hev n m1 (Nat.lt_succ_diag_r n) Hag).
    eexists. split; [reflexivity|]. split.
    + intros j Hj. unfold upd. destruct (Nat.eq_dec j n) as [->|Hne].
      * rewrite !Nat.eqb_refl. reflexivity.
      * rewrite Nat.eqb_refl. assert (base + j =? base + n = false) as -> by (apply Nat.eqb_neq; lia). cbn [andb].
        apply Hv. lia.
    + intros b i Hc. unfold upd. destruct (Nat.eqb_spec b B) as [->|Hb]; cbn [andb].
      * destruct (Nat.eqb_spec i (base + n)) as [->|Hi]; [destruct Hc as [Hc|[Hc|Hc]]; [congruence|lia|lia]|].
        apply Ho. destruct Hc as [Hc|[Hc|Hc]]; [left; assumption|right; left; assumption|right; right; lia].
      * apply Ho. left. exact Hb.
Qed.

(* ---------- addressing *)
Lemma flat_index_lt : forall dims coords acc, Forall2 lt coords dims ->
  flat_index dims coords acc < (acc + 1) * prod dims.
Proof.
  induction dims as [|n ds IH]; intros coords acc H.
  - inversion H; subst. cbn. lia.
  - inversion H as [|x ? xs ? Hx Hxs]; subst. cbn [flat_index prod fold_right].
    specialize (IH xs (acc * n + x) Hxs). fold (prod ds) in *. nia.
Qed.

Lemma in_image_coords : forall dims pad q, in_image dims pad q = true ->
  Forall2 lt (map (fun v => v - pad) q) dims.
Proof.
  unfold in_image. induction dims as [|n ds IH]; intros pad q H; destruct q as [|x xs]; cbn in H; try discriminate.
  - constructor.
  - apply andb_prop in H. destruct H as [H1 H2]. apply andb_prop in H1. destruct H1 as [Ha Hb].
    apply Nat.leb_le in Ha. apply Nat.ltb_lt in Hb. cbn [map]. constructor; [lia|]. apply IH. exact H2.
Qed.

Lemma src_ref_eval : forall sz (m : memB) prev dims pad start r c C x,
  holds m prev x -> length x = C * prod dims -> length x <= size_of sz prev -> c < C ->
  gevalB sz m (src_ref prev dims pad start (r, c)) = Some (read_padded false dims pad x c (abs_pos start r)).
Proof.
  intros sz m prev dims pad start r c C x Hh Hl Hs Hc. unfold src_ref, read_padded. cbn [fst snd].
  destruct (in_image dims pad (abs_pos start r)) eqn:E; [|reflexivity].
  pose proof (flat_index_lt dims _ c (in_image_coords dims pad _ E)) as Hlt.
  assert (Hix : flat_index dims (map (fun v => v - pad) (abs_pos start r)) c < length x) by (rewrite Hl; nia).
  cbn [geval]. assert (flat_index dims (map (fun v => v - pad) (abs_pos start r)) c <? size_of sz prev = true) as ->
    by (apply Nat.ltb_lt; lia).
  apply Hh. exact Hix.
Qed.

(* the gate statement: evaluates to the table of the gate applied to the two operand values *)
Lemma gate_eval : forall sz (m : memB) g ea eb va vb, g < 16 ->
  gevalB sz m ea = Some va -> gevalB sz m eb = Some vb ->
  gevalB sz m (gate_gexp g ea eb) = Some (tt g va vb).
Proof.
  intros sz m g ea eb va vb Hg Ha Hb. destruct (template_tt g Hg) as [e [He Htt]].
  unfold gate_gexp. rewrite He. rewrite <- Htt. apply geval_subst; assumption.
Qed.
