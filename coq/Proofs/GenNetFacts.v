(* Correctness of the generator model for conv / pool / flatten / dense stacks (Model/GenNet.v), for every network. *)
From Coq Require Import ZArith List Bool Arith Lia.
From TLX Require Import Model.Bits Model.CLang Model.Netlist Model.Wiring Model.ConvNet Model.GenDense Model.GenNet Gen.GateCode.
From TLX Require Import Proofs.BitsFacts Proofs.CLangFacts Proofs.GenDenseFacts Proofs.WiringFacts Proofs.ConvFacts Proofs.HostFacts.
Import ListNotations.

Definition agree_outside (m m' : memB) (B base : nat) : Prop :=
  forall b i, (b <> B \/ i < base) -> m' b i = m b i.

(* a block of assignments B[base + j] = es j, j = 0..n-1, whose right-hand sides read nothing in B[base..] *)
Lemma block_correct : forall sz n (es : nat -> gexp) (vs : nat -> bool) B base (m : memB),
  B <> 0 -> base + n <= size_of sz B ->
  (forall j m', j < n -> agree_outside m m' B base -> gevalB sz m' (es j) = Some (vs j)) ->
  exists m', bodyB sz m (map (fun j => SAssign B (base + j) (es j)) (seq 0 n)) = Some m' /\
    (forall j, j < n -> m' B (base + j) = Some (vs j)) /\
    (forall b i, (b <> B \/ i < base \/ base + n <= i) -> m' b i = m b i).
Proof.
  intros sz n es vs B base m HB. induction n as [|n IH]; intros Hsz Hev.
  - exists m. split; [reflexivity|]. split; [intros j Hj; lia|reflexivity].
  - assert (H1 : base + n <= size_of sz B) by lia.
    assert (H2 : forall j m', j < n -> agree_outside m m' B base -> gevalB sz m' (es j) = Some (vs j))
      by (intros j m' Hj Ha; apply Hev; [lia|exact Ha]).
    destruct (IH H1 H2) as [m1 [He [Hv Ho]]].
    rewrite seq_S, map_app, body_app, He. cbn [Nat.add map exec_body exec_stmt].
    assert (B =? 0 = false) as -> by (apply Nat.eqb_neq; exact HB).
    assert (base + n <? size_of sz B = true) as -> by (apply Nat.ltb_lt; lia). cbn [orb negb].
    assert (Hag : agree_outside m m1 B base).
    { intros b i Hc. apply Ho. destruct Hc as [Hc|Hc]; [left; exact Hc|right; left; exact Hc]. }
    rewrite (Hev n m1 (Nat.lt_succ_diag_r n) Hag).
    eexists. split; [reflexivity|]. split.
    + intros j Hj. unfold upd. destruct (Nat.eq_dec j n) as [->|Hne].
      * rewrite !Nat.eqb_refl. reflexivity.
      * rewrite Nat.eqb_refl. assert (base + j =? base + n = false) as -> by (apply Nat.eqb_neq; lia). cbn [andb].
        apply Hv. lia.
    + intros b i Hc. unfold upd. destruct (Nat.eqb_spec b B) as [->|Hb]; cbn [andb].
      * destruct (Nat.eqb_spec i (base + n)) as [->|Hi]; [destruct Hc as [Hc|[Hc|Hc]]; [congruence|lia|lia]|].
        apply Ho. destruct Hc as [Hc|[Hc|Hc]]; [left; assumption|right; left; assumption|right; right; lia].
      * apply Ho. left. exact Hb.
Qed.

(* ---------- addressing *)
Lemma flat_index_lt : forall dims coords acc, Forall2 lt coords dims ->
  flat_index dims coords acc < (acc + 1) * prod dims.
Proof.
  induction dims as [|n ds IH]; intros coords acc H.
  - inversion H; subst. cbn. lia.
  - inversion H as [|x ? xs ? Hx Hxs]; subst. cbn [flat_index prod fold_right].
    specialize (IH xs (acc * n + x) Hxs). fold (prod ds) in *. nia.
Qed.

Lemma in_image_coords : forall dims pad q, in_image dims pad q = true ->
  Forall2 lt (map (fun v => v - pad) q) dims.
Proof.
  unfold in_image. induction dims as [|n ds IH]; intros pad q H; destruct q as [|x xs]; cbn in H; try discriminate.
  - constructor.
  - apply andb_prop in H. destruct H as [H1 H2]. apply andb_prop in H1. destruct H1 as [Ha Hb].
    apply Nat.leb_le in Ha. apply Nat.ltb_lt in Hb. cbn [map]. constructor; [lia|]. apply IH. exact H2.
Qed.

Lemma src_ref_eval : forall sz (m : memB) prev dims pad start r c C x,
  holds m prev x -> length x = C * prod dims -> length x <= size_of sz prev -> c < C ->
  gevalB sz m (src_ref prev dims pad start (r, c)) = Some (read_padded false dims pad x c (abs_pos start r)).
Proof.
  intros sz m prev dims pad start r c C x Hh Hl Hs Hc. unfold src_ref, read_padded. cbn [fst snd].
  destruct (in_image dims pad (abs_pos start r)) eqn:E; [|reflexivity].
  pose proof (flat_index_lt dims _ c (in_image_coords dims pad _ E)) as Hlt.
  assert (Hix : flat_index dims (map (fun v => v - pad) (abs_pos start r)) c < length x) by (rewrite Hl; nia).
  cbn [geval]. assert (flat_index dims (map (fun v => v - pad) (abs_pos start r)) c <? size_of sz prev = true) as ->
    by (apply Nat.ltb_lt; lia).
  apply Hh. exact Hix.
Qed.

(* the gate statement: evaluates to the table of the gate applied to the two operand values *)
Lemma gate_eval : forall sz (m : memB) g ea eb va vb, g < 16 ->
  gevalB sz m ea = Some va -> gevalB sz m eb = Some vb ->
  gevalB sz m (gate_gexp g ea eb) = Some (tt g va vb).
Proof.
  intros sz m g ea eb va vb Hg Ha Hb. destruct (template_tt g Hg) as [e [He Htt]].
  unfold gate_gexp. rewrite He. rewrite <- Htt. apply geval_subst; assumption.
Qed.

(* ---------- small list facts *)
Lemma nth_map_seq : forall (A : Type) (f : nat -> A) n j d, j < n -> nth j (map f (seq 0 n)) d = f j.
Proof.
  intros A f n j d Hj. rewrite nth_indep with (d' := f 0) by (rewrite map_length, seq_length; exact Hj).
  rewrite map_nth. rewrite seq_nth by exact Hj. reflexivity.
Qed.

Lemma flat_map_ext_in' : forall (A B : Type) (h1 h2 : A -> list B) l,
  (forall a, In a l -> h1 a = h2 a) -> flat_map h1 l = flat_map h2 l.
Proof.
  intros A B h1 h2 l H. induction l as [|a r IH]; [reflexivity|]. cbn [flat_map].
  rewrite H by (left; reflexivity). rewrite IH; [reflexivity|]. intros a' Ha. apply H. right. exact Ha.
Qed.

Lemma flat_map_grid : forall (B : Type) (f : nat -> nat -> list B) W len,
  flat_map (fun i => flat_map (fun b => f i b) (seq 0 W)) (seq 0 len)
  = flat_map (fun q => f (q / W) (q mod W)) (seq 0 (len * W)).
Proof.
  intros B f W len. rewrite <- (flat_map_reindex B (fun q => f (q / W) (q mod W)) W len).
  apply flat_map_ext_in'. intros i _. apply flat_map_ext_in'. intros b Hb. apply in_seq in Hb.
  assert (HW : W <> 0) by lia.
  rewrite Nat.div_add_l by exact HW. rewrite Nat.div_small by lia. rewrite Nat.add_0_r.
  rewrite Nat.add_comm, Nat.mod_add by exact HW. rewrite Nat.mod_small by lia. reflexivity.
Qed.

Lemma gates_lt16 : forall gates level node k,
  forallb (forallb (forallb (fun g => g <? 16))) gates = true -> gate_at gates level node k < 16.
Proof.
  intros gates level node k H. unfold gate_at.
  destruct (nth_in_or_default level gates []) as [Hin| ->]; [|destruct node; cbn; destruct k; lia].
  rewrite forallb_forall in H. specialize (H _ Hin).
  destruct (nth_in_or_default node (nth level gates []) []) as [Hin2| ->]; [|destruct k; cbn; lia].
  rewrite forallb_forall in H. specialize (H _ Hin2).
  destruct (nth_in_or_default k (nth node (nth level gates []) []) 0) as [Hin3| ->]; [|lia].
  rewrite forallb_forall in H. specialize (H _ Hin3). apply Nat.ltb_lt. exact H.
Qed.

(* ---------- the levels of one tree *)
Notation treeB gates := (tree_levels false (fun level node k => tt (gate_at gates level node k))).

Lemma levels_correct : forall n_levels sz loc gates k level pb nb dst di cur (m : memB),
  1 <= n_levels -> length cur = 2 ^ n_levels -> nb = pb + 2 ^ n_levels ->
  loc <> 0 -> dst <> 0 -> loc <> dst ->
  nb + (2 ^ n_levels - 2) <= size_of sz loc -> di < size_of sz dst ->
  (forall j, j < 2 ^ n_levels -> m loc (pb + j) = Some (nth j cur false)) ->
  (forall l j, gate_at gates l j k < 16) ->
  exists m', bodyB sz m (gen_levels loc gates k level n_levels pb (2 ^ n_levels) nb dst di) = Some m' /\
    m' dst di = Some (nth 0 (treeB gates k level n_levels cur) false) /\
    (forall b i, (b <> loc \/ i < nb) -> (b <> dst \/ i <> di) -> m' b i = m b i).
Proof.
  induction n_levels as [|n IH]; intros sz loc gates k level pb nb dst di cur m H1 Hlen Hnb Hl0 Hd0 Hld Hsz Hdi Hcur Hg; [lia|].
  destruct n as [|n].
  - (* last level: one gate into dst *)
    change (2 ^ 1) with 2 in *. cbn [gen_levels exec_body exec_stmt].
    assert (dst =? 0 = false) as -> by (apply Nat.eqb_neq; exact Hd0).
    assert (di <? size_of sz dst = true) as -> by (apply Nat.ltb_lt; exact Hdi). cbn [orb negb].
    rewrite (gate_eval sz m _ _ _ (nth 0 cur false) (nth 1 cur false)).
    + eexists. split; [reflexivity|]. split.
      * unfold upd. rewrite !Nat.eqb_refl. cbn [andb]. cbn [tree_levels]. rewrite Hlen. cbn. reflexivity.
      * intros b i _ Hc. unfold upd. destruct (Nat.eqb_spec b dst) as [->|]; [|reflexivity].
        destruct (Nat.eqb_spec i di) as [->|]; [|reflexivity]. destruct Hc; congruence.
    + apply Hg.
    + cbn [geval]. assert (pb <? size_of sz loc = true) as -> by (apply Nat.ltb_lt; lia).
      rewrite <- (Nat.add_0_r pb). apply Hcur. lia.
    + cbn [geval]. assert (pb + 1 <? size_of sz loc = true) as -> by (apply Nat.ltb_lt; lia).
      apply Hcur. lia.
  - (* an inner level: 2^(S n) gates into fresh temporaries, then the rest *)
    set (h := 2 ^ S n) in *.
    assert (Hh : 2 ^ S (S n) = 2 * h) by (unfold h; rewrite (Nat.pow_succ_r' 2 (S n)); reflexivity).
    assert (Hdiv : 2 ^ S (S n) / 2 = h) by (rewrite Hh, Nat.mul_comm; apply Nat.div_mul; lia).
    assert (Hh1 : 2 <= h) by (unfold h; rewrite Nat.pow_succ_r'; pose proof (Nat.pow_nonzero 2 n); lia).
    change (gen_levels loc gates k level (S (S n)) pb (2 ^ S (S n)) nb dst di) with
      (map (fun j => SAssign loc (nb + j)
                      (gate_gexp (gate_at gates level j k) (GLoad loc (pb + 2 * j)) (GLoad loc (pb + 2 * j + 1))))
           (seq 0 (2 ^ S (S n) / 2))
       ++ gen_levels loc gates k (S level) (S n) nb (2 ^ S (S n) / 2) (nb + 2 ^ S (S n) / 2) dst di).
    rewrite Hdiv. rewrite body_app.
    set (nxt := fun j => tt (gate_at gates level j k) (nth (2 * j) cur false) (nth (2 * j + 1) cur false)).
    destruct (block_correct sz h
                (fun j => gate_gexp (gate_at gates level j k) (GLoad loc (pb + 2 * j)) (GLoad loc (pb + 2 * j + 1)))
                nxt loc nb m Hl0 ltac:(lia)) as [m1 [He1 [Hv1 Ho1]]].
    { intros j m' Hj Hag. unfold nxt. apply gate_eval; [apply Hg| |]; cbn [geval].
      - assert (pb + 2 * j <? size_of sz loc = true) as -> by (apply Nat.ltb_lt; lia).
        rewrite Hag by (right; lia). apply Hcur. lia.
      - assert (pb + 2 * j + 1 <? size_of sz loc = true) as -> by (apply Nat.ltb_lt; lia).
        rewrite Hag by (right; lia). rewrite <- Nat.add_assoc. apply Hcur. lia. }
    rewrite He1.
    assert (A1 : length (map nxt (seq 0 h)) = 2 ^ S n) by (rewrite map_length, seq_length; reflexivity).
    assert (A2 : nb + h = nb + 2 ^ S n) by reflexivity.
    assert (A3 : nb + h + (2 ^ S n - 2) <= size_of sz loc) by (fold h; lia).
    assert (A4 : forall j, j < 2 ^ S n -> m1 loc (nb + j) = Some (nth j (map nxt (seq 0 h)) false)).
    { fold h. intros j Hj. rewrite nth_map_seq by exact Hj. apply Hv1. exact Hj. }
    destruct (IH sz loc gates k (S level) nb (nb + h) dst di (map nxt (seq 0 h)) m1 ltac:(lia) A1 A2 Hl0 Hd0 Hld A3 Hdi A4 Hg)
      as [m2 [He2 [Hv2 Ho2]]].
    fold h in He2. rewrite He2. eexists. split; [reflexivity|]. split.
    + rewrite Hv2. cbn [tree_levels]. rewrite Hlen, Hdiv. reflexivity.
    + intros b i Hc1 Hc2. rewrite Ho2; [|destruct Hc1; [left; assumption|right; lia]|exact Hc2].
      apply Ho1. destruct Hc1; [left; assumption|right; left; assumption].
Qed.

(* ---------- one convolution cell (kernel k at output position p) *)
Notation fnB cs := (fun level node k => tt (gate_at (cv_gates cs) level node k)).

Lemma wf_conv_gates : forall cs l j k, wf_conv cs = true -> gate_at (cv_gates cs) l j k < 16.
Proof. intros cs l j k H. unfold wf_conv in H. apply andb_prop in H. apply gates_lt16. apply H. Qed.

Lemma wf_conv_chan : forall cs k g, wf_conv cs = true -> k < cv_K cs -> g < 2 ^ cv_depth cs ->
  snd (nth g (nth k (cv_rel_a cs) []) ([], 0)) < cv_C cs /\ snd (nth g (nth k (cv_rel_b cs) []) ([], 0)) < cv_C cs.
Proof.
  intros cs k g H Hk Hg. unfold wf_conv in H. apply andb_prop in H. destruct H as [_ H].
  rewrite forallb_forall in H. specialize (H k ltac:(apply in_seq; lia)).
  rewrite forallb_forall in H. specialize (H g ltac:(apply in_seq; lia)).
  apply andb_prop in H. destruct H as [Ha Hb]. apply Nat.ltb_lt in Ha, Hb. split; assumption.
Qed.

Definition leaf_val (cs : conv_spec) (x : list bool) (k p g : nat) : bool :=
  tt (gate_at (cv_gates cs) 0 g k)
     (let '(r, c) := nth g (nth k (cv_rel_a cs) []) ([], 0) in window false cs x p c r)
     (let '(r, c) := nth g (nth k (cv_rel_b cs) []) ([], 0) in window false cs x p c r).

Lemma leaf_eval : forall sz (m : memB) prev cs k p g x,
  wf_conv cs = true -> k < cv_K cs -> g < 2 ^ cv_depth cs ->
  holds m prev x -> length x = cv_C cs * prod (cv_dims cs) -> length x <= size_of sz prev ->
  gevalB sz m (gate_gexp (gate_at (cv_gates cs) 0 g k)
                 (src_ref prev (cv_dims cs) (cv_pad cs) (window_start cs p) (nth g (nth k (cv_rel_a cs) []) ([], 0)))
                 (src_ref prev (cv_dims cs) (cv_pad cs) (window_start cs p) (nth g (nth k (cv_rel_b cs) []) ([], 0))))
  = Some (leaf_val cs x k p g).
Proof.
  intros sz m prev cs k p g x Hwf Hk Hg Hh Hl Hs. unfold leaf_val.
  destruct (wf_conv_chan cs k g Hwf Hk Hg) as [Ha Hb].
  destruct (nth g (nth k (cv_rel_a cs) []) ([], 0)) as [ra ca].
  destruct (nth g (nth k (cv_rel_b cs) []) ([], 0)) as [rb cb]. cbn [snd] in Ha, Hb.
  apply gate_eval; [apply wf_conv_gates; exact Hwf| |]; unfold window;
    apply src_ref_eval with (C := cv_C cs); assumption.
Qed.

Lemma holds_agree : forall (m m' : memB) b x, holds m b x -> (forall i, m' b i = m b i) -> holds m' b x.
Proof. intros m m' b x H Ha i Hi. rewrite Ha. apply H. exact Hi. Qed.

Lemma conv_cell_correct : forall sz loc prev dst cs k p base x (m : memB),
  wf_conv cs = true -> k < cv_K cs ->
  loc <> 0 -> dst <> 0 -> loc <> dst -> prev <> loc -> prev <> dst ->
  holds m prev x -> length x = cv_C cs * prod (cv_dims cs) -> length x <= size_of sz prev ->
  base + locals_per_cell (cv_depth cs) <= size_of sz loc ->
  k * prod (cv_out_dims cs) + p < size_of sz dst ->
  exists m', bodyB sz m (gen_conv_cell loc prev dst cs k p base) = Some m' /\
    m' dst (k * prod (cv_out_dims cs) + p) = Some (kernel_tree false (fnB cs) cs k (window false cs x p)) /\
    (forall b i, b <> loc -> (b <> dst \/ i <> k * prod (cv_out_dims cs) + p) -> m' b i = m b i).
Proof.
  intros sz loc prev dst cs k p base x m Hwf Hk Hl0 Hd0 Hld Hpl Hpd Hh Hlen Hsz Hloc Hdi.
  unfold gen_conv_cell, kernel_tree. fold (leaf_val cs x k p).
  change (map (fun g => tt (gate_at (cv_gates cs) 0 g k)
                          (let '(r, c) := nth g (nth k (cv_rel_a cs) []) ([], 0) in window false cs x p c r)
                          (let '(r, c) := nth g (nth k (cv_rel_b cs) []) ([], 0) in window false cs x p c r))
              (seq 0 (2 ^ cv_depth cs))) with (map (leaf_val cs x k p) (seq 0 (2 ^ cv_depth cs))).
  destruct (cv_depth cs) as [|d] eqn:Ed.
  - (* depth 0 *)
    cbn [exec_body exec_stmt].
    assert (dst =? 0 = false) as -> by (apply Nat.eqb_neq; exact Hd0).
    assert (k * prod (cv_out_dims cs) + p <? size_of sz dst = true) as -> by (apply Nat.ltb_lt; exact Hdi). cbn [orb negb].
    rewrite (leaf_eval sz m prev cs k p 0 x Hwf Hk ltac:(rewrite Ed; cbn; lia) Hh Hlen Hsz).
    eexists. split; [reflexivity|]. split.
    + unfold upd. rewrite !Nat.eqb_refl. reflexivity.
    + intros b i _ Hc. unfold upd. destruct (Nat.eqb_spec b dst) as [->|]; [|reflexivity].
      destruct (Nat.eqb_spec i (k * prod (cv_out_dims cs) + p)) as [->|]; [|reflexivity]. destruct Hc; congruence.
  - rewrite body_app. unfold locals_per_cell in Hloc.
    assert (Hp2 : 2 ^ S (S d) = 2 * 2 ^ S d) by (rewrite (Nat.pow_succ_r' 2 (S d)); reflexivity).
    assert (Hpos : 2 <= 2 ^ S d) by (rewrite (Nat.pow_succ_r' 2 d); pose proof (Nat.pow_nonzero 2 d); lia).
    destruct (block_correct sz (2 ^ S d)
                (fun g => gate_gexp (gate_at (cv_gates cs) 0 g k)
                   (src_ref prev (cv_dims cs) (cv_pad cs) (window_start cs p) (nth g (nth k (cv_rel_a cs) []) ([], 0)))
                   (src_ref prev (cv_dims cs) (cv_pad cs) (window_start cs p) (nth g (nth k (cv_rel_b cs) []) ([], 0))))
                (leaf_val cs x k p) loc base m Hl0 ltac:(lia)) as [m1 [He1 [Hv1 Ho1]]].
    { intros g m' Hg Hag. apply leaf_eval; try assumption; [rewrite Ed; exact Hg|].
      apply holds_agree with (m := m); [exact Hh|]. intros i. apply Hag. left. exact Hpl. }
    rewrite He1.
    assert (A1 : length (map (leaf_val cs x k p) (seq 0 (2 ^ S d))) = 2 ^ S d) by (rewrite map_length, seq_length; reflexivity).
    assert (A4 : forall j, j < 2 ^ S d -> m1 loc (base + j) = Some (nth j (map (leaf_val cs x k p) (seq 0 (2 ^ S d))) false)).
    { intros j Hj. rewrite nth_map_seq by exact Hj. apply Hv1. exact Hj. }
    destruct (levels_correct (S d) sz loc (cv_gates cs) k 1 base (base + 2 ^ S d) dst (k * prod (cv_out_dims cs) + p)
                (map (leaf_val cs x k p) (seq 0 (2 ^ S d))) m1 ltac:(lia) A1 eq_refl Hl0 Hd0 Hld ltac:(lia) Hdi A4
                (fun l j => wf_conv_gates cs l j k Hwf)) as [m2 [He2 [Hv2 Ho2]]].
    rewrite He2. eexists. split; [reflexivity|]. split; [exact Hv2|].
    intros b i Hb Hc. rewrite Ho2; [|left; exact Hb|exact Hc]. apply Ho1. left. exact Hb.
Qed.

(* ---------- a grid of cells, cell q writing dst[q] and scratch cells of loc only *)
Lemma cells_correct : forall sz (cell : nat -> list stmt) (v : nat -> bool) loc dst n (m : memB),
  loc <> dst ->
  (forall q m1, q < n -> (forall b i, b <> loc -> b <> dst -> m1 b i = m b i) ->
     exists m2, bodyB sz m1 (cell q) = Some m2 /\ m2 dst q = Some (v q) /\
       (forall b i, b <> loc -> (b <> dst \/ i <> q) -> m2 b i = m1 b i)) ->
  exists m', bodyB sz m (flat_map cell (seq 0 n)) = Some m' /\
    (forall q, q < n -> m' dst q = Some (v q)) /\
    (forall b i, b <> loc -> (b <> dst \/ n <= i) -> m' b i = m b i).
Proof.
  intros sz cell v loc dst n m Hld. induction n as [|n IH]; intros Hcell.
  - exists m. split; [reflexivity|]. split; [intros q Hq; lia|reflexivity].
  - destruct IH as [m1 [He1 [Hv1 Ho1]]]; [intros q m1 Hq Hag; apply Hcell; [lia|exact Hag]|].
    rewrite seq_S, flat_map_app, body_app, He1. cbn [Nat.add flat_map]. rewrite app_nil_r.
    destruct (Hcell n m1 ltac:(lia)) as [m2 [He2 [Hv2 Ho2]]].
    { intros b i Hb Hb'. apply Ho1; [exact Hb|left; exact Hb']. }
    exists m2. split; [exact He2|]. split.
    + intros q Hq. destruct (Nat.eq_dec q n) as [->|Hne]; [exact Hv2|].
      rewrite Ho2; [|congruence|right; exact Hne]. apply Hv1. lia.
    + intros b i Hb Hc. rewrite Ho2; [|exact Hb|destruct Hc; [left; assumption|right; lia]].
      apply Ho1; [exact Hb|destruct Hc; [left; assumption|right; lia]].
Qed.

Lemma divmod_grid : forall q K P, q < K * P -> q / P < K /\ q mod P < P /\ q / P * P + q mod P = q.
Proof.
  intros q K P Hq. assert (HP : P <> 0) by (intros ->; lia).
  split; [apply Nat.div_lt_upper_bound; [exact HP|lia]|]. split; [apply Nat.mod_upper_bound; exact HP|].
  pose proof (Nat.div_mod q P HP). lia.
Qed.

Lemma conv_layer_correct : forall sz loc prev dst cs base x (m : memB),
  wf_conv cs = true ->
  loc <> 0 -> dst <> 0 -> loc <> dst -> prev <> loc -> prev <> dst ->
  holds m prev x -> length x = cv_C cs * prod (cv_dims cs) -> length x <= size_of sz prev ->
  base + conv_locals cs <= size_of sz loc ->
  cv_K cs * prod (cv_out_dims cs) <= size_of sz dst ->
  exists m', bodyB sz m (gen_conv loc prev dst cs base) = Some m' /\
    holds m' dst (conv_eval cs x) /\
    (forall b i, b <> loc -> b <> dst -> m' b i = m b i).
Proof.
  intros sz loc prev dst cs base x m Hwf Hl0 Hd0 Hld Hpl Hpd Hh Hlen Hsz Hloc Hdst.
  unfold gen_conv. rewrite flat_map_grid. set (P := prod (cv_out_dims cs)) in *.
  set (lpc := locals_per_cell (cv_depth cs)) in *. unfold conv_locals in Hloc. fold P lpc in Hloc.
  destruct (cells_correct sz
              (fun q => gen_conv_cell loc prev dst cs (q / P) (q mod P) (base + (q / P * P + q mod P) * lpc))
              (fun q => kernel_tree false (fnB cs) cs (q / P) (window false cs x (q mod P)))
              loc dst (cv_K cs * P) m Hld) as [m' [He [Hv Ho]]].
  { intros q m1 Hq Hag. destruct (divmod_grid q (cv_K cs) P Hq) as [Hk [Hp Hqe]].
    destruct (conv_cell_correct sz loc prev dst cs (q / P) (q mod P) (base + (q / P * P + q mod P) * lpc) x m1)
      as [m2 [He2 [Hv2 Ho2]]]; try assumption.
    - apply holds_agree with (m := m); [exact Hh|]. intros i. apply Hag; assumption.
    - fold lpc. rewrite Hqe. nia.
    - fold P. rewrite Hqe. lia.
    - fold P in Hv2, Ho2. rewrite Hqe in Hv2, Ho2. exists m2. split; [exact He2|]. split; [exact Hv2|exact Ho2]. }
  exists m'. split; [exact He|]. split.
  - intros i Hi. unfold conv_eval in Hi. rewrite conv_out_length in Hi. fold P in Hi.
    rewrite Hv by exact Hi. f_equal. destruct (divmod_grid i (cv_K cs) P Hi) as [Hk [Hp Hqe]].
    rewrite <- Hqe at 3. unfold conv_eval. symmetry. apply conv_shared_tree; assumption.
  - intros b i Hb Hb'. apply Ho; [exact Hb|left; exact Hb'].
Qed.

(* ---------- OR pooling *)
Lemma existsb_filter_map : forall (A B : Type) (g : A -> B) (p f : B -> bool) l,
  existsb (fun t => if p (g t) then f (g t) else false) l = existsb f (filter p (map g l)).
Proof.
  intros A B g p f l. induction l as [|a r IH]; [reflexivity|]. cbn [existsb map filter].
  destruct (p (g a)); cbn [existsb]; rewrite IH; reflexivity.
Qed.

Lemma or_chain : forall sz dst di (cellf : list nat -> gexp) (val : list nat -> bool) rest (m : memB) acc,
  dst <> 0 -> di < size_of sz dst -> m dst di = Some acc ->
  (forall q m1, In q rest -> (forall b i, (b <> dst \/ i <> di) -> m1 b i = m b i) -> gevalB sz m1 (cellf q) = Some (val q)) ->
  exists m', bodyB sz m (map (fun q => SAssign dst di (GOr (GLoad dst di) (cellf q))) rest) = Some m' /\
    m' dst di = Some (acc || existsb val rest) /\
    (forall b i, (b <> dst \/ i <> di) -> m' b i = m b i).
Proof.
  intros sz dst di cellf val rest. induction rest as [|q rest IH]; intros m acc Hd0 Hdi Hacc Hcell.
  - exists m. split; [reflexivity|]. split; [rewrite orb_false_r; exact Hacc|reflexivity].
  - cbn [map exec_body exec_stmt].
    assert (dst =? 0 = false) as -> by (apply Nat.eqb_neq; exact Hd0).
    assert (Hlt : di <? size_of sz dst = true) by (apply Nat.ltb_lt; exact Hdi). rewrite Hlt. cbn [orb negb geval].
    rewrite Hlt, Hacc. rewrite (Hcell q m (or_introl eq_refl) (fun b i _ => eq_refl)). cbn [bin].
    destruct (IH (upd m dst di (acc || val q)) (acc || val q) Hd0 Hdi) as [m' [He [Hv Ho]]].
    + unfold upd. rewrite !Nat.eqb_refl. reflexivity.
    + intros q' m1 Hin Hag. apply Hcell; [right; exact Hin|]. intros b i Hc. rewrite Hag by exact Hc.
      unfold upd. destruct (Nat.eqb_spec b dst) as [->|]; [|reflexivity].
      destruct (Nat.eqb_spec i di) as [->|]; [|reflexivity]. destruct Hc; congruence.
    + exists m'. split; [exact He|]. split.
      * rewrite Hv. cbn [existsb]. rewrite orb_assoc. reflexivity.
      * intros b i Hc. rewrite Ho by exact Hc. unfold upd. destruct (Nat.eqb_spec b dst) as [->|]; [|reflexivity].
        destruct (Nat.eqb_spec i di) as [->|]; [|reflexivity]. destruct Hc; congruence.
Qed.

Lemma pool_cell_correct : forall sz prev dst ps c oi x (m : memB),
  pool_window ps (unravel (pl_out_dims ps) oi) <> [] -> c < pl_C ps ->
  dst <> 0 -> prev <> dst ->
  holds m prev x -> length x = pl_C ps * prod (pl_dims ps) -> length x <= size_of sz prev ->
  c * prod (pl_out_dims ps) + oi < size_of sz dst ->
  exists m', bodyB sz m (gen_pool_cell prev dst ps c oi) = Some m' /\
    m' dst (c * prod (pl_out_dims ps) + oi) = Some (pool_cell ps x c (unravel (pl_out_dims ps) oi)) /\
    (forall b i, (b <> dst \/ i <> c * prod (pl_out_dims ps) + oi) -> m' b i = m b i).
Proof.
  intros sz prev dst ps c oi x m Hne Hc Hd0 Hpd Hh Hlen Hsz Hdi.
  set (di := c * prod (pl_out_dims ps) + oi) in *. set (o := unravel (pl_out_dims ps) oi) in *.
  set (cellf := fun q => GLoad prev (flat_index (pl_dims ps) (map (fun v => v - pl_pad ps) q) c)).
  set (val := fun q => nth (flat_index (pl_dims ps) (map (fun v => v - pl_pad ps) q) c) x false).
  assert (Hpc : pool_cell ps x c o = existsb val (pool_window ps o)).
  { unfold pool_cell, pool_window, read_padded.
    exact (existsb_filter_map nat (list nat)
             (fun t => map (fun '(oo, kk) => oo * pl_stride ps + kk)
                           (combine o (unravel (map (fun _ => pl_kernel ps) (pl_dims ps)) t)))
             (in_image (pl_dims ps) (pl_pad ps)) val _). }
  assert (Hcell : forall q (m1 : memB), In q (pool_window ps o) -> holds m1 prev x -> gevalB sz m1 (cellf q) = Some (val q)).
  { intros q m1 Hin Hh1. unfold pool_window in Hin. apply filter_In in Hin. destruct Hin as [_ Him].
    pose proof (flat_index_lt (pl_dims ps) _ c (in_image_coords (pl_dims ps) (pl_pad ps) _ Him)) as Hlt.
    assert (Hix : flat_index (pl_dims ps) (map (fun v => v - pl_pad ps) q) c < length x) by (rewrite Hlen; nia).
    unfold cellf, val. cbn [geval].
    assert (flat_index (pl_dims ps) (map (fun v => v - pl_pad ps) q) c <? size_of sz prev = true) as ->
      by (apply Nat.ltb_lt; lia).
    apply Hh1. exact Hix. }
  assert (Hg : gen_pool_cell prev dst ps c oi =
               match pool_window ps o with
               | [] => []
               | q0 :: rest => SAssign dst di (cellf q0) :: map (fun q => SAssign dst di (GOr (GLoad dst di) (cellf q))) rest
               end) by reflexivity.
  rewrite Hg, Hpc.
  destruct (pool_window ps o) as [|q0 rest] eqn:Ew; [congruence|].
  cbn [exec_body exec_stmt].
  assert (dst =? 0 = false) as -> by (apply Nat.eqb_neq; exact Hd0).
  assert (di <? size_of sz dst = true) as -> by (apply Nat.ltb_lt; exact Hdi). cbn [orb negb].
  rewrite (Hcell q0 m (or_introl eq_refl) Hh).
  destruct (or_chain sz dst di cellf val rest (upd m dst di (val q0)) (val q0) Hd0 Hdi) as [m' [He [Hv Ho]]].
  - unfold upd. rewrite !Nat.eqb_refl. reflexivity.
  - intros q m1 Hin Hag. apply Hcell; [right; exact Hin|].
    intros i Hi. rewrite Hag by (left; exact Hpd). unfold upd.
    assert (prev =? dst = false) as -> by (apply Nat.eqb_neq; exact Hpd). cbn [andb]. apply Hh. exact Hi.
  - exists m'. split; [exact He|]. split; [rewrite Hv; reflexivity|].
    intros b i Hc'. rewrite Ho by exact Hc'. unfold upd. destruct (Nat.eqb_spec b dst) as [->|]; [|reflexivity].
    destruct (Nat.eqb_spec i di) as [->|]; [|reflexivity]. destruct Hc'; congruence.
Qed.

Lemma flat_map_single : forall (A B : Type) (g : A -> B) l, flat_map (fun p => [g p]) l = map g l.
Proof. intros A B g l. induction l as [|a r IH]; [reflexivity|]. cbn. now rewrite IH. Qed.

Lemma grid_map : forall (B : Type) (f : nat -> nat -> B) P K,
  flat_map (fun k => map (f k) (seq 0 P)) (seq 0 K) = map (fun q => f (q / P) (q mod P)) (seq 0 (K * P)).
Proof.
  intros B f P K. rewrite <- flat_map_single. rewrite <- (flat_map_grid B (fun k p => [f k p]) P K).
  apply flat_map_ext. intros k. symmetry. apply flat_map_single.
Qed.

Lemma holds_map_seq : forall (m : memB) b (h : nat -> bool) n,
  (forall q, q < n -> m b q = Some (h q)) -> holds m b (map h (seq 0 n)).
Proof.
  intros m b h n H i Hi. rewrite map_length, seq_length in Hi. rewrite nth_map_seq by exact Hi. apply H. exact Hi.
Qed.

Lemma pool_layer_correct : forall sz loc prev dst ps x (m : memB),
  wf_pool ps = true ->
  dst <> 0 -> loc <> dst -> prev <> loc -> prev <> dst ->
  holds m prev x -> length x = pl_C ps * prod (pl_dims ps) -> length x <= size_of sz prev ->
  pl_C ps * prod (pl_out_dims ps) <= size_of sz dst ->
  exists m', bodyB sz m (gen_pool prev dst ps) = Some m' /\
    holds m' dst (pool_eval ps x) /\
    (forall b i, b <> loc -> b <> dst -> m' b i = m b i).
Proof.
  intros sz loc prev dst ps x m Hwf Hd0 Hld Hpl Hpd Hh Hlen Hsz Hdst.
  unfold gen_pool. rewrite flat_map_grid. set (P := prod (pl_out_dims ps)) in *.
  destruct (cells_correct sz
              (fun q => gen_pool_cell prev dst ps (q / P) (q mod P))
              (fun q => pool_cell ps x (q / P) (unravel (pl_out_dims ps) (q mod P)))
              loc dst (pl_C ps * P) m Hld) as [m' [He [Hv Ho]]].
  { intros q m1 Hq Hag. destruct (divmod_grid q (pl_C ps) P Hq) as [Hk [Hp Hqe]].
    destruct (pool_cell_correct sz prev dst ps (q / P) (q mod P) x m1) as [m2 [He2 [Hv2 Ho2]]]; try assumption.
    - unfold wf_pool in Hwf. rewrite forallb_forall in Hwf. specialize (Hwf (q mod P) ltac:(apply in_seq; fold P; lia)).
      intros E. rewrite E in Hwf. discriminate.
    - apply holds_agree with (m := m); [exact Hh|]. intros i. apply Hag; assumption.
    - fold P. rewrite Hqe. lia.
    - fold P in Hv2, Ho2. rewrite Hqe in Hv2, Ho2. exists m2. split; [exact He2|]. split; [exact Hv2|].
      intros b i _ Hc. apply Ho2. exact Hc. }
  exists m'. split; [exact He|]. split.
  - unfold pool_eval. fold P.
    rewrite (grid_map bool (fun c p => pool_cell ps x c (unravel (pl_out_dims ps) p)) P (pl_C ps)).
    apply holds_map_seq. exact Hv.
  - intros b i Hb Hb'. apply Ho; [exact Hb|left; exact Hb'].
Qed.

(* ---------- the spatial stack *)
Lemma pool_eval_length : forall ps x, length (pool_eval ps x) = pl_C ps * prod (pl_out_dims ps).
Proof.
  intros ps x. unfold pool_eval.
  rewrite (grid_map bool (fun c p => pool_cell ps x c (unravel (pl_out_dims ps) p))). now rewrite map_length, seq_length.
Qed.

Lemma eval_layer_length : forall l x, layer_in_ok l (length x) = true -> length (eval_layer l x) = layer_out_size l.
Proof.
  intros [cs|ps| |d] x H; cbn in H; try discriminate; cbn [eval_layer layer_out_size].
  - apply conv_out_length.
  - apply pool_eval_length.
Qed.

Definition result_buf (ls : list layer) (prev next : nat) : nat :=
  match ls with [] => prev | _ => next + length ls - 1 end.

Lemma spatial_correct : forall ls sz loc prev next base x (m : memB),
  wf_spatial ls (length x) = true ->
  1 <= next -> prev < next -> next + length ls <= loc ->
  holds m prev x -> length x <= size_of sz prev ->
  (forall j, j < length ls -> layer_out_size (nth j ls LFlatten) <= size_of sz (next + j)) ->
  base + sum_list (map layer_locals ls) <= size_of sz loc ->
  exists m', bodyB sz m (gen_spatial loc ls prev next base) = Some m' /\
    holds m' (result_buf ls prev next) (eval_net ls x).
Proof.
  induction ls as [|l rest IH]; intros sz loc prev next base x m Hwf Hn1 Hpn Hnl Hh Hsz Hsizes Hloc.
  - exists m. split; [reflexivity|exact Hh].
  - cbn [wf_spatial] in Hwf. apply andb_prop in Hwf. destruct Hwf as [Hl Hrest].
    cbn [length] in Hnl. cbn [map sum_list fold_right] in Hloc. fold (sum_list (map layer_locals rest)) in Hloc.
    assert (Hs0 : layer_out_size l <= size_of sz next).
    { specialize (Hsizes 0 ltac:(cbn; lia)). rewrite Nat.add_0_r in Hsizes. exact Hsizes. }
    assert (Hstep : exists m1, bodyB sz m (match l with
                                           | LConv cs => gen_conv loc prev next cs base
                                           | LPool ps => gen_pool prev next ps
                                           | _ => []
                                           end) = Some m1 /\ holds m1 next (eval_layer l x)).
    { destruct l as [cs|ps| |d]; cbn in Hl; try discriminate; apply andb_prop in Hl; destruct Hl as [Hw Hlen];
        apply Nat.eqb_eq in Hlen; cbn [layer_out_size layer_locals] in *.
      - destruct (conv_layer_correct sz loc prev next cs base x m Hw) as [m1 [He [Hv _]]]; try assumption; try lia.
        exists m1. split; [exact He|exact Hv].
      - destruct (pool_layer_correct sz loc prev next ps x m Hw) as [m1 [He [Hv _]]]; try assumption; try lia.
        exists m1. split; [exact He|exact Hv]. }
    destruct Hstep as [m1 [He1 Hh1]].
    cbn [gen_spatial]. rewrite body_app, He1.
    pose proof (eval_layer_length l x Hl) as Hlen1.
    destruct (IH sz loc next (S next) (base + layer_locals l) (eval_layer l x) m1) as [m2 [He2 Hh2]]; try lia.
    + rewrite Hlen1. exact Hrest.
    + exact Hh1.
    + intros j Hj. specialize (Hsizes (S j) ltac:(cbn; lia)). cbn [nth] in Hsizes.
      replace (S next + j) with (next + S j) by lia. exact Hsizes.
    + exists m2. split; [exact He2|]. cbn [eval_net fold_left]. fold (eval_net rest (eval_layer l x)).
      unfold result_buf in *. destruct rest as [|l2 rest']; [cbn [length]; replace (next + 1 - 1) with next by lia; exact Hh2|].
      cbn [length] in *. replace (next + S (S (length rest')) - 1) with (S next + S (length rest') - 1) by lia. exact Hh2.
Qed.

(* ---------- the tail: flatten memcpy, dense layers, copy to out *)
Lemma memcpy_holds : forall sz d s n x (m : memB),
  d <> 0 -> d <> s -> n = length x -> n <= size_of sz d -> n <= size_of sz s -> holds m s x ->
  exists m', stepB sz m (SMemcpy d s n) = Some m' /\ holds m' d x /\ (forall b i, b <> d -> m' b i = m b i).
Proof.
  intros sz d s n x m Hd0 Hds Hn Hsd Hss Hh. cbn [exec_stmt].
  assert (d =? 0 = false) as -> by (apply Nat.eqb_neq; exact Hd0).
  assert (d =? s = false) as -> by (apply Nat.eqb_neq; exact Hds).
  assert (n <=? size_of sz d = true) as -> by (apply Nat.leb_le; exact Hsd).
  assert (n <=? size_of sz s = true) as -> by (apply Nat.leb_le; exact Hss).
  assert (all_init m s n = true) as ->.
  { unfold all_init. apply forallb_forall. intros i Hi. apply in_seq in Hi. rewrite Hh by lia. reflexivity. }
  cbn [orb negb]. eexists. split; [reflexivity|]. split.
  - intros i Hi. cbn beta. rewrite Nat.eqb_refl. assert (i <? n = true) as -> by (apply Nat.ltb_lt; lia). cbn [andb].
    apply Hh. exact Hi.
  - intros b i Hb. cbn beta. assert (b =? d = false) as -> by (apply Nat.eqb_neq; exact Hb). reflexivity.
Qed.

Lemma gen_layers_ab_correct : forall sz ls ib ob x (m : memB),
  ls <> [] -> ib <> 0 -> ob <> 0 -> ib <> 1 -> ob <> 1 -> ib <> ob ->
  holds m ib x -> length x <= size_of sz ib ->
  (forall l, In l (removelast ls) -> length l <= size_of sz ib /\ length l <= size_of sz ob) ->
  length (last ls []) <= size_of sz 1 ->
  wf_dense_net (length x) ls = true ->
  exists m', bodyB sz m (gen_layers_ab ib ob ls) = Some m' /\ holds m' 1 (eval_dense_net ls x).
Proof.
  intros sz ls. induction ls as [|l rest IH]; intros ib ob x m Hne Hi0 Ho0 Hi1 Ho1 Hio Hh Hx Hmid Hlast Hwf; [congruence|].
  cbn [wf_dense_net] in Hwf. rewrite !andb_true_iff in Hwf. destruct Hwf as [[_ Hwl] Hwr].
  destruct rest as [|l2 rest'].
  - cbn [gen_layers_ab eval_dense_net]. cbn [last] in Hlast.
    apply gen_layer_holds with (ib := ib); try assumption; lia.
  - cbn [gen_layers_ab]. rewrite body_app.
    destruct (Hmid l ltac:(cbn; left; reflexivity)) as [Hli Hlo].
    destruct (gen_layer_holds sz ib ob x l m Ho0 ltac:(congruence) Hh Hx Hlo Hwl) as [m1 [He1 Hh1]].
    rewrite He1. cbn [eval_dense_net]. rewrite <- (eval_dense_length l x) in Hwr.
    apply (IH ob ib (eval_dense l x) m1); try assumption; try congruence.
    + rewrite eval_dense_length. exact Hlo.
    + intros l' Hin. destruct (Hmid l') as [A B]; [cbn [removelast]; right; exact Hin|]. split; assumption.
Qed.

Lemma eval_net_length : forall ls x, ls <> [] -> wf_spatial ls (length x) = true ->
  length (eval_net ls x) = last (map layer_out_size ls) 0.
Proof.
  induction ls as [|l rest IH]; intros x Hne Hwf; [congruence|].
  cbn [wf_spatial] in Hwf. apply andb_prop in Hwf. destruct Hwf as [Hl Hr].
  cbn [eval_net fold_left]. fold (eval_net rest (eval_layer l x)).
  destruct rest as [|l2 rest']; [cbn; apply eval_layer_length; exact Hl|].
  rewrite IH; [reflexivity|discriminate|]. rewrite (eval_layer_length l x Hl). exact Hr.
Qed.

Lemma size_sp : forall a b (sp rest : list nat) j, j < length sp -> size_of (a :: b :: sp ++ rest) (2 + j) = nth j sp 0.
Proof. intros a b sp rest j Hj. unfold size_of. cbn [Nat.add nth]. apply app_nth1. exact Hj. Qed.

Lemma size_rest : forall a b (sp rest : list nat) e, size_of (a :: b :: sp ++ rest) (2 + length sp + e) = nth e rest 0.
Proof.
  intros a b sp rest e. unfold size_of. cbn [Nat.add nth]. rewrite app_nth2 by lia. f_equal. lia.
Qed.

Lemma nth_last_len : forall (l : list nat) d, l <> [] -> nth (length l - 1) l d = last l d.
Proof.
  induction l as [|a r IH]; intros d Hne; [congruence|]. destruct r as [|b r']; [reflexivity|].
  cbn [length last]. replace (S (S (length r')) - 1) with (S (length (b :: r') - 1)) by (cbn [length]; lia).
  cbn [nth]. apply IH. discriminate.
Qed.

Lemma holds_init : forall x : list bool, holds (init_mem x) 0 x.
Proof. intros x i Hi. unfold init_mem. cbn. apply nth_error_nth'. exact Hi. Qed.

Lemma spatial_part : forall in_size out_size ls extra x,
  ls <> [] -> wf_spatial ls (length x) = true -> length x = in_size ->
  exists m1, bodyB (in_size :: out_size :: map layer_out_size ls ++ extra ++ [sum_list (map layer_locals ls)])
                   (init_mem x) (gen_spatial (2 + length ls + length extra) ls 0 2 0) = Some m1 /\
    holds m1 (1 + length ls) (eval_net ls x).
Proof.
  intros in_size out_size ls extra x Hne Hwf Hlen.
  set (sz := in_size :: out_size :: map layer_out_size ls ++ extra ++ [sum_list (map layer_locals ls)]).
  destruct (spatial_correct ls sz (2 + length ls + length extra) 0 2 0 x (init_mem x) Hwf) as [m1 [He Hh]]; try lia.
  - apply holds_init.
  - unfold sz, size_of. cbn [nth]. lia.
  - intros j Hj. unfold sz. rewrite size_sp by (rewrite map_length; exact Hj).
    change 0 with (layer_out_size LFlatten). rewrite map_nth. apply le_n.
  - unfold sz. rewrite <- (map_length layer_out_size ls) at 1. rewrite size_rest.
    rewrite app_nth2 by lia. rewrite Nat.sub_diag. cbn [nth Nat.add]. apply le_n.
  - exists m1. split; [exact He|]. unfold result_buf in Hh. destruct ls as [|l r]; [congruence|].
    cbn [length] in *. replace (1 + S (length r)) with (2 + S (length r) - 1) by lia. exact Hh.
Qed.

Lemma size_last : forall a b ls rest, ls <> [] ->
  size_of (a :: b :: map layer_out_size ls ++ rest) (1 + length ls) = last (map layer_out_size ls) 0.
Proof.
  intros a b ls rest Hne. replace (1 + length ls) with (2 + (length ls - 1)) by (destruct ls; [congruence|cbn [length]; lia]).
  rewrite size_sp by (rewrite map_length; destruct ls; [congruence|cbn [length]; lia]).
  rewrite <- (map_length layer_out_size ls). apply nth_last_len. destruct ls; [congruence|discriminate].
Qed.

Theorem gen_net_correct_bool : forall m x,
  wf_spatial_model m = true -> length x = sm_C m * prod (sm_dims m) ->
  execB (gen_net m) x = Some (eval_model m x).
Proof.
  intros [C dims ls flat ds] x Hwf Hlen. unfold wf_spatial_model in Hwf. cbn [sm_C sm_dims sm_spatial sm_flat sm_dense] in *.
  rewrite !andb_true_iff in Hwf. destruct Hwf as [[[Hne Hsp] Hfl] Hwd].
  assert (Hls : ls <> []) by (destruct ls; [discriminate|discriminate]).
  rewrite <- Hlen in Hsp.
  pose proof (eval_net_length ls x Hls Hsp) as Hy.
  unfold execB, exec, gen_net, eval_model. cbv zeta. cbn [sizes body sm_C sm_dims sm_spatial sm_flat sm_dense].
  set (y := eval_net ls x) in *. set (lastS := last (map layer_out_size ls) 0) in *.
  set (nloc := sum_list (map layer_locals ls)).
  destruct flat; [destruct ds as [|d ds]|].
  - (* Flatten, no dense layer: memcpy to flattened_output, memcpy to out *)
    change ([C * prod dims; lastS] ++ map layer_out_size ls ++ [lastS] ++ [nloc])
      with (C * prod dims :: lastS :: map layer_out_size ls ++ [lastS] ++ [nloc]).
    set (sz := C * prod dims :: lastS :: map layer_out_size ls ++ [lastS] ++ [nloc]).
    change (size_of sz 0) with (C * prod dims). change (size_of sz 1) with lastS.
    rewrite Hlen, Nat.eqb_refl. cbn [negb]. rewrite body_app.
    destruct (spatial_part (C * prod dims) lastS ls [lastS] x Hls Hsp Hlen) as [m1 [He1 Hh1]].
    fold nloc sz y in He1, Hh1. rewrite He1.
    assert (Ssrc : size_of sz (1 + length ls) = lastS) by (apply size_last; exact Hls).
    assert (Slin : size_of sz (2 + length ls) = lastS).
    { unfold sz. rewrite <- (Nat.add_0_r (2 + length ls)). rewrite <- (map_length layer_out_size ls) at 1.
      rewrite size_rest. reflexivity. }
    destruct (memcpy_holds sz (2 + length ls) (1 + length ls) lastS y m1) as [m2 [He2 [Hh2 _]]]; try lia; try assumption.
    destruct (memcpy_holds sz 1 (2 + length ls) lastS y m2) as [m3 [He3 [Hh3 _]]]; try lia; try assumption.
    { change (size_of sz 1) with lastS. lia. }
    cbn [exec_body]. rewrite He2, He3. rewrite <- Hy. apply read_all_holds. exact Hh3.
  - (* Flatten then dense layers *)
    set (ws := widths (d :: ds)) in *.
    set (extra := Nat.max lastS (max_list (removelast ws)) :: (if 1 <? length ws then [max_list ws] else [])).
    change ([C * prod dims; last ws 0] ++ map layer_out_size ls ++ extra ++ [nloc])
      with (C * prod dims :: last ws 0 :: map layer_out_size ls ++ extra ++ [nloc]).
    set (sz := C * prod dims :: last ws 0 :: map layer_out_size ls ++ extra ++ [nloc]).
    change (size_of sz 0) with (C * prod dims). change (size_of sz 1) with (last ws 0).
    rewrite Hlen, Nat.eqb_refl. cbn [negb]. rewrite body_app.
    destruct (spatial_part (C * prod dims) (last ws 0) ls extra x Hls Hsp Hlen) as [m1 [He1 Hh1]].
    fold nloc sz y in He1, Hh1. rewrite He1.
    assert (Ssrc : size_of sz (1 + length ls) = lastS) by (apply size_last; exact Hls).
    assert (Slin : size_of sz (2 + length ls) = Nat.max lastS (max_list (removelast ws))).
    { unfold sz. rewrite <- (Nat.add_0_r (2 + length ls)). rewrite <- (map_length layer_out_size ls) at 1.
      rewrite size_rest. reflexivity. }
    destruct (memcpy_holds sz (2 + length ls) (1 + length ls) lastS y m1) as [m2 [He2 [Hh2 _]]]; try lia; try assumption.
    cbn [exec_body]. rewrite He2.
    destruct (gen_layers_ab_correct sz (d :: ds) (2 + length ls) (S (2 + length ls)) y m2) as [m3 [He3 Hh3]];
      try lia; try assumption; try discriminate.
    + intros l Hin.
      assert (H2 : 1 <? length ws = true).
      { unfold ws, widths. rewrite map_length. apply Nat.ltb_lt. destruct ds as [|d2 ds']; [cbn in Hin; contradiction|cbn [length]; lia]. }
      assert (Stmp : size_of sz (S (2 + length ls)) = max_list ws).
      { replace (S (2 + length ls)) with (2 + length ls + 1) by lia. unfold sz.
        rewrite <- (map_length layer_out_size ls) at 1. rewrite size_rest. unfold extra. rewrite H2. reflexivity. }
      rewrite Slin, Stmp. split.
      * assert (length l <= max_list (removelast ws)); [|lia].
        apply max_list_ge. unfold ws, widths. rewrite removelast_map. apply in_map. exact Hin.
      * apply max_list_ge. unfold ws, widths. apply in_map. eapply removelast_incl; eassumption.
    + change (size_of sz 1) with (last ws 0). unfold ws. rewrite last_map_length. apply le_n.
    + rewrite Hy. exact Hwd.
    + rewrite He3. unfold ws. rewrite last_map_length.
      rewrite <- (eval_dense_net_length (d :: ds) y) by discriminate. apply read_all_holds. exact Hh3.
  - (* no Flatten: the last spatial output is the result *)
    destruct ds as [|d ds]; [|cbn in Hfl; discriminate].
    change ([C * prod dims; lastS] ++ map layer_out_size ls ++ [] ++ [nloc])
      with (C * prod dims :: lastS :: map layer_out_size ls ++ [] ++ [nloc]).
    set (sz := C * prod dims :: lastS :: map layer_out_size ls ++ [] ++ [nloc]).
    change (size_of sz 0) with (C * prod dims). change (size_of sz 1) with lastS.
    rewrite Hlen, Nat.eqb_refl. cbn [negb]. rewrite body_app.
    destruct (spatial_part (C * prod dims) lastS ls [] x Hls Hsp Hlen) as [m1 [He1 Hh1]].
    fold nloc sz y in He1, Hh1. rewrite He1.
    assert (Ssrc : size_of sz (1 + length ls) = lastS) by (apply size_last; exact Hls).
    destruct (memcpy_holds sz 1 (1 + length ls) lastS y m1) as [m2 [He2 [Hh2 _]]]; try lia; try assumption.
    { destruct ls; [congruence|cbn [length]; lia]. }
    { change (size_of sz 1) with lastS. lia. }
    cbn [exec_body]. rewrite He2. rewrite <- Hy. apply read_all_holds. exact Hh2.
Qed.

(* ---------- words, wrapper, host *)
Lemma eval_model_length : forall m x, wf_spatial_model m = true -> length x = net_in m ->
  length (eval_model m x) = net_out m.
Proof.
  intros [C dims ls flat ds] x Hwf Hlen. unfold wf_spatial_model, net_in, net_out, eval_model in *.
  cbn [sm_C sm_dims sm_spatial sm_flat sm_dense] in *.
  rewrite !andb_true_iff in Hwf. destruct Hwf as [[[Hne Hsp] _] _].
  assert (Hls : ls <> []) by (destruct ls; [discriminate|discriminate]). rewrite <- Hlen in Hsp.
  destruct ds as [|d ds]; [cbn [eval_dense_net]; apply eval_net_length; assumption|].
  rewrite eval_dense_net_length by discriminate. symmetry. apply last_map_length.
Qed.

Lemma eval_net_app : forall l1 l2 x, eval_net (l1 ++ l2) x = eval_net l2 (eval_net l1 x).
Proof. intros. unfold eval_net. apply fold_left_app. Qed.

Lemma eval_net_dense : forall ds x, eval_net (map LDense ds) x = eval_dense_net ds x.
Proof. induction ds as [|d ds IH]; intros x; [reflexivity|]. cbn [map eval_net fold_left eval_layer eval_dense_net]. apply IH. Qed.

Theorem net_layers_eval : forall m x, eval_net (net_layers m) x = eval_model m x.
Proof.
  intros m x. unfold net_layers, eval_model. rewrite !eval_net_app, eval_net_dense.
  destruct (sm_flat m); reflexivity.
Qed.

Theorem gen_net_correct_words : forall W m inp,
  (0 < W)%Z -> wf_spatial_model m = true -> length inp = net_in m ->
  exists out, execZ W (gen_net m) inp = Some out /\ length out = net_out m /\
    forall j, (0 <= j < W)%Z -> map (lane j) out = eval_model m (map (lane j) inp).
Proof.
  intros W m inp HW Hwf Hlen. unfold net_in in Hlen.
  assert (H0 := gen_net_correct_bool m (map (lane 0) inp) Hwf ltac:(rewrite map_length; exact Hlen)).
  destruct (exec_words W (gen_net m) inp _ HW H0) as [out [Hz Hall]].
  exists out. split; [exact Hz|]. split.
  - assert (E := Hall 0%Z ltac:(lia)). rewrite H0 in E. injection E as E.
    apply (f_equal (@length bool)) in E. rewrite map_length in E. rewrite <- E.
    apply eval_model_length; [exact Hwf|]. rewrite map_length. exact Hlen.
  - intros j Hj. specialize (Hall j Hj).
    rewrite (gen_net_correct_bool m (map (lane j) inp) Hwf) in Hall by (rewrite map_length; exact Hlen).
    injection Hall as Hall. symmetry. exact Hall.
Qed.

Corollary safe_net : forall W m inp,
  (0 < W)%Z -> wf_spatial_model m = true -> length inp = net_in m ->
  exists out, execZ W (gen_net m) inp = Some out /\ length out = net_out m.
Proof.
  intros W m inp HW Hwf Hlen. destruct (gen_net_correct_words W m inp HW Hwf Hlen) as [out [He [Hl _]]].
  exists out. split; assumption.
Qed.
