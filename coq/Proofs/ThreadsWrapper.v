(* Proofs/ThreadsWrapper.v — one whole apply_logic_net call (pack each word, logic_net, adder / unpack) made by a thread while other
   threads run: the counts the wrapper computes from the concurrently obtained logic_net results are those of the sequential wrapper. *)
From Coq Require Import ZArith List Bool Arith Lia.
From TLX Require Import Model.Bits Model.CLang Model.Wrapper Model.Threads Gen.Storage.
From TLX Require Import Proofs.ThreadsFacts.
Import ListNotations.

(* the logic_net calls one wrapper call makes: one per machine word, on the packed input *)
Definition wrapper_calls (W in_size : nat) (l : nat) (inp : list bool) (len : nat) : list (nat * list Z) :=
  map (fun i => (l, pack W in_size inp i)) (seq 0 len).

Lemma wrapper_from_results : forall W in_size n_out k (net : list Z -> option (list Z)) inp len outs,
  map Some outs = map (fun i => net (pack W in_size inp i)) (seq 0 len) ->
  apply_logic_net W in_size n_out k net inp len = @all_some Z (map (fun o => Some (word_result W n_out k o)) outs).
Proof.
  intros W in_size n_out k net inp len outs H. unfold apply_logic_net.
  revert outs H. generalize (seq 0 len) as is. induction is as [|i rest IH]; intros outs H; destruct outs as [|o os]; cbn [map] in *; try discriminate; [reflexivity|].
  injection H as Ho Hos. rewrite <- Ho. cbn [option_map all_some]. rewrite (IH os Hos). reflexivity.
Qed.

Theorem threads_wrapper_call :
  forall (W in_size n_out k : nat) (libs : list prog) (inits : list (list (nat * list Z) * @mem Z * (nat -> @mem Z))) (sh : nat -> @mem Z)
         (sched : list nat) j l inp len gp gt,
    Forall (good_callsZ (Z.of_nat W) libs) (map (fun x => fst (fst x)) inits) ->
    nth_error inits j = Some (wrapper_calls W in_size l inp len, gp, gt) ->
    list_sum (map (call_work libs) (wrapper_calls W in_size l inp len)) <= count_occ Nat.eq_dec sched j ->
    let w0 := {| w_threads := map (fun x => fresh_thread (fst (fst x)) (snd (fst x)) (snd x)) inits; w_shared := sh |} in
    exists t, nth_error (w_threads (run_scheduleZ (Z.of_nat W) (negb (private_storage buffer_storage)) libs w0 sched)) j = Some t /\
              finished t = true /\
              apply_logic_net W in_size n_out k (fun x => expectedZ (Z.of_nat W) libs (l, x)) inp len
              = @all_some Z (map (fun o => Some (word_result W n_out k o)) (t_results t)).
Proof.
  intros W in_size n_out k libs inits sh sched j l inp len gp gt Hgood Hj Hcnt w0.
  destruct (private_schedules_complete 0%Z Z.lnot Z.land Z.lor Z.lxor (wrap (Z.of_nat W)) libs inits sh sched j _ gp gt Hgood Hj Hcnt)
    as [t [Hn [Hf Hres]]].
  exists t. split; [exact Hn|]. split; [exact Hf|].
  apply wrapper_from_results. rewrite Hres. unfold wrapper_calls. rewrite map_map. reflexivity.
Qed.

Lemma apply_logic_net_ext : forall W in_size n_out k (f g : list Z -> option (list Z)) inp len,
  (forall x, f x = g x) -> apply_logic_net W in_size n_out k f inp len = apply_logic_net W in_size n_out k g inp len.
Proof. intros. unfold apply_logic_net. f_equal. apply map_ext. intros i. rewrite H. reflexivity. Qed.
