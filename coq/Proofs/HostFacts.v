(* Host side of _forward_with_groupsum: padding to whole words, the call, un-padding.
   Result row r is a function of input row r only, for every batch size. *)
From Coq Require Import ZArith List Bool Arith Lia.
From TLX Require Import Model.Bits Model.CLang Model.Netlist Model.Wrapper.
From TLX Require Import Proofs.WrapperFacts Proofs.GenDenseFacts.
Import ListNotations.

Lemma flat_map_seq_shift : forall (B : Type) (h : nat -> list B) n s t,
  flat_map (fun b => h (s + b)) (seq t n) = flat_map h (seq (s + t) n).
Proof.
  intros B h n. induction n as [|n IH]; intros s t; cbn [seq flat_map]; [reflexivity|].
  f_equal. rewrite IH. now rewrite Nat.add_succ_r.
Qed.

Lemma flat_map_reindex : forall (B : Type) (h : nat -> list B) W len,
  flat_map (fun i => flat_map (fun b => h (i * W + b)) (seq 0 W)) (seq 0 len) = flat_map h (seq 0 (len * W)).
Proof.
  intros B h W len. induction len as [|len IH]; [reflexivity|].
  rewrite seq_S, flat_map_app, IH. cbn [flat_map Nat.add]. rewrite app_nil_r.
  replace (S len * W) with (len * W + W) by lia. rewrite seq_app, flat_map_app. f_equal.
  rewrite (flat_map_seq_shift B h W (len * W) 0). now rewrite Nat.add_0_r.
Qed.

Lemma flat_map_nth_seq : forall (A B : Type) (F : A -> list B) (R : list A) d,
  flat_map (fun r => F (nth r R d)) (seq 0 (length R)) = flat_map F R.
Proof.
  intros A B F R d. induction R as [|x R IH]; [reflexivity|].
  cbn [length seq flat_map nth]. f_equal. rewrite <- seq_shift, flat_map_concat_map, map_map.
  rewrite <- flat_map_concat_map. exact IH.
Qed.

Lemma row_concat : forall in_size (R : list (list bool)) r,
  Forall (fun x => length x = in_size) R -> r < length R ->
  row in_size (concat R) r = nth r R [].
Proof.
  intros in_size R. induction R as [|x R IH]; intros r HF Hr; [cbn in Hr; lia|].
  apply Forall_cons_iff in HF. destruct HF as [Hx HF']. cbn [concat nth].
  unfold row. destruct r as [|r].
  - transitivity (map (fun d => nth d x false) (seq 0 (length x))); [|apply map_nth_seq].
    rewrite Hx. apply map_ext_in. intros d Hd. apply in_seq in Hd.
    cbn [Nat.mul Nat.add]. rewrite app_nth1 by lia. reflexivity.
  - cbn [length] in Hr. rewrite <- IH by (assumption || lia). unfold row. apply map_ext_in. intros d Hd.
    apply in_seq in Hd. rewrite app_nth2 by nia. f_equal. nia.
Qed.

Lemma chunks_concat : forall (A : Type) k (L : list (list A)),
  Forall (fun x => length x = k) L -> chunks k (length L) (concat L) = L.
Proof.
  intros A k L HF. induction HF as [|x L Hx HF IH]; [reflexivity|].
  cbn [length chunks concat]. subst k.
  rewrite firstn_app, Nat.sub_diag, firstn_all, firstn_O, app_nil_r.
  rewrite skipn_app, Nat.sub_diag, skipn_all, skipn_O. cbn [app]. f_equal. exact IH.
Qed.

Lemma ceil_div_ge : forall B W, 0 < W -> B <= ceil_div B W * W.
Proof.
  intros B W HW. unfold ceil_div.
  pose proof (Nat.div_mod_eq (B + W - 1) W) as E.
  pose proof (Nat.mod_upper_bound (B + W - 1) W ltac:(lia)) as Hm. nia.
Qed.

Section Host.
  Variables (W in_size n_out k : nat).
  Variable net : list Z -> option (list Z).
  Variable f : list bool -> list bool.
  Hypothesis HW : 1 < W.
  Hypothesis Hg31 : (Z.of_nat (gsize n_out k) < 2 ^ 31)%Z.
  Hypothesis Hnet : lanewise W in_size n_out net f.

  Definition per_row (r : list bool) : list Z := group_counts k (gsize n_out k) (f r).

  Lemma per_row_length : forall r, length (per_row r) = k.
  Proof. intros. unfold per_row, group_counts. now rewrite map_length, seq_length. Qed.

  (* the wrapper's result is the concatenation of per-row results, one per row of the padded batch *)
  Theorem apply_rows : forall (R : list (list bool)) len,
    Forall (fun x => length x = in_size) R -> length R = len * W ->
    apply_logic_net W in_size n_out k net (concat R) len = Some (concat (map per_row R)).
  Proof.
    intros R len HF Hlen.
    rewrite (apply_logic_net_correct W in_size n_out k net f HW Hg31 Hnet).
    f_equal. unfold expected.
    rewrite (flat_map_reindex Z (fun r => group_counts k (gsize n_out k) (f (row in_size (concat R) r))) W len).
    rewrite <- Hlen.
    rewrite <- flat_map_concat_map. rewrite <- (flat_map_nth_seq _ _ per_row R []).
    apply flat_map_ext_in. intros r Hr. apply in_seq in Hr. unfold per_row.
    rewrite row_concat by (assumption || lia). reflexivity.
  Qed.

  (* host: any batch size (including 0 < B < W/2 and B not a multiple of W): row r of the result
     is per_row (row r of the input); padding rows and the other rows have no influence *)
  Theorem forward_with_groupsum_correct : forall rows,
    Forall (fun x => length x = in_size) rows ->
    forward_with_groupsum W in_size n_out k net rows = Some (map per_row rows).
  Proof.
    intros rows HF. unfold forward_with_groupsum.
    set (B := length rows). set (words := ceil_div B W).
    assert (Hge : B <= words * W) by (apply ceil_div_ge; lia).
    set (R := rows ++ repeat (repeat false in_size) (words * W - B)).
    assert (HFR : Forall (fun x => length x = in_size) R).
    { unfold R. apply Forall_app. split; [exact HF|]. apply Forall_forall. intros x Hx.
      apply repeat_spec in Hx. subst. apply repeat_length. }
    assert (HlR : length R = words * W).
    { unfold R. rewrite app_length, repeat_length. fold B. lia. }
    rewrite (apply_rows R words HFR HlR). f_equal.
    rewrite <- HlR. rewrite <- (map_length per_row R).
    rewrite chunks_concat.
    - unfold R, B. rewrite map_app, firstn_app, map_length, Nat.sub_diag, firstn_O, app_nil_r.
      rewrite <- (map_length per_row rows) at 1. apply firstn_all.
    - apply Forall_forall. intros x Hx. apply in_map_iff in Hx. destruct Hx as [r [<- _]]. apply per_row_length.
  Qed.
End Host.
