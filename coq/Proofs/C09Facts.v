From Coq Require Import String Reals List Lra Lia Bool.
From TLX Require Import Model.Bits Model.Poly Model.Relax Gen.Ops Gen.Dispatch.
From TLX Require Import Proofs.RelaxFacts Proofs.C03Facts Proofs.C08Facts Proofs.C07Real.
Import ListNotations.
Local Open Scope R_scope.

(* straight-through value: x_hard - x.detach() + x has the value x_hard *)
Lemma ste_value : forall xh x : R, xh - x + x = xh.
Proof. intros. ring. Qed.

(* first index of the maximum *)
Fixpoint argmax_from (best : R) (bi i : nat) (l : list R) : nat :=
  match l with
  | [] => bi
  | x :: r => if Rlt_dec best x then argmax_from x i (S i) r else argmax_from best bi (S i) r
  end.
Definition argmaxR (l : list R) : nat := match l with [] => 0%nat | x :: r => argmax_from x 0 1 r end.

Lemma argmax_from_mono : forall (f : R -> R), (forall x y, x < y <-> f x < f y) ->
  forall l best bi i, argmax_from (f best) bi i (map f l) = argmax_from best bi i l.
Proof.
  intros f Hf l. induction l as [|x r IH]; intros best bi i; cbn [map argmax_from]; [reflexivity|].
  destruct (Rlt_dec best x) as [H1|H1], (Rlt_dec (f best) (f x)) as [H2|H2].
  - apply IH.
  - exfalso. apply H2. apply (proj1 (Hf best x)). exact H1.
  - exfalso. apply H1. apply (proj2 (Hf best x)). exact H2.
  - apply IH.
Qed.

Lemma argmax_mono : forall (f : R -> R), (forall x y, x < y <-> f x < f y) ->
  forall l, argmaxR (map f l) = argmaxR l.
Proof. intros f Hf [|x r]; [reflexivity|]. cbn [map argmaxR]. apply argmax_from_mono. exact Hf. Qed.

(* the most probable gate under softmax(w / tau) is the gate with the largest logit, for every tau > 0 *)
Theorem argmax_softmax : forall w tau, 0 < tau -> argmaxR (soft_raw w tau) = argmaxR w.
Proof.
  intros w tau Ht. unfold soft_raw, softmax. rewrite map_map.
  destruct w as [|w0 wr]; [reflexivity|].
  set (S := rsum (map exp (map (fun x => x / tau) (w0 :: wr)))).
  assert (HS : 0 < S) by (apply rsum_exp_pos; discriminate).
  apply argmax_mono. intros x y. split; intro H.
  - apply Rmult_lt_compat_r; [apply Rinv_0_lt_compat; exact HS|]. apply exp_increasing.
    apply Rmult_lt_compat_r; [apply Rinv_0_lt_compat; exact Ht|exact H].
  - unfold Rdiv in H. apply Rmult_lt_reg_r in H; [|apply Rinv_0_lt_compat; exact HS].
    apply exp_lt_inv in H. apply Rmult_lt_reg_r in H; [exact H|apply Rinv_0_lt_compat; exact Ht].
Qed.

(* value forwarded by 'hard' on a raw neuron = one-hot of the largest logit = the eval-mode weight vector *)
Definition hard_raw_value (w : list R) (tau : R) : list R := one_hot (length w) (argmaxR (soft_raw w tau)).
Definition eval_raw_weights (w : list R) : list R := one_hot (length w) (argmaxR w).

Theorem hard_equals_eval_raw : forall w tau, 0 < tau -> hard_raw_value w tau = eval_raw_weights w.
Proof. intros. unfold hard_raw_value, eval_raw_weights. now rewrite argmax_softmax. Qed.

Lemma argmax_from_bound : forall l best bi i, (bi < i)%nat -> (argmax_from best bi i l < i + length l)%nat.
Proof.
  induction l as [|x r IH]; intros best bi i H; cbn [argmax_from length]; [lia|].
  destruct (Rlt_dec best x); [specialize (IH x i (S i) ltac:(lia))|specialize (IH best bi (S i) ltac:(lia))]; lia.
Qed.

Lemma argmax_bound : forall l, l <> [] -> (argmaxR l < length l)%nat.
Proof.
  intros [|x r] H; [congruence|]. cbn [argmaxR length]. pose proof (argmax_from_bound r x 0 1 ltac:(lia)). lia.
Qed.

(* hence a raw neuron in 'hard' mode outputs, for every input, exactly what it outputs in eval mode; on Booleans the table bit *)
Theorem hard_neuron_equals_eval : forall w tau a b, 0 < tau -> length w = 16%nat ->
  mix (hard_raw_value w tau) a b = mix (eval_raw_weights w) a b.
Proof. intros. now rewrite hard_equals_eval_raw. Qed.

Theorem single_gate_output : forall w (x y : bool), length w = 16%nat ->
  mix (eval_raw_weights w) (b2r x) (b2r y) = b2r (tt (argmaxR w) x y).
Proof.
  intros w x y Hl. unfold eval_raw_weights. rewrite Hl. apply saturated_is_eval.
  rewrite <- Hl. apply argmax_bound. destruct w; [discriminate|discriminate].
Qed.

(* Gumbel 'hard' weights are a one-hot vector for every noise draw: exactly one of the 16 gates is applied *)
Theorem gumbel_hard_single_gate : forall (noisy : list R) a b, length noisy = 16%nat ->
  exists g, (g < 16)%nat /\ mix (one_hot 16 (argmaxR noisy)) a b = peval_R (op g) a b.
Proof.
  intros noisy a b Hl. exists (argmaxR noisy). split.
  - rewrite <- Hl. apply argmax_bound. destruct noisy; [discriminate|discriminate].
  - apply mix_onehot. rewrite <- Hl. apply argmax_bound. destruct noisy; [discriminate|discriminate].
Qed.

(* Walsh: hard value [logistic(x/tau) > 1/2] = [x > 0] = eval value *)
Theorem hard_walsh_value : forall x tau, 0 < tau -> (C07Real.sigmoid (x / tau) > / 2 <-> x > 0).
Proof. exact soft_threshold. Qed.

(* --- dispatch rows *)
Definition mode_row_ok (layer par mode : string) (expect : event) (has_loop : bool) : bool :=
  match events_of layer par true mode with
  | None => false
  | Some ev =>
      (match weights_events ev false with [e] => event_eqb e expect | _ => false end)
      && (if has_loop then match weights_events ev true with [e] => event_eqb e expect | _ => false end
          else match weights_events ev true with [] => true | _ => false end)
  end.

Lemma hard_dispatch :
  mode_row_ok "dense" "raw" "hard" (EWeights (WHardRaw true)) false = true
  /\ mode_row_ok "dense" "walsh" "hard" (EAct (AHardWalsh true)) false = true
  /\ mode_row_ok "conv2d" "raw" "hard" (EWeights (WHardRaw true)) true = true
  /\ mode_row_ok "conv2d" "walsh" "hard" (EAct (AHardWalsh true)) true = true
  /\ mode_row_ok "dense" "raw" "gumbel_hard" (EWeights (WGumbelSoftmax true true)) false = true
  /\ mode_row_ok "dense" "walsh" "gumbel_hard" (EAct (AGumbelSigmoid true true)) false = true
  /\ mode_row_ok "conv2d" "raw" "gumbel_hard" (EWeights (WGumbelSoftmax true true)) true = true
  /\ mode_row_ok "conv2d" "walsh" "gumbel_hard" (EAct (AGumbelSigmoid true true)) true = true.
Proof. repeat split; vm_compute; reflexivity. Qed.
