(* Proofs/ThreadsDense.v — end to end: every schedule of concurrent calls into compiled dense networks returns, in every bit lane, the
   reference circuit of the model the call was made into (C16_threads_complete composed with the generator theorem C01_logic_net). *)
From Coq Require Import ZArith List Bool Arith Lia.
From TLX Require Import Model.Bits Model.CLang Model.Netlist Model.GenDense Model.Threads Gen.Storage.
From TLX Require Import Proofs.CLangFacts Proofs.GenDenseFacts Proofs.ThreadsFacts.
Import ListNotations.

(* a call names an existing model and brings an input of that model's size *)
Definition call_ok (ms : list dense_model) (c : nat * list Z) : Prop :=
  exists m, nth_error ms (fst c) = Some m /\ wf_dense_model m = true /\ length (snd c) = dm_in m.

(* the result of a call is, in every bit lane, the reference circuit of the model *)
Definition result_ok (W : Z) (ms : list dense_model) (c : nat * list Z) (out : list Z) : Prop :=
  exists m, nth_error ms (fst c) = Some m /\ length out = out_width m /\
    forall j, (0 <= j < W)%Z -> map (lane j) out = eval_dense_net (dm_layers m) (map (lane j) (snd c)).

Lemma call_ok_expected : forall W ms c, (0 < W)%Z -> call_ok ms c ->
  exists out, expectedZ W (map gen_dense ms) c = Some out /\ result_ok W ms c out.
Proof.
  intros W ms [l inp] HW [m [Hm [Hwf Hlen]]]. cbn [fst snd] in *.
  destruct (gen_dense_correct_words W m inp HW Hwf Hlen) as [out [Hex [Hlo Hlanes]]].
  exists out. split.
  - unfold expectedZ, expected. cbn [fst snd]. rewrite nth_error_map, Hm. exact Hex.
  - exists m. cbn [fst snd]. repeat split; assumption.
Qed.

Lemma results_ok_of_expected : forall W ms calls results, (0 < W)%Z -> Forall (call_ok ms) calls ->
  map Some results = map (expectedZ W (map gen_dense ms)) calls -> Forall2 (result_ok W ms) calls results.
Proof.
  intros W ms calls; induction calls as [|c rest IH]; intros results HW Hok H; destruct results as [|r rs]; cbn [map] in H; try discriminate; [constructor|].
  inversion Hok as [|? ? Hc Hrest]; subst. injection H as Hr Hrs.
  destruct (call_ok_expected W ms c HW Hc) as [out [He Hres]]. rewrite He in Hr. injection Hr as ->.
  constructor; [exact Hres|exact (IH rs HW Hrest Hrs)].
Qed.

Theorem threads_dense_networks :
  forall (W : Z) (ms : list dense_model) (inits : list (list (nat * list Z) * @mem Z * (nat -> @mem Z))) (sh : nat -> @mem Z)
         (sched : list nat) j calls gp gt,
    (0 < W)%Z ->
    Forall (Forall (call_ok ms)) (map (fun x => fst (fst x)) inits) ->
    nth_error inits j = Some (calls, gp, gt) ->
    list_sum (map (call_work (map gen_dense ms)) calls) <= count_occ Nat.eq_dec sched j ->
    let w0 := {| w_threads := map (fun x => fresh_thread (fst (fst x)) (snd (fst x)) (snd x)) inits; w_shared := sh |} in
    exists t, nth_error (w_threads (run_scheduleZ W (negb (private_storage buffer_storage)) (map gen_dense ms) w0 sched)) j = Some t /\
              finished t = true /\ Forall2 (result_ok W ms) calls (t_results t).
Proof.
  intros W ms inits sh sched j calls gp gt HW Hok Hj Hcnt w0.
  assert (Hgood : Forall (good_callsZ W (map gen_dense ms)) (map (fun x => fst (fst x)) inits)).
  { rewrite Forall_forall in *. intros cs Hin. specialize (Hok cs Hin). unfold good_callsZ, good_calls.
    rewrite Forall_forall in *. intros c Hc. destruct (call_ok_expected W ms c HW (Hok c Hc)) as [out [He _]].
    unfold expectedZ in He. rewrite He. discriminate. }
  destruct (private_schedules_complete 0%Z Z.lnot Z.land Z.lor Z.lxor (wrap W) (map gen_dense ms) inits sh sched j calls gp gt Hgood Hj Hcnt)
    as [t [Hn [Hf Hres]]].
  exists t. split; [exact Hn|]. split; [exact Hf|].
  apply (results_ok_of_expected W ms calls (t_results t) HW); [|exact Hres].
  rewrite Forall_forall in Hok. apply Hok. apply in_map_iff. exists (calls, gp, gt). split; [reflexivity|exact (nth_error_In _ _ Hj)].
Qed.
