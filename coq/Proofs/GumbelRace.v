(* Proofs/GumbelRace.v — the raw Gumbel modes: the sampled gate is the winner of an exponential race.

   functional.gumbel_softmax draws e_i ~ Exp(1) per gate (`.exponential_()`), sets z_i = w_i - ln e_i and, in hard mode,
   takes the gate with the largest z_i (since F64: of z itself, not of the rounded softmax).  For every draw,
       z_i > z_j   <->   e_i / exp(w_i) < e_j / exp(w_j),
   i.e. the chosen gate is the one whose exponential clock with rate exp(w_i) rings first, and dividing all z by a positive
   temperature does not change the winner.  (That the first of independent exponential clocks with rates r_i is clock k
   with probability r_k / sum r = softmax(w)_k is the textbook fact that is NOT proved here; the distribution of
   `.exponential_()` is trusted like torch.rand_like's.) *)
From Coq Require Import Reals Lra.
Local Open Scope R_scope.

Definition gumbel_z (w e : R) : R := w - ln e.

Theorem gumbel_race : forall wi wj ei ej, 0 < ei -> 0 < ej ->
  (gumbel_z wj ej < gumbel_z wi ei <-> ei / exp wi < ej / exp wj).
Proof.
  intros wi wj ei ej Hi Hj. unfold gumbel_z.
  assert (Ewi : 0 < exp wi) by apply exp_pos. assert (Ewj : 0 < exp wj) by apply exp_pos.
  assert (Hqi : 0 < ei / exp wi) by (apply Rdiv_lt_0_compat; assumption).
  assert (Hqj : 0 < ej / exp wj) by (apply Rdiv_lt_0_compat; assumption).
  assert (Li : ln (ei / exp wi) = ln ei - wi).
  { unfold Rdiv. rewrite ln_mult; [|exact Hi|apply Rinv_0_lt_compat; exact Ewi]. rewrite ln_Rinv by exact Ewi. rewrite ln_exp. lra. }
  assert (Lj : ln (ej / exp wj) = ln ej - wj).
  { unfold Rdiv. rewrite ln_mult; [|exact Hj|apply Rinv_0_lt_compat; exact Ewj]. rewrite ln_Rinv by exact Ewj. rewrite ln_exp. lra. }
  split; intro H.
  - apply ln_lt_inv; [exact Hqi|exact Hqj|]. rewrite Li, Lj. lra.
  - apply ln_increasing in H; [|exact Hqi]. rewrite Li, Lj in H. lra.
Qed.

(* the winner does not depend on the temperature: dividing by tau > 0 keeps the order of the z_i *)
Theorem gumbel_race_temperature : forall zi zj tau, 0 < tau -> (zj / tau < zi / tau <-> zj < zi).
Proof.
  intros zi zj tau Ht. unfold Rdiv. assert (Hinv : 0 < / tau) by (apply Rinv_0_lt_compat; exact Ht). split; intro H.
  - apply Rmult_lt_reg_r with (r := / tau); assumption.
  - apply Rmult_lt_compat_r; assumption.
Qed.
