From Coq Require Import Reals Lra.
From TLX Require Import Model.Relax Proofs.RelaxFacts.
Local Open Scope R_scope.

Definition eps : R := 1 / 100000000000000000000.     (* 1e-20 *)
(* logistic noise from a uniform draw u: log(U + 1e-20) - log(1 - U + 1e-20) *)
Definition noise (u : R) : R := ln (u + eps) - ln (1 - u + eps).
Definition gumbel_soft (x u tau : R) : R := sigmoid ((x + noise u) / tau).
Definition gumbel_hard (x u tau t : R) : R := if Rlt_dec t (gumbel_soft x u tau) then 1 else 0.
Definition logit (t : R) : R := ln (t / (1 - t)).

Lemma sigmoid_increasing : forall x y, x < y -> sigmoid x < sigmoid y.
Proof.
  intros x y H. unfold sigmoid.
  assert (exp (- y) < exp (- x)) by (apply exp_increasing; lra).
  pose proof (exp_pos (- x)). pose proof (exp_pos (- y)).
  apply Rinv_lt_contravar; [apply Rmult_lt_0_compat; lra|lra].
Qed.

Lemma sigmoid_lt_iff : forall x y, sigmoid x < sigmoid y <-> x < y.
Proof.
  intros x y. split; [|apply sigmoid_increasing].
  intro H. destruct (Rtotal_order x y) as [Hl|[He|Hg]]; [exact Hl|subst; lra|].
  apply sigmoid_increasing in Hg. lra.
Qed.

Lemma sigmoid_logit : forall t, 0 < t < 1 -> sigmoid (logit t) = t.
Proof.
  intros t Ht. unfold sigmoid, logit.
  assert (Hq : 0 < t / (1 - t)) by (apply Rdiv_lt_0_compat; lra).
  rewrite exp_Ropp, exp_ln by exact Hq. field. lra.
Qed.

(* the sample lies strictly inside (0,1); the hard sample is 0 or 1 *)
Theorem gumbel_soft_range : forall x u tau, 0 < gumbel_soft x u tau < 1.
Proof. intros. unfold gumbel_soft. apply sigmoid_in01. Qed.

Theorem gumbel_hard_values : forall x u tau t, gumbel_hard x u tau t = 0 \/ gumbel_hard x u tau t = 1.
Proof. intros. unfold gumbel_hard. destruct (Rlt_dec t (gumbel_soft x u tau)); auto. Qed.

(* a threshold at or beyond the ends of (0,1): the answer does not depend on the draw, the logit or the temperature *)
Theorem hard_threshold_outside : forall x u tau t,
  (t <= 0 -> gumbel_hard x u tau t = 1) /\ (1 <= t -> gumbel_hard x u tau t = 0).
Proof.
  intros x u tau t. pose proof (gumbel_soft_range x u tau) as [H0 H1]. unfold gumbel_hard. split; intro Ht.
  - destruct (Rlt_dec t (gumbel_soft x u tau)) as [_|Hn]; [reflexivity|exfalso; apply Hn; lra].
  - destruct (Rlt_dec t (gumbel_soft x u tau)) as [Hl|_]; [exfalso; lra|reflexivity].
Qed.

(* hard event for a threshold t in (0,1): soft > t  <->  logit + noise > tau * logit(t) *)
Theorem hard_event : forall x u tau t, 0 < tau -> 0 < t < 1 ->
  (t < gumbel_soft x u tau <-> tau * logit t < x + noise u).
Proof.
  intros x u tau t Htau Ht. unfold gumbel_soft.
  rewrite <- (sigmoid_logit t Ht) at 1. rewrite sigmoid_lt_iff.
  split; intro H.
  - apply (Rmult_lt_compat_l tau) in H; [|exact Htau].
    replace (tau * ((x + noise u) / tau)) with (x + noise u) in H by (field; lra). exact H.
  - apply (Rmult_lt_reg_l tau); [exact Htau|]. replace (tau * ((x + noise u) / tau)) with (x + noise u) by (field; lra). exact H.
Qed.

Lemma logit_half : logit (/ 2) = 0.
Proof. unfold logit. replace (/ 2 / (1 - / 2)) with 1 by field. apply ln_1. Qed.

(* at the default threshold 1/2 the temperature does not occur in the event *)
Theorem hard_event_default : forall x u tau, 0 < tau -> (/ 2 < gumbel_soft x u tau <-> 0 < x + noise u).
Proof.
  intros x u tau Htau. rewrite (hard_event x u tau (/ 2) Htau) by lra. rewrite logit_half, Rmult_0_r. tauto.
Qed.

Theorem hard_temperature_independent : forall x u tau1 tau2, 0 < tau1 -> 0 < tau2 ->
  gumbel_hard x u tau1 (/ 2) = gumbel_hard x u tau2 (/ 2).
Proof.
  intros x u t1 t2 H1 H2. unfold gumbel_hard.
  destruct (Rlt_dec (/ 2) (gumbel_soft x u t1)) as [A|A], (Rlt_dec (/ 2) (gumbel_soft x u t2)) as [B|B]; try reflexivity.
  - exfalso. apply B. apply hard_event_default; [exact H2|]. apply (hard_event_default x u t1 H1). exact A.
  - exfalso. apply A. apply hard_event_default; [exact H1|]. apply (hard_event_default x u t2 H2). exact B.
Qed.

(* with the 1e-20 guard removed the event {hard = 1} is the interval u in (1 - logistic(x), 1), of length logistic(x):
   P(hard = 1) = logistic(logit) for a uniform draw, whatever the temperature *)
Theorem hard_event_interval : forall x u, 0 < u < 1 ->
  (0 < x + (ln u - ln (1 - u)) <-> 1 - sigmoid x < u).
Proof.
  intros x u Hu. unfold sigmoid.
  pose proof (exp_pos (- x)) as He.
  assert (Hq : 0 < u / (1 - u)) by (apply Rdiv_lt_0_compat; lra).
  assert (Eln : ln u - ln (1 - u) = ln (u / (1 - u))).
  { unfold Rdiv. rewrite ln_mult by (try apply Rinv_0_lt_compat; lra). rewrite ln_Rinv by lra. ring. }
  rewrite Eln.
  assert (E : 1 - / (1 + exp (- x)) = exp (- x) / (1 + exp (- x))) by (field; lra). rewrite E.
  split; intro H.
  - assert (H1 : - x < ln (u / (1 - u))) by lra.
    apply exp_increasing in H1. rewrite exp_ln in H1 by exact Hq.
    apply (Rmult_lt_reg_r (1 + exp (- x))); [lra|]. unfold Rdiv at 1. rewrite Rmult_assoc, Rinv_l, Rmult_1_r by lra.
    apply (Rmult_lt_compat_r (1 - u)) in H1; [|lra]. unfold Rdiv in H1. rewrite Rmult_assoc, Rinv_l, Rmult_1_r in H1 by lra. lra.
  - assert (H1 : exp (- x) < u / (1 - u)).
    { apply (Rmult_lt_compat_r (1 + exp (- x))) in H; [|lra]. unfold Rdiv at 1 in H. rewrite Rmult_assoc, Rinv_l, Rmult_1_r in H by lra.
      apply (Rmult_lt_reg_r (1 - u)); [lra|]. unfold Rdiv. rewrite Rmult_assoc, Rinv_l, Rmult_1_r by lra. lra. }
    assert (H2 : - x < ln (u / (1 - u))).
    { rewrite <- (ln_exp (- x)). apply ln_increasing; [apply exp_pos|exact H1]. }
    lra.
Qed.

(* the sample is a function of (logit, draw, temperature) only: equal draws give equal samples *)
Theorem gumbel_reproducible : forall x u tau x' u' tau', x = x' -> u = u' -> tau = tau' ->
  gumbel_soft x u tau = gumbel_soft x' u' tau'.
Proof. intros; subst; reflexivity. Qed.
