(* Property C06 — group sum is an exact per-class count, in PyTorch and in the compiled adder. *)
From Coq Require Import String ZArith QArith List Bool Arith.
From TLX Require Import Model.Bits Model.CLang Model.Netlist Model.Wrapper Model.GroupSum.
From TLX Require Import Proofs.CLangFacts Proofs.WrapperFacts Proofs.C06Facts Gen.WrapperParams Gen.GroupSumSrc.
Import ListNotations.

(* PyTorch side (exact rationals): k consecutive groups of n/k, count/tau (+beta), any leading shape;
   a width not divisible by k is rejected *)
Theorem C06_torch : forall k tau beta bits, (0 < k)%nat -> (length bits mod k = 0)%nat ->
  exists ys, groupsum k tau beta (map b2q bits) = Some ys /\
    Forall2 (fun y c => y == (inject_Z c + beta) / tau)%Q ys (group_counts k (length bits / k) bits).
Proof. exact groupsum_counts. Qed.

Theorem C06_torch_rejects : forall k tau beta x, (length x mod k <> 0)%nat -> groupsum k tau beta x = None.
Proof. exact groupsum_rejects. Qed.

Theorem C06_torch_rowwise : forall k tau beta xs i,
  nth i (groupsum_batch k tau beta xs) None = match nth_error xs i with Some x => groupsum k tau beta x | None => None end.
Proof. exact groupsum_rowwise. Qed.

(* accumulator width: every count 0..g fits, for EVERY group size g (2^m-1, 2^m, 2^m+1 are not special) *)
Theorem C06_width : forall g : Z, (0 <= g)%Z -> (g < 2 ^ Z.log2_up (g + 1))%Z.
Proof. exact width_enough. Qed.

Theorem C06_width_expr : forall n k : Z, acc_width n k = Z.log2_up (group_size n k + 1).
Proof. exact acc_width_is_log2_up. Qed.

(* the bit-sliced ripple-carry adder followed by the unpack loop returns, in every lane b < W,
   exactly the number of set bits of lane b among the g words of class c *)
Theorem C06_adder : forall (W n_out k : nat), (1 < W)%nat -> (Z.of_nat (gsize n_out k) < 2 ^ 31)%Z ->
  forall ot c b, (b < W)%nat ->
    unpack_lane W (adder W n_out k ot c) b
    = count_true (map (fun a => nth (c * gsize n_out k + a) (map (lane (Z.of_nat b)) ot) false) (seq 0 (gsize n_out k))).
Proof. exact cell_correct. Qed.

(* one whole word: all W lanes x k classes *)
Theorem C06_compiled_counts : forall (W n_out k : nat), (1 < W)%nat -> (Z.of_nat (gsize n_out k) < 2 ^ 31)%Z ->
  forall ot, word_result W n_out k ot
    = flat_map (fun b => group_counts k (gsize n_out k) (map (lane (Z.of_nat b)) ot)) (seq 0 W).
Proof. exact word_result_correct. Qed.

(* non-vacuity: group size 8 = 2^3 needs 4 accumulator bits and the all-ones group counts to 8 in the sign lane *)
Example C06_example :
  width 16 2 = 4%nat /\
  unpack_lane 8 (adder 8 16 2 (repeat (-1)%Z 16) 1) 7 = 8%Z.
Proof. split; vm_compute; reflexivity. Qed.

Eval compute in "PA:C06_torch"%string. Print Assumptions C06_torch.
Eval compute in "PA:C06_torch_rejects"%string. Print Assumptions C06_torch_rejects.
Eval compute in "PA:C06_torch_rowwise"%string. Print Assumptions C06_torch_rowwise.
Eval compute in "PA:C06_width"%string. Print Assumptions C06_width.
Eval compute in "PA:C06_width_expr"%string. Print Assumptions C06_width_expr.
Eval compute in "PA:C06_adder"%string. Print Assumptions C06_adder.
Eval compute in "PA:C06_compiled_counts"%string. Print Assumptions C06_compiled_counts.
