(* Property C16 — compiled models coexist in one process without interfering. *)
From Coq Require Import String List Bool Arith.
From TLX Require Import Model.Proc Gen.LibIO Gen.WrapperParams Proofs.C16Facts.
Import ListNotations.

(* the library calls made by compile(save) and load in the current source *)
Theorem C16_disciplines : save_mode = AtomicRename /\ load_mode = PrivateCopy /\ load_passes_num_bits = true
  /\ load_sets_shape_and_classes = true /\ recompile_mode = Refuses.
Proof. exact current_disciplines. Qed.

(* EVERY finite history of compile(save to p) / load(p) / call / compile() again on an existing instance: the process model
   behaves exactly as the specification "a call returns the model its handle was created from; load(p) yields the model most
   recently saved to p; compiling an instance again saves its own model; an instance without a model (from load) refuses" *)
Theorem C16_invariant : forall ops, run AtomicRename PrivateCopy Refuses empty ops = spec_run spec_empty ops.
Proof. exact histories_refine_spec. Qed.

Theorem C16_no_crash : forall ops, ~ In RCrash (run AtomicRename PrivateCopy Refuses empty ops).
Proof. exact no_history_crashes. Qed.

(* the earlier disciplines violate it: overwriting a mapped library in place crashes a live handle; loading by path
   returns a stale library after a re-save *)
Theorem C16_inplace_refuted :
  In RCrash (run InPlace ByPath Refuses empty [OCompile 1 (Some 0); OLoad 0; OCompile 2 (Some 0); OCall 1]).
Proof. exact inplace_bypath_crashes. Qed.
Theorem C16_bypath_refuted :
  run AtomicRename ByPath Refuses empty [OCompile 1 (Some 0); OLoad 0; OCompile 2 (Some 0); OLoad 0; OCall 3]
  <> spec_run spec_empty [OCompile 1 (Some 0); OLoad 0; OCompile 2 (Some 0); OLoad 0; OCall 3].
Proof. exact bypath_stale. Qed.

(* compile() on a loaded handle, had it been accepted (code generated from no model, as before F43): the handle and every later
   load of the path compute the empty network, where the specification keeps model 1 *)
Theorem C16_rebuilds_empty_refuted :
  run AtomicRename PrivateCopy RebuildsEmpty empty [OCompile 1 (Some 0); OLoad 0; ORecompile 1 (Some 0); OCall 1; OLoad 0; OCall 2]
  = [RHandle 0; RHandle 1; RHandle 1; RValue EMPTY; RHandle 2; RValue EMPTY]
  /\ spec_run spec_empty [OCompile 1 (Some 0); OLoad 0; ORecompile 1 (Some 0); OCall 1; OLoad 0; OCall 2]
  = [RHandle 0; RHandle 1; RError; RValue 1; RHandle 2; RValue 1].
Proof. exact rebuilds_empty_refuted. Qed.
Theorem C16_compile_requires_model : compile_requires_model = true.
Proof. reflexivity. Qed.

(* re-entrancy: the emitted wrapper has exactly the modelled structure (all working storage is per-call heap memory, no static
   object), and logic_net's arrays are automatic (the parser rejects any static object in it) *)
Theorem C16_reentrant_structure : wrapper_template_matches = true.
Proof. reflexivity. Qed.

Eval compute in "PA:C16_disciplines"%string. Print Assumptions C16_disciplines.
Eval compute in "PA:C16_invariant"%string. Print Assumptions C16_invariant.
Eval compute in "PA:C16_no_crash"%string. Print Assumptions C16_no_crash.
Eval compute in "PA:C16_inplace_refuted"%string. Print Assumptions C16_inplace_refuted.
Eval compute in "PA:C16_bypath_refuted"%string. Print Assumptions C16_bypath_refuted.
Eval compute in "PA:C16_reentrant_structure"%string. Print Assumptions C16_reentrant_structure.
Eval compute in "PA:C16_rebuilds_empty_refuted"%string. Print Assumptions C16_rebuilds_empty_refuted.
Eval compute in "PA:C16_compile_requires_model"%string. Print Assumptions C16_compile_requires_model.
