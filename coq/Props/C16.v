(* Property C16 — compiled models coexist in one process without interfering. *)
From Coq Require Import String ZArith List Bool Arith.
From TLX Require Import Model.Bits Model.CLang Model.Proc Gen.LibIO Gen.WrapperParams Proofs.C16Facts Model.Threads Gen.Storage Proofs.ThreadsFacts Model.ProcAlloc Proofs.ProcAllocFacts Model.Netlist Model.GenDense Proofs.ThreadsDense Model.ConvNet Model.GenNet Proofs.ThreadsNet Model.Wrapper Proofs.WrapperFacts Proofs.ThreadsWrapper Proofs.ThreadsCounts.
Import ListNotations.

(* the library calls made by compile(save) and load in the current source *)
Theorem C16_disciplines : save_mode = AtomicRename /\ load_mode = PrivateCopy /\ load_passes_num_bits = true
  /\ load_sets_shape_and_classes = true /\ recompile_mode = Refuses.
Proof. exact current_disciplines. Qed.

(* EVERY finite history of compile(save to p) / load(p) / call / compile() again on an existing instance: the process model
   behaves exactly as the specification "a call returns the model its handle was created from; load(p) yields the model most
   recently saved to p; compiling an instance again saves its own model; an instance without a model (from load) refuses" *)
Theorem C16_invariant : forall ops, run AtomicRename PrivateCopy Refuses empty ops = spec_run spec_empty ops.
Proof. exact histories_refine_spec. Qed.

Theorem C16_no_crash : forall ops, ~ In RCrash (run AtomicRename PrivateCopy Refuses empty ops).
Proof. exact no_history_crashes. Qed.

(* the earlier disciplines violate it: overwriting a mapped library in place crashes a live handle; loading by path
   returns a stale library after a re-save *)
Theorem C16_inplace_refuted :
  In RCrash (run InPlace ByPath Refuses empty [OCompile 1 (Some 0); OLoad 0; OCompile 2 (Some 0); OCall 1]).
Proof. exact inplace_bypath_crashes. Qed.
Theorem C16_bypath_refuted :
  run AtomicRename ByPath Refuses empty [OCompile 1 (Some 0); OLoad 0; OCompile 2 (Some 0); OLoad 0; OCall 3]
  <> spec_run spec_empty [OCompile 1 (Some 0); OLoad 0; OCompile 2 (Some 0); OLoad 0; OCall 3].
Proof. exact bypath_stale. Qed.

(* compile() on a loaded handle, had it been accepted (code generated from no model, as before F43): the handle and every later
   load of the path compute the empty network, where the specification keeps model 1 *)
Theorem C16_rebuilds_empty_refuted :
  run AtomicRename PrivateCopy RebuildsEmpty empty [OCompile 1 (Some 0); OLoad 0; ORecompile 1 (Some 0); OCall 1; OLoad 0; OCall 2]
  = [RHandle 0; RHandle 1; RHandle 1; RValue EMPTY; RHandle 2; RValue EMPTY]
  /\ spec_run spec_empty [OCompile 1 (Some 0); OLoad 0; ORecompile 1 (Some 0); OCall 1; OLoad 0; OCall 2]
  = [RHandle 0; RHandle 1; RError; RValue 1; RHandle 2; RValue 1].
Proof. exact rebuilds_empty_refuted. Qed.
Theorem C16_compile_requires_model : compile_requires_model = true.
Proof. reflexivity. Qed.

(* re-entrancy: the emitted wrapper has exactly the modelled structure (all working storage is per-call heap memory, no static
   object), and logic_net's arrays are automatic (the parser rejects any static object in it) *)
Theorem C16_reentrant_structure : wrapper_template_matches = true.
Proof. reflexivity. Qed.

(* ---- concurrent calls: every schedule ---- *)
(* the arrays declared inside the generated logic_net have the storage class of the module constant BUFFER_STORAGE at every
   declaration site (translator), and that class is private to a thread *)
Theorem C16_buffers_private : private_storage buffer_storage = true.
Proof. reflexivity. Qed.

(* EVERY schedule of EVERY set of threads calling EVERY set of libraries (same or different), word size W, statement by
   statement: no thread gets stuck, what a thread has obtained so far is exactly what its calls return when made alone on fresh
   memory (execZ: by C01 / C02 the eval-mode function of the model in every bit lane), in order, and a thread that has
   finished has all its results — whatever the arrays and buffers held before (stale `out`, the thread's previous call,
   uninitialised stack), whatever the other threads do.  The discipline is the one read from the source. *)
Theorem C16_threads_sequential :
  forall (W : Z) (libs : list prog) (inits : list (list (nat * list Z) * @mem Z * (nat -> @mem Z))) (sh : nat -> @mem Z) (sched : list nat),
    Forall (good_callsZ W libs) (map (fun x => fst (fst x)) inits) ->
    let w0 := {| w_threads := map (fun x => fresh_thread (fst (fst x)) (snd (fst x)) (snd x)) inits; w_shared := sh |} in
    Forall2 (fun calls0 t =>
               t_stuck t = false /\
               (exists k, map Some (t_results t) = map (expectedZ W libs) (firstn k calls0)) /\
               (finished t = true -> map Some (t_results t) = map (expectedZ W libs) calls0))
            (map (fun x => fst (fst x)) inits)
            (w_threads (run_scheduleZ W (negb (private_storage buffer_storage)) libs w0 sched)).
Proof. exact (fun W => private_schedules_sequential 0%Z Z.lnot Z.land Z.lor Z.lxor (wrap W)). Qed.

(* ... and every schedule that gives thread j its turns (one to start a call, one per statement, one to return) ends with thread
   j finished, holding exactly the results of its calls made alone *)
Theorem C16_threads_complete :
  forall (W : Z) (libs : list prog) (inits : list (list (nat * list Z) * @mem Z * (nat -> @mem Z))) (sh : nat -> @mem Z) (sched : list nat)
         j calls gp gt,
    Forall (good_callsZ W libs) (map (fun x => fst (fst x)) inits) ->
    nth_error inits j = Some (calls, gp, gt) ->
    list_sum (map (call_work libs) calls) <= count_occ Nat.eq_dec sched j ->
    let w0 := {| w_threads := map (fun x => fresh_thread (fst (fst x)) (snd (fst x)) (snd x)) inits; w_shared := sh |} in
    exists t, nth_error (w_threads (run_scheduleZ W (negb (private_storage buffer_storage)) libs w0 sched)) j = Some t /\
              finished t = true /\ map Some (t_results t) = map (expectedZ W libs) calls.
Proof. exact (fun W => private_schedules_complete 0%Z Z.lnot Z.land Z.lor Z.lxor (wrap W)). Qed.

(* END TO END for dense networks: the libraries are the generated programs of ANY well-formed dense models; every call names one of them
   and brings an input of its size.  Then under EVERY schedule that gives thread j its turns, thread j finishes and the result of each of
   its calls is, in EVERY bit lane, the reference circuit (eval-mode function) of the model it called - whatever the other threads do *)
Theorem C16_threads_dense_networks :
  forall (W : Z) (ms : list dense_model) (inits : list (list (nat * list Z) * @mem Z * (nat -> @mem Z))) (sh : nat -> @mem Z)
         (sched : list nat) j calls gp gt,
    (0 < W)%Z ->
    Forall (Forall (call_ok ms)) (map (fun x => fst (fst x)) inits) ->
    nth_error inits j = Some (calls, gp, gt) ->
    list_sum (map (call_work (map gen_dense ms)) calls) <= count_occ Nat.eq_dec sched j ->
    let w0 := {| w_threads := map (fun x => fresh_thread (fst (fst x)) (snd (fst x)) (snd x)) inits; w_shared := sh |} in
    exists t, nth_error (w_threads (run_scheduleZ W (negb (private_storage buffer_storage)) (map gen_dense ms) w0 sched)) j = Some t /\
              finished t = true /\ Forall2 (result_ok W ms) calls (t_results t).
Proof. exact threads_dense_networks. Qed.

(* ... and for stacks Conv (Conv|Pool)* [Flatten Dense*] in 2-D and 3-D (generator theorem C02_logic_net) *)
Theorem C16_threads_spatial_networks :
  forall (W : Z) (ms : list spatial_model) (inits : list (list (nat * list Z) * @mem Z * (nat -> @mem Z))) (sh : nat -> @mem Z)
         (sched : list nat) j calls gp gt,
    (0 < W)%Z ->
    Forall (Forall (ncall_ok ms)) (map (fun x => fst (fst x)) inits) ->
    nth_error inits j = Some (calls, gp, gt) ->
    list_sum (map (call_work (map gen_net ms)) calls) <= count_occ Nat.eq_dec sched j ->
    let w0 := {| w_threads := map (fun x => fresh_thread (fst (fst x)) (snd (fst x)) (snd x)) inits; w_shared := sh |} in
    exists t, nth_error (w_threads (run_scheduleZ W (negb (private_storage buffer_storage)) (map gen_net ms) w0 sched)) j = Some t /\
              finished t = true /\ Forall2 (nresult_ok W ms) calls (t_results t).
Proof. exact threads_spatial_networks. Qed.

(* a whole apply_logic_net call (pack every word, logic_net, bit-sliced adder, unpack) made by thread j into the generated program of a
   well-formed dense model while other threads run: under every schedule that gives the thread its turns, the counts the wrapper computes
   from the concurrently obtained logic_net results are the per-class counts of the reference circuit for every row of the batch *)
Theorem C16_threads_wrapper_counts :
  forall (W k : nat) (m : dense_model) (libs : list prog) (inits : list (list (nat * list Z) * @mem Z * (nat -> @mem Z))) (sh : nat -> @mem Z)
         (sched : list nat) j l inp len gp gt,
    (1 < W)%nat -> wf_dense_model m = true -> (Z.of_nat (gsize (out_width m) k) < 2 ^ 31)%Z ->
    nth_error libs l = Some (gen_dense m) ->
    Forall (good_callsZ (Z.of_nat W) libs) (map (fun x => fst (fst x)) inits) ->
    nth_error inits j = Some (wrapper_calls W (dm_in m) l inp len, gp, gt) ->
    list_sum (map (call_work libs) (wrapper_calls W (dm_in m) l inp len)) <= count_occ Nat.eq_dec sched j ->
    let w0 := {| w_threads := map (fun x => fresh_thread (fst (fst x)) (snd (fst x)) (snd x)) inits; w_shared := sh |} in
    exists t, nth_error (w_threads (run_scheduleZ (Z.of_nat W) (negb (private_storage buffer_storage)) libs w0 sched)) j = Some t /\
              finished t = true /\
              @all_some Z (map (fun o => Some (word_result W (out_width m) k o)) (t_results t))
              = Some (WrapperFacts.expected W (dm_in m) (out_width m) k (eval_dense_net (dm_layers m)) inp len).
Proof. exact threads_dense_counts. Qed.

(* one thread, many calls: a call's result does not depend on what earlier calls left in `out` and in the buffers *)
Theorem C16_stale_memory : forall (W : Z) (p : prog) (inp out : list Z) (stale : @mem Z),
  execZ W p inp = Some out ->
  exists mf, @exec_body Z 0%Z Z.lnot Z.land Z.lor Z.lxor (wrap W) (sizes p)
               (fun b i => if b =? 0 then nth_error inp i else stale b i) (body p) = Some mf
             /\ read_all mf 1 (seq 0 (size_of (sizes p) 1)) = Some out.
Proof. exact (fun W => stale_memory_same_result 0%Z Z.lnot Z.land Z.lor Z.lxor (wrap W)). Qed.

(* with plain `static` buffers (one copy for all threads) the statement is false: two threads, one library
   `buf[0] = inp[0]; out[0] = buf[0];`, inputs 1 and 0 — the schedule below makes thread 0 return thread 1's value; the same
   schedule with private buffers returns the sequential results (the premises of the theorem above are satisfiable) *)
Theorem C16_shared_static_refuted :
  results_of (run_scheduleB true [copy_lib] two_threads bad_schedule) = [[[false]]; [[false]]]
  /\ map (@Threads.expected bool false negb andb orb xorb (fun b => b) [copy_lib]) [(0, [true]); (0, [false])] = [Some [true]; Some [false]].
Proof. exact shared_static_wrong. Qed.
Theorem C16_private_example :
  results_of (run_scheduleB false [copy_lib] two_threads bad_schedule) = [[[true]]; [[false]]]
  /\ stuck_of (run_scheduleB false [copy_lib] two_threads bad_schedule) = [false; false]
  /\ map (@finished bool) (w_threads (run_scheduleB false [copy_lib] two_threads bad_schedule)) = [true; true].
Proof. exact private_same_schedule. Qed.
(* a program that reads a cell before writing it is outside the theorem (no result on fresh memory) and does depend on history *)
Theorem C16_unwritten_read_refuted :
  execB stale_lib [true] = None
  /\ results_of (run_scheduleB false [stale_lib]
        {| w_threads := [fresh_thread [(0, [true]); (0, [true])] no_garbage (fun _ b i => if (b =? 2) && (i =? 0) then Some false else None)];
           w_shared := fun _ => no_garbage |} [0; 0; 0; 0; 0; 0; 0; 0]) = [[[false]; [true]]].
Proof. exact unwritten_read_depends_on_history. Qed.

(* ---- file identities that are re-used ---- *)
(* Model/Proc.v never re-uses an inode number; a file system does (the number of a replaced file is free again).  With the
   allocation policy a parameter - ANY function returning a number that is neither named by a path, nor mapped by a handle, nor
   among the temporaries alive during the operation - rename-on-save and private-copy-on-load still produce, for EVERY history,
   exactly the outputs of the specification *)
Theorem C16_invariant_any_inode_policy : forall alloc, fresh_policy alloc ->
  forall ops, arun alloc LPrivateCopy aempty ops = spec_run spec_empty ops.
Proof. exact histories_refine_spec_any_policy. Qed.
(* such policies exist: never re-use, smallest free number, and "temporaries on another device, saves take the smallest free number" *)
Theorem C16_policies_fresh : fresh_policy alloc_never_reuse /\ fresh_policy alloc_smallest_free /\ fresh_policy alloc_two_devices.
Proof. exact (conj never_reuse_fresh (conj smallest_free_fresh two_devices_fresh)). Qed.
(* a loader that remembers which libraries it has mapped by the identity (device, inode) of the saved file returns a stale library
   once a number is re-used: save 1, load, save 2, save 2 (gets the number of the first file), load, call -> model 1, where the
   specification says 2; under the never-re-use policy the same loader looks correct *)
Theorem C16_cached_by_identity_refuted :
  arun alloc_two_devices LCachedByIdentity aempty recycle_history = [RHandle 0; RHandle 1; RHandle 2; RHandle 3; RHandle 4; RValue 1]
  /\ spec_run spec_empty recycle_history = [RHandle 0; RHandle 1; RHandle 2; RHandle 3; RHandle 4; RValue 2]
  /\ arun alloc_never_reuse LCachedByIdentity aempty recycle_history = spec_run spec_empty recycle_history.
Proof. exact cached_by_identity_stale. Qed.

Eval compute in "PA:C16_disciplines"%string. Print Assumptions C16_disciplines.
Eval compute in "PA:C16_invariant"%string. Print Assumptions C16_invariant.
Eval compute in "PA:C16_no_crash"%string. Print Assumptions C16_no_crash.
Eval compute in "PA:C16_inplace_refuted"%string. Print Assumptions C16_inplace_refuted.
Eval compute in "PA:C16_bypath_refuted"%string. Print Assumptions C16_bypath_refuted.
Eval compute in "PA:C16_reentrant_structure"%string. Print Assumptions C16_reentrant_structure.
Eval compute in "PA:C16_rebuilds_empty_refuted"%string. Print Assumptions C16_rebuilds_empty_refuted.
Eval compute in "PA:C16_compile_requires_model"%string. Print Assumptions C16_compile_requires_model.
Eval compute in "PA:C16_buffers_private"%string. Print Assumptions C16_buffers_private.
Eval compute in "PA:C16_threads_sequential"%string. Print Assumptions C16_threads_sequential.
Eval compute in "PA:C16_threads_complete"%string. Print Assumptions C16_threads_complete.
Eval compute in "PA:C16_stale_memory"%string. Print Assumptions C16_stale_memory.
Eval compute in "PA:C16_shared_static_refuted"%string. Print Assumptions C16_shared_static_refuted.
Eval compute in "PA:C16_private_example"%string. Print Assumptions C16_private_example.
Eval compute in "PA:C16_unwritten_read_refuted"%string. Print Assumptions C16_unwritten_read_refuted.
Eval compute in "PA:C16_invariant_any_inode_policy"%string. Print Assumptions C16_invariant_any_inode_policy.
Eval compute in "PA:C16_policies_fresh"%string. Print Assumptions C16_policies_fresh.
Eval compute in "PA:C16_cached_by_identity_refuted"%string. Print Assumptions C16_cached_by_identity_refuted.
Eval compute in "PA:C16_threads_dense_networks"%string. Print Assumptions C16_threads_dense_networks.
Eval compute in "PA:C16_threads_spatial_networks"%string. Print Assumptions C16_threads_spatial_networks.
Eval compute in "PA:C16_threads_wrapper_counts"%string. Print Assumptions C16_threads_wrapper_counts.
