(* Property C20 — every predefined architecture is dimensionally consistent, for EVERY scale parameter k >= 1.
   The layer lists are regenerated from the models package by symbolic construction (Gen/Models.v). *)
From Coq Require Import String ZArith List.
From TLX Require Import Model.Shapes Gen.Models Proofs.C20Facts.
Import ListNotations.
Local Open Scope Z_scope.

Theorem C20_ClgnMnist : forall k, 1 <= k -> run (ClgnMnist_layers k) (Sp 1 [28; 28]) (fun s => s = Fl 10).
Proof. exact ClgnMnist_ok. Qed.
Theorem C20_ClgnCifar10 : forall k, 1 <= k ->
  run (ClgnCifar10_nbits1_layers k) (Sp 3 [32; 32]) (fun s => s = Fl 10)
  /\ run (ClgnCifar10_nbits2_layers k) (Sp 6 [32; 32]) (fun s => s = Fl 10)
  /\ run (ClgnCifar10_nbits3_layers k) (Sp 9 [32; 32]) (fun s => s = Fl 10)
  /\ run (ClgnCifar10_nbits4_layers k) (Sp 12 [32; 32]) (fun s => s = Fl 10)
  /\ run (ClgnCifar10_nbits5_layers k) (Sp 15 [32; 32]) (fun s => s = Fl 10).
Proof. intros k Hk. exact (conj (ClgnCifar10_1_ok k Hk) (conj (ClgnCifar10_2_ok k Hk) (conj (ClgnCifar10_3_ok k Hk) (conj (ClgnCifar10_4_ok k Hk) (ClgnCifar10_5_ok k Hk))))). Qed.
Theorem C20_ClgnCifar10Res : forall k, 1 <= k ->
  run (ClgnCifar10Res_nbits1_layers k) (Sp 3 [32; 32]) (fun s => s = Fl 10)
  /\ run (ClgnCifar10Res_nbits2_layers k) (Sp 6 [32; 32]) (fun s => s = Fl 10)
  /\ run (ClgnCifar10Res_nbits3_layers k) (Sp 9 [32; 32]) (fun s => s = Fl 10)
  /\ run (ClgnCifar10Res_nbits4_layers k) (Sp 12 [32; 32]) (fun s => s = Fl 10)
  /\ run (ClgnCifar10Res_nbits5_layers k) (Sp 15 [32; 32]) (fun s => s = Fl 10).
Proof. intros k Hk. exact (conj (ClgnCifar10Res_1_ok k Hk) (conj (ClgnCifar10Res_2_ok k Hk) (conj (ClgnCifar10Res_3_ok k Hk) (conj (ClgnCifar10Res_4_ok k Hk) (ClgnCifar10Res_5_ok k Hk))))). Qed.
(* the layer lists above are those of the GENERIC scale; where a constructor compares two scale-dependent sizes (the residual
   block's in_channels != out_channels), the scale at which the comparison flips is constructed concretely and checked here *)
Theorem C20_exceptional_scales : forallb fixed_ok exceptional_models = true.
Proof. exact exceptional_models_ok. Qed.
Theorem C20_ClgnCifar10Tiny : forall k, 1 <= k -> run (ClgnCifar10Tiny_layers k) (Sp 9 [32; 32]) (fun s => s = Fl 10).
Proof. exact ClgnCifar10Tiny_ok. Qed.
Theorem C20_ClgnCifar10Mini : forall k, 1 <= k -> run (ClgnCifar10Mini_layers k) (Sp 9 [32; 32]) (fun s => s = Fl 10).
Proof. exact ClgnCifar10Mini_ok. Qed.
Theorem C20_CNN : forall k, 1 <= k -> run (CNN_layers k) (Sp 1 [28; 28]) (fun s => s = Fl 10).
Proof. exact CNN_ok. Qed.
(* dense family: neurons_per_layer = 10 k, i.e. any multiple of the class count (other widths are rejected by the group sum) *)
Theorem C20_Dlgn : forall k, 1 <= k ->
  run (DlgnMnist_layers k) (Sp 1 [28; 28]) (fun s => s = Fl 10)
  /\ run (DlgnCifar10_2_4_layers k) (Sp 6 [32; 32]) (fun s => s = Fl 10)
  /\ run (DlgnCifar10_5_5_layers k) (Sp 15 [32; 32]) (fun s => s = Fl 10)
  /\ run (Dlgn_generic_layers k) (Sp 1 [3; 4]) (fun s => s = Fl 4)
  /\ run (RandomlyConnectedNN_layers k) (Sp 1 [3; 4]) (fun s => s = Fl 4).
Proof.
  intros k Hk. exact (conj (DlgnMnist_ok k Hk) (conj (DlgnCifar10_2_4_ok k Hk) (conj (DlgnCifar10_5_5_ok k Hk)
                        (conj (Dlgn_generic_ok k Hk) (RandomlyConnectedNN_ok k Hk))))).
Qed.
(* every exported fixed-scale subclass constructs (argument plumbing, by the translator) and its shapes chain to (batch, 10) *)
Theorem C20_fixed_scale_classes : forallb fixed_ok fixed_models = true /\ length fixed_models = 24%nat.
Proof. exact fixed_models_ok. Qed.

(* ---- the connection-scheme axis.  Every convolutional family supports connections='unique' at every scale ... *)
Theorem C20_unique_scheme_conv_families : forall k, 1 <= k ->
  unique_all (ClgnMnist_layers k) /\ unique_all (CNN_layers k) /\ unique_all (ClgnCifar10Tiny_layers k)
  /\ unique_all (ClgnCifar10_nbits1_layers k) /\ unique_all (ClgnCifar10_nbits2_layers k) /\ unique_all (ClgnCifar10_nbits3_layers k)
  /\ unique_all (ClgnCifar10_nbits4_layers k) /\ unique_all (ClgnCifar10_nbits5_layers k)
  /\ unique_all (ClgnCifar10Res_nbits1_layers k) /\ unique_all (ClgnCifar10Res_nbits2_layers k) /\ unique_all (ClgnCifar10Res_nbits3_layers k)
  /\ unique_all (ClgnCifar10Res_nbits4_layers k) /\ unique_all (ClgnCifar10Res_nbits5_layers k).
Proof.
  intros k Hk.
  exact (conj (ClgnMnist_unique k Hk) (conj (CNN_unique k Hk) (conj (ClgnCifar10Tiny_unique k Hk)
        (conj (ClgnCifar10_1_unique k Hk) (conj (ClgnCifar10_2_unique k Hk) (conj (ClgnCifar10_3_unique k Hk)
        (conj (ClgnCifar10_4_unique k Hk) (conj (ClgnCifar10_5_unique k Hk)
        (conj (ClgnCifar10Res_1_unique k Hk) (conj (ClgnCifar10Res_2_unique k Hk) (conj (ClgnCifar10Res_3_unique k Hk)
        (conj (ClgnCifar10Res_4_unique k Hk) (ClgnCifar10Res_5_unique k Hk))))))))))))).
Qed.
(* ... except ClgnCifar10Mini, whose last dense layer (128 k -> 60 k) is narrower than half its input: the full statement
   "every class x every scale x every connection scheme constructs" is REFUTED for it at every scale (known finding F51);
   the rest of the class is allowed *)
Theorem C20_unique_scheme_Mini_refuted : forall k, 1 <= k -> ~ unique_all (ClgnCifar10Mini_layers k).
Proof. exact ClgnCifar10Mini_unique_refuted. Qed.
Theorem C20_unique_scheme_Mini_partial : forall k, 1 <= k ->
  match ClgnCifar10Mini_layers k with
  | c :: f :: d1 :: d2 :: d3 :: _ => unique_all [c; f; d1; d2; d3]
  | _ => False
  end.
Proof. exact ClgnCifar10Mini_unique_others. Qed.
(* the dense family supports 'unique' exactly between half the input width and the number of input pairs (neurons = 10 k, resp. 4 k) *)
Theorem C20_unique_scheme_dense_family : forall k, 1 <= k ->
  (unique_all (DlgnMnist_layers k) <-> 40 <= k <= 30693)
  /\ (unique_all (DlgnCifar10_2_4_layers k) <-> 308 <= k <= 1887129)
  /\ (unique_all (DlgnCifar10_5_5_layers k) <-> 768 <= k <= 11795712)
  /\ (unique_all (Dlgn_generic_layers k) <-> 2 <= k <= 16).
Proof.
  intros k Hk. exact (conj (DlgnMnist_unique k Hk) (conj (DlgnCifar10_2_4_unique k Hk) (conj (DlgnCifar10_5_5_unique k Hk) (Dlgn_generic_unique k Hk)))).
Qed.
(* the 24 fixed-scale classes at their defining scale: all support 'unique' but the four ClgnCifar10Mini sizes *)
Theorem C20_unique_scheme_fixed_classes :
  fixed_unique = [true; true; true; true; true; true; true; true; true; true; true; true; true;
                  false; false; false; false; true; true; true; true; true; true; true].
Proof. exact fixed_unique_ok. Qed.

Eval compute in "PA:C20_ClgnMnist"%string. Print Assumptions C20_ClgnMnist.
Eval compute in "PA:C20_ClgnCifar10"%string. Print Assumptions C20_ClgnCifar10.
Eval compute in "PA:C20_ClgnCifar10Res"%string. Print Assumptions C20_ClgnCifar10Res.
Eval compute in "PA:C20_ClgnCifar10Tiny"%string. Print Assumptions C20_ClgnCifar10Tiny.
Eval compute in "PA:C20_ClgnCifar10Mini"%string. Print Assumptions C20_ClgnCifar10Mini.
Eval compute in "PA:C20_CNN"%string. Print Assumptions C20_CNN.
Eval compute in "PA:C20_Dlgn"%string. Print Assumptions C20_Dlgn.
Eval compute in "PA:C20_exceptional_scales"%string. Print Assumptions C20_exceptional_scales.
Eval compute in "PA:C20_fixed_scale_classes"%string. Print Assumptions C20_fixed_scale_classes.
Eval compute in "PA:C20_unique_scheme_conv_families"%string. Print Assumptions C20_unique_scheme_conv_families.
Eval compute in "PA:C20_unique_scheme_Mini_refuted"%string. Print Assumptions C20_unique_scheme_Mini_refuted.
Eval compute in "PA:C20_unique_scheme_Mini_partial"%string. Print Assumptions C20_unique_scheme_Mini_partial.
Eval compute in "PA:C20_unique_scheme_dense_family"%string. Print Assumptions C20_unique_scheme_dense_family.
Eval compute in "PA:C20_unique_scheme_fixed_classes"%string. Print Assumptions C20_unique_scheme_fixed_classes.
