(* Property C03 — eval mode computes exactly the discretised Boolean circuit, deterministically. *)
From Coq Require Import String ZArith List Bool Arith.
From TLX Require Import Gen.Dispatch Model.Bits Model.Netlist Model.ConvNet Proofs.C03Facts Proofs.C03Float.
Import ListNotations.

(* for dense, conv2d (raw, Walsh) and conv3d: the eval path is the same for all four sampling modes and contains only the
   one-hot of the argmax of the raw logits / the threshold form > 0, mixtures, padding and the (forward-identity) gradient
   scaling: no temperature, no sampling function, no random draw *)
Theorem C03_mode_independent : forallb eval_rows_ok layer_params = true.
Proof. exact eval_mode_independent. Qed.

Theorem C03_all_tree_levels : forallb eval_levels_ok [("conv2d", "raw"); ("conv2d", "walsh"); ("conv3d", "raw")]%string = true.
Proof. exact eval_all_levels. Qed.

(* binary32: with a one-hot weight vector and inputs in {0,1} the mixture loop of bin_op_s (and the vectorised table of the
   conv layers) returns exactly the table bit of the chosen gate *)
Theorem C03_float_exact_dense :
  forallb (fun g => forallb (fun a => forallb (fun b => exact_case g a b) [false; true]) [false; true]) (seq 0 16) = true.
Proof. exact mixture32_exact. Qed.
Theorem C03_float_exact_conv :
  forallb (fun g => forallb (fun a => forallb (fun b => exact_case_vec g a b) [false; true]) [false; true]) (seq 0 16) = true.
Proof. exact mixture32_vec_exact. Qed.

(* the reference circuit treats each row of a batch alone *)
Theorem C03_rowwise : forall net rows i, i < length rows ->
  nth i (eval_batch net rows) [] = eval_net net (nth i rows []).
Proof. exact eval_rowwise. Qed.

Eval compute in "PA:C03_mode_independent"%string. Print Assumptions C03_mode_independent.
Eval compute in "PA:C03_all_tree_levels"%string. Print Assumptions C03_all_tree_levels.
Eval compute in "PA:C03_float_exact_dense"%string. Print Assumptions C03_float_exact_dense.
Eval compute in "PA:C03_float_exact_conv"%string. Print Assumptions C03_float_exact_conv.
Eval compute in "PA:C03_rowwise"%string. Print Assumptions C03_rowwise.
