(* Property C14 — the compiler is faithful or refuses; it never silently changes the function. *)
From Coq Require Import String ZArith List Bool Arith.
From TLX Require Import Gen.Parse Model.ConvNet Model.Parse Proofs.C14Facts Model.Handle Proofs.HandleFacts.
From TLX Require Import Model.Bits Model.CLang Model.Netlist Model.GenDense Proofs.CLangFacts Proofs.GenDenseFacts.
Import ListNotations.

(* the dispatch chain of the current source: unknown modules raise (they are not skipped), nn.Identity is a no-op,
   the structural validation is called and contains every check the model mirrors; an instance of a handled class with its own
   forward is refused before the chain (so MForeign below includes such subclasses), a GroupSum offset is refused (the library
   returns the counts), and code is generated from the model as it is when compile() / get_c_code() is called *)
Theorem C14_dispatch : parse_else = ElseRaise /\ parse_calls_validate = true /\ parse_requires_logic_layer = true
  /\ forallb snd structure_checks = true /\ flatten_default_only = true
  /\ override_forward_refused = true /\ groupsum_offset_refused = true /\ codegen_reparses_model = true.
Proof. repeat split; vm_compute; reflexivity. Qed.

(* if the constructor succeeds then: no foreign / nested / unsupported module occurs, every layer module of the
   container is recorded, in order (nothing dropped, nothing reordered), there is a logic layer, the GroupSum
   (if any) is unique and last, the structure is one the emitters handle, consecutive shapes agree and the
   output width is divisible by the number of classes *)
Theorem C14_parse_sound : forall ms o s, parse ms = Some (o, s) ->
  existsb is_foreign ms = false
  /\ map snd o = filter is_layer_module ms
  /\ existsb (fun p => is_conv (fst p) || is_lin (fst p)) o = true
  /\ groupsum_ok ms = true
  /\ struct_ok (existsb (fun m => match m with MGroupSum _ => true | _ => false end) ms) (map fst o) = true
  /\ (exists s0, input_shape o = Some s0 /\ shapes_from s0 o = Some s)
  /\ (forall k, classes ms = Some k -> k <> 0 /\ fold_right Nat.mul 1 s mod k = 0).
Proof. exact parse_sound. Qed.

Theorem C14_rejects_foreign : forall ms, existsb is_foreign ms = true -> parse ms = None.
Proof. exact parse_rejects_foreign. Qed.

(* what "a structure the emitters handle" means *)
Theorem C14_structure : forall gs order, struct_ok gs order = true ->
  let s := length (idxs is_spatial order) in
  (s > 0 ->
     (exists k r, order = k :: r /\ is_conv k = true)
     /\ (forall i, i < length order -> is_spatial (nth i order LKLin) = (i <? s))
     /\ (forall i, i < length order -> is_flat (nth i order LKLin) = true -> i = s)
     /\ ((gs = true \/ exists i, i < length order /\ is_lin (nth i order LKLin) = true) -> s < length order /\ is_flat (nth s order LKLin) = true))
  /\ (s = 0 -> forall i, i < length order -> is_flat (nth i order LKLin) = true -> i = 0).
Proof. exact struct_ok_spec. Qed.

Theorem C14_groupsum_last : forall ms, groupsum_ok ms = true ->
  let mods := filter (fun m => match m with MIdentity => false | _ => true end) ms in
  forall i, i < length mods -> (match nth i mods MIdentity with MGroupSum _ => True | _ => False end) -> i = length mods - 1.
Proof. exact groupsum_ok_spec. Qed.

(* accepted dense stacks are compiled faithfully: this is C01 (all depths, wirings, gates, word sizes, inputs) *)
Theorem C14_faithful_dense : forall W m inp,
  (0 < W)%Z -> wf_dense_model m = true -> length inp = dm_in m ->
  exists out, execZ W (gen_dense m) inp = Some out /\ length out = out_width m /\
    forall j, (0 <= j < W)%Z -> map (lane j) out = eval_dense_net (dm_layers m) (map (lane j) inp).
Proof. exact gen_dense_correct_words. Qed.

Example C14_example :
  parse [MDense 4 6; MForeign "ReLU"; MDense 6 4; MGroupSum 2] = None
  /\ parse [MConv 1 [4; 4] [2; 2] 1 0 2; MDense 18 4; MGroupSum 2] = None
  /\ parse [MConv 1 [4; 4] [2; 2] 1 0 2; MGroupSum 2] = None
  /\ parse [MPool 2 2 0; MConv 1 [2; 2] [2; 2] 1 0 2; MFlatten; MGroupSum 1] = None
  /\ parse [MDense 4 7; MGroupSum 2] = None
  /\ parse [MConv 1 [4; 4] [2; 2] 1 0 2; MIdentity; MPool 2 1 0; MFlatten; MDense 8 4; MGroupSum 2]
     = Some ([(LKConv, MConv 1 [4; 4] [2; 2] 1 0 2); (LKPool, MPool 2 1 0); (LKFlat, MFlatten); (LKLin, MDense 8 4)], [4]).
Proof. repeat split; vm_compute; reflexivity. Qed.

(* ---- one object, a container that changes between operations (Model/Handle.v) ---- *)
(* the current source works on a copy when it translates and installs the tables of the new parse together with the new library *)
Theorem C14_handle_tables : tables_discipline_src = TablesWithLibrary.
Proof. reflexivity. Qed.
(* EVERY sequence of {the container becomes model m (0 = one the compiler refuses), get_c_code(), compile(), call}: a call returns the
   model of the last SUCCESSFUL compile - exporting the C text of a changed container or a refused compile changes nothing *)
Theorem C14_handle_histories : forall m0 ops,
  hrun tables_discipline_src (hinit m0) ops = hspec_run {| s_cur := m0; s_installed := None |} ops.
Proof. exact handle_histories. Qed.
(* with tables rewritten by every parse (the code between F54 and F67) the statement is false *)
Theorem C14_tables_on_parse_refuted :
  hrun TablesOnParse (hinit 1) [HCompile; HCall; HSet 2; HGetCode; HCall] = [HOk; HValue 1; HOk; HOk; HGarbage]
  /\ hrun TablesOnParse (hinit 1) [HCompile; HSet 0; HCompile; HSet 1; HCall] = [HOk; HOk; HRefused; HOk; HGarbage]
  /\ hspec_run {| s_cur := 1; s_installed := None |} [HCompile; HCall; HSet 2; HGetCode; HCall] = [HOk; HValue 1; HOk; HOk; HValue 1]
  /\ hspec_run {| s_cur := 1; s_installed := None |} [HCompile; HSet 0; HCompile; HSet 1; HCall] = [HOk; HOk; HRefused; HOk; HValue 1].
Proof. exact tables_on_parse_refuted. Qed.

Eval compute in "PA:C14_dispatch"%string. Print Assumptions C14_dispatch.
Eval compute in "PA:C14_parse_sound"%string. Print Assumptions C14_parse_sound.
Eval compute in "PA:C14_rejects_foreign"%string. Print Assumptions C14_rejects_foreign.
Eval compute in "PA:C14_structure"%string. Print Assumptions C14_structure.
Eval compute in "PA:C14_groupsum_last"%string. Print Assumptions C14_groupsum_last.
Eval compute in "PA:C14_faithful_dense"%string. Print Assumptions C14_faithful_dense.
Eval compute in "PA:C14_handle_tables"%string. Print Assumptions C14_handle_tables.
Eval compute in "PA:C14_handle_histories"%string. Print Assumptions C14_handle_histories.
Eval compute in "PA:C14_tables_on_parse_refuted"%string. Print Assumptions C14_tables_on_parse_refuted.
