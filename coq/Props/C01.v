(* Property C01 — compiled dense logic network = eval-mode model (counts per class / 0-1 outputs). *)
From Coq Require Import String ZArith List Bool Arith.
From TLX Require Import Model.Bits Model.CLang Model.Netlist Model.GenDense Model.Wrapper Model.Host.
From TLX Require Import Proofs.CLangFacts Proofs.GenDenseFacts Proofs.WrapperFacts Proofs.C01Facts Proofs.C04Facts.
From TLX Require Import Gen.GateCode Gen.WrapperParams.
Import ListNotations.
Local Open Scope Z_scope.

(* every gate template, every lane of unbounded operands *)
Theorem C01_gate_templates : forall g, (g < 16)%nat -> exists e, template g = Some e /\
  forall x y j, 0 <= j -> Z.testbit (ceval e x y) j = tt g (Z.testbit x j) (Z.testbit y j).
Proof. exact template_lane. Qed.

(* logic_net generated for ANY well-formed dense network (any depth, widths, wiring incl. self pairs,
   gate assignment, leading Flatten or not), ANY word size W > 0, ANY input words:
   runs without a memory error and every lane j < W of the output is the reference circuit on lane j *)
Theorem C01_logic_net : forall W m inp,
  0 < W -> wf_dense_model m = true -> length inp = dm_in m ->
  exists out, execZ W (gen_dense m) inp = Some out /\ length out = out_width m /\
    forall j, 0 <= j < W -> map (lane j) out = eval_dense_net (dm_layers m) (map (lane j) inp).
Proof. exact gen_dense_correct_words. Qed.

(* with the batch wrapper: out[(i*W+b)*k+c] = number of active outputs in group c for sample i*W+b *)
Theorem C01_counts : forall (W k : nat) m inp len,
  (1 < W)%nat -> wf_dense_model m = true -> Z.of_nat (gsize (out_width m) k) < 2 ^ 31 ->
  apply_logic_net W (dm_in m) (out_width m) k (execZ (Z.of_nat W) (gen_dense m)) inp len
  = Some (expected W (dm_in m) (out_width m) k (eval_dense_net (dm_layers m)) inp len).
Proof. exact dense_counts. Qed.

(* without a group sum: the last layer's Boolean outputs as 0/1 *)
Theorem C01_direct : forall (W : nat) m rows,
  (1 < W)%nat -> wf_dense_model m = true -> Forall (fun r => length r = dm_in m) rows ->
  forward_direct (execZ (Z.of_nat W) (gen_dense m)) rows
  = Some (map (fun r => map Z.b2z (eval_dense_net (dm_layers m) r)) rows).
Proof. exact dense_direct. Qed.

Theorem C01_argmax : forall l1 l2 : list Z, l1 = l2 -> argmax l1 = argmax l2.
Proof. exact argmax_counts. Qed.

(* non-vacuity: a 2-layer network with a self pair and inverting gates is well formed, and the
   generated program evaluates (in the kernel) to the reference circuit on a 64-bit word *)
Example C01_example :
  let m := {| dm_in := 3; dm_flat := true;
              dm_layers := [[(0, 0, 12); (1, 2, 6); (2, 0, 14); (1, 1, 9)]; [(0, 3, 8); (2, 2, 10)]]%nat |} in
  wf_dense_model m = true /\
  execZ 64 (gen_dense m) [5; -3; 1234567] = Some [0; 5].
Proof. split; vm_compute; reflexivity. Qed.

Eval compute in "PA:C01_gate_templates"%string. Print Assumptions C01_gate_templates.
Eval compute in "PA:C01_logic_net"%string. Print Assumptions C01_logic_net.
Eval compute in "PA:C01_counts"%string. Print Assumptions C01_counts.
Eval compute in "PA:C01_direct"%string. Print Assumptions C01_direct.
Eval compute in "PA:C01_argmax"%string. Print Assumptions C01_argmax.
