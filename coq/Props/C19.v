(* Property C19 — invalid configurations are rejected, not silently mis-computed. *)
From Coq Require Import String ZArith List Bool Arith.
From TLX Require Import Model.Domain Model.ConvNet Model.GenNet Proofs.C19Facts Proofs.PoolFacts Gen.Guards.
Import ListNotations.

(* every guard that the decision model below mirrors is present in the current source *)
Theorem C19_guards_present : forallb snd guards = true.
Proof. vm_compute. reflexivity. Qed.

(* outside the domain listed by the property the guard model rejects; inside it accepts *)
Theorem C19_dense_ctor_rejects : forall c, dense_ctor_domain c = false -> dense_ctor_accepts c = false.
Proof. exact dense_ctor_reject. Qed.
Theorem C19_dense_ctor_accepts : forall c, dense_ctor_domain c = true -> dense_ctor_accepts c = true.
Proof. exact dense_ctor_accept. Qed.

Theorem C19_conv_ctor_rejects : forall c, conv_ctor_domain c = false -> conv_ctor_accepts c = false.
Proof. exact conv_ctor_reject. Qed.
Theorem C19_conv_ctor_accepts : forall c, conv_ctor_domain c = true -> conv_ctor_accepts c = true.
Proof. exact conv_ctor_accept. Qed.

(* GroupSum: a non-positive number of groups is refused at construction *)
Theorem C19_groupsum_ctor_rejects : forall k, groupsum_ctor_domain k = false -> groupsum_ctor_accepts k = false.
Proof. exact groupsum_ctor_reject. Qed.
Theorem C19_groupsum_ctor_accepts : forall k, groupsum_ctor_domain k = true -> groupsum_ctor_accepts k = true.
Proof. exact groupsum_ctor_accept. Qed.

(* an OrPooling handed to the compiler: the guard decides exactly the domain of max pooling, and what it lets
   through satisfies the well-formedness condition of the generator theorem (C02_logic_net) *)
Theorem C19_pool_compile_decides : forall k s p dims, pool_compile_accepts k s p dims = pool_domain k s p dims.
Proof. exact pool_compile_decides. Qed.
Theorem C19_pool_accepted_wf : forall ps,
  Forall (fun n => 0 < n) (pl_dims ps) ->
  pool_compile_accepts (Z.of_nat (pl_kernel ps)) (Z.of_nat (pl_stride ps)) (Z.of_nat (pl_pad ps))
                       (map Z.of_nat (pl_dims ps)) = true ->
  wf_pool ps = true.
Proof. exact pool_compile_accepts_wf. Qed.

(* CompiledLogicNet.forward: the shape guard decides exactly "the samples have the declared layout" *)
Theorem C19_compiled_forward_decides : forall d lf sh, d <> [] ->
  compiled_forward_accepts d lf sh = compiled_forward_domain d lf sh.
Proof. exact compiled_forward_decides. Qed.

Theorem C19_compiler_rejects : forall b cc n, compiler_domain b cc n = false -> compiler_accepts b cc n = false.
Proof. exact compiler_reject. Qed.

Theorem C19_gumbel_rejects : forall tau, gumbel_domain tau = false -> gumbel_accepts tau = false.
Proof. exact gumbel_reject. Qed.

(* a conv layer built without a padding argument must construct: the default is the number 0 *)
Theorem C19_conv_default_padding : conv3d_padding_default = "0"%string /\ conv2d_padding_default = "0"%string.
Proof. exact (conj eq_refl eq_refl). Qed.

Example C19_example :
  dense_ctor_accepts {| dc_in := 5; dc_out := 11; dc_connections := "unique"; dc_param := "raw"; dc_weight_init := "residual"; dc_impl := "" |} = false
  /\ dense_ctor_accepts {| dc_in := 5; dc_out := 10; dc_connections := "unique"; dc_param := "raw"; dc_weight_init := "residual"; dc_impl := "" |} = true
  /\ conv_ctor_accepts {| cc_dims := [4; 4]; cc_rf := [3; 3]; cc_channels := 1; cc_depth := 2; cc_stride := 4; cc_pad := 0%Z;
                          cc_connections := "random"; cc_param := "raw"; cc_weight_init := "residual"; cc_sampling := "soft";
                          cc_impl := "" |} = false
  /\ conv_ctor_accepts {| cc_dims := [6; 6]; cc_rf := [3; 3]; cc_channels := 1; cc_depth := 2; cc_stride := 1; cc_pad := (-1)%Z;
                          cc_connections := "random"; cc_param := "raw"; cc_weight_init := "residual"; cc_sampling := "soft";
                          cc_impl := "" |} = false
  /\ conv_ctor_accepts {| cc_dims := [6; 6]; cc_rf := [3; 3]; cc_channels := 1; cc_depth := 2; cc_stride := 1; cc_pad := 1%Z;
                          cc_connections := "unique"; cc_param := "walsh"; cc_weight_init := "random"; cc_sampling := "hard";
                          cc_impl := "python" |} = true
  /\ compiled_forward_accepts [2; 4; 6] false [5; 2; 6; 4] = false /\ compiled_forward_accepts [2; 4; 6] false [5; 48] = true
  /\ pool_compile_accepts 2 2 2 [4; 4]%Z = false /\ pool_compile_accepts 5 1 0 [4; 4]%Z = false
  /\ pool_compile_accepts 3 2 1 [4; 4]%Z = true.
Proof. repeat split; vm_compute; reflexivity. Qed.

(* the guard `if not 0 < v < math.inf: raise` (every temperature, the thermometer slope, GroupSum's tau - each pinned in Gen/Guards.v)
   accepts exactly the positive finite floats: not 0.0, -0.0, negative numbers, NaN, inf or -inf *)
Theorem C19_positive_finite_guard : forall v, positive_finite_guard_accepts v = positive_finite_domain v.
Proof. exact positive_finite_guard_decides. Qed.

Eval compute in "PA:C19_guards_present"%string. Print Assumptions C19_guards_present.
Eval compute in "PA:C19_dense_ctor_rejects"%string. Print Assumptions C19_dense_ctor_rejects.
Eval compute in "PA:C19_dense_ctor_accepts"%string. Print Assumptions C19_dense_ctor_accepts.
Eval compute in "PA:C19_conv_ctor_rejects"%string. Print Assumptions C19_conv_ctor_rejects.
Eval compute in "PA:C19_conv_ctor_accepts"%string. Print Assumptions C19_conv_ctor_accepts.
Eval compute in "PA:C19_compiler_rejects"%string. Print Assumptions C19_compiler_rejects.
Eval compute in "PA:C19_gumbel_rejects"%string. Print Assumptions C19_gumbel_rejects.
Eval compute in "PA:C19_conv_default_padding"%string. Print Assumptions C19_conv_default_padding.
Eval compute in "PA:C19_groupsum_ctor_rejects"%string. Print Assumptions C19_groupsum_ctor_rejects.
Eval compute in "PA:C19_groupsum_ctor_accepts"%string. Print Assumptions C19_groupsum_ctor_accepts.
Eval compute in "PA:C19_pool_compile_decides"%string. Print Assumptions C19_pool_compile_decides.
Eval compute in "PA:C19_pool_accepted_wf"%string. Print Assumptions C19_pool_accepted_wf.
Eval compute in "PA:C19_compiled_forward_decides"%string. Print Assumptions C19_compiled_forward_decides.
Eval compute in "PA:C19_positive_finite_guard"%string. Print Assumptions C19_positive_finite_guard.
