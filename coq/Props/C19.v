(* Property C19 — invalid configurations are rejected, not silently mis-computed. *)
From Coq Require Import String ZArith List Bool Arith.
From TLX Require Import Model.Domain Proofs.C19Facts Gen.Guards.
Import ListNotations.

(* every guard that the decision model below mirrors is present in the current source *)
Theorem C19_guards_present : forallb snd guards = true.
Proof. vm_compute. reflexivity. Qed.

(* outside the domain listed by the property the guard model rejects; inside it accepts *)
Theorem C19_dense_ctor_rejects : forall c, dense_ctor_domain c = false -> dense_ctor_accepts c = false.
Proof. exact dense_ctor_reject. Qed.
Theorem C19_dense_ctor_accepts : forall c, dense_ctor_domain c = true -> dense_ctor_accepts c = true.
Proof. exact dense_ctor_accept. Qed.

Theorem C19_conv_ctor_rejects : forall c, conv_ctor_domain c = false -> conv_ctor_accepts c = false.
Proof. exact conv_ctor_reject. Qed.
Theorem C19_conv_ctor_accepts : forall c, conv_ctor_domain c = true -> conv_ctor_accepts c = true.
Proof. exact conv_ctor_accept. Qed.

Theorem C19_compiler_rejects : forall b cc n, compiler_domain b cc n = false -> compiler_accepts b cc n = false.
Proof. exact compiler_reject. Qed.

Theorem C19_gumbel_rejects : forall tau, gumbel_domain tau = false -> gumbel_accepts tau = false.
Proof. exact gumbel_reject. Qed.

(* a conv layer built without a padding argument must construct: the default is the number 0 *)
Theorem C19_conv_default_padding : conv3d_padding_default = "0"%string /\ conv2d_padding_default = "0"%string.
Proof. exact (conj eq_refl eq_refl). Qed.

Example C19_example :
  dense_ctor_accepts {| dc_in := 5; dc_out := 11; dc_connections := "unique"; dc_param := "raw"; dc_weight_init := "residual"; dc_impl := "" |} = false
  /\ dense_ctor_accepts {| dc_in := 5; dc_out := 10; dc_connections := "unique"; dc_param := "raw"; dc_weight_init := "residual"; dc_impl := "" |} = true
  /\ conv_ctor_accepts {| cc_dims := [4; 4]; cc_rf := [3; 3]; cc_channels := 1; cc_depth := 2; cc_stride := 4; cc_pad := 0;
                          cc_connections := "random"; cc_param := "raw"; cc_weight_init := "residual"; cc_sampling := "soft" |} = false.
Proof. repeat split; vm_compute; reflexivity. Qed.

Eval compute in "PA:C19_guards_present"%string. Print Assumptions C19_guards_present.
Eval compute in "PA:C19_dense_ctor_rejects"%string. Print Assumptions C19_dense_ctor_rejects.
Eval compute in "PA:C19_dense_ctor_accepts"%string. Print Assumptions C19_dense_ctor_accepts.
Eval compute in "PA:C19_conv_ctor_rejects"%string. Print Assumptions C19_conv_ctor_rejects.
Eval compute in "PA:C19_conv_ctor_accepts"%string. Print Assumptions C19_conv_ctor_accepts.
Eval compute in "PA:C19_compiler_rejects"%string. Print Assumptions C19_compiler_rejects.
Eval compute in "PA:C19_gumbel_rejects"%string. Print Assumptions C19_gumbel_rejects.
Eval compute in "PA:C19_conv_default_padding"%string. Print Assumptions C19_conv_default_padding.
