(* Property C09 — hard and straight-through sampling forward the discretised values. *)
From Coq Require Import String Reals List Bool.
From TLX Require Import Model.Bits Model.Poly Model.Relax Gen.Ops Gen.Dispatch Gen.Sampling.
From TLX Require Import Proofs.RelaxFacts Proofs.C03Facts Proofs.C08Facts Proofs.C09Facts Proofs.C07Real.
Import ListNotations.
Local Open Scope R_scope.

Theorem C09_ste_value : forall xh x : R, xh - x + x = xh.
Proof. exact ste_value. Qed.

Theorem C09_argmax_softmax : forall w tau, 0 < tau -> argmaxR (soft_raw w tau) = argmaxR w.
Proof. exact argmax_softmax. Qed.

(* raw, 'hard': the forwarded weight vector is the eval-mode one-hot vector, for every temperature > 0 and all logits *)
Theorem C09_hard_equals_eval : forall w tau, 0 < tau -> hard_raw_value w tau = eval_raw_weights w.
Proof. exact hard_equals_eval_raw. Qed.

Theorem C09_hard_neuron : forall w tau a b, 0 < tau -> length w = 16%nat ->
  mix (hard_raw_value w tau) a b = mix (eval_raw_weights w) a b.
Proof. exact hard_neuron_equals_eval. Qed.

Theorem C09_eval_table : forall w (x y : bool), length w = 16%nat ->
  mix (eval_raw_weights w) (b2r x) (b2r y) = b2r (tt (argmaxR w) x y).
Proof. exact single_gate_output. Qed.

(* Walsh, 'hard' *)
Theorem C09_hard_walsh_value : forall x tau, 0 < tau -> (C07Real.sigmoid (x / tau) > / 2 <-> x > 0).
Proof. exact hard_walsh_value. Qed.

(* Gumbel 'hard': exactly one gate per neuron, for every noise draw *)
Theorem C09_gumbel_hard_single_gate : forall (noisy : list R) a b, length noisy = 16%nat ->
  exists g, (g < 16)%nat /\ mix (one_hot 16 (argmaxR noisy)) a b = peval_R (op g) a b.
Proof. exact gumbel_hard_single_gate. Qed.

(* the training rows of 'hard' / 'gumbel_hard' apply the straight-through functions with tau = self.temperature at the
   first tree level AND in the loop over the remaining levels; eval rows are sampling-mode independent (C03) *)
Theorem C09_dispatch :
  mode_row_ok "dense" "raw" "hard" (EWeights (WHardRaw true)) false = true
  /\ mode_row_ok "dense" "walsh" "hard" (EAct (AHardWalsh true)) false = true
  /\ mode_row_ok "conv2d" "raw" "hard" (EWeights (WHardRaw true)) true = true
  /\ mode_row_ok "conv2d" "walsh" "hard" (EAct (AHardWalsh true)) true = true
  /\ mode_row_ok "dense" "raw" "gumbel_hard" (EWeights (WGumbelSoftmax true true)) false = true
  /\ mode_row_ok "dense" "walsh" "gumbel_hard" (EAct (AGumbelSigmoid true true)) false = true
  /\ mode_row_ok "conv2d" "raw" "gumbel_hard" (EWeights (WGumbelSoftmax true true)) true = true
  /\ mode_row_ok "conv2d" "walsh" "gumbel_hard" (EAct (AGumbelSigmoid true true)) true = true.
Proof. exact hard_dispatch. Qed.

Theorem C09_eval_unchanged : forallb eval_rows_ok layer_params = true.
Proof. exact eval_mode_independent. Qed.

(* the sampling primitives of the current source are, statement by statement, the ones modelled above: the 'hard' gate is the
   argmax of the logits themselves (not of the rounded softmax), the hard Walsh value thresholds the form itself, and the
   Gumbel-hard gate is the argmax of logits + noise *)
Theorem C09_sampling_source : sampling_source_matches = true /\ hard_raw_gate_from_logits = true
  /\ hard_walsh_thresholds_form = true /\ gumbel_hard_gate_from_perturbed_logits = true.
Proof. repeat split; reflexivity. Qed.

Eval compute in "PA:C09_ste_value"%string. Print Assumptions C09_ste_value.
Eval compute in "PA:C09_argmax_softmax"%string. Print Assumptions C09_argmax_softmax.
Eval compute in "PA:C09_hard_equals_eval"%string. Print Assumptions C09_hard_equals_eval.
Eval compute in "PA:C09_hard_neuron"%string. Print Assumptions C09_hard_neuron.
Eval compute in "PA:C09_eval_table"%string. Print Assumptions C09_eval_table.
Eval compute in "PA:C09_hard_walsh_value"%string. Print Assumptions C09_hard_walsh_value.
Eval compute in "PA:C09_gumbel_hard_single_gate"%string. Print Assumptions C09_gumbel_hard_single_gate.
Eval compute in "PA:C09_dispatch"%string. Print Assumptions C09_dispatch.
Eval compute in "PA:C09_eval_unchanged"%string. Print Assumptions C09_eval_unchanged.
Eval compute in "PA:C09_sampling_source"%string. Print Assumptions C09_sampling_source.
