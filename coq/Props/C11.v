(* Property C11 — generated C is memory-safe and well-formed for every model. *)
From Coq Require Import String ZArith List Bool Arith.
From TLX Require Import Model.Bits Model.CLang Model.Netlist Model.GenDense Model.GenNet Model.GenStream Model.Wrapper Model.Validate.
From TLX Require Import Proofs.CLangFacts Proofs.GenDenseFacts Proofs.WrapperFacts Proofs.ValidateFacts Proofs.C11Facts Proofs.GenNetFacts Proofs.GenStreamFacts.
Import ListNotations.

(* For EVERY well-formed dense model, word size and input: the generated logic_net runs without an
   out-of-bounds index, an uninitialised read or a write to the const input (exec returns Some),
   and fills all of `out`. *)
Theorem C11_safe_dense : forall W m inp,
  (0 < W)%Z -> wf_dense_model m = true -> length inp = dm_in m ->
  exists out, execZ W (gen_dense m) inp = Some out /\ length out = out_width m.
Proof. exact safe_dense. Qed.

(* The same for EVERY well-formed stack Conv (Conv|Pool)* [Flatten Dense*], 2-D or 3-D: all conv temporaries, the padded-window
   reads, the pooling windows, the flatten copy, the ping-pong buffers and the final copy stay inside their declared arrays and
   read only cells written before. *)
Theorem C11_safe_net : forall W m inp,
  (0 < W)%Z -> wf_spatial_model m = true -> length inp = net_in m ->
  exists out, execZ W (gen_net m) inp = Some out /\ length out = net_out m.
Proof. exact safe_net. Qed.

(* Large programs (the library's predefined architectures): the parsed text, with binary indices, is compared with the generator
   model cell by cell inside the kernel (gen_net_matchesN); acceptance transfers the theorem above to the parsed program itself. *)
Theorem C11_safe_emitted : forall p m W inp,
  gen_net_matchesN p m = true -> wf_spatial_model m = true -> (0 < W)%Z -> length inp = net_in m ->
  exists out, execZ W (to_prog p) inp = Some out /\ length out = net_out m /\
    forall j, (0 <= j < W)%Z -> map (lane j) out = eval_model m (map (lane j) inp).
Proof. exact matches_correct. Qed.

(* A verified checker for ONE emitted program (any layer kinds): if it accepts, the program is memory safe
   and defines every cell before reading it, for every input and every word size. *)
Theorem C11_safe_check_sound : forall p, safe_check p = true ->
  forall W inp, (0 < W)%Z -> length inp = size_of (sizes p) 0 -> execZ W p inp <> None.
Proof. exact safe_check_sound. Qed.

(* the result is a function of the program and input only: no unspecified evaluation order or UB in the
   fragment, hence nothing an optimisation level could legitimately change *)
Theorem C11_deterministic : forall W p inp o1 o2,
  execZ W p inp = Some o1 -> execZ W p inp = Some o2 -> o1 = o2.
Proof. exact exec_deterministic. Qed.

(* malloc sizes / array extents of the batch wrapper *)
Theorem C11_wrapper_safe : forall (W in_size n_out k : nat), (1 < W)%nat -> (Z.of_nat (gsize n_out k) < 2 ^ 31)%Z ->
  (k * gsize n_out k <= n_out)%nat -> forall len,
  Forall (fun p => (fst p < snd p)%nat) (index_uses W in_size n_out k len).
Proof. exact wrapper_in_bounds. Qed.

(* the accumulator array out_temp_o[width] is indexed only by d < width, and k*g <= n_out always holds *)
Theorem C11_group_extent : forall n k : nat, (k * gsize n k <= n)%nat.
Proof. exact group_extent. Qed.

Example C11_example_unsafe : (* an undersized buffer is rejected by the checker *)
  safe_check {| sizes := [2; 1; 1]%nat; body := [SAssign 2 1 (GLoad 0 0); SAssign 1 0 (GLoad 2 1)] |} = false
  /\ safe_check {| sizes := [2; 1; 2]%nat; body := [SAssign 2 1 (GLoad 0 0); SAssign 1 0 (GLoad 2 1)] |} = true
  /\ safe_check {| sizes := [2; 1; 2]%nat; body := [SAssign 1 0 (GLoad 2 1)] |} = false.
Proof. repeat split; vm_compute; reflexivity. Qed.

Eval compute in "PA:C11_safe_dense"%string. Print Assumptions C11_safe_dense.
Eval compute in "PA:C11_safe_net"%string. Print Assumptions C11_safe_net.
Eval compute in "PA:C11_safe_emitted"%string. Print Assumptions C11_safe_emitted.
Eval compute in "PA:C11_safe_check_sound"%string. Print Assumptions C11_safe_check_sound.
Eval compute in "PA:C11_deterministic"%string. Print Assumptions C11_deterministic.
Eval compute in "PA:C11_wrapper_safe"%string. Print Assumptions C11_wrapper_safe.
Eval compute in "PA:C11_group_extent"%string. Print Assumptions C11_group_extent.
