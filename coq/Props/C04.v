(* Property C04 — the 16 gate ids mean the same Boolean function in every representation.
   Only statements; every proof is `exact <lemma>`. *)
From Coq Require Import ZArith List Bool Reals String.
From TLX Require Import Model.Bits Model.Poly Proofs.C04Facts Proofs.C04Docs.
From TLX Require Import Gen.Ops Gen.GateCode Gen.Tables.
Import ListNotations.
Open Scope string_scope.

(* the relaxation of gate i is the multilinear extension of the table of i, for all reals *)
Theorem C04_multilinear : forall i, (i < 16)%nat -> forall a b : R,
  peval_R (op i) a b = multilinear i a b.
Proof. exact op_multilinear. Qed.

Theorem C04_table_size : n_ops = 16%nat /\ n_opvec = 16%nat /\ mix_n = 16%nat.
Proof. exact (conj n_ops_16 (conj n_opvec_16 mix_n_16)). Qed.

Theorem C04_boolean_agree : forall i, (i < 16)%nat -> forall a b : bool,
  peval_R (op i) (b2r a) (b2r b) = b2r (tt i a b).
Proof. exact op_boolean. Qed.

Theorem C04_range : forall i, (i < 16)%nat -> forall a b : R,
  (0 <= a <= 1)%R -> (0 <= b <= 1)%R -> (0 <= peval_R (op i) a b <= 1)%R.
Proof. exact op_range. Qed.

Theorem C04_vectorised : forall i, (i < 16)%nat -> forall a b : R,
  peval_R (opvec i) a b = peval_R (op i) a b.
Proof. exact opvec_eq_op. Qed.

(* the emitted C expression computes the table in every lane (unbounded operands) ... *)
Theorem C04_c_template : forall g, (g < 16)%nat -> exists e, template g = Some e /\
  forall x y j, (0 <= j)%Z ->
    Z.testbit (ceval e x y) j = tt g (Z.testbit x j) (Z.testbit y j).
Proof. exact template_lane. Qed.

(* ... and after the narrowing cast / store in char, short, int, long long, sign lane included *)
Theorem C04_c_template_words : forall g W, (g < 16)%nat -> In W word_sizes -> exists e, template g = Some e /\
  forall x y j, (0 <= j < W)%Z ->
    Z.testbit (wrap W (ceval e x y)) j = tt g (Z.testbit x j) (Z.testbit y j).
Proof. exact template_lane_wrapped. Qed.

Theorem C04_casts : cast_of_bits = [(8%Z, "char"); (16%Z, "short")]
  /\ bits_to_dtype = [(8%Z, "char"); (16%Z, "short"); (32%Z, "int"); (64%Z, "long long")]
  /\ accepted_num_bits = word_sizes.
Proof. exact casts_ok. Qed.

Theorem C04_names : List.length gate_names = 16%nat /\ forallb name_ok (seq 0 16) = true.
Proof. exact names_ok. Qed.

Theorem C04_docs : docs_table = table_of_tt.
Proof. exact docs_table_ok. Qed.
(* ... and the Operation, Name and Formula cells of every row, read as Boolean functions, are the function of the row's id *)
Theorem C04_docs_worded : map fst docs_worded = seq 0 16 /\ forallb worded_ok docs_worded = true.
Proof. exact docs_worded_ok. Qed.

Theorem C04_comment : comment_table = table_of_tt.
Proof. exact comment_table_ok. Qed.

(* non-vacuity: gate 6 is xor, gate 13 is implication *)
Example C04_example : tt 6 true false = true /\ tt 6 true true = false /\ tt 13 true false = false.
Proof. repeat split. Qed.

Eval compute in "PA:C04_multilinear". Print Assumptions C04_multilinear.
Eval compute in "PA:C04_table_size". Print Assumptions C04_table_size.
Eval compute in "PA:C04_boolean_agree". Print Assumptions C04_boolean_agree.
Eval compute in "PA:C04_range". Print Assumptions C04_range.
Eval compute in "PA:C04_vectorised". Print Assumptions C04_vectorised.
Eval compute in "PA:C04_c_template". Print Assumptions C04_c_template.
Eval compute in "PA:C04_c_template_words". Print Assumptions C04_c_template_words.
Eval compute in "PA:C04_casts". Print Assumptions C04_casts.
Eval compute in "PA:C04_names". Print Assumptions C04_names.
Eval compute in "PA:C04_docs". Print Assumptions C04_docs.
Eval compute in "PA:C04_docs_worded". Print Assumptions C04_docs_worded.
Eval compute in "PA:C04_comment". Print Assumptions C04_comment.
