(* Property C10 — gradients match the relaxation; straight-through keeps them; grad factor scales. *)
From Coq Require Import String Reals List Bool.
From Coquelicot Require Import Coquelicot.
From TLX Require Import Model.Bits Model.Poly Model.Relax Model.AD Gen.Ops Gen.Dispatch.
From TLX Require Import Proofs.RelaxFacts Proofs.C03Facts Proofs.C10Facts.
Import ListNotations.
Local Open Scope R_scope.

(* gradient with respect to an input of a neuron: slope of the (affine in a) mixture *)
Theorem C10_input_grad : forall p a b, (length p <= 16)%nat ->
  is_derive (fun t => mix p t b) a (mix p 1 b - mix p 0 b).
Proof. exact mix_derive_a. Qed.

(* gradient with respect to a logit: the softmax Jacobian p_i (delta_ij - p_j) / tau, one variable at a time
   (C = sum of the other exponentials) *)
Theorem C10_softmax_jacobian_diag : forall C tau t, 0 < C -> tau <> 0 ->
  let p := exp (t / tau) / (C + exp (t / tau)) in
  is_derive (fun u => exp (u / tau) / (C + exp (u / tau))) t (p * (1 - p) / tau).
Proof. exact softmax_diag_derive. Qed.
Theorem C10_softmax_jacobian_offdiag : forall E C tau t, 0 < C -> tau <> 0 ->
  let pj := exp (t / tau) / (C + exp (t / tau)) in
  let pi := E / (C + exp (t / tau)) in
  is_derive (fun u => E / (C + exp (u / tau))) t (- pi * pj / tau).
Proof. exact softmax_offdiag_derive. Qed.
Theorem C10_logistic_grad : forall tau x, tau <> 0 ->
  let s := sigmoid (x / tau) in is_derive (fun u => sigmoid (u / tau)) x (s * (1 - s) / tau).
Proof. exact sigmoid_derive. Qed.

(* straight-through estimators: value of the hard term, gradient of the soft term - never the zero gradient of the selection *)
Theorem C10_ste_grad : forall hard soft, d hard = 0 -> v (ste hard soft) = v hard /\ d (ste hard soft) = d soft.
Proof. exact ste_value_grad. Qed.
Theorem C10_ste_grad_gumbel : forall hard soft, v (ste' hard soft) = v hard /\ d (ste' hard soft) = d soft.
Proof. exact ste'_value_grad. Qed.
Theorem C10_hard_walsh_grad : forall soft, d (ste (dgt soft (/ 2)) soft) = d soft
  /\ v (ste (dgt soft (/ 2)) soft) = (if Rlt_dec (/ 2) (v soft) then 1 else 0).
Proof. exact hard_walsh_grad. Qed.
Theorem C10_soft_grad_nonzero : forall p tau, 0 < p < 1 -> 0 < tau -> p * (1 - p) / tau <> 0.
Proof. exact soft_grad_nonzero. Qed.

(* gradient factor: forward unchanged, gradient to the layer input multiplied by exactly f *)
Theorem C10_gradfactor : forall f a, v (dgradfactor f a) = v a /\ d (dgradfactor f a) = f * d a.
Proof. exact gradfactor_spec. Qed.

(* every layer (dense, conv2d, conv3d; raw and Walsh; training and eval) applies GradFactor to its input first, once *)
Theorem C10_dispatch :
  forallb (fun lp => forallb (fun tr => forallb (fun m => gradfactor_first (fst lp) (snd lp) tr m) modes) [true; false]) layer_params = true.
Proof. exact gradfactor_dispatch. Qed.

Eval compute in "PA:C10_input_grad"%string. Print Assumptions C10_input_grad.
Eval compute in "PA:C10_softmax_jacobian_diag"%string. Print Assumptions C10_softmax_jacobian_diag.
Eval compute in "PA:C10_softmax_jacobian_offdiag"%string. Print Assumptions C10_softmax_jacobian_offdiag.
Eval compute in "PA:C10_logistic_grad"%string. Print Assumptions C10_logistic_grad.
Eval compute in "PA:C10_ste_grad"%string. Print Assumptions C10_ste_grad.
Eval compute in "PA:C10_ste_grad_gumbel"%string. Print Assumptions C10_ste_grad_gumbel.
Eval compute in "PA:C10_hard_walsh_grad"%string. Print Assumptions C10_hard_walsh_grad.
Eval compute in "PA:C10_soft_grad_nonzero"%string. Print Assumptions C10_soft_grad_nonzero.
Eval compute in "PA:C10_gradfactor"%string. Print Assumptions C10_gradfactor.
Eval compute in "PA:C10_dispatch"%string. Print Assumptions C10_dispatch.
