(* Property C18 — thermometer thresholding yields a valid, ordered thermometer code. *)
From Coq Require Import String Reals List ZArith.
From TLX Require Import Model.Relax Model.Thermo Gen.ThermoSrc Proofs.RelaxFacts Proofs.C18Facts.
Import ListNotations.
Local Open Scope R_scope.

(* the source of LearnableThermometerThresholding is, statement by statement, the one Model/Thermo.v models *)
Theorem C18_source_matches : thermo_matches = true.
Proof. reflexivity. Qed.

(* for ANY raw parameter vector the learnable thresholds are strictly increasing *)
Theorem C18_increasing : forall raw sl, increasing (thresholds {| raw_diffs := raw; frozen := false; slope := sl |}).
Proof. exact thresholds_increasing. Qed.

(* a fresh layer's thresholds equal the initial thresholds it was given (positive, strictly increasing; small and large) *)
Theorem C18_fresh : forall ts sl, Forall (fun x => 0 < x) (diff0 ts) -> thresholds (init ts sl) = ts.
Proof. exact fresh_thresholds. Qed.

(* encodings are non-increasing along the threshold axis; soft values lie in (0,1) and round to the hard code *)
Theorem C18_hard_code_monotone : forall x t1 t2, t1 <= t2 -> hard_bit x t2 <= hard_bit x t1.
Proof. exact hard_code_monotone. Qed.
Theorem C18_soft_code_monotone : forall sl x t1 t2, 0 < sl -> t1 <= t2 -> soft_bit sl x t2 <= soft_bit sl x t1.
Proof. exact soft_code_monotone. Qed.
Theorem C18_soft_range : forall sl x t, 0 < soft_bit sl x t < 1.
Proof. exact soft_code_range. Qed.
Theorem C18_soft_rounds : forall sl x t, 0 < sl -> (soft_bit sl x t > / 2 <-> x > t).
Proof. exact soft_code_rounds. Qed.
Theorem C18_soft_is_tanh_form : forall sl x t, soft_bit sl x t = (tanh (sl * (x - t)) + 1) / 2.
Proof. exact soft_bit_tanh. Qed.

(* freezing: thresholds become the rounded trained ones, stay ordered, within 1/2; output is the hard code; idempotent *)
Theorem C18_freeze_thresholds : forall l, thresholds (freeze l) = map rnd (thresholds l).
Proof. exact thresholds_freeze. Qed.
Theorem C18_freeze_ordered : forall l, nondecreasing (thresholds l) -> nondecreasing (thresholds (freeze l)).
Proof. exact freeze_ordered. Qed.
Theorem C18_freeze_close : forall l i, (i < length (thresholds l))%nat ->
  Rabs (nth i (thresholds (freeze l)) 0 - nth i (thresholds l) 0) <= / 2.
Proof. exact freeze_close. Qed.
Theorem C18_freeze_hard : forall l x, encode (freeze l) x = map (hard_bit x) (thresholds (freeze l)).
Proof. exact freeze_hard_output. Qed.
Theorem C18_freeze_idempotent : forall l, thresholds (freeze (freeze l)) = thresholds (freeze l).
Proof. exact freeze_idempotent. Qed.

Eval compute in "PA:C18_source_matches"%string. Print Assumptions C18_source_matches.
Eval compute in "PA:C18_increasing"%string. Print Assumptions C18_increasing.
Eval compute in "PA:C18_fresh"%string. Print Assumptions C18_fresh.
Eval compute in "PA:C18_hard_code_monotone"%string. Print Assumptions C18_hard_code_monotone.
Eval compute in "PA:C18_soft_code_monotone"%string. Print Assumptions C18_soft_code_monotone.
Eval compute in "PA:C18_soft_range"%string. Print Assumptions C18_soft_range.
Eval compute in "PA:C18_soft_rounds"%string. Print Assumptions C18_soft_rounds.
Eval compute in "PA:C18_soft_is_tanh_form"%string. Print Assumptions C18_soft_is_tanh_form.
Eval compute in "PA:C18_freeze_thresholds"%string. Print Assumptions C18_freeze_thresholds.
Eval compute in "PA:C18_freeze_ordered"%string. Print Assumptions C18_freeze_ordered.
Eval compute in "PA:C18_freeze_close"%string. Print Assumptions C18_freeze_close.
Eval compute in "PA:C18_freeze_hard"%string. Print Assumptions C18_freeze_hard.
Eval compute in "PA:C18_freeze_idempotent"%string. Print Assumptions C18_freeze_idempotent.
