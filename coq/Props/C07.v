(* Property C07 — Walsh parametrisation: coefficients, reported gate and eval output agree. *)
From Coq Require Import String QArith Reals List Bool Arith.
From TLX Require Import Model.Bits Model.Walsh Gen.Walsh Proofs.C07Facts Proofs.C07Real.
Import ListNotations.

(* eval output on Boolean inputs = sign of the form at the corner (all coefficient vectors in Q^4) *)
Theorem C07_eval_sign : forall w a b, walsh_eval w a b = true <-> (0 < form w (pm a) (pm b))%Q.
Proof. exact eval_is_sign. Qed.

(* the gate id reported by get_gate_ids is exactly the Boolean function the neuron computes in eval mode *)
Theorem C07_gate_id : forall w a b, tt (walsh_gate_id w) a b = walsh_eval w a b.
Proof. exact gate_id_is_eval_table. Qed.

(* conv layers use the same eval rule, and the compiler's discretisation computes that same function *)
Theorem C07_conv_eval : forall w a b, walsh_eval_conv w a b = walsh_eval w a b.
Proof. exact conv_eval_same. Qed.

Theorem C07_consumers : forall w a b, tt (compiler_gate_id w) a b = walsh_eval w a b.
Proof. exact compiler_table. Qed.

Theorem C07_consumers_wired : compiler_dense_uses_get_gate_ids = true /\ compiler_conv_uses_walsh_gate_ids = true.
Proof. exact (conj eq_refl eq_refl). Qed.

(* the 16 built-in vectors are exact +-1 expansions of 16 distinct gates, i.e. of all of them *)
Theorem C07_builtin : builtin_corners_ok = true /\ length builtin_ids = 16%nat /\ nodupb builtin_ids = true
  /\ forallb (fun g => g <? 16) builtin_ids = true.
Proof. exact builtin_ok. Qed.

(* training: soft output is logistic(form/temperature); thresholding at one half gives the eval output *)
Theorem C07_soft : forall x tau : R, (0 < tau)%R -> ((sigmoid (x / tau) > / 2)%R <-> (x > 0)%R).
Proof. exact soft_threshold. Qed.

Example C07_example : (* (0.5, 0.5, 0.5, -0.5): value -1 only at AB = 00  ->  OR, gate 7 *)
  walsh_gate_id ((1 # 2), (1 # 2), (1 # 2), ((-1) # 2)) = 7%nat
  /\ compiler_gate_id ((1 # 2), (1 # 2), (1 # 2), ((-1) # 2)) = 7%nat
  /\ walsh_eval ((0 # 1), (0 # 1), (0 # 1), (0 # 1)) true true = false.
Proof. repeat split; vm_compute; reflexivity. Qed.

Eval compute in "PA:C07_eval_sign"%string. Print Assumptions C07_eval_sign.
Eval compute in "PA:C07_gate_id"%string. Print Assumptions C07_gate_id.
Eval compute in "PA:C07_conv_eval"%string. Print Assumptions C07_conv_eval.
Eval compute in "PA:C07_consumers"%string. Print Assumptions C07_consumers.
Eval compute in "PA:C07_consumers_wired"%string. Print Assumptions C07_consumers_wired.
Eval compute in "PA:C07_builtin"%string. Print Assumptions C07_builtin.
Eval compute in "PA:C07_soft"%string. Print Assumptions C07_soft.
