(* Property C17 — Gumbel sampling returns valid, correctly distributed samples. *)
From Coq Require Import String Reals List Bool ZArith.
From TLX Require Import Model.Relax Model.Domain Gen.Guards Proofs.RelaxFacts Proofs.C17Facts Proofs.C19Facts Proofs.C09Facts Gen.Sampling Proofs.GumbelRace.
From TLX Require Import Model.Poly Gen.Ops.
Import ListNotations.
Local Open Scope R_scope.

Theorem C17_range : forall x u tau, 0 < gumbel_soft x u tau < 1.
Proof. exact gumbel_soft_range. Qed.
Theorem C17_hard_values : forall x u tau t, gumbel_hard x u tau t = 0 \/ gumbel_hard x u tau t = 1.
Proof. exact gumbel_hard_values. Qed.

(* soft sample = logistic((logit + logistic noise) / temperature): the definition of the model; the hard event: *)
Theorem C17_hard_event : forall x u tau t, 0 < tau -> 0 < t < 1 ->
  (t < gumbel_soft x u tau <-> tau * logit t < x + noise u).
Proof. exact hard_event. Qed.
(* a threshold <= 0 is always exceeded and a threshold >= 1 never (the soft sample lies strictly inside (0,1)): what _hard_cut returns *)
Theorem C17_hard_threshold_outside : forall x u tau t,
  (t <= 0 -> gumbel_hard x u tau t = 1) /\ (1 <= t -> gumbel_hard x u tau t = 0).
Proof. exact hard_threshold_outside. Qed.
Theorem C17_hard_temperature_independent : forall x u tau1 tau2, 0 < tau1 -> 0 < tau2 ->
  gumbel_hard x u tau1 (/ 2) = gumbel_hard x u tau2 (/ 2).
Proof. exact hard_temperature_independent. Qed.
(* P(hard = 1) = logistic(logit): the event is the interval (1 - logistic(x), 1) of the uniform draw *)
Theorem C17_hard_probability : forall x u, 0 < u < 1 -> (0 < x + (ln u - ln (1 - u)) <-> 1 - sigmoid x < u).
Proof. exact hard_event_interval. Qed.

Theorem C17_reproducible : forall x u tau x' u' tau', x = x' -> u = u' -> tau = tau' ->
  gumbel_soft x u tau = gumbel_soft x' u' tau'.
Proof. exact gumbel_reproducible. Qed.

(* a non-positive temperature is rejected: decision model + presence of the guards in the source *)
Theorem C17_guard : (forall tau, gumbel_domain tau = false -> gumbel_accepts tau = false)
  /\ forallb snd (filter (fun g => existsb (String.eqb (fst g)) ["gumbel_sigmoid_tau"; "dense_gumbel_soft_temp"; "dense_gumbel_hard_temp";
                                                               "dense_gumbel_check"; "conv2_gumbel_temp"]%string) guards) = true.
Proof. split; [exact gumbel_reject|vm_compute; reflexivity]. Qed.

(* layers: gumbel_hard applies exactly one gate per neuron for every draw (C09) *)
Theorem C17_layer_hard_single_gate : forall (noisy : list R) a b, length noisy = 16%nat ->
  exists g, (g < 16)%nat /\ mix (one_hot 16 (argmaxR noisy)) a b = peval_R (op g) a b.
Proof. exact gumbel_hard_single_gate. Qed.
(* gumbel_soft weights = softmax((w + g)/tau): a probability vector, so the output is a valid mixture in [0,1] *)
Theorem C17_layer_soft_mixture : forall w tau a b, length w = 16%nat -> in01 a -> in01 b -> in01 (mix (soft_raw w tau) a b).
Proof. exact soft_neuron_in01. Qed.

(* gumbel_sigmoid and gumbel_softmax of the current source are, statement by statement, the modelled ones: logistic noise from one
   uniform draw, soft = logistic((logit + noise) / tau), hard decided in logit space (logit + noise > tau * logit(threshold));
   raw layers: soft = softmax((w + g) / tau), hard = the argmax of w + g *)
Theorem C17_sampling_source : sampling_source_matches = true /\ gumbel_sigmoid_cut_in_logit_space = true
  /\ gumbel_hard_gate_from_perturbed_logits = true.
Proof. repeat split; reflexivity. Qed.

(* raw Gumbel modes: z_i = w_i - ln e_i with e_i the exponential draw; the gate with the largest z is the winner of the exponential race
   with rates exp(w_i), for every draw, and the temperature does not change the winner (P(winner = k) = softmax(w)_k is the textbook
   property of independent exponential clocks: trusted, like the distribution of the draws) *)
Theorem C17_gumbel_race : forall wi wj ei ej, 0 < ei -> 0 < ej ->
  (gumbel_z wj ej < gumbel_z wi ei <-> ei / exp wi < ej / exp wj).
Proof. exact gumbel_race. Qed.
Theorem C17_gumbel_race_temperature : forall zi zj tau, 0 < tau -> (zj / tau < zi / tau <-> zj < zi).
Proof. exact gumbel_race_temperature. Qed.

Eval compute in "PA:C17_range"%string. Print Assumptions C17_range.
Eval compute in "PA:C17_hard_values"%string. Print Assumptions C17_hard_values.
Eval compute in "PA:C17_hard_event"%string. Print Assumptions C17_hard_event.
Eval compute in "PA:C17_hard_temperature_independent"%string. Print Assumptions C17_hard_temperature_independent.
Eval compute in "PA:C17_hard_probability"%string. Print Assumptions C17_hard_probability.
Eval compute in "PA:C17_reproducible"%string. Print Assumptions C17_reproducible.
Eval compute in "PA:C17_guard"%string. Print Assumptions C17_guard.
Eval compute in "PA:C17_layer_hard_single_gate"%string. Print Assumptions C17_layer_hard_single_gate.
Eval compute in "PA:C17_layer_soft_mixture"%string. Print Assumptions C17_layer_soft_mixture.
Eval compute in "PA:C17_sampling_source"%string. Print Assumptions C17_sampling_source.
Eval compute in "PA:C17_hard_threshold_outside"%string. Print Assumptions C17_hard_threshold_outside.
Eval compute in "PA:C17_gumbel_race"%string. Print Assumptions C17_gumbel_race.
Eval compute in "PA:C17_gumbel_race_temperature"%string. Print Assumptions C17_gumbel_race_temperature.
