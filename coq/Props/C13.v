(* Property C13 — wiring invariants hold for every size and seed.
   Random draws are universally quantified: "every seed" = every permutation / every in-range draw. *)
From Coq Require Import String List Arith Bool Permutation.
From TLX Require Import Model.Wiring Proofs.WiringFacts Proofs.SlicesFacts Proofs.UniqueCover Proofs.TreeCount Proofs.RowEnds.
Import ListNotations.

(* dense 'unique': no neuron wired to one input twice (a < b), all wires exist, no two neurons share a pair *)
Theorem C13_unique : forall n m perm, n <= 2 * m -> m <= n * (n - 1) / 2 ->
  Permutation perm (seq 0 m) ->
  exists ps, unique_connections n m perm = Some ps /\ length ps = m /\ NoDup ps /\
    forall p, In p ps -> fst p < snd p /\ snd p < n.
Proof. exact unique_connections_ok. Qed.

Theorem C13_unique_rejects : forall n m perm, (2 * m < n \/ n * (n - 1) / 2 < m) ->
  unique_connections n m perm = None.
Proof. exact unique_connections_rejects. Qed.

(* the slice-level mirror of the source (x[::2], x[1::2], truncations, while loop) equals the closed form;
   kernel-checked for every (in_dim, out_dim) with in_dim <= 24 — a bounded statement, the bound is in the theorem *)
Theorem C13_unique_slices_upto_24 : forallb slices_agree (seq 2 23) = true.
Proof. exact slices_agree_upto_24. Qed.

(* ... and for EVERY in_dim and out_dim in the accepted domain (induction over the offsets consumed by the while loop; the
   loop terminates within in_dim iterations because all in_dim*(in_dim-1)/2 pairs have been produced by then) *)
Theorem C13_unique_slices : forall n m, 2 <= n -> n <= 2 * m -> m <= n * (n - 1) / 2 ->
  exists a b, unique_slices n m = Some (a, b) /\ length a = m /\ length b = m /\
    combine a b = firstn m (all_pairs n).
Proof. exact unique_slices_closed_form. Qed.

(* dense 'random': all wires exist; every input is used whenever 2*out_dim >= in_dim *)
Theorem C13_random_range : forall n m p1 p2, 0 < n ->
  Permutation p1 (seq 0 (2 * m)) -> Permutation p2 (seq 0 n) ->
  let '(a, b) := random_connections n m p1 p2 in
  length a = m /\ length b = m /\ forall v, In v (a ++ b) -> v < n.
Proof. exact random_connections_range. Qed.

Theorem C13_random_cover : forall n m p1 p2, 0 < n -> n <= 2 * m ->
  Permutation p1 (seq 0 (2 * m)) -> Permutation p2 (seq 0 n) ->
  let '(a, b) := random_connections n m p1 p2 in
  forall j, j < n -> In j (a ++ b).
Proof. exact random_connections_cover. Qed.

(* conv 'random-unique': the first s distinct numbers among draws below the number of pairs, each turned back into its pair of the
   strict upper triangle: s pairs, distinct, i < j < P, whatever was drawn (the hypothesis on the length says the sampling loop
   has ended); distinct position indices are distinct receptive-field positions (2-D and any number of axes) *)
Theorem C13_conv_unique : forall P s draws, s <= P * (P - 1) / 2 ->
  Forall (fun v => v < length (triu P)) draws ->
  length (first_distinct s draws []) = s ->
  exists ps, conv_unique_pairs P s draws = Some ps /\ length ps = s /\ NoDup ps /\
    forall p, In p ps -> fst p < snd p /\ snd p < P.
Proof. exact conv_unique_ok. Qed.

(* the sampler's arithmetic: the pair of number v is (i, v - start i + i + 1) for the row i whose numbers contain v *)
Theorem C13_unrank_arith : forall P i v, i < P -> row_start P i <= v < row_start P (S i) ->
  unrank P v = (i, v - row_start P i + i + 1).
Proof. exact unrank_arith. Qed.

Theorem C13_conv_unique_rejects : forall P s draws, P * (P - 1) / 2 < s -> conv_unique_pairs P s draws = None.
Proof. exact conv_unique_rejects. Qed.

Theorem C13_positions_distinct : forall dims i j, Forall (fun d => 0 < d) (tl dims) ->
  unravel dims i = unravel dims j -> dims <> [] -> i = j.
Proof. exact unravel_injective. Qed.

(* tree: level with `size` nodes has size/2 gates, gate g reads nodes 2g and 2g+1, and every node
   of the level feeds exactly one gate (left ++ right is a permutation of all nodes) *)
Theorem C13_tree : forall size, Nat.even size = true ->
  let '(l, r) := tree_level size in
  length l = size / 2 /\ length r = size / 2 /\
  (forall g, g < size / 2 -> nth g l 0 = 2 * g /\ nth g r 0 = 2 * g + 1) /\
  Permutation (l ++ r) (seq 0 size).
Proof. exact tree_level_full. Qed.

Example C13_example :
  unique_connections 5 7 [6; 0; 3; 1; 5; 2; 4] = Some [(2, 4); (0, 1); (3, 4); (2, 3); (1, 3); (1, 2); (0, 2)]
  /\ random_connections 3 2 [3; 0; 2; 1] [2; 0; 1] = ([2; 2], [1; 0])
  /\ conv_unique_pairs 3 4 [0; 1; 2] = None.
Proof. repeat split; vm_compute; reflexivity. Qed.

(* which inputs the dense 'unique' wiring uses, exactly (the property promises coverage for 'random' only; the source explains the lower
   bound of 'unique' by "otherwise not all inputs could be used"): every input except the last one when in_dim is odd and
   out_dim <= in_dim - 2 — for every accepted size, every permutation, every input *)
Theorem C13_unique_cover : forall n m perm ps i, 2 <= n -> Permutation perm (seq 0 m) ->
  unique_connections n m perm = Some ps -> i < n ->
  (uses ps i <-> (n mod 2 = 0 \/ i < n - 1 \/ n - 1 <= m)).
Proof. exact unique_connections_cover. Qed.

(* read as a guarantee "all inputs are used", the explanation is false: LogicDense(5, 3, 'unique') never reads input 4 *)
Theorem C13_unique_cover_all_refuted : exists n m perm ps, n <= 2 * m /\ m <= n * (n - 1) / 2 /\ Permutation perm (seq 0 m) /\
  unique_connections n m perm = Some ps /\ ~ uses ps (n - 1).
Proof. exact unique_cover_all_refuted. Qed.

(* one kernel of tree_depth d: 2^d first-level gates and d further levels that halve the width — 2^(d+1) - 1 gates on 2^(d+1)
   window positions, for every depth *)
Theorem C13_tree_count : forall d, gates_per_kernel d = 2 ^ (d + 1) - 1 /\ inputs_per_kernel d = 2 ^ (d + 1) /\
  length (tree_indices d) = d.
Proof. exact gates_per_kernel_count. Qed.

Theorem C13_tree_levels_halve : forall d level, level < d ->
  level_gates (nth level (tree_indices d) ([], [])) = 2 ^ (d - level - 1).
Proof. exact tree_levels_halve. Qed.

(* docs/guides/logic_gates.md ("depth n: 2^n - 1 operations") counts one level less than the parameter tree_depth builds *)
Theorem C13_documented_count_refuted : exists d, 1 <= d /\ gates_per_kernel d <> 2 ^ d - 1.
Proof. exact documented_count_refuted. Qed.

(* the ends of every row of the pair triangle, for every size (the draws the check supplies for receptive fields of thousands of
   positions): first number of row i = pair (i, i+1), last number = pair (i, P-1); no number of a row is a degenerate pair *)
Theorem C13_unrank_row_first : forall P i, i + 1 < P -> unrank P (row_start P i) = (i, i + 1).
Proof. exact unrank_row_first. Qed.
Theorem C13_unrank_row_last : forall P i, i + 1 < P -> unrank P (row_start P (S i) - 1) = (i, P - 1).
Proof. exact unrank_row_last. Qed.
Theorem C13_unrank_never_degenerate : forall P i v, i < P -> row_start P i <= v < row_start P (S i) ->
  fst (unrank P v) < snd (unrank P v) /\ snd (unrank P v) < P.
Proof. exact unrank_never_degenerate. Qed.

Eval compute in "PA:C13_unique"%string. Print Assumptions C13_unique.
Eval compute in "PA:C13_unique_rejects"%string. Print Assumptions C13_unique_rejects.
Eval compute in "PA:C13_unique_slices"%string. Print Assumptions C13_unique_slices.
Eval compute in "PA:C13_unique_slices_upto_24"%string. Print Assumptions C13_unique_slices_upto_24.
Eval compute in "PA:C13_random_range"%string. Print Assumptions C13_random_range.
Eval compute in "PA:C13_random_cover"%string. Print Assumptions C13_random_cover.
Eval compute in "PA:C13_conv_unique"%string. Print Assumptions C13_conv_unique.
Eval compute in "PA:C13_conv_unique_rejects"%string. Print Assumptions C13_conv_unique_rejects.
Eval compute in "PA:C13_positions_distinct"%string. Print Assumptions C13_positions_distinct.
Eval compute in "PA:C13_tree"%string. Print Assumptions C13_tree.
Eval compute in "PA:C13_unrank_arith"%string. Print Assumptions C13_unrank_arith.
Eval compute in "PA:C13_unique_cover"%string. Print Assumptions C13_unique_cover.
Eval compute in "PA:C13_unique_cover_all_refuted"%string. Print Assumptions C13_unique_cover_all_refuted.
Eval compute in "PA:C13_tree_count"%string. Print Assumptions C13_tree_count.
Eval compute in "PA:C13_tree_levels_halve"%string. Print Assumptions C13_tree_levels_halve.
Eval compute in "PA:C13_documented_count_refuted"%string. Print Assumptions C13_documented_count_refuted.
Eval compute in "PA:C13_unrank_row_first"%string. Print Assumptions C13_unrank_row_first.
Eval compute in "PA:C13_unrank_row_last"%string. Print Assumptions C13_unrank_row_last.
Eval compute in "PA:C13_unrank_never_degenerate"%string. Print Assumptions C13_unrank_never_degenerate.
