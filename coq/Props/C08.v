(* Property C08 — soft training forward is the documented relaxation and stays inside [0,1]. *)
From Coq Require Import String Reals List Bool.
From TLX Require Import Model.Bits Model.Poly Model.Relax Model.ConvNet Gen.Ops Gen.Dispatch.
From TLX Require Import Proofs.RelaxFacts Proofs.C03Facts Proofs.C08Facts.
Import ListNotations.
Local Open Scope R_scope.

(* softmax(w / tau) is a probability vector for every w and every tau *)
Theorem C08_softmax_simplex : forall w, w <> [] -> Forall (fun x => 0 < x) (softmax w) /\ rsum (softmax w) = 1.
Proof. intros w H. exact (conj (softmax_pos w H) (softmax_sum w H)). Qed.

(* the loop of bin_op_s computes the mixture sum_i p_i * op_i(a, b) *)
Theorem C08_mixture_is_loop : forall p a b, mix_loop p a b = mix p a b.
Proof. exact mix_loop_eq. Qed.

(* a raw neuron in soft mode: in [0,1] for all inputs in [0,1], all 16 logits, every temperature *)
Theorem C08_mixture_range : forall w tau a b, length w = 16%nat -> in01 a -> in01 b -> in01 (mix (soft_raw w tau) a b).
Proof. exact soft_neuron_in01. Qed.

(* a Walsh neuron in soft mode *)
Theorem C08_sigmoid_range : forall x, 0 < sigmoid x < 1.
Proof. exact sigmoid_in01. Qed.

(* every tree level of a convolution (any depth, stride, padding, channel count, 2-D or 3-D) *)
Theorem C08_tree_range_raw : forall W tau cs x, (forall l n k, length (W l n k) = 16%nat) ->
  Forall in01 x -> Forall in01 (conv_eval_g 0 (raw_soft_node W tau) cs x).
Proof. exact raw_conv_soft_in01. Qed.
Theorem C08_tree_range_walsh : forall W tau cs x,
  Forall in01 x -> Forall in01 (conv_eval_g 0 (walsh_soft_node W tau) cs x).
Proof. exact walsh_conv_soft_in01. Qed.

(* saturated gate choice on Boolean inputs = eval output *)
Theorem C08_saturated : forall g (x y : bool), (g < 16)%nat -> mix (one_hot 16 g) (b2r x) (b2r y) = b2r (tt g x y).
Proof. exact saturated_is_eval. Qed.

(* which weighting the soft training rows apply, at every tree level (regenerated dispatch table) *)
Theorem C08_dispatch :
  soft_row_ok "dense" "raw" (EWeights (WSoftRaw true)) false = true
  /\ soft_row_ok "dense" "walsh" (EAct (ASoftWalsh true)) false = true
  /\ soft_row_ok "conv2d" "raw" (EWeights (WSoftRaw true)) true = true
  /\ soft_row_ok "conv2d" "walsh" (EAct (ASoftWalsh true)) true = true
  /\ soft_row_ok "conv3d" "raw" (EWeights WPlainSoftmax) true = true.
Proof. exact soft_dispatch. Qed.

Eval compute in "PA:C08_softmax_simplex"%string. Print Assumptions C08_softmax_simplex.
Eval compute in "PA:C08_mixture_is_loop"%string. Print Assumptions C08_mixture_is_loop.
Eval compute in "PA:C08_mixture_range"%string. Print Assumptions C08_mixture_range.
Eval compute in "PA:C08_sigmoid_range"%string. Print Assumptions C08_sigmoid_range.
Eval compute in "PA:C08_tree_range_raw"%string. Print Assumptions C08_tree_range_raw.
Eval compute in "PA:C08_tree_range_walsh"%string. Print Assumptions C08_tree_range_walsh.
Eval compute in "PA:C08_saturated"%string. Print Assumptions C08_saturated.
Eval compute in "PA:C08_dispatch"%string. Print Assumptions C08_dispatch.
