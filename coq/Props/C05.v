(* Property C05 — bit-parallel batching is sample-wise. *)
From Coq Require Import String ZArith List Bool Arith.
From TLX Require Import Model.Bits Model.CLang Model.Netlist Model.GenDense Model.Wrapper.
From TLX Require Import Proofs.CLangFacts Proofs.WrapperFacts Proofs.HostFacts Proofs.C01Facts Model.Threads Gen.Storage Proofs.ThreadsFacts.
Import ListNotations.

(* packing: lane r of packed word d is the bit of row r, for every lane including the sign lane r = W-1 *)
Theorem C05_pack_lane : forall W in_size inp i d r, (0 < W)%nat -> (r < W)%nat ->
  Z.testbit (pack_word W in_size inp i d) (Z.of_nat r) = inp_bit W in_size inp i r d.
Proof. exact pack_word_lane. Qed.

(* unpacking: the integer written for lane b is the value held by lane b of the accumulator *)
Theorem C05_unpack : forall (W b : nat) o, (1 < W)%nat -> (b < W)%nat ->
  Forall (in_range (Z.of_nat W)) o -> (valb (map (lane (Z.of_nat b)) o) < 2 ^ 31)%Z ->
  unpack_lane W o b = valb (map (lane (Z.of_nat b)) o).
Proof. exact unpack_lane_val. Qed.

(* for ANY logic_net that is lane-wise some function f (C01/C02 prove this of the generated code), the host +
   wrapper return, for EVERY batch size, one result per input row that is a function of that row alone:
   neither the batch size, the position, the other rows, the padding rows nor the word size occur *)
Theorem C05_rowwise : forall (W in_size n_out k : nat) net f,
  (1 < W)%nat -> (Z.of_nat (gsize n_out k) < 2 ^ 31)%Z -> lanewise W in_size n_out net f ->
  forall rows, Forall (fun x => length x = in_size) rows ->
    forward_with_groupsum W in_size n_out k net rows = Some (map (per_row n_out k f) rows).
Proof. exact forward_with_groupsum_correct. Qed.

(* instance for the generated dense code *)
Theorem C05_rowwise_dense : forall (W k : nat) m rows,
  (1 < W)%nat -> wf_dense_model m = true -> (Z.of_nat (gsize (out_width m) k) < 2 ^ 31)%Z ->
  Forall (fun x => length x = dm_in m) rows ->
  forward_with_groupsum W (dm_in m) (out_width m) k (execZ (Z.of_nat W) (gen_dense m)) rows
  = Some (map (per_row (out_width m) k (eval_dense_net (dm_layers m))) rows).
Proof.
  intros W k m rows HW Hwf Hg HF.
  exact (forward_with_groupsum_correct W (dm_in m) (out_width m) k _ _ HW Hg (dense_lanewise W m HW Hwf) rows HF).
Qed.

(* with the arrays the host builds (len*W*in_size bools, len*W*k ints) and n_out words written by logic_net,
   every index the wrapper uses is inside its array, for every number of words *)
Theorem C05_in_bounds : forall (W in_size n_out k : nat), (1 < W)%nat -> (Z.of_nat (gsize n_out k) < 2 ^ 31)%Z ->
  (k * gsize n_out k <= n_out)%nat -> forall len,
  Forall (fun p => (fst p < snd p)%nat) (index_uses W in_size n_out k len).
Proof. exact wrapper_in_bounds. Qed.

(* the number of words the host passes covers the batch: ceil(B/W)*W >= B *)
Theorem C05_padding : forall B W, (0 < W)%nat -> (B <= ceil_div B W * W)%nat.
Proof. exact ceil_div_ge. Qed.

Example C05_example : (* a batch of 3 rows with W = 8 is padded to one word; lane 7 (sign) is a padding row *)
  ceil_div 3 8 = 1%nat /\ pack_word 8 1 [true; false; true] 0 0 = 5%Z
  /\ pack_word 8 1 (repeat true 8) 0 0 = (-1)%Z.
Proof. repeat split; vm_compute; reflexivity. Qed.

(* The theorems above treat logic_net as a function of its input word alone.  The wrapper calls it once per machine word on the
   SAME arrays (inp_temp / out_temp), and the buffers declared inside logic_net are `static __thread` (they keep their contents
   between calls): for every program that succeeds on fresh memory (C11: all generated programs) the result is the same whatever
   `out` and the buffers held before - the rows of the previous word, of an earlier batch, of another network's call *)
Theorem C05_independent_of_earlier_calls : forall (W : Z) (p : prog) (inp out : list Z) (stale : @mem Z),
  execZ W p inp = Some out ->
  exists mf, @exec_body Z 0%Z Z.lnot Z.land Z.lor Z.lxor (wrap W) (sizes p)
               (fun b i => if b =? 0 then nth_error inp i else stale b i) (body p) = Some mf
             /\ read_all mf 1 (seq 0 (size_of (sizes p) 1)) = Some out.
Proof. exact (fun W => stale_memory_same_result 0%Z Z.lnot Z.land Z.lor Z.lxor (wrap W)). Qed.
Theorem C05_buffers_private : private_storage buffer_storage = true.
Proof. reflexivity. Qed.

Eval compute in "PA:C05_pack_lane"%string. Print Assumptions C05_pack_lane.
Eval compute in "PA:C05_unpack"%string. Print Assumptions C05_unpack.
Eval compute in "PA:C05_rowwise"%string. Print Assumptions C05_rowwise.
Eval compute in "PA:C05_rowwise_dense"%string. Print Assumptions C05_rowwise_dense.
Eval compute in "PA:C05_in_bounds"%string. Print Assumptions C05_in_bounds.
Eval compute in "PA:C05_padding"%string. Print Assumptions C05_padding.
Eval compute in "PA:C05_independent_of_earlier_calls"%string. Print Assumptions C05_independent_of_earlier_calls.
Eval compute in "PA:C05_buffers_private"%string. Print Assumptions C05_buffers_private.
