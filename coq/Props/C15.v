(* Property C15 — persisted artefacts reproduce the function they were saved from. *)
From Coq Require Import String List Bool Arith.
From TLX Require Import Model.Bits Model.Netlist Model.Persist Model.Proc Gen.Persist Gen.LibIO Proofs.C15Facts Proofs.C16Facts.
Import ListNotations.

(* a layer rebuilt with the same constructor arguments under ANY RNG state and loaded from the saved state is the saved layer,
   hence computes the same eval-mode function - provided the wiring is part of the saved state *)
Theorem C15_state_roundtrip : forall fresh_w fresh_g l x,
  eval_layer_state (rebuild fresh_w fresh_g (save_state true l)) x = eval_layer_state l x.
Proof. exact state_roundtrip_eval. Qed.

(* ... which the current source does for every layer class and connection scheme (introspection of live objects) *)
Theorem C15_wiring_persisted : forallb snd persisted_wiring = true /\ length persisted_wiring = 6.
Proof. exact wiring_persisted. Qed.

(* and without which the statement is false *)
Theorem C15_needs_wiring :
  exists l fresh_w x, eval_layer_state (rebuild fresh_w [] (save_state false l)) x <> eval_layer_state l x.
Proof. exact state_roundtrip_needs_wiring. Qed.

(* compiled library: save to p, load p (same or another process: the model has no process-local state besides handles),
   call: the model just saved, from any reachable state *)
Theorem C15_lib_roundtrip : forall s a m p, Rl s a ->
  run AtomicRename PrivateCopy Refuses s [OCompile m (Some p); OLoad p; OCall (S (length (handles s)))]
  = [RHandle (length (handles s)); RHandle (S (length (handles s))); RValue m].
Proof. exact save_load_roundtrip. Qed.

Theorem C15_load_configuration : save_mode = AtomicRename /\ load_mode = PrivateCopy /\ load_passes_num_bits = true
  /\ load_sets_shape_and_classes = true /\ recompile_mode = Refuses.
Proof. exact current_disciplines. Qed.

Eval compute in "PA:C15_state_roundtrip"%string. Print Assumptions C15_state_roundtrip.
Eval compute in "PA:C15_wiring_persisted"%string. Print Assumptions C15_wiring_persisted.
Eval compute in "PA:C15_needs_wiring"%string. Print Assumptions C15_needs_wiring.
Eval compute in "PA:C15_lib_roundtrip"%string. Print Assumptions C15_lib_roundtrip.
Eval compute in "PA:C15_load_configuration"%string. Print Assumptions C15_load_configuration.
