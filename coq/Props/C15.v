(* Property C15 — persisted artefacts reproduce the function they were saved from. *)
From Coq Require Import String List Bool Arith.
From Coq Require Import ZArith.
From TLX Require Import Model.Bits Model.Netlist Model.Persist Model.Proc Gen.Persist Gen.PersistSrc Gen.LibIO Proofs.C15Facts Proofs.C16Facts.
Import ListNotations.

(* a layer rebuilt with the same constructor arguments under ANY RNG state and loaded from the saved state is the saved layer,
   hence computes the same eval-mode function - provided the wiring is part of the saved state *)
Theorem C15_state_roundtrip : forall fresh_w fresh_g l x,
  eval_layer_state (rebuild fresh_w fresh_g (save_state true l)) x = eval_layer_state l x.
Proof. exact state_roundtrip_eval. Qed.

(* ... which the current source does for every layer class and connection scheme (introspection of live objects) *)
Theorem C15_wiring_persisted : forallb snd persisted_wiring = true /\ length persisted_wiring = 6.
Proof. exact wiring_persisted. Qed.

(* and without which the statement is false *)
Theorem C15_needs_wiring :
  exists l fresh_w x, eval_layer_state (rebuild fresh_w [] (save_state false l)) x <> eval_layer_state l x.
Proof. exact state_roundtrip_needs_wiring. Qed.

(* compiled library: save to p, load p (same or another process: the model has no process-local state besides handles),
   call: the model just saved, from any reachable state *)
Theorem C15_lib_roundtrip : forall s a m p, Rl s a ->
  run AtomicRename PrivateCopy Refuses s [OCompile m (Some p); OLoad p; OCall (S (length (handles s)))]
  = [RHandle (length (handles s)); RHandle (S (length (handles s))); RValue m].
Proof. exact save_load_roundtrip. Qed.

Theorem C15_load_configuration : save_mode = AtomicRename /\ load_mode = PrivateCopy /\ load_passes_num_bits = true
  /\ load_sets_shape_and_classes = true /\ recompile_mode = Refuses.
Proof. exact current_disciplines. Qed.

(* ---- the persistence code as written (tie: Gen/PersistSrc.v, statement by statement; kernel evaluation of dense_load / conv_load
   on real, foreign and tampered checkpoints against load_state_dict) ---- *)
Theorem C15_persist_source : persist_src_matches = true.
Proof. reflexivity. Qed.

(* LogicDense: EVERY well-formed layer, saved and loaded into ANY layer with the same in_dim / out_dim (whatever its own wiring and
   gates, i.e. whatever the RNG drew at reconstruction), is restored exactly, hence computes the same eval function *)
Theorem C15_dense_roundtrip : forall fresh l,
  dense_wf l = true -> dl_in fresh = dl_in l -> dl_out fresh = dl_out l -> dense_load fresh (dense_save l) = Some l.
Proof. exact dense_state_roundtrip. Qed.
Theorem C15_dense_roundtrip_eval : forall fresh l x,
  dense_wf l = true -> dl_in fresh = dl_in l -> dl_out fresh = dl_out l ->
  option_map (fun l' => dense_eval l' x) (dense_load fresh (dense_save l)) = Some (dense_eval l x).
Proof. exact dense_roundtrip_eval. Qed.
(* whatever checkpoint is loaded (another layer's, a tampered one, one without wiring): if the load is accepted the layer is still
   well formed - one pair per neuron, every wire an existing input (what forward and the code generator rely on: F33) *)
Theorem C15_dense_load_sound : forall fresh sv l',
  dense_wf fresh = true -> dense_load fresh sv = Some l' ->
  dense_wf l' = true /\ dl_in l' = dl_in fresh /\ dl_out l' = dl_out fresh /\ dl_gates l' = sv_gates sv.
Proof. exact dense_load_sound. Qed.
Theorem C15_dense_load_installs : forall fresh sv l' a b,
  dense_load fresh sv = Some l' -> sv_extra sv = Some [a; b] -> dl_a l' = a /\ dl_b l' = b.
Proof. exact dense_load_installs. Qed.
Theorem C15_dense_load_rejects :
  let fresh := {| dl_in := 4; dl_out := 2; dl_gates := [3; 3]; dl_a := [0; 1]%Z; dl_b := [2; 3]%Z |} in
  dense_load fresh {| sv_gates := [1; 2]; sv_extra := Some [[0; 9]; [1; 2]]%Z |} = None
  /\ dense_load fresh {| sv_gates := [1; 2]; sv_extra := Some [[0; -1]; [1; 2]]%Z |} = None
  /\ dense_load fresh {| sv_gates := [1; 2; 3]; sv_extra := Some [[0; 1; 2]; [1; 2; 3]]%Z |} = None
  /\ dense_load fresh {| sv_gates := [1; 2]; sv_extra := Some [[0; 1]]%Z |} = None
  /\ dense_load fresh {| sv_gates := [1; 2]; sv_extra := None |} = Some {| dl_in := 4; dl_out := 2; dl_gates := [1; 2]; dl_a := [0; 1]%Z; dl_b := [2; 3]%Z |}.
Proof. exact dense_load_rejects. Qed.

(* logic convolutions (2-D and 3-D): EVERY layer whose kernel pairs lie in its receptive field, saved and loaded into ANY layer of
   the same geometry and tensor shapes (= built with the same constructor arguments), is restored exactly: gates, kernel pairs and
   the index tensors forward and the code generator read (including wiring written by hand on `indices`: F33b) *)
Theorem C15_conv_roundtrip : forall rc fresh l,
  geom_eqb (c_geom l) (c_geom fresh) = true -> gates_shape_eqb (c_gates l) (c_gates fresh) = true ->
  length (c_pairs l) = length (c_pairs fresh) -> forallb2 tens_shape_eqb (c_pairs l) (c_pairs fresh) = true ->
  index_shapes_eqb (c_indices l) (c_indices fresh) = true ->
  conv_pairs_wf l = true ->
  conv_load rc fresh (conv_save l) = Some l.
Proof. exact conv_state_roundtrip. Qed.
(* whatever checkpoint is accepted: the layer keeps its own geometry, the kernel pairs fit its receptive field and channels, and
   either the checkpoint was written by a layer of exactly this geometry (index tensors of this layer's shapes) or the index tensors
   are recomputed from this layer's own geometry *)
Theorem C15_conv_load_sound : forall rc fresh sv l',
  conv_load rc fresh sv = Some l' ->
  c_geom l' = c_geom fresh /\ gates_shape_eqb (c_gates l') (c_gates fresh) = true /\ c_gates l' = cs_gates sv /\
  match cs_extra sv with
  | None => c_pairs l' = c_pairs fresh /\ c_indices l' = c_indices fresh
  | Some (og, pairs, idx) =>
      c_pairs l' = pairs /\ pairs_fit fresh pairs = true /\
      match og with
      | Some g => g = c_geom fresh /\ c_indices l' = idx /\ index_shapes_eqb idx (c_indices fresh) = true
      | None => c_indices l' = rc (c_geom fresh) pairs
      end
  end.
Proof. exact conv_load_sound. Qed.
Theorem C15_conv_rejects_geometry : forall rc fresh sv g pairs idx,
  cs_extra sv = Some (Some g, pairs, idx) -> geom_eqb g (c_geom fresh) = false -> conv_load rc fresh sv = None.
Proof. exact conv_load_rejects_geometry. Qed.
Theorem C15_conv_rejects_pairs : forall rc fresh sv og pairs idx,
  cs_extra sv = Some (og, pairs, idx) -> pairs_fit fresh pairs = false -> conv_load rc fresh sv = None.
Proof. exact conv_load_rejects_pairs. Qed.

(* learnable thermometer: the frozen mode is part of the saved state and comes back (F39); without it it would not *)
Theorem C15_thermo_roundtrip : forall fresh t, length (th_raw fresh) = length (th_raw t) -> thermo_load fresh (thermo_save t) = Some t.
Proof. exact thermo_state_roundtrip. Qed.
Theorem C15_thermo_needs_flag :
  thermo_load {| th_raw := [0; 0]%Z; th_frozen := false |} {| ts_raw := [1; 1]%Z; ts_extra := None |}
  = Some {| th_raw := [1; 1]%Z; th_frozen := false |}.
Proof. exact thermo_needs_flag. Qed.

Eval compute in "PA:C15_state_roundtrip"%string. Print Assumptions C15_state_roundtrip.
Eval compute in "PA:C15_wiring_persisted"%string. Print Assumptions C15_wiring_persisted.
Eval compute in "PA:C15_needs_wiring"%string. Print Assumptions C15_needs_wiring.
Eval compute in "PA:C15_lib_roundtrip"%string. Print Assumptions C15_lib_roundtrip.
Eval compute in "PA:C15_load_configuration"%string. Print Assumptions C15_load_configuration.
Eval compute in "PA:C15_persist_source"%string. Print Assumptions C15_persist_source.
Eval compute in "PA:C15_dense_roundtrip"%string. Print Assumptions C15_dense_roundtrip.
Eval compute in "PA:C15_dense_roundtrip_eval"%string. Print Assumptions C15_dense_roundtrip_eval.
Eval compute in "PA:C15_dense_load_sound"%string. Print Assumptions C15_dense_load_sound.
Eval compute in "PA:C15_dense_load_installs"%string. Print Assumptions C15_dense_load_installs.
Eval compute in "PA:C15_dense_load_rejects"%string. Print Assumptions C15_dense_load_rejects.
Eval compute in "PA:C15_conv_roundtrip"%string. Print Assumptions C15_conv_roundtrip.
Eval compute in "PA:C15_conv_load_sound"%string. Print Assumptions C15_conv_load_sound.
Eval compute in "PA:C15_conv_rejects_geometry"%string. Print Assumptions C15_conv_rejects_geometry.
Eval compute in "PA:C15_conv_rejects_pairs"%string. Print Assumptions C15_conv_rejects_pairs.
Eval compute in "PA:C15_thermo_roundtrip"%string. Print Assumptions C15_thermo_roundtrip.
Eval compute in "PA:C15_thermo_needs_flag"%string. Print Assumptions C15_thermo_needs_flag.
