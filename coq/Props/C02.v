(* Property C02 — compiled conv / pool / mixed network = eval-mode model.
   Level of this file: a VERIFIED VALIDATOR applied to the parsed emitted text of every sampled model (translation validation
   whose checker is proved sound for all inputs and all word sizes), composed with the proved wrapper and host. *)
From Coq Require Import String ZArith List Bool Arith.
From TLX Require Import Model.Bits Model.CLang Model.Netlist Model.ConvNet Model.Wrapper Model.Validate.
From TLX Require Import Proofs.CLangFacts Proofs.ValidateFacts Proofs.WrapperFacts Proofs.HostFacts Proofs.C02Facts Proofs.C04Facts.
From TLX Require Import Gen.GateCode.
Import ListNotations.
Local Open Scope Z_scope.

(* if the exhaustive Boolean check of ONE program against the reference circuit succeeds (kernel computation), the program
   is memory safe and computes the circuit in every lane of every word size, for every input *)
Theorem C02_validator_sound : forall p f, validate_exhaustive p f = true ->
  forall W inp, 0 < W -> length inp = size_of (sizes p) 0 ->
  exists out, execZ W p inp = Some out /\ forall j, 0 <= j < W -> map (lane j) out = f (map (lane j) inp).
Proof. exact validate_exhaustive_sound. Qed.

(* every gate template in every lane (the emitter's only arithmetic) *)
Theorem C02_gate_templates : forall g, (g < 16)%nat -> exists e, template g = Some e /\
  forall x y j, 0 <= j -> Z.testbit (ceval e x y) j = tt g (Z.testbit x j) (Z.testbit y j).
Proof. exact template_lane. Qed.

(* with the batch wrapper and host: per-class counts of the reference circuit for every batch size *)
Theorem C02_counts : forall (W in_size n_out k : nat) p (net : list layer),
  (1 < W)%nat -> validate_exhaustive p (eval_net net) = true ->
  size_of (sizes p) 0 = in_size -> (forall x, length x = in_size -> length (eval_net net x) = n_out) ->
  Z.of_nat (gsize n_out k) < 2 ^ 31 ->
  forall rows, Forall (fun r => length r = in_size) rows ->
    forward_with_groupsum W in_size n_out k (execZ (Z.of_nat W) p) rows
    = Some (map (per_row n_out k (eval_net net)) rows).
Proof. exact validated_counts. Qed.

Eval compute in "PA:C02_validator_sound"%string. Print Assumptions C02_validator_sound.
Eval compute in "PA:C02_gate_templates"%string. Print Assumptions C02_gate_templates.
Eval compute in "PA:C02_counts"%string. Print Assumptions C02_counts.
