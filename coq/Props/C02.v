(* Property C02 — compiled conv / pool / mixed network = eval-mode model.
   Two layers:
   (a) the generator model Model/GenNet.gen_net (what get_c_code() emits for Conv (Conv|Pool)* [Flatten Dense*], 2-D and 3-D) is
       proved correct for EVERY well-formed network, every word size and every input (C02_logic_net, C02_net_counts,
       C02_net_direct); the harness ties gen_net to the real emitter by syntactic equality with the parsed emitted text;
   (b) a VERIFIED VALIDATOR applied to the parsed emitted text of every sampled model (sound for all inputs and word sizes),
       which does not depend on the generator model at all. *)
From Coq Require Import String ZArith List Bool Arith.
From TLX Require Import Model.Bits Model.CLang Model.Netlist Model.ConvNet Model.Wrapper Model.Host Model.Validate Model.GenNet Model.GenStream.
From TLX Require Import Proofs.CLangFacts Proofs.ValidateFacts Proofs.WrapperFacts Proofs.HostFacts Proofs.C02Facts Proofs.C04Facts Proofs.GenNetFacts Proofs.PoolFacts.
From TLX Require Import Gen.GateCode.
Import ListNotations.
Local Open Scope Z_scope.

(* if the exhaustive Boolean check of ONE program against the reference circuit succeeds (kernel computation), the program
   is memory safe and computes the circuit in every lane of every word size, for every input *)
Theorem C02_validator_sound : forall p f, validate_exhaustive p f = true ->
  forall W inp, 0 < W -> length inp = size_of (sizes p) 0 ->
  exists out, execZ W p inp = Some out /\ forall j, 0 <= j < W -> map (lane j) out = f (map (lane j) inp).
Proof. exact validate_exhaustive_sound. Qed.

(* every gate template in every lane (the emitter's only arithmetic) *)
Theorem C02_gate_templates : forall g, (g < 16)%nat -> exists e, template g = Some e /\
  forall x y j, 0 <= j -> Z.testbit (ceval e x y) j = tt g (Z.testbit x j) (Z.testbit y j).
Proof. exact template_lane. Qed.

(* with the batch wrapper and host: per-class counts of the reference circuit for every batch size *)
Theorem C02_counts : forall (W in_size n_out k : nat) p (net : list layer),
  (1 < W)%nat -> validate_exhaustive p (eval_net net) = true ->
  size_of (sizes p) 0 = in_size -> (forall x, length x = in_size -> length (eval_net net x) = n_out) ->
  Z.of_nat (gsize n_out k) < 2 ^ 31 ->
  forall rows, Forall (fun r => length r = in_size) rows ->
    forward_with_groupsum W in_size n_out k (execZ (Z.of_nat W) p) rows
    = Some (map (per_row n_out k (eval_net net)) rows).
Proof. exact validated_counts. Qed.

(* (a) logic_net generated for ANY well-formed stack Conv (Conv|Pool)* [Flatten Dense*] (2-D or 3-D, any channel counts, image
   sizes, receptive fields, strides, paddings, tree depths incl. 0, wirings, gates, pooling geometry whose windows all meet the image),
   ANY word size W > 0, ANY input words: no out-of-bounds access, no read of an unwritten cell, and every bit lane j < W of the
   output is the reference circuit (Model/ConvNet.v: zero padding, shared kernel trees, OR pooling, dense layers) on lane j *)
Theorem C02_logic_net : forall W m inp,
  0 < W -> wf_spatial_model m = true -> length inp = net_in m ->
  exists out, execZ W (gen_net m) inp = Some out /\ length out = net_out m /\
    forall j, 0 <= j < W -> map (lane j) out = eval_model m (map (lane j) inp).
Proof. exact gen_net_correct_words. Qed.

(* the pooling part of well-formedness follows from the arithmetic PyTorch itself demands of max pooling (padding at most half
   the kernel, hence < kernel), positive sizes and stride, kernel not larger than the padded image *)
Theorem C02_pool_wf : forall ps,
  Forall (fun n => 0 < n)%nat (pl_dims ps) -> (0 < pl_stride ps)%nat -> (pl_pad ps < pl_kernel ps)%nat ->
  Forall (fun n => pl_kernel ps <= n + 2 * pl_pad ps)%nat (pl_dims ps) ->
  wf_pool ps = true.
Proof. exact wf_pool_arith. Qed.

(* eval_model is the layer-list reference model used by C11/C12 *)
Theorem C02_reference : forall m x, eval_net (net_layers m) x = eval_model m x.
Proof. exact net_layers_eval. Qed.

(* with wrapper and host (GroupSum): for every batch size, row r of the result = per-class counts of the circuit on row r *)
Theorem C02_net_counts : forall (W k : nat) m rows,
  (1 < W)%nat -> wf_spatial_model m = true -> Z.of_nat (gsize (net_out m) k) < 2 ^ 31 ->
  Forall (fun r => length r = net_in m) rows ->
  forward_with_groupsum W (net_in m) (net_out m) k (execZ (Z.of_nat W) (gen_net m)) rows
  = Some (map (per_row (net_out m) k (eval_model m)) rows).
Proof. exact net_counts. Qed.

(* the same for a PARSED program that the streaming comparison (Model/GenStream.v, evaluated in the kernel on the emitted text of the
   library's predefined architectures) accepts: the statement is about the parsed text itself *)
Theorem C02_emitted_counts : forall (W k : nat) p m rows,
  gen_net_matchesN p m = true ->
  (1 < W)%nat -> wf_spatial_model m = true -> Z.of_nat (gsize (net_out m) k) < 2 ^ 31 ->
  Forall (fun r => length r = net_in m) rows ->
  forward_with_groupsum W (net_in m) (net_out m) k (execZ (Z.of_nat W) (to_prog p)) rows
  = Some (map (per_row (net_out m) k (eval_model m)) rows).
Proof. exact emitted_counts. Qed.

(* without GroupSum *)
Theorem C02_net_direct : forall (W : nat) m rows,
  (1 < W)%nat -> wf_spatial_model m = true -> Forall (fun r => length r = net_in m) rows ->
  forward_direct (execZ (Z.of_nat W) (gen_net m)) rows = Some (map (fun r => map Z.b2z (eval_model m r)) rows).
Proof. exact net_direct. Qed.

(* non-vacuity: conv (padding 1, stride 2, depth 1) -> pool (padding 1, overhanging windows) -> flatten -> dense x2 *)
Definition C02_example_model : spatial_model :=
  {| sm_C := 1; sm_dims := [3; 2]%nat;
     sm_spatial :=
       [LConv {| cv_dims := [3; 2]; cv_C := 1; cv_K := 2; cv_depth := 1; cv_rf := [2; 2]; cv_stride := 1; cv_pad := 1;
                 cv_rel_a := [[([0; 0], 0); ([1; 1], 0)]; [([0; 1], 0); ([1; 0], 0)]];
                 cv_rel_b := [[([1; 0], 0); ([0; 1], 0)]; [([1; 1], 0); ([0; 0], 0)]];
                 cv_gates := [[[6; 14]; [1; 7]]; [[7; 9]]] |}%nat;
        LPool {| pl_dims := [4; 3]; pl_C := 2; pl_kernel := 2; pl_stride := 2; pl_pad := 1 |}%nat];
     sm_flat := true;
     sm_dense := [[(0, 5, 6); (11, 2, 6); (3, 3, 12)]; [(0, 1, 6); (2, 0, 9)]]%nat |}.
Example C02_example :
  wf_spatial_model C02_example_model = true /\
  execZ 8 (gen_net C02_example_model) [1; -2; 3; 100; -128; 77] = Some [1; 50] /\
  map (lane 4) [1; 50] = eval_model C02_example_model (map (lane 4) [1; -2; 3; 100; -128; 77]).
Proof. split; [|split]; vm_compute; reflexivity. Qed.

Eval compute in "PA:C02_validator_sound"%string. Print Assumptions C02_validator_sound.
Eval compute in "PA:C02_gate_templates"%string. Print Assumptions C02_gate_templates.
Eval compute in "PA:C02_counts"%string. Print Assumptions C02_counts.
Eval compute in "PA:C02_logic_net"%string. Print Assumptions C02_logic_net.
Eval compute in "PA:C02_pool_wf"%string. Print Assumptions C02_pool_wf.
Eval compute in "PA:C02_reference"%string. Print Assumptions C02_reference.
Eval compute in "PA:C02_net_counts"%string. Print Assumptions C02_net_counts.
Eval compute in "PA:C02_emitted_counts"%string. Print Assumptions C02_emitted_counts.
Eval compute in "PA:C02_net_direct"%string. Print Assumptions C02_net_direct.
