(* Property C12 — a logic convolution applies one shared gate tree per kernel to every window. *)
From Coq Require Import String List Arith Bool.
From TLX Require Import Model.Bits Model.Netlist Model.Wiring Model.ConvNet.
From TLX Require Import Proofs.WiringFacts Proofs.ConvFacts.
Import ListNotations.

(* number of output positions per axis = number of elements of arange(0, padded - rf + 1, stride) *)
Theorem C12_positions : forall n p rf s, 0 < s -> rf <= n + 2 * p ->
  arange_len (n + 2 * p - rf + 1) s = out_len n p rf s.
Proof. exact positions_count. Qed.

Theorem C12_window_fits : forall n p rf s q, 0 < s -> rf <= n + 2 * p -> q < out_len n p rf s ->
  q * s + rf <= n + 2 * p.
Proof. exact window_fits. Qed.

(* absolute index = relative index inside the field + stride * output position, for any number of axes *)
Theorem C12_indices : forall cs rel k p g,
  k < length rel -> p < prod (cv_out_dims cs) -> g < length (nth k rel []) ->
  nth g (nth p (nth k (sliding_indices cs rel) []) []) []
  = let '(r, c) := nth g (nth k rel []) ([], 0) in abs_pos (window_start cs p) r ++ [c].
Proof. exact sliding_indices_spec. Qed.

(* out[k][p] = f_k (window p of the zero-padded input) with ONE tree f_k per kernel, for any value type and any
   per-node function (eval: Boolean gate tables; training: real-valued mixtures) - 2-D and 3-D alike *)
Theorem C12_shared_tree : forall (V : Type) (dflt : V) (fn : nat -> nat -> nat -> V -> V -> V) cs x k p,
  k < cv_K cs -> p < prod (cv_out_dims cs) ->
  nth (k * prod (cv_out_dims cs) + p) (conv_eval_g dflt fn cs x) dflt
  = kernel_tree dflt fn cs k (window dflt cs x p).
Proof. exact @conv_shared_tree. Qed.

(* translating the image translates the output: equal windows give equal outputs *)
Theorem C12_equivariance : forall (V : Type) (dflt : V) (fn : nat -> nat -> nat -> V -> V -> V) cs x x' k p q,
  k < cv_K cs -> p < prod (cv_out_dims cs) -> q < prod (cv_out_dims cs) ->
  (forall c r, window dflt cs x' q c r = window dflt cs x p c r) ->
  nth (k * prod (cv_out_dims cs) + q) (conv_eval_g dflt fn cs x') dflt
  = nth (k * prod (cv_out_dims cs) + p) (conv_eval_g dflt fn cs x) dflt.
Proof. exact @conv_equivariance. Qed.

Theorem C12_out_size : forall (V : Type) (dflt : V) fn cs (x : list V),
  length (conv_eval_g dflt fn cs x) = cv_K cs * prod (cv_out_dims cs).
Proof. exact @conv_out_length. Qed.

(* a kernel never reads outside its window: positions drawn from the field (unravel of an index below the
   field size) are below the field extent on every axis, and start + rel stays in [start, start + rf) *)
Theorem C12_inside_field : forall dims idx, Forall (fun d => 0 < d) dims -> idx < fold_right Nat.mul 1 dims ->
  Forall2 lt (unravel dims idx) dims.
Proof. exact unravel_bound. Qed.

Theorem C12_inside_window : forall start rel rf, rel < rf -> start <= rel + start < start + rf.
Proof. exact read_inside_window. Qed.

Example C12_example : (* 3x4 image, rf 2, stride 2, padding 1: 2 x 3 positions; position 4 starts at (2, 2) *)
  let cs := {| cv_dims := [3; 4]; cv_C := 1; cv_K := 1; cv_depth := 1; cv_rf := [2; 2]; cv_stride := 2; cv_pad := 1;
               cv_rel_a := [[([0; 1], 0); ([1; 1], 0)]]; cv_rel_b := [[([1; 0], 0); ([0; 0], 0)]];
               cv_gates := [[[6]; [7]]; [[1]]] |} in
  cv_out_dims cs = [2; 3] /\ window_start cs 4 = [2; 2]
  /\ sliding_indices cs (cv_rel_a cs) = [[[[0; 1; 0]; [1; 1; 0]]; [[0; 3; 0]; [1; 3; 0]]; [[0; 5; 0]; [1; 5; 0]];
                                          [[2; 1; 0]; [3; 1; 0]]; [[2; 3; 0]; [3; 3; 0]]; [[2; 5; 0]; [3; 5; 0]]]].
Proof. repeat split; vm_compute; reflexivity. Qed.

Eval compute in "PA:C12_positions"%string. Print Assumptions C12_positions.
Eval compute in "PA:C12_window_fits"%string. Print Assumptions C12_window_fits.
Eval compute in "PA:C12_indices"%string. Print Assumptions C12_indices.
Eval compute in "PA:C12_shared_tree"%string. Print Assumptions C12_shared_tree.
Eval compute in "PA:C12_equivariance"%string. Print Assumptions C12_equivariance.
Eval compute in "PA:C12_out_size"%string. Print Assumptions C12_out_size.
Eval compute in "PA:C12_inside_field"%string. Print Assumptions C12_inside_field.
Eval compute in "PA:C12_inside_window"%string. Print Assumptions C12_inside_window.
