"""C19 — invalid configurations are rejected, not silently mis-computed."""
import numpy as np
import torch

from harness import coqio, nets
from harness.common import Check
from translate import guards as t_guards

THEOREMS = ["C19_guards_present", "C19_dense_ctor_rejects", "C19_dense_ctor_accepts", "C19_conv_ctor_rejects",
            "C19_conv_ctor_accepts", "C19_compiler_rejects", "C19_gumbel_rejects", "C19_conv_default_padding",
            "C19_groupsum_ctor_rejects", "C19_groupsum_ctor_accepts", "C19_pool_compile_decides", "C19_pool_accepted_wf",
            "C19_compiled_forward_decides", "C19_positive_finite_guard"]
TRUSTED = [
    "Coq 8.16.1 kernel/coqc; theorems closed under the global context",
    "translator translate/guards.py: presence of each modelled guard in the unparsed source of the named function (text match after "
    "whitespace normalisation); the decision model Model/Domain.v is hand-written and tied by running the real constructor / call on "
    "every catalogue entry and comparing raise-vs-return with the model evaluated in the kernel",
    "an exception of any class counts as rejection (the statement only asks that no numbers are returned)",
]


def outcome(fn):
    try:
        r = fn()
        return "returned", r
    except Exception as e:
        return "raised", type(e).__name__


def cstr(s):
    return '"' + s + '"'


def jnum(v):
    """a float for the case description: NaN / infinities as strings (JSON has no literal for them)"""
    return v if v == v and abs(v) != float("inf") else repr(v)


def impl_str(v):
    """the implementation argument as the model's string ("" = None); non-strings get a name no implementation has"""
    return "" if v is None else (v if isinstance(v, str) and v != "" else f"<{v!r}>".replace('"', "'"))


def run(ck: Check):
    from torchlogix.layers import LogicDense, LogicConv2d, LogicConv3d, GroupSum
    from torchlogix import CompiledLogicNet
    from torchlogix.functional import gumbel_sigmoid
    ck.trusted = TRUSTED
    ck.rule = ("enumerated catalogue of out-of-domain arguments per public constructor / call (unknown names, stride > rf, padded image "
               "< rf, too many unique neurons/pairs, wrong input width / image size / channel count / rank, non-divisible group sum, "
               "word sizes, compilers, non-positive Gumbel temperatures) crossed with otherwise valid random configurations; "
               "outcome raise-vs-return compared with the Coq decision model. Non-trivial: the configuration is out of domain. "
               "Distinct = canonical JSON of the configuration.")
    ck.translate("Guards", t_guards.gen_guards)
    ck.prove("Props/C19", THEOREMS)
    rng = ck.rng
    reps = 2 if ck.tier == "quick" else 10
    dense_rows, conv_rows, comp_rows, fwd_rows = [], [], [], []

    def record(component, cfg, in_domain, got):
        ck.case({"component": component, **cfg}, nontrivial=not in_domain, kind=component + ("-invalid" if not in_domain else "-valid"))
        if not in_domain and got[0] == "returned":
            ck.disagree(f"{component}: out-of-domain arguments were accepted and a value was returned", cfg,
                        observed=str(got[1])[:200], signature={"component": component, "what": "accepts-invalid",
                                                                 "key": cfg.get("bad")})
        if in_domain and got[0] == "raised":
            ck.disagree(f"{component}: valid arguments were rejected", cfg, observed=got[1],
                        signature={"component": component, "what": "rejects-valid", "key": cfg.get("bad")})

    # ---------------- LogicDense constructor
    for _ in range(reps):
        n, m = rng.randrange(2, 9), rng.randrange(2, 9)
        base = dict(in_dim=n, out_dim=max(m, (n + 1) // 2), connections="random", parametrization="raw", weight_init="residual", implementation=None)
        variants = [("ok", {}), ("connections", {"connections": "uniqe"}), ("connections", {"connections": "random-unique"}),
                    ("parametrization", {"parametrization": "anf"}), ("parametrization", {"parametrization": "RAW"}),
                    ("weight_init", {"weight_init": "zeros"}), ("weight_init-walsh", {"parametrization": "walsh", "weight_init": "he"}),
                    ("implementation", {"implementation": "numpy"}), ("ok-walsh", {"parametrization": "walsh"}),
                    ("ok-unique", {"connections": "unique", "in_dim": 6, "out_dim": rng.randrange(3, 16)}),
                    ("unique-too-many", {"connections": "unique", "in_dim": 5, "out_dim": 11}),
                    ("unique-too-few", {"connections": "unique", "in_dim": 9, "out_dim": 4}),
                    ("unique-boundary", {"connections": "unique", "in_dim": 5, "out_dim": 10})]
        for bad, ch in variants:
            cfg = dict(base, **ch)
            kw = dict(cfg)
            got = outcome(lambda: LogicDense(device="cpu", **kw))
            dom = cfg["connections"] in ("random", "unique") and cfg["parametrization"] in ("raw", "walsh") and \
                cfg["weight_init"] in ("residual", "random") and cfg["implementation"] in (None, "python", "cuda") and \
                (cfg["connections"] != "unique" or (2 * cfg["out_dim"] >= cfg["in_dim"] and cfg["out_dim"] <= cfg["in_dim"] * (cfg["in_dim"] - 1) // 2))
            if cfg["implementation"] == "cuda":
                continue
            record("dense-ctor", dict(cfg, bad=bad), dom, got)
            dense_rows.append((cfg, got[0] == "returned"))
    # ---------------- LogicDense forward width / gumbel temperature
    for _ in range(reps):
        n = rng.randrange(2, 8)
        l = LogicDense(n, 5, device="cpu")
        for width, lead in ((n, [3]), (n + 1, [3]), (n - 1, [3]), (n, [2, 3]), (2 * n, [1])):
            got = outcome(lambda: l(torch.rand(*lead, width)))
            record("dense-forward", {"in_dim": n, "x_shape": lead + [width], "bad": "width"}, width == n, got)
        for mode in ("gumbel_soft", "gumbel_hard"):
            for par in ("raw", "walsh"):
                for tau in (-1.0, 0.0, 1e-30 * 0 - 0.5, 0.7, float("nan"), float("-inf")):
                    def _dg(given):
                        lg = LogicDense(n, 4, device="cpu", parametrization=par, forward_sampling=mode, temperature=tau if given == "constructor" else 1.0)
                        lg.temperature = tau
                        lg.train()
                        return lg(torch.rand(2, n))
                    for given in ("constructor", "attribute"):
                        got = outcome(lambda: _dg(given))
                        record("dense-gumbel", {"param": par, "mode": mode, "tau": jnum(tau), "bad": "tau", "given": given}, tau > 0, got)
    # outside the Gumbel modes too, a temperature that is not a positive finite number gives NaN / an inverted weighting in
    # training mode (eval does not use it and must keep working)
    for par in ("raw", "walsh"):
        for mode in ("soft", "hard", "gumbel_soft", "gumbel_hard"):
            for tau in (0.0, -1.0, float("nan"), float("inf"), 2.5):
                for kind in ("dense", "conv"):
                    # (built with a valid temperature, the value under test assigned afterwards: a constructor that validates is fine,
                    # what matters is that the value in use is validated)
                    if kind == "dense":
                        lt = LogicDense(4, 3, device="cpu", parametrization=par, forward_sampling=mode, temperature=1.0)
                        xt = torch.rand(2, 4)
                    else:
                        lt = LogicConv2d(in_dim=(3, 3), device="cpu", channels=1, num_kernels=2, tree_depth=1, receptive_field_size=2,
                                         parametrization=par, forward_sampling=mode, temperature=1.0)
                        xt = torch.rand(2, 1, 3, 3)
                    lt.temperature = tau
                    lt.train()
                    got = outcome(lambda: lt(xt))
                    record(kind + "-temperature", {"param": par, "mode": mode, "tau": jnum(tau), "bad": "tau"}, 0 < tau < float("inf"), got)
                    lt.eval()
                    got = outcome(lambda: lt(xt))
                    record(kind + "-temperature-eval", {"param": par, "mode": mode, "tau": jnum(tau), "bad": "eval-ignores-tau"}, True, got)
    # an unknown sampling mode (given to the constructor or assigned later) must not silently compute something in training mode
    for par in ("raw", "walsh"):
        for mode in ("Soft", "sample", None, "gumbel", "soft", "hard"):
            for late in (False, True):
                try:
                    lm = LogicDense(4, 3, device="cpu", parametrization=par, **({} if late else {"forward_sampling": mode}))
                    if late:
                        lm.forward_sampling = mode
                except Exception:
                    record("dense-sampling", {"param": par, "mode": mode, "late": late, "bad": "mode"}, False, ("raised", "ctor"))
                    continue
                lm.train()
                got = outcome(lambda: lm(torch.rand(2, 4)))
                record("dense-sampling", {"param": par, "mode": mode, "late": late, "bad": "mode"},
                       mode in ("soft", "hard", "gumbel_soft", "gumbel_hard"), got)
    for tau in (-2.0, 0.0, 0.5, float("nan")):
        for hard in (False, True):
            got = outcome(lambda: gumbel_sigmoid(torch.zeros(3), tau=tau, hard=hard))
            record("gumbel_sigmoid", {"tau": jnum(tau), "hard": hard, "bad": "tau"}, tau > 0, got)
    # ---------------- LogicConv2d / 3d constructors
    for _ in range(reps):
        for dims in (2, 3):
            cls = LogicConv2d if dims == 2 else LogicConv3d
            n = [rng.randrange(3, 6) for _ in range(dims)]
            base = dict(in_dim=tuple(n), channels=rng.randrange(1, 3), num_kernels=2, tree_depth=rng.randrange(1, 3),
                        receptive_field_size=rng.randrange(2, 4), stride=1, padding=0, connections="random")
            variants = [("ok", {}), ("stride>rf", {"stride": base["receptive_field_size"] + 1}),
                        ("image<rf", {"in_dim": tuple([2] * dims), "receptive_field_size": 3, "padding": 0}),
                        ("image<rf-padded-ok", {"in_dim": tuple([2] * dims), "receptive_field_size": 3, "padding": 1}),
                        ("connections", {"connections": "uniq"}), ("connections", {"connections": "Random"}),
                        ("unique-too-many", {"connections": "random-unique", "receptive_field_size": 1, "channels": 2, "tree_depth": 1}),
                        ("unique-too-many", {"connections": "unique", "receptive_field_size": 1, "channels": 2, "tree_depth": 1}),
                        ("unique-ok", {"connections": "random-unique", "receptive_field_size": 2, "tree_depth": 1}),
                        ("unique-ok", {"connections": "unique", "receptive_field_size": 2, "tree_depth": 1}),
                        ("implementation", {"implementation": "bogus"}), ("implementation", {"implementation": "CUDA"}),
                        ("implementation", {"implementation": ""}), ("implementation", {"implementation": 42}),
                        ("ok-implementation", {"implementation": "python"}),
                        ("padding<0", {"padding": -1}), ("padding<0", {"padding": -2, "in_dim": tuple([7] * dims)}),
                        ("ok-padding", {"padding": 2})]
            if dims == 2:
                variants += [("parametrization", {"parametrization": "anf"}), ("weight_init", {"weight_init": "ones"}),
                             ("forward_sampling", {"forward_sampling": "sample"})]
            for bad, ch in variants:
                cfg = dict(base, **ch)
                kw = dict(cfg)
                got = outcome(lambda: cls(device="cpu", **kw))
                rf = cfg["receptive_field_size"]
                P = rf ** dims * cfg["channels"]
                uniq = cfg["connections"] in ("random-unique", "unique")
                dom = cfg["stride"] <= rf and cfg["padding"] >= 0 and all(rf <= v + 2 * cfg["padding"] for v in cfg["in_dim"]) and \
                    (cfg["connections"] == "random" or uniq) and cfg.get("parametrization", "raw") in ("raw", "walsh") and \
                    cfg.get("weight_init", "residual") in ("residual", "random") and \
                    cfg.get("forward_sampling", "soft") in ("soft", "hard", "gumbel_soft", "gumbel_hard") and \
                    cfg.get("implementation") in (None, "python", "cuda") and \
                    (not uniq or 2 ** cfg["tree_depth"] <= P * (P - 1) // 2)
                record(f"conv{dims}d-ctor", dict(cfg, bad=bad), dom, got)
                conv_rows.append((dims, cfg, got[0] == "returned"))
        # 3-D non-cubic receptive fields: the stride must not exceed ANY extent
        for rf3, st in (((3, 3, 2), 3), ((2, 3, 3), 3), ((3, 2, 3), 3), ((4, 4, 3), 4), ((2, 2, 3), 2), ((3, 3, 2), 2)):
            got = outcome(lambda: LogicConv3d(in_dim=(5, 5, 5), device="cpu", tree_depth=1, receptive_field_size=rf3, stride=st, num_kernels=2))
            record("conv3d-ctor", {"receptive_field_size": list(rf3), "stride": st, "bad": "stride>rf-axis"}, st <= min(rf3), got)
        # default padding must construct
        got = outcome(lambda: LogicConv3d(in_dim=3, device="cpu", tree_depth=1, receptive_field_size=2, num_kernels=2))
        record("conv3d-ctor", {"bad": "default-padding"}, True, got)
        got = outcome(lambda: LogicConv2d(in_dim=3, device="cpu", tree_depth=1, receptive_field_size=2, num_kernels=2))
        record("conv2d-ctor", {"bad": "default-padding"}, True, got)
    # ---------------- GroupSum constructor
    gs_rows = []
    for k in (1, 2, 10, 0, -1, -3):
        got = outcome(lambda: GroupSum(k, device="cpu"))
        record("groupsum-ctor", {"k": k, "bad": "k"}, k > 0, got)
        gs_rows.append((k, got[0] == "returned"))
    guard_rows = []          # (component, float class of the value, accepted)

    def fclass(v):
        import math as _m
        return ("FNaN" if _m.isnan(v) else "FPosInf" if v == _m.inf else "FNegInf" if v == -_m.inf else "FZero" if v == 0 else
                "FPositive" if v > 0 else "FNegative")
    for tau in (0.0, -0.0, -2.0, float("nan"), float("inf"), float("-inf"), 1e-46, 5e-324, 1e39, 1e308, 0.5):
        okt = 0 < tau < float("inf")
        got = outcome(lambda: GroupSum(2, tau, device="cpu")(torch.ones(1, 4)))
        record("groupsum-tau", {"tau": repr(tau), "bad": "tau", "given": "constructor"}, okt, got)
        guard_rows.append(("GroupSum.tau", fclass(tau), got[0] == "returned"))
        from torchlogix import functional as _Fn
        from torchlogix.layers import LearnableThermometerThresholding as _LT
        for comp, call in (("soft_raw", lambda: _Fn.soft_raw(torch.zeros(2, 16), tau)), ("hard_walsh", lambda: _Fn.hard_walsh(torch.zeros(2), tau)),
                           ("gumbel_sigmoid", lambda: _Fn.gumbel_sigmoid(torch.zeros(2), tau)), ("gumbel_softmax", lambda: _Fn.gumbel_softmax(torch.zeros(2, 16), tau))):
            g2 = outcome(call)
            record("temperature-guard", {"function": comp, "tau": repr(tau), "bad": "tau"}, okt, g2)
            guard_rows.append((comp, fclass(tau), g2[0] == "returned"))
        if tau < 3e38 or tau != tau:          # the slope is compared with the largest binary32 number, not with inf
            g3 = outcome(lambda: _LT([1.0, 2.0], slope=tau))
            record("thermometer-slope", {"slope": repr(tau), "bad": "slope"}, okt, g3)
            guard_rows.append(("thermometer.slope", fclass(tau), g3[0] == "returned"))
        def _late(t=tau):
            g = GroupSum(2, 1.0, device="cpu")
            g.tau = t
            return g(torch.ones(1, 4))
        got = outcome(_late)
        record("groupsum-tau", {"tau": repr(tau), "bad": "tau", "given": "attribute"}, okt, got)
    # ---------------- thermometer input layout: (B, H, W) or (B, 1, H, W); anything else would be broadcast against the thresholds
    from torchlogix.layers import LearnableThermometerThresholding as _LTs
    for frozen in (False, True):
        tl = _LTs([1.0, 2.0, 3.0])
        if frozen:
            tl.freeze_thresholds()
        for bad, shp in (("ok-3d", (2, 4, 5)), ("ok-4d-one-channel", (2, 1, 4, 5)), ("channels-equal-thresholds", (2, 3, 4, 5)), ("two-channels", (2, 2, 4, 5)),
                         ("features-only", (5, 7)), ("five-axes", (2, 1, 1, 4, 5)), ("vector", (7,))):
            got = outcome(lambda: tl(torch.rand(*shp) * 4))
            record("thermometer-forward", {"x_shape": list(shp), "frozen": frozen, "bad": bad}, bad.startswith("ok"), got)
    # ---------------- conv forward shapes
    for _ in range(reps):
        for dims in (2, 3):
            cls = LogicConv2d if dims == 2 else LogicConv3d
            n = [rng.randrange(3, 5) for _ in range(dims)]
            C = rng.randrange(1, 3)
            l = cls(in_dim=tuple(n), device="cpu", channels=C, num_kernels=2, tree_depth=1, receptive_field_size=2)
            shapes = [("ok", [2, C] + n), ("bigger-image", [2, C] + [v + 2 for v in n]), ("more-channels", [2, C + 1] + n),
                      ("smaller-image", [2, C] + [v - 1 for v in n]), ("one-axis-bigger", [2, C] + [n[0] + 1] + n[1:]),
                      ("missing-batch", [C] + n), ("extra-axis", [2, C] + n + [1])]
            for bad, shp in shapes:
                got = outcome(lambda: l(torch.rand(*shp)))
                record(f"conv{dims}d-forward", {"channels": C, "in_dim": n, "x_shape": shp, "bad": bad}, bad == "ok", got)
            # strides above 1: an image one or two pixels too large gives the same number of window positions (floor division) - it is
            # still not the declared image
            for stride, rf, pad in ((2, 3, 0), (3, 3, 1), (2, 2, 1)):
                ls = cls(in_dim=tuple(v + 3 for v in n), device="cpu", channels=C, num_kernels=2, tree_depth=1, receptive_field_size=rf, stride=stride,
                         padding=pad)
                big = [v + 3 for v in n]
                for bad, shp in (("ok", [2, C] + big), ("one-pixel-larger", [2, C] + [v + 1 for v in big]),
                                 ("one-axis-one-pixel-larger", [2, C] + [big[0] + 1] + big[1:]), ("last-axis-larger-by-stride-1", [2, C] + big[:-1] + [big[-1] + stride - 1])):
                    if shp == [2, C] + big and bad != "ok":
                        continue
                    got = outcome(lambda: ls(torch.rand(*shp)))
                    record(f"conv{dims}d-forward", {"channels": C, "in_dim": big, "stride": stride, "rf": rf, "padding": pad, "x_shape": shp, "bad": bad},
                           bad == "ok", got)
            if dims == 2:
                for mode in ("gumbel_soft", "gumbel_hard"):
                    for par in ("raw", "walsh"):
                        for tau in (-1.0, 0.0, 0.7, float("nan")):
                            def _built(t=tau, given="constructor"):
                                lg = LogicConv2d(in_dim=tuple(n), device="cpu", channels=C, num_kernels=2, tree_depth=1, receptive_field_size=2,
                                                 parametrization=par, forward_sampling=mode, temperature=t if given == "constructor" else 1.0)
                                lg.temperature = t          # a schedule assigns it later
                                lg.train()
                                return lg(torch.rand(2, C, *n))
                            got = outcome(_built)
                            record("conv2d-gumbel", {"param": par, "mode": mode, "tau": jnum(tau), "bad": "tau", "given": "constructor"}, tau > 0, got)
                            got = outcome(lambda: _built(given="attribute"))
                            record("conv2d-gumbel", {"param": par, "mode": mode, "tau": jnum(tau), "bad": "tau", "given": "attribute"}, tau > 0, got)
    # ---------------- GroupSum
    for _ in range(reps):
        for k, nfeat in ((2, 6), (2, 7), (3, 10), (5, 5), (4, 2), (1, 9)):
            for lead in ([3], [2, 3]):
                got = outcome(lambda: GroupSum(k, device="cpu")(torch.rand(*lead, nfeat)))
                record("groupsum", {"k": k, "n": nfeat, "lead": lead, "bad": "divisible"}, nfeat % k == 0, got)
    # ---------------- CompiledLogicNet constructor
    model = torch.nn.Sequential(LogicDense(4, 6, device="cpu"), GroupSum(2, device="cpu"))
    for bits in (8, 16, 32, 64, 0, 1, 7, 12, 24, 48, 128, -8):
        for cc in ("gcc", "clang", "cc", "g++", ""):
            if bits in (8, 16, 32, 64) and cc in ("gcc", "clang") and (bits, cc) not in ((8, "gcc"), (64, "clang")):
                continue
            got = outcome(lambda: CompiledLogicNet(model, num_bits=bits, cpu_compiler=cc))
            record("compiler-ctor", {"num_bits": bits, "cpu_compiler": cc, "bad": "bits/cc"},
                   bits in (8, 16, 32, 64) and cc in ("gcc", "clang"), got)
            comp_rows.append((bits, cc, 1, got[0] == "returned"))
    # the same guards when no model is given (the path taken by CompiledLogicNet.load) and through load() itself
    import os
    from harness import compiled as hc
    lib_path = os.path.join(ck.scratch, "c19lib.so")
    try:
        net0 = hc.build(model, 64)
        hc.compile_net(net0, save=lib_path)
    except Exception as e:
        ck.broke("correspondence", "harness", f"could not compile the probe library: {e!r}")
        lib_path = None
    for bits in (8, 64, 0, 7, 24, 128, -8):
        for cc in ("gcc", "cc"):
            ok_cfg = bits in (8, 16, 32, 64) and cc == "gcc"
            got = outcome(lambda: CompiledLogicNet(None, num_bits=bits, cpu_compiler=cc))
            record("compiler-ctor-no-model", {"num_bits": bits, "cpu_compiler": cc, "bad": "bits/cc"}, ok_cfg, got)
        if lib_path and bits != 8:     # loading a 64-bit library as 8-bit is a caller error the library cannot see
            got = outcome(lambda: CompiledLogicNet.load(lib_path, (4,), 2, bits))
            record("compiler-load", {"num_bits": bits, "bad": "bits"}, bits in (8, 16, 32, 64), got)
    # a group sum over a width it does not divide must be refused by the compiler whatever produces that width
    from harness import nets as hn
    import numpy as np
    for shp, layers, k in (((1, 4, 4), [("conv", dict(K=2, depth=1, rf=2))], 4), ((1, 4, 4), [("conv", dict(K=2, depth=1, rf=2))], 9),
                           ((1, 4, 4), [("conv", dict(K=2, depth=1, rf=2)), ("pool", dict(k=2, s=1))], 3),
                           ((1, 2, 2, 3), [("conv", dict(K=3, depth=1, rf=2))], 2),
                           ((1, 4, 4), [("conv", dict(K=2, depth=1, rf=2)), ("flatten",), ("dense", 7)], 2),
                           ((1, 4, 4), [("conv", dict(K=2, depth=1, rf=2)), ("flatten",), ("dense", 6)], 3)):
        if not any(l[0] == "flatten" for l in layers):
            layers = layers + [("flatten",)]
        mdl = hn.make_custom(rng, shp, layers + [("gs", k)])
        feat = len(hn.eval_spec(dict(hn.extract(mdl), k=None), [0] * int(np.prod(shp))))
        got = outcome(lambda: CompiledLogicNet(mdl, num_bits=8))
        record("compiler-groupsum-width", {"features": feat, "k": k, "dims": len(shp) - 1, "bad": "divisible"}, feat % k == 0, got)
    # a batch whose per-sample size is not the compiled input size must be refused by forward (both call paths)
    import numpy as _np
    for with_gs in (True, False):
        mdl2 = torch.nn.Sequential(LogicDense(11, 24, device="cpu"), *( [GroupSum(3, device="cpu")] if with_gs else []))
        try:
            net2 = hc.build(mdl2, 8)
            hc.compile_net(net2)
        except Exception as e:
            ck.broke("correspondence", "harness", f"could not compile the size-probe library: {e!r}")
            continue
        for shp in ((8, 11), (8, 10), (8, 12), (11,), (8, 11, 2), (3, 11), (8, 1, 11), (8, 11, 1)):
            ok_shape = len(shp) == 2 and shp[1] == 11          # LogicDense takes (batch, in_dim) only
            got = outcome(lambda: net2.forward(_np.zeros(shp, dtype=bool)))
            record("compiled-forward-shape", {"groupsum": with_gs, "x_shape": list(shp), "bad": "sample-size"}, ok_shape, got)
            fwd_rows.append(([11], False, list(shp), got[0] == "returned"))
        # the same library through load(): a loaded handle knows its declared shape only and takes (batch, in_dim) like the layer
        lp2 = os.path.join(ck.scratch, f"c19_sz_{int(with_gs)}.so")
        try:
            hc.compile_net(net2, save=lp2)
            h2 = CompiledLogicNet.load(lp2, (11,), 3 if with_gs else None, 8, **({} if with_gs else {"output_size": 24}))
        except Exception as e:
            ck.broke("correspondence", "harness", f"could not save / load the size-probe library: {e!r}")
            continue
        for shp in ((8, 11), (8, 10), (11,), (8, 11, 1), (8, 1, 11), (3, 11)):
            ok_shape = len(shp) == 2 and shp[1] == 11
            got = outcome(lambda: h2.forward(_np.zeros(shp, dtype=bool)))
            record("loaded-forward-shape", {"groupsum": with_gs, "x_shape": list(shp), "bad": "sample-size"}, ok_shape, got)
            fwd_rows.append(([11], False, list(shp), got[0] == "returned"))
    # image models: the declared (channels, height, width) layout or flattened samples, nothing else of the same volume;
    # a dense model behind a leading Flatten takes any layout of the right volume (as Flatten does)
    for with_gs in (True, False):
        C, H, Wd = 2, 4, 6
        cmdl = hn.make_custom(rng, (C, H, Wd), [("conv", dict(K=2, depth=1, rf=2)), ("flatten",)] + ([("gs", 2)] if with_gs else []))
        fmdl = torch.nn.Sequential(torch.nn.Flatten(), LogicDense(C * H * Wd, 12, device="cpu"),
                                   *([GroupSum(3, device="cpu")] if with_gs else []))
        for kind, mdl3, declared, lf in (("conv", cmdl, [C, H, Wd], False), ("flatten-dense", fmdl, [C * H * Wd], True)):
            try:
                net3 = hc.build(mdl3, 8)
                hc.compile_net(net3)
            except Exception as e:
                ck.broke("correspondence", "harness", f"could not compile the layout-probe library: {e!r}")
                continue
            for shp in ((5, C, H, Wd), (5, C * H * Wd), (5, C, Wd, H), (5, 1, 2 * H, Wd), (5, 2 * C, H // 2, Wd), (5, 3, 4, 4),
                        (5, C, H * Wd), (5, C, H, Wd, 1), (5, 1, C, H, Wd), (C, H, Wd), (5, C, H, Wd + 1), (5, C * H * Wd + 1), (0, C, H, Wd),
                        (0, C, Wd, H)):
                x3 = _np.zeros(shp, dtype=bool)
                ref = outcome(lambda: mdl3.eval()(torch.zeros(shp)))
                vol_ok = len(shp) >= 2 and int(_np.prod(shp[1:])) == C * H * Wd
                ok_shape = vol_ok and (lf or tuple(shp[1:]) == (C, H, Wd) or len(shp) == 2)
                got = outcome(lambda: net3.forward(x3))
                record("compiled-forward-shape", {"model": kind, "groupsum": with_gs, "x_shape": list(shp), "bad": "layout",
                                                  "torch_model": ref[0]}, ok_shape, got)
                fwd_rows.append((declared, lf, list(shp), got[0] == "returned"))
    # an OrPooling outside the domain of max pooling must not compile (the PyTorch model raises on every call)
    from torchlogix.layers import OrPooling
    pool_rows = []
    for _ in range(reps):
        for dims in (2, 3):
            n = rng.randrange(4, 7)
            cases = [(2, 2, 0), (2, 2, 1), (2, 2, 2), (3, 1, 1), (3, 1, 2), (n + 1, 1, 0), (n + 1, 1, (n + 1) // 2), (n + 3, 1, 1),
                     (n, n, 0), (2, 1, -1), (rng.randrange(1, 5), rng.randrange(1, 4), rng.randrange(0, 4))]
            for k, st, p in cases:
                conv = (LogicConv2d if dims == 2 else LogicConv3d)(in_dim=n + 1, device="cpu", channels=1, num_kernels=2, tree_depth=1,
                                                                  receptive_field_size=2)
                mdlp = torch.nn.Sequential(conv, OrPooling(k, st, p), torch.nn.Flatten())
                dom = k > 0 and st > 0 and 0 <= 2 * p <= k and n + 2 * p >= k
                ref = outcome(lambda: mdlp.eval()(torch.zeros(1, 1, *([n + 1] * dims))))
                if (ref[0] == "returned") != dom:
                    ck.broke("correspondence", "harness", f"max pooling domain oracle: k={k} s={st} p={p} n={n}: torch {ref[0]}, oracle {dom}")
                got = outcome(lambda: CompiledLogicNet(mdlp, num_bits=8))
                record("compiler-pool", {"dims": dims, "map": n, "kernel": k, "stride": st, "padding": p, "bad": "pool-domain"}, dom, got)
                pool_rows.append((k, st, p, [n] * dims, got[0] == "returned"))
    got = outcome(lambda: CompiledLogicNet(torch.nn.Sequential(torch.nn.Flatten(), GroupSum(1, device="cpu")), num_bits=8))
    record("compiler-ctor", {"bad": "no-logic-layer"}, False, got)
    comp_rows.append((8, "gcc", 0, got[0] == "returned"))
    # ---------------- decision model in the kernel vs observed outcomes
    txt = ("From Coq Require Import String ZArith List Bool Arith. Import ListNotations.\nFrom TLX Require Import Model.Domain.\nLocal Open Scope string_scope.\n")
    drows = [r for r in dense_rows]
    txt += "Eval vm_compute in [" + ";\n ".join(
        f"dense_ctor_accepts {{| dc_in := {c['in_dim']}; dc_out := {c['out_dim']}; dc_connections := {cstr(c['connections'])}; "
        f"dc_param := {cstr(c['parametrization'])}; dc_weight_init := {cstr(c['weight_init'])}; dc_impl := {cstr(c['implementation'] or '')} |}}"
        for c, _ in drows) + "].\n"
    txt += "Eval vm_compute in [" + ";\n ".join(
        f"conv_ctor_accepts {{| cc_dims := {nets._nl(c['in_dim'])}; cc_rf := {nets._nl([c['receptive_field_size']] * d)}; cc_channels := {c['channels']}; "
        f"cc_depth := {c['tree_depth']}; cc_stride := {c['stride']}; cc_pad := ({c['padding']})%Z; cc_connections := {cstr(c['connections'])}; "
        f"cc_param := {cstr(c.get('parametrization', 'raw'))}; cc_weight_init := {cstr(c.get('weight_init', 'residual'))}; "
        f"cc_sampling := {cstr(c.get('forward_sampling', 'soft'))}; cc_impl := {cstr(impl_str(c.get('implementation')))} |}}"
        for d, c, _ in conv_rows) + "].\n"
    txt += "Eval vm_compute in [" + "; ".join(
        f"compiler_accepts {max(b, 0)} {cstr(cc)} {nl}" for b, cc, nl, _ in comp_rows) + "].\n"
    txt += "Eval vm_compute in [" + "; ".join(f"groupsum_ctor_accepts ({k})%Z" for k, _ in gs_rows) + "].\n"
    txt += "Eval vm_compute in [" + "; ".join(
        f"pool_compile_accepts ({k}) ({st}) ({p}) {nets._zl(dm)}" for k, st, p, dm, _ in pool_rows) + "].\n"
    txt += "Eval vm_compute in [" + ";\n ".join(
        f"compiled_forward_accepts {nets._nl(d)} {'true' if lf else 'false'} {nets._nl(shp)}" for d, lf, shp, _ in fwd_rows) + "].\n"
    txt += "Eval vm_compute in [" + "; ".join(f"positive_finite_guard_accepts {fc}" for _, fc, _ in guard_rows) + "].\n"
    rc, out, err = ck.coq_eval("c19m", txt)
    if rc != 0:
        ck.broke("correspondence", "kernel evaluation of Model/Domain", err[-600:])
    else:
        v = coqio.parse_evals(out)
        for (c, acc), m in zip(drows, v[0]):
            ck.count("model_vs_impl_decisions")
            if bool(m) != acc:
                ck.broke("correspondence", "Model/Domain.dense_ctor_accepts", f"{c}: model {m}, implementation {'accepts' if acc else 'rejects'}")
        for (d, c, acc), m in zip(conv_rows, v[1]):
            ck.count("model_vs_impl_decisions")
            if bool(m) != acc:
                ck.broke("correspondence", "Model/Domain.conv_ctor_accepts", f"{d}D {c}: model {m}, implementation {'accepts' if acc else 'rejects'}")
        for (b, cc, nl, acc), m in zip(comp_rows, v[2]):
            ck.count("model_vs_impl_decisions")
            if b >= 0 and bool(m) != acc:
                ck.broke("correspondence", "Model/Domain.compiler_accepts", f"bits={b} cc={cc!r}: model {m}, implementation {'accepts' if acc else 'rejects'}")
        for (k, acc), m in zip(gs_rows, v[3]):
            ck.count("model_vs_impl_decisions")
            if bool(m) != acc:
                ck.broke("correspondence", "Model/Domain.groupsum_ctor_accepts", f"k={k}: model {m}, implementation {'accepts' if acc else 'rejects'}")
        for (k, st, p, dm, acc), m in zip(pool_rows, v[4]):
            ck.count("model_vs_impl_decisions")
            if bool(m) != acc:
                ck.broke("correspondence", "Model/Domain.pool_compile_accepts", f"k={k} s={st} p={p} map={dm}: model {m}, implementation {'accepts' if acc else 'rejects'}")
        for (comp, fc, acc), m in zip(guard_rows, v[6]):
            ck.count("model_vs_impl_decisions")
            if bool(m) != acc:
                ck.broke("correspondence", "Model/Domain.positive_finite_guard_accepts", f"{comp} value class {fc}: model {m}, implementation {'accepts' if acc else 'rejects'}")
        for (d, lf, shp, acc), m in zip(fwd_rows, v[5]):
            ck.count("model_vs_impl_decisions")
            if bool(m) != acc:
                ck.broke("correspondence", "Model/Domain.compiled_forward_accepts", f"declared={d} leading_flatten={lf} x.shape={shp}: model {m}, implementation {'accepts' if acc else 'rejects'}")
    return ck.finish()


def replay(ck, path):
    return run(ck)
