"""C03 — eval mode computes exactly the discretised Boolean circuit, deterministically."""
import copy

import numpy as np
import torch

from harness import coqio, nets, protocols
from harness.common import Check
from translate import dispatch as t_disp, ops as t_ops

THEOREMS = ["C03_mode_independent", "C03_all_tree_levels", "C03_float_exact_dense", "C03_float_exact_conv", "C03_rowwise"]
TRUSTED = [
    "Coq 8.16.1 kernel/coqc; vm_compute over the regenerated dispatch table and over Flocq binary32 (16 gates x 4 inputs)",
    "axioms: the dispatch/row-wise theorems are closed; the binary32 theorems go through Flocq, whose development depends on the "
    "standard-library Reals axioms and Classical_Prop.classic",
    "translators translate/dispatch.py (partial evaluation of the forward methods under each (parametrisation, training, sampling) "
    "assignment; fail-closed on unknown calls) and translate/ops.py",
    "torch primitives (advanced indexing, argmax, one_hot, einsum with one non-zero summand, max_pool, pad) are modelled by the reference "
    "circuit Model/ConvNet.v and tied by exact comparison on Boolean inputs, not proved",
]


def tiny_logits(rng, weight):
    """Replace a row's logits by values that are distinct but collapse under exp rounding (1e-30 scale)."""
    with torch.no_grad():
        for i in range(weight.shape[0]):
            g = rng.randrange(16)
            vals = [rng.randrange(1, 9) * 1e-31 for _ in range(16)]
            vals[g] = 2e-30
            weight[i] = torch.tensor(vals)


def run(ck: Check):
    from torchlogix.layers import LogicDense, LogicConv2d, LogicConv3d, OrPooling, GroupSum
    ck.trusted = TRUSTED
    ck.rule = ("random dense / conv2d / conv3d / pool / mixed stacks (raw and Walsh, padding 0..2, depth 1..2) with random gates, "
               "including logits that differ only at the 1e-30 scale; each evaluated in eval() under the four sampling modes x "
               "temperature {0.3, 1, 7} x grad_factor {1, 1.3 (and 2, 2.1 in the thorough tier)}, three repeated calls, the probe rows embedded in two different batches "
               "(and two leading shapes for dense), after a training-mode forward, and after in-place weight changes; outputs compared "
               "exactly with the reference circuit (Python mirror for volume, Model/ConvNet.eval_net in the kernel for a subset). "
               "Non-trivial: at least two distinct non-pass-through gates. Distinct = canonical JSON of the architecture + gates. Also: models converted to float64 / bfloat16 / float16 (single layers, stacks in which a Walsh layer or a frozen thermometer feeds a raw convolution, class groups wider than the 16-bit integer range), gradient factors that are not dyadic.")
    ck.translate("Dispatch", t_disp.gen_dispatch)
    ck.translate("Ops", t_ops.gen_ops)
    ck.prove("Props/C03", THEOREMS)
    rng = ck.rng
    n_models = 14 if ck.tier == "quick" else 120
    coq_items = []
    # systematic multi-channel / multi-layer stacks first (a wrong channel or kernel axis shows only with >= 2 channels / kernels)
    fixed = [(name, shp, layers, par) for name, shp, layers in nets.SYSTEMATIC_STACKS
             if shp[0] >= 2 or sum(1 for l in layers if l[0] == "conv") >= 2 or any(l[0] == "conv" and l[1].get("K", 1) >= 2 and l[1].get("depth", 1) >= 2 for l in layers)
             for par in (("raw",) if len(shp) == 4 or name not in ("chan3-pad1-depth2", "conv-pool-conv-dense3") else ("raw", "walsh"))]
    for t in range(n_models + len(fixed)):
        torch.manual_seed(ck.seed * 101 + t)
        if t >= n_models:
            name, shp, layers, par = fixed[t - n_models]
            kind = ("stack3d" if len(shp) == 4 else "stack2d") + ("-walsh" if par == "walsh" else "")
            model = nets.make_custom(rng, shp, layers, param=par, tau=rng.choice([1.0, 4.0]))
        else:
            kind = ["dense", "stack2d", "stack3d", "stack2d-walsh", "dense-walsh"][t % 5]
        if t >= n_models:
            pass
        elif kind.startswith("dense"):
            par = "walsh" if "walsh" in kind else "raw"
            widths = [rng.randrange(2, 8) for _ in range(rng.randrange(1, 4))]
            k = rng.choice([d for d in range(1, widths[-1] + 1) if widths[-1] % d == 0])
            model = nets.make_dense(rng, rng.randrange(2, 8), widths, param=par, k=k, tau=rng.choice([1.0, 2.0, 0.25]))
        else:
            dims = 3 if "3d" in kind else 2
            model = nets.make_stack(rng, dims=dims, param="walsh" if "walsh" in kind else "raw", max_in=12,
                                    tau=rng.choice([1.0, 4.0]))
        if t % 3 == 0 and isinstance(model[-1], GroupSum):
            # the temperature of the group sum assigned after construction: the current attribute is what divides the counts
            with torch.no_grad():
                model(torch.zeros(1, *nets.extract(model)["input_shape"]))
            model[-1].tau = rng.choice([8.0, 0.5, 16.0])     # dyadic: count / tau is exact in binary32
        if t % 4 == 1:     # logits that tie under exp rounding
            for m in model:
                if isinstance(m, LogicDense) and m.parametrization == "raw":
                    tiny_logits(rng, m.weight)
                if isinstance(m, (LogicConv2d, LogicConv3d)) and getattr(m, "parametrization", "raw") == "raw":
                    for lv in m.tree_weights:
                        for w in lv:
                            tiny_logits(rng, w)
        spec = nets.extract(model)
        n_in = int(np.prod(spec["input_shape"]))
        rows, exhaustive = nets.input_rows(rng, n_in, 8, n_random=40)
        gs = sorted({g for l in spec["layers"] if l["kind"] == "dense" for g in l["g"]} |
                    {g for l in spec["layers"] if l["kind"] == "conv" for lv in l["gates"] for nd in lv for g in nd})
        arch = [{k: v for k, v in l.items() if k in ("kind", "in_dim", "channels", "kernels", "depth", "rf", "stride", "padding", "param")} for l in spec["layers"]]
        case = {"kind": kind, "arch": arch, "gates": gs, "k": spec["k"], "tiny_logits": t % 4 == 1}
        ck.case(case, nontrivial=len(set(gs) - {3}) >= 2, kind=kind)
        tau = spec["tau"] or 1.0
        ref = []
        for r in rows:
            bits = nets.eval_spec(spec, r)
            ref.append([c / tau for c in nets.counts(bits, spec["k"])] if spec["k"] else [float(b) for b in bits])
        x = torch.tensor(rows, dtype=torch.float32).reshape(len(rows), *spec["input_shape"])
        sig = {"kind": kind}

        def check(tag, xin, sel=None):
            model.eval()
            with torch.no_grad():
                y = model(xin).reshape(xin.shape[0] if sel is None else len(sel), -1).tolist() if sel is None else None
            return y

        def compare(tag, y, idxs):
            for j, i in enumerate(idxs):
                if y[j] != ref[i]:
                    ck.disagree("eval-mode output differs from the discretised Boolean circuit", dict(case, row=rows[i], situation=tag),
                                expected=ref[i], observed=y[j], signature=dict(sig, what="eval-vs-circuit", situation=tag.split(":")[0]))
                    return False
            return True

        logic = [m for m in model if isinstance(m, (LogicDense, LogicConv2d, LogicConv3d))]
        allidx = list(range(len(rows)))
        ok = True
        for mode in ("soft", "hard", "gumbel_soft", "gumbel_hard"):
            for temp in ((0.3, 1.0, 7.0) if ck.tier == "thorough" else (rng.choice([0.3, 7.0]), 1.0)):
                for gf in ((1.0, 1.3, 2.0, 2.1) if ck.tier == "thorough" else (1.0, 1.3)):   # 1.3, 2.1: factors that are not dyadic (f + (1 - f) != 1 in binary32)
                    for m in logic:
                        if hasattr(m, "forward_sampling"):
                            m.forward_sampling = mode
                        if hasattr(m, "temperature"):
                            m.temperature = temp
                        m.grad_factor = gf
                    model.eval()
                    with torch.no_grad():
                        ys = [model(x).reshape(len(rows), -1).tolist() for _ in range(3)]
                    ck.count("eval_calls", 3)
                    if ys[0] != ys[1] or ys[1] != ys[2]:
                        ck.disagree("repeated eval calls on one input differ", dict(case, mode=mode, temperature=temp),
                                    signature=dict(sig, what="nondeterministic", mode=mode))
                        ok = False
                    ok &= compare(f"mode:{mode}/T{temp}/gf{gf}", ys[0], allidx)
                    if not ok:
                        break
                if not ok:
                    break
            if not ok:
                break
        if not ok:
            continue
        # other rows of the batch / leading shape
        perm = list(range(len(rows)))
        rng.shuffle(perm)
        sub = perm[: max(1, len(rows) // 3)]
        with torch.no_grad():
            y = model(x[sub]).reshape(len(sub), -1).tolist()
        compare("sub-batch", y, sub)
        if kind.startswith("dense") and len(rows) % 2 == 0:
            with torch.no_grad():
                y = model(x.reshape(2, len(rows) // 2, -1))
            compare("leading-shape", y.reshape(len(rows), -1).tolist(), allidx)
        # earlier calls: a training-mode forward in between, then eval again
        for m in logic:
            if hasattr(m, "forward_sampling"):
                m.forward_sampling = rng.choice(["soft", "gumbel_hard"])
        model.train()
        with torch.no_grad():
            model(torch.rand_like(x))
        model.eval()
        with torch.no_grad():
            y = model(x).reshape(len(rows), -1).tolist()
        compare("after-train-forward", y, allidx)
        # weights changed while staying in eval mode: the new circuit must be computed
        model2 = copy.deepcopy(model)
        src = nets.make_dense(rng, 2, [2]) if False else None
        with torch.no_grad():
            for m in model:
                if isinstance(m, LogicDense):
                    nets.set_gates(rng, m, [rng.randrange(16) for _ in range(m.out_dim)], m.parametrization)
                if isinstance(m, (LogicConv2d, LogicConv3d)):
                    nets.set_tree_gates(rng, m, getattr(m, "parametrization", "raw"))
        spec2 = nets.extract(model)
        ref2 = []
        for r in rows:
            bits = nets.eval_spec(spec2, r)
            ref2.append([c / tau for c in nets.counts(bits, spec2["k"])] if spec2["k"] else [float(b) for b in bits])
        with torch.no_grad():
            y = model(x).reshape(len(rows), -1).tolist()
        for i in allidx:
            if y[i] != ref2[i]:
                ck.disagree("after changing the weights in eval mode the layer still computes the old circuit (result depends on earlier calls)",
                            dict(case, row=rows[i]), expected=ref2[i], observed=y[i], signature=dict(sig, what="stale-after-weight-change"))
                break
        # load_state_dict into an eval model
        model.load_state_dict(model2.state_dict())
        model.eval()
        with torch.no_grad():
            y = model(x).reshape(len(rows), -1).tolist()
        compare("after-load_state_dict", y, allidx)
        if t < (6 if ck.tier == "quick" else 30):
            coq_items.append((spec, rows[:6], [nets.eval_spec(spec, r) for r in rows[:6]]))
    # reference circuit in the kernel
    txt = "From Coq Require Import List Arith Bool. Import ListNotations.\nFrom TLX Require Import Model.ConvNet.\n"
    for i, (spec, rws, _) in enumerate(coq_items):
        txt += f"Definition n{i} := {nets.layers_coq(spec)}.\nEval vm_compute in map (eval_net n{i}) [" + "; ".join(coqio.blist(r) for r in rws) + "].\n"
    rc, out, err = ck.coq_eval("c03m", txt)
    if rc != 0:
        ck.broke("correspondence", "kernel evaluation of Model/ConvNet.eval_net", err[-600:])
    else:
        for (spec, rws, exp), mv in zip(coq_items, coqio.parse_evals(out)):
            ck.count("model_vs_python_mirror")
            if [[int(b) for b in r] for r in mv] != exp:
                ck.broke("correspondence", "Model/ConvNet.eval_net vs reference mirror", "kernel evaluation differs from the Python mirror")
    # parameter-update protocols: eval (and a fresh compile) follow the CURRENT logits whatever mechanism changed them
    protocols.dense_protocol(ck, "raw", "")
    protocols.conv_protocol(ck, "raw", "")
    protocols.large_batch_rows(ck, train=False)
    protocols.dtype_variants(ck, train=False)
    protocols.empty_batch(ck, train=False)
    # a model converted with .double() / .bfloat16(): eval must still run and give the Boolean circuit of the float32 model
    # (the weights are exactly representable after widening; for bfloat16 the gates are re-read from the converted logits)
    import copy as _copy
    for kind in ("conv2d-raw", "conv3d-raw", "conv2d-walsh", "dense-raw"):
        for dt in (torch.float64, torch.bfloat16):
            torch.manual_seed(ck.seed + 21)
            if kind == "dense-raw":
                base = LogicDense(6, 8, device="cpu", weight_init="random")
                x = (torch.rand(16, 6) > 0.5).float()
            elif kind == "conv3d-raw":
                from torchlogix.layers import LogicConv3d
                base = LogicConv3d(in_dim=3, device="cpu", channels=1, num_kernels=2, tree_depth=1, receptive_field_size=2)
                with torch.no_grad():
                    for p_ in base.parameters():
                        p_.copy_(torch.randn_like(p_))
                x = (torch.rand(8, 1, 3, 3, 3) > 0.5).float()
            else:
                base = LogicConv2d(in_dim=(4, 4), device="cpu", channels=2, num_kernels=3, tree_depth=2, receptive_field_size=2,
                                   weight_init="random", parametrization="walsh" if kind.endswith("walsh") else "raw")
                x = (torch.rand(8, 2, 4, 4) > 0.5).float()
            conv = _copy.deepcopy(base).to(dt)
            ref = _copy.deepcopy(conv).float().eval()          # the converted logits, evaluated in float32
            case = {"kind": "converted-model", "layer": kind, "dtype": str(dt)}
            ck.case(case, nontrivial=True, kind="converted-model")
            conv.eval()
            try:
                with torch.no_grad():
                    got = conv(x.to(dt)).float()
                    want = ref(x)
            except Exception as e:
                ck.disagree("eval mode of a layer converted to another floating dtype raises (training mode runs)", case, observed=repr(e)[:200],
                            signature={"what": "converted-model", "kind": "error"})
                continue
            if not torch.equal(got, want):
                ck.disagree("eval mode of a converted layer is not the Boolean circuit of its logits", case,
                            signature={"what": "converted-model", "kind": "wrong"})
    # converted stacks whose layers hand each other their eval outputs: a Walsh layer in front of a raw one (the raw einsum needs its
    # operands in one dtype), a frozen thermometer in front of a raw convolution.  Eval must run and equal the float32 model
    from torchlogix.layers import LearnableThermometerThresholding as _LT3
    for front in ("walsh-conv", "walsh-dense", "frozen-thermometer", "raw-dense-to-conv"):
        for dt in (torch.float64, torch.bfloat16, torch.float16):
            torch.manual_seed(ck.seed + 25)
            if front == "walsh-conv":
                base = torch.nn.Sequential(
                    LogicConv2d(in_dim=(4, 4), device="cpu", channels=1, num_kernels=2, tree_depth=1, receptive_field_size=2, parametrization="walsh", weight_init="random"),
                    LogicConv2d(in_dim=(3, 3), device="cpu", channels=2, num_kernels=2, tree_depth=1, receptive_field_size=2, weight_init="random"))
                x = (torch.rand(8, 1, 4, 4) > 0.5).float()
            elif front == "walsh-dense":
                base = torch.nn.Sequential(LogicDense(6, 8, device="cpu", parametrization="walsh", weight_init="random"),
                                           LogicDense(8, 6, device="cpu", weight_init="random"))
                x = (torch.rand(8, 6) > 0.5).float()
            elif front == "raw-dense-to-conv":
                base = torch.nn.Sequential(LogicDense(6, 9, device="cpu", weight_init="random"), torch.nn.Unflatten(1, (1, 3, 3)),
                                           LogicConv2d(in_dim=(3, 3), device="cpu", channels=1, num_kernels=2, tree_depth=1, receptive_field_size=2, weight_init="random"))
                x = (torch.rand(8, 6) > 0.5).float()
            else:
                th = _LT3([0.25, 0.5, 0.75])
                th.freeze_thresholds()
                base = torch.nn.Sequential(th, LogicConv2d(in_dim=(4, 4), device="cpu", channels=3, num_kernels=2, tree_depth=1, receptive_field_size=2, weight_init="random"))
                x = torch.rand(8, 4, 4)
            conv = _copy.deepcopy(base).to(dt).eval()
            ref = _copy.deepcopy(conv).float().eval()
            case = {"kind": "converted-stack", "front": front, "dtype": str(dt)}
            ck.case(case, nontrivial=True, kind="converted-model")
            try:
                with torch.no_grad():
                    xin = x.to(dt)
                    got = conv(xin).float()
                    want = ref(xin.float())
            except Exception as e:
                ck.disagree("eval mode of a converted stack raises (the layers hand each other outputs of different dtypes)", case, observed=repr(e)[:200],
                            signature={"what": "converted-model", "kind": "error"})
                continue
            if not torch.equal(got, want):
                ck.disagree("eval mode of a converted stack is not the Boolean circuit of its logits", case, signature={"what": "converted-model", "kind": "wrong"})
    # a whole MODEL converted to 16-bit floats with wide class groups: the per-class count (up to 700 / 2500 active neurons) is not
    # representable in bfloat16 (8 bits) / float16 (11 bits), so the count must not be accumulated in the model's dtype - the eval
    # output is still exactly count / tau
    from torchlogix.layers import GroupSum as _GS3
    for front, dt, per_class, tau in (("dense-raw", torch.bfloat16, 700, 1.0), ("dense-raw", torch.float16, 2500, 2.0), ("dense-raw", torch.bfloat16, 300, 4.0),
                                      ("dense-walsh", torch.bfloat16, 700, 1.0), ("conv2d-raw", torch.bfloat16, 484, 1.0),
                                      ("conv2d-raw", torch.float16, 2904, 1.0), ("conv2d-walsh", torch.bfloat16, 484, 2.0)):
        torch.manual_seed(ck.seed + 23)
        par = front.split("-")[1]
        if front.startswith("dense"):
            first = [LogicDense(8, 2 * per_class, device="cpu", weight_init="random", parametrization=par)]
            x = (torch.rand(32, 8) > 0.5).float()
        else:
            kernels = 2 * per_class // 121
            first = [LogicConv2d(in_dim=(12, 12), device="cpu", channels=1, num_kernels=kernels, tree_depth=1, receptive_field_size=2,
                                 weight_init="random", parametrization=par), torch.nn.Flatten()]
            x = (torch.rand(16, 1, 12, 12) > 0.3).float()
        with torch.no_grad():
            for p_ in first[0].parameters():
                if par == "raw":
                    p_[:, 15] += 3.0          # mostly-true gates so that the counts are large
                    p_[:, 7] += 2.5
                else:
                    p_[:, 0] += 1.0
        m16 = torch.nn.Sequential(*_copy.deepcopy(first), _GS3(2, tau, device="cpu")).to(dt).eval()
        m32 = _copy.deepcopy(m16).float().eval()
        case = {"kind": "converted-model", "layer": front + " + GroupSum", "dtype": str(dt), "neurons_per_class": per_class, "tau": tau}
        ck.case(case, nontrivial=True, kind="converted-model")
        try:
            with torch.no_grad():
                got = m16(x.to(dt)).double()
                want = m32(x).double()
        except Exception as e:
            ck.disagree("eval mode of a model converted to another floating dtype raises", case, observed=repr(e)[:200],
                        signature={"what": "converted-model", "kind": "error"})
            continue
        if not torch.equal(got, want):
            j = int((got != want).any(1).nonzero()[0])
            ck.disagree("eval output of a converted model is not the per-class count divided by tau (count accumulated in 16 bits)",
                        dict(case, differing_scores=int((got != want).sum())), expected=want[j].tolist(), observed=got[j].tolist(),
                        signature={"what": "converted-model", "kind": "count"})
    return ck.finish()


def replay(ck, path):
    return run(ck)
