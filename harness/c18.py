"""C18 — thermometer thresholding yields a valid, ordered thermometer code."""
import math

import numpy as np
import torch

from harness import coqio
from harness.common import Check
from translate import thermo as t_thermo

THEOREMS = ["C18_source_matches", "C18_increasing", "C18_fresh", "C18_hard_code_monotone", "C18_soft_code_monotone", "C18_soft_range",
            "C18_soft_rounds", "C18_soft_is_tanh_form", "C18_freeze_thresholds", "C18_freeze_ordered", "C18_freeze_close",
            "C18_freeze_hard", "C18_freeze_idempotent"]
TRUSTED = [
    "Coq 8.16.1 kernel/coqc; theorems over R depend on the standard-library Reals axioms and Classical_Prop.classic (also through Flocq's ZnearestE)",
    "translator translate/thermo.py (statement equality of thresholding.py with the modelled code)",
    "torch.nn.functional.softplus(beta=1, threshold=20) and torch.round (half to even) are modelled from their documentation; the model "
    "is tied by float64 mirrors, `interval` lemmas and exact comparison of hard codes",
    "the theorems are over R: binary32 resolution (underflow / absorption of tiny increments) is outside the model and is the recorded finding F13b",
]


def softplus64(x):
    return x if x > 20 else math.log1p(math.exp(x))


def run(ck: Check):
    from torchlogix.layers import LearnableThermometerThresholding as T
    ck.trusted = TRUSTED
    ck.rule = ("raw parameter vectors: normal(0, 1.5) clipped to |raw| < 8 (ordinary stream) and an adversarial stream (large positive up to 60, "
               "negative down to -120, mixed); initial thresholds small, large (> 20), closely spaced; inputs of rank 3 and single-channel rank 4, "
               "random and at distance >= 1e-3 from thresholds; freeze applied 0..3 times. Compared: thresholds vs the model (float64 mirror, "
               "interval lemmas), ordering, code monotonicity, soft range and rounding, shapes, frozen thresholds = round-half-even, idempotence. "
               "Non-trivial: more than two thresholds. Distinct = canonical JSON of the parameters.")
    ck.translate("ThermoSrc", t_thermo.gen_thermo)
    ck.prove("Props/C18", THEOREMS)
    rng = ck.rng
    goals = []
    n = 12 if ck.tier == "quick" else 120

    def check_layer(layer, case, frozen_times=0):
        thr = layer.get_thresholds().detach()
        t64 = thr.double().tolist()
        for i in range(len(t64) - 1):
            if not (t64[i] <= t64[i + 1]):
                ck.disagree("thresholds are not ordered", dict(case, thresholds=t64), signature={"what": "order"})
                return None
        x3 = torch.rand(2, 3, 4) * (max(t64) + 2) - 1
        x4 = x3.unsqueeze(1)
        for xx in (x3, x4):
            with torch.no_grad():
                y = layer(xx)
            if list(y.shape) != [2, len(t64), 3, 4]:
                ck.disagree("output shape is not (B, T, H, W)", dict(case, shape=list(y.shape), input_rank=xx.ndim), signature={"what": "shape"})
                return None
            if float(y.min()) < 0 or float(y.max()) > 1:
                ck.disagree("code value outside [0,1]", case, signature={"what": "range"})
            d = y[:, 1:] - y[:, :-1]
            if d.numel() and float(d.max()) > 1e-6:
                ck.disagree("code is not non-increasing along the threshold axis (bit t set without all lower bits)", dict(case, thresholds=t64),
                            signature={"what": "code-monotone", "frozen": frozen_times > 0})
            xe = xx if xx.ndim == 4 else xx.unsqueeze(1)
            hard = (xe > thr.view(1, -1, 1, 1)).float()
            far = (xe - thr.view(1, -1, 1, 1)).abs() >= 1e-3
            if frozen_times > 0:
                if not torch.equal(y, hard):
                    ck.disagree("frozen layer output is not exactly the hard code x > threshold", case, signature={"what": "frozen-hard"})
            else:
                if not torch.equal((y > 0.5).float()[far], hard[far]):
                    ck.disagree("soft code does not round to the hard code away from the thresholds", case, signature={"what": "soft-rounds"})
        return t64

    # ---- ordinary and adversarial raw vectors
    for t in range(n):
        T_ = rng.randrange(2, 7)
        adversarial = t % 3 == 2
        if adversarial:
            raw = [rng.choice([rng.uniform(20, 60), rng.uniform(-30, -9), rng.gauss(0, 2)]) for _ in range(T_)]
        else:
            raw = [max(-8.0, min(8.0, rng.gauss(0, 1.5))) for _ in range(T_)]
        layer = T([1.0 + i for i in range(T_)])
        with torch.no_grad():
            layer.raw_diffs.copy_(torch.tensor(raw))
        case = {"raw_diffs": raw, "adversarial": adversarial}
        ck.case(case, nontrivial=T_ > 2, kind="adversarial" if adversarial else "ordinary")
        t64 = check_layer(layer, case)
        if t64 is None:
            continue
        # model: cumsum(softplus(raw)) in float64
        acc, ref = 0.0, []
        r32 = [float(np.float32(v)) for v in raw]
        for v in r32:
            acc += softplus64(v)
            ref.append(acc)
        for i, (a, b) in enumerate(zip(t64, ref)):
            if abs(a - b) > 1e-5 * max(1.0, abs(b)):
                ck.disagree("learnable thresholds differ from cumsum(softplus(raw))", dict(case, index=i), expected=b, observed=a,
                            signature={"what": "threshold-formula"})
                break
        if len(goals) < (6 if ck.tier == "quick" else 30) and not adversarial:
            expr = ("nth " + str(T_ - 1) + " (thresholds {| raw_diffs := [" + "; ".join(coqio.rlit(v) for v in r32) +
                    "]; frozen := false; slope := 10 |}) 0")
            goals.append((f"thr{t}", expr, t64[-1], 1e-4, case))
        # strictness (with float-resolution triage)
        acc = 0.0
        for i in range(T_):
            inc = softplus64(r32[i])
            if i > 0 and not (t64[i - 1] < t64[i]):
                ulp = float(np.spacing(np.float32(acc)))
                ck.disagree("two consecutive learnable thresholds are equal (not strictly increasing)",
                            dict(case, index=i, increment=inc, running_sum=acc, ulp=ulp),
                            signature={"what": "strict-increase", "float_resolution": bool(inc < ulp)})
                break
            acc += inc
        # freezing 1..3 times
        before = layer.get_thresholds().detach().clone()
        exp_frozen = torch.round(before)
        prev = None
        for k in range(1, 4):
            layer.freeze_thresholds()
            fr = layer.get_thresholds().detach()
            if not torch.equal(fr, exp_frozen):
                ck.disagree("frozen thresholds are not round(trained thresholds) / freezing is not idempotent",
                            dict(case, freeze_calls=k, frozen=fr.tolist(), expected=exp_frozen.tolist()),
                            signature={"what": "freeze-idempotent" if k > 1 else "freeze-round"})
                break
            if not (float((fr - before).abs().max()) <= 0.5 + 1e-6):
                ck.disagree("frozen thresholds are further than 1/2 from the trained ones", dict(case, freeze_calls=k), signature={"what": "freeze-close"})
            check_layer(layer, dict(case, freeze_calls=k), frozen_times=k)
    # ---- the recorded finding is replayed explicitly
    layer = T([1.0, 2.0, 3.0])
    with torch.no_grad():
        layer.raw_diffs.copy_(torch.tensor([1.0, -120.0, 1.0]))
    thr = layer.get_thresholds().tolist()
    ck.case({"raw_diffs": [1.0, -120.0, 1.0], "finding": "F13b"}, kind="known-finding-replay")
    if not (thr[0] < thr[1]):
        ck.disagree("two consecutive learnable thresholds are equal (not strictly increasing)", {"raw_diffs": [1.0, -120.0, 1.0], "thresholds": thr},
                    signature={"what": "strict-increase", "float_resolution": True})
    # F13c: thresholds above 2^24 - the float32 cumulative sum of the stored increments does not reproduce representable
    # thresholds, and freezing twice moves such a threshold (classified by cause: every threshold involved is above 2^24 and the
    # error is below one ulp of it; anything else is reported as an ordinary violation)
    for init in ([1.0, 16777218.0, 16777220.0], [30.0, 59880724.0, 249062112.0, 536558784.0]):
        big = T(init)
        got = big.get_thresholds().tolist()
        ck.case({"init": init, "finding": "F13c"}, kind="known-finding-replay")
        bad = [(a, b) for a, b in zip(init, got) if a != b]
        big.freeze_thresholds()
        f1 = big.get_thresholds().tolist()
        big.freeze_thresholds()
        f2 = big.get_thresholds().tolist()
        bad += [(a, b) for a, b in zip(f1, f2) if a != b]
        if bad:
            res = all(abs(a) > 2 ** 24 and abs(a - b) <= 2 * float(np.spacing(np.float32(abs(a)))) for a, b in bad)
            ck.disagree("thresholds above 2^24: a fresh layer does not report its initial thresholds / a second freeze moves a threshold",
                        {"init": init, "fresh": got, "frozen_once": f1, "frozen_twice": f2},
                        signature={"what": "large-threshold-roundtrip", "float_resolution": bool(res)})
    # thresholds beyond the 32-bit integer range (raw counts of a 32-bit sensor), chosen exactly representable so that float resolution
    # plays no part: freezing keeps them (rounding an integer-valued float is the identity), ordered, and the frozen code is x > t
    for init in ([1e9, 3e9, 5e9], [2147483648.0, 4294967296.0, 8589934592.0], [1000.0, 2147483648.0 * 4, 2147483648.0 * 16]):
        ck.case({"init": init, "kind": "beyond-int32"}, nontrivial=True, kind="freeze-large")
        big = T(init)
        fresh = big.get_thresholds().tolist()
        big.freeze_thresholds()
        fr = big.get_thresholds().tolist()
        xs_ = torch.tensor([[[v - 1.0, v * 1.5]] for v in init]).reshape(1, 1, len(init), 2)
        with torch.no_grad():
            code = big(xs_.reshape(1, len(init), 2))
        want = (xs_.reshape(1, 1, len(init), 2) > torch.tensor(fresh).view(1, -1, 1, 1)).float()
        if fresh != init or fr != init or not all(a < b for a, b in zip(fr, fr[1:])) or not torch.equal(code, want):
            ck.disagree("freezing thresholds beyond the 32-bit integer range moves them (frozen thresholds not round(trained), not ordered, "
                        "or the frozen code is not x > threshold)", {"init": init, "fresh": fresh, "frozen": fr},
                        signature={"what": "freeze-round", "range": "beyond-int32"})
    # integer-valued thresholds between 2^23 and 2^24 (the last binade in which binary32 still holds every integer, none of the halves):
    # rounding is the identity there, whereas "floor(t + 0.5)" rounds t + 0.5 itself to the even neighbour and moves every odd threshold
    # up by one - onto the next threshold; likewise the largest float below k + 1/2 must round down to k
    for init in ([8388607.0, 8388609.0, 8388610.0], [8388611.0, 12582913.0, 16777213.0, 16777215.0], [0.49999997, 2.5, 7.4999995]):
        ck.case({"init": init, "kind": "last-integer-binade"}, nontrivial=True, kind="freeze-large")
        lay_b = T(init)
        fresh = lay_b.get_thresholds().double().tolist()
        lay_b.freeze_thresholds()
        fr = lay_b.get_thresholds().double().tolist()
        want_fr = [float(np.round(v)) for v in fresh]                       # round half to even of the (float32) trained threshold
        if fr != want_fr or any(abs(a - b) > 0.5 for a, b in zip(fr, fresh)):
            ck.disagree("frozen thresholds are not the rounded trained ones (an integer-valued threshold moved / a threshold just below a half went up)",
                        {"init": init, "trained": fresh, "frozen": fr, "expected": want_fr},
                        signature={"what": "freeze-round", "range": "last-integer-binade"})
    # a layer that becomes frozen by LOADING a frozen state: an optimizer built before the load (momentum / weight decay, zero_grad that keeps
    # the gradient tensors) must not move the thresholds afterwards - the sibling of the freeze-then-step protocol
    for opt_name in ("adam", "sgd-momentum-decay"):
        torch.manual_seed(ck.seed + 71)
        src = T([1.0, 2.0, 4.0])
        src.freeze_thresholds()
        dst = T([1.0, 2.0, 4.0])
        opt = (torch.optim.Adam(dst.parameters(), lr=0.05) if opt_name == "adam" else
               torch.optim.SGD(dst.parameters(), lr=0.05, momentum=0.9, weight_decay=0.01))
        for _ in range(3):
            opt.zero_grad(set_to_none=False)
            dst(torch.rand(2, 3, 3) * 5).sum().backward()
            opt.step()
        dst.load_state_dict(src.state_dict())
        before = dst.get_thresholds().detach().clone()
        for _ in range(20):
            opt.zero_grad(set_to_none=False)
            opt.step()
        after = dst.get_thresholds().detach()
        case = {"kind": "frozen-by-load-then-optimizer", "optimizer": opt_name}
        ck.case(case, nontrivial=True, kind="freeze-protocol")
        if not torch.equal(before, after) or not torch.equal(before, torch.tensor([1.0, 2.0, 4.0])):
            ck.disagree("thresholds frozen by loading a frozen state are moved by an optimizer that was built before the load",
                        dict(case, loaded=before.tolist(), after_20_steps=after.tolist()), signature={"what": "freeze-optimizer", "via": "load_state_dict"})
    # ---- fresh layer = initial thresholds
    inits = [[1.0, 2.0, 3.0], [0.001, 0.002, 0.5], [0.25], [5.0, 30.0, 90.0, 200.0], [10.0, 20.5, 21.0, 21.25, 22.0],
             [64.0, 64.5, 65.0, 128.0, 128.25], [19.5, 40.0, 40.0625, 61.0], [0.5, 25.0, 25.5, 26.0]]
    for _ in range(n // 2):
        k = rng.randrange(2, 7)
        base = rng.choice([0.01, 1.0, 30.0, 100.0])
        ts, acc = [], base
        for i in range(k):
            ts.append(round(acc, 4))
            acc += rng.choice([0.0625, 0.5, 3.0, 25.0])
        inits.append(ts)
    for ts in inits:
        layer = T(ts)
        got = layer.get_thresholds().tolist()
        ck.case({"init_thresholds": ts}, nontrivial=len(ts) > 2, kind="fresh")
        for a, b in zip(got, ts):
            if abs(a - b) > 2e-5 * max(1.0, abs(b)):
                ck.disagree("a fresh layer's thresholds differ from the initial thresholds it was given", {"init_thresholds": ts},
                            expected=ts, observed=got, signature={"what": "fresh"})
                break
        check_layer(layer, {"init_thresholds": ts})
        layer.freeze_thresholds()
        f1 = layer.get_thresholds().tolist()
        layer.freeze_thresholds()
        f2 = layer.get_thresholds().tolist()
        if f1 != f2:
            ck.disagree("freezing twice changes the thresholds (not idempotent)", {"init_thresholds": ts, "first": f1, "second": f2},
                        signature={"what": "freeze-idempotent"})
    for bad in ([1.0, 1.0], [2.0, 1.0], [-1.0, 2.0], [0.0, 1.0]):
        ck.case({"init_thresholds": bad, "invalid": True}, kind="fresh-invalid")
        try:
            lay = T(bad)
            th = lay.get_thresholds().tolist()
            if any(not math.isfinite(v) for v in th) or any(abs(a - b) > 1e-4 for a, b in zip(th, bad)):
                ck.disagree("non-increasing / non-positive initial thresholds accepted and silently changed", {"init_thresholds": bad},
                            observed=th, signature={"what": "fresh-invalid"})
        except ValueError:
            pass
    failed = coqio.interval_goals(ck, "c18itv", [(g[0], g[1], g[2], g[3]) for g in goals],
                                  extra_imports="From TLX Require Import Model.Thermo.\n",
                                  extra_unfold="thresholds raw_diffs frozen cumsum cumsum_from softplus",
                                  pre_tac="repeat (match goal with |- context [Rlt_dec ?a ?b] => destruct (Rlt_dec a b) as [Hlt|Hlt]; [exfalso; lra|clear Hlt] end)")
    ck.count("interval_lemmas", len(goals))
    for lab in failed:
        g = next(x for x in goals if x[0] == lab)
        ck.disagree("largest learnable threshold is not within 1e-4 of the Coq model (interval lemma fails)", g[4], observed=g[2],
                    signature={"what": "threshold-formula"})
    # order of operations on one object and independence of objects: (i) a frozen layer whose parameters are then replaced
    # (load_state_dict of another frozen layer, in-place write) codes with its CURRENT thresholds; (ii) two layers built from the
    # same initial thresholds do not share their parameter: training / freezing the first leaves a later-built one at its initial thresholds
    from torchlogix.layers import LearnableThermometerThresholding as LTT0
    for init in ([1.0, 2.0, 3.0], [32.0, 64.0, 96.0, 128.0], [0.5, 0.75, 2.5]):
        a = LTT0(init_thresholds=init)
        with torch.no_grad():
            a.raw_diffs.add_(0.37)                      # "training" the first layer in place
        a.freeze_thresholds()
        b = LTT0(init_thresholds=init)                   # built afterwards from the same list
        tb = b.get_thresholds().detach().double().tolist()
        ck.case({"kind": "sibling", "init": init}, kind="protocol")
        if max(abs(x - y) for x, y in zip(tb, init)) > 1e-4:
            ck.disagree("a layer built from the same initial thresholds as an already trained / frozen layer does not start at its initial thresholds",
                        {"init": init, "observed": tb}, signature={"what": "shared-parameter"})
        xin = torch.tensor([[init[0] - 0.1, init[0] + 0.1, init[-1] + 1.0, init[1] + 0.01]]).reshape(1, 2, 2)
        c = LTT0(init_thresholds=init)
        c.freeze_thresholds()
        with torch.no_grad():
            c(xin)
        other = LTT0(init_thresholds=[v + 5.0 for v in init])
        other.freeze_thresholds()
        c.load_state_dict(other.state_dict())
        cur = c.get_thresholds().detach()
        with torch.no_grad():
            y = c(xin + 5.0)
        want = (xin.unsqueeze(1) + 5.0 > cur.view(1, -1, 1, 1)).float()
        ck.case({"kind": "frozen-then-loaded", "init": init}, kind="protocol")
        if not torch.equal(y, want):
            ck.disagree("a frozen layer whose parameters were replaced afterwards does not code with its current thresholds",
                        {"init": init, "current_thresholds": cur.tolist()}, signature={"what": "stale-frozen-thresholds"})
        ck.count("protocol_checks", 2)
    # (iii) persistence: a frozen layer saved and loaded into a freshly built one reads the same thresholds and gives the same hard
    # code (the frozen flag decides how the stored increments are read); (iv) an optimizer built before the freeze does not move the
    # frozen thresholds (stale gradient + momentum / weight decay); (v) arguments for which no ordered code exists are refused or
    # still give a valid code: slope <= 0 or NaN, NaN / infinite initial thresholds
    import io
    for init in ([1.0, 2.0, 3.0], [0.4, 0.9, 2.6, 7.2], [32.0, 64.0, 96.0]):
        xin = torch.tensor([init[0] - 0.3, init[0] + 0.3, init[1] + 0.2, init[-1] + 1.0, init[-1] - 0.2, 0.0]).reshape(1, 2, 3)
        a = LTT0(init_thresholds=init)
        with torch.no_grad():
            a.raw_diffs.add_(0.21)
        a.freeze_thresholds()
        ta = a.get_thresholds().detach().clone()
        with torch.no_grad():
            ya = a(xin)
        for how in ("state_dict", "torch.save"):
            b = LTT0(init_thresholds=[v + 0.125 for v in init])
            sd = a.state_dict()
            if how == "torch.save":
                buf = io.BytesIO()
                torch.save(sd, buf)
                buf.seek(0)
                sd = torch.load(buf, weights_only=False)
            ck.case({"kind": "frozen-roundtrip", "init": init, "how": how}, nontrivial=True, kind="protocol")
            try:
                b.load_state_dict(sd)
                tb = b.get_thresholds().detach()
                with torch.no_grad():
                    yb = b(xin)
            except Exception as e:
                ck.disagree("the state of a frozen thermometer layer cannot be loaded into a fresh layer", {"init": init, "how": how},
                            observed=repr(e)[:200], signature={"what": "frozen-roundtrip"})
                continue
            if not torch.equal(tb, ta) or not torch.equal(ya, yb):
                ck.disagree("a frozen thermometer layer saved and loaded into a fresh layer reads other thresholds / gives another code",
                            {"init": init, "how": how, "saved_thresholds": ta.tolist(), "loaded_thresholds": tb.tolist()},
                            signature={"what": "frozen-roundtrip"})
        for opt_name in ("adam", "sgd-momentum", "sgd-weight-decay"):
            lay = LTT0(init_thresholds=init)
            other = torch.nn.Parameter(torch.zeros(1))
            params = list(lay.parameters()) + [other]
            opt = {"adam": lambda: torch.optim.Adam(params, lr=0.05),
                   "sgd-momentum": lambda: torch.optim.SGD(params, lr=0.05, momentum=0.9),
                   "sgd-weight-decay": lambda: torch.optim.SGD(params, lr=0.05, weight_decay=0.1)}[opt_name]()
            for _ in range(3):
                opt.zero_grad(set_to_none=False)
                (lay(xin).sum() + other.sum()).backward()
                opt.step()
            lay.freeze_thresholds()
            tf = lay.get_thresholds().detach().clone()
            for _ in range(3):
                opt.zero_grad(set_to_none=False)
                (lay(xin).sum() * 0 + (other * 2).sum()).backward()
                opt.step()
            ck.case({"kind": "optimizer-after-freeze", "init": init, "optimizer": opt_name}, nontrivial=True, kind="protocol")
            tn = lay.get_thresholds().detach()
            if not torch.equal(tf, tn):
                ck.disagree("an optimizer built before the freeze moved the frozen thresholds", {"init": init, "optimizer": opt_name,
                            "frozen": tf.tolist(), "after_steps": tn.tolist()}, signature={"what": "frozen-moved"})
            else:
                check_layer(lay, {"kind": "optimizer-after-freeze", "init": init, "optimizer": opt_name}, frozen_times=1)
    for bad_kw, what in (({"slope": 0.0}, "slope"), ({"slope": -5.0}, "slope"), ({"slope": float("nan")}, "slope"), ({"slope": float("inf")}, "slope"), ({"slope": 1e39}, "slope"),
                         ({"init_thresholds": [1.0, float("nan"), 3.0]}, "thresholds"), ({"init_thresholds": [1.0, 2.0, float("inf")]}, "thresholds"),
                         ({"init_thresholds": [float("nan")]}, "thresholds")):
        kw = dict({"init_thresholds": [1.0, 2.0, 3.0]}, **bad_kw)
        case = {"kind": "domain", "what": what, "args": repr(bad_kw)}
        ck.case(case, nontrivial=True, kind="domain")
        try:
            lay = LTT0(**kw)
        except Exception:
            ck.count("domain_rejected")
            continue
        with torch.no_grad():
            ths = lay.get_thresholds()
            y = lay(torch.tensor([0.5, 1.5, 2.5, 3.5, 1.0, 2.0]).reshape(1, 2, 3))
        ordered = bool(torch.isfinite(ths).all()) and bool((ths[1:] > ths[:-1]).all())
        off = y[..., :4]                                     # the four inputs away from the thresholds
        mono = bool(torch.isfinite(y).all()) and bool((y[:, :-1] >= y[:, 1:]).all()) and bool(((off - 0.5).abs() > 1e-3).all())
        if not (ordered and mono):
            ck.disagree("a thermometer layer was built from arguments for which no valid ordered code exists, and returns numbers",
                        dict(case, thresholds=repr(ths.tolist()), code=repr(y.flatten().tolist()[:8])),
                        signature={"what": "domain-" + what})
    # integer-valued images stored in integer / half / double dtypes give the code of the float32 image (soft and frozen)
    from torchlogix.layers import LearnableThermometerThresholding as LTT
    torch.manual_seed(ck.seed + 3)
    for rank in (3, 4):
        t = LTT(init_thresholds=[10.0, 50.0, 120.0, 200.0])
        x = torch.randint(0, 256, (2, 4, 4) if rank == 3 else (2, 1, 4, 4))
        x.reshape(-1)[:4] = torch.tensor([10, 50, 120, 200])       # exactly on the thresholds
        for frozen in (False, True):
            if frozen:
                t.freeze_thresholds()
            with torch.no_grad():
                ref = t(x.float())
            for dt in (torch.uint8, torch.int16, torch.int32, torch.int64, torch.float64, torch.float16):
                ck.case({"kind": "dtype", "rank": rank, "frozen": frozen, "dtype": str(dt)}, kind="dtype-variant")
                try:
                    with torch.no_grad():
                        y = t(x.to(dt))
                except Exception:
                    ck.count("dtype_variant_rejected")
                    continue
                if tuple(y.shape) != tuple(ref.shape) or not (float((y.double() - ref.double()).abs().max()) <= 1e-3):
                    ck.disagree("thermometer code of an integer-valued image depends on the dtype it is stored in",
                                {"rank": rank, "frozen": frozen, "dtype": str(dt)}, signature={"what": "dtype"})
                ck.count("dtype_variant_checks")
    return ck.finish()


def replay(ck, path):
    return run(ck)
