"""C15 — persisted artefacts reproduce the function they were saved from."""
import os

import numpy as np

from harness import subproc
from harness.common import Check
from translate import libio as t_libio, persist as t_persist

THEOREMS = ["C15_state_roundtrip", "C15_wiring_persisted", "C15_needs_wiring", "C15_lib_roundtrip", "C15_load_configuration"]
TRUSTED = [
    "Coq 8.16.1 kernel/coqc; theorems closed under the global context",
    "translators translate/persist.py (introspection of live layers: a state_dict round trip into a layer rebuilt under another RNG state "
    "restores indices / kernel_pairs for every class and connection scheme) and translate/libio.py",
    "partial: torch.save / torch.load serialisation, the dynamic loader and the file system are outside the model; the two-process histories "
    "below exercise them",
]


def run(ck: Check):
    ck.trusted = TRUSTED
    ck.rule = ("two-process histories: process A (seed s1) builds a model (dense random / dense unique / conv2d random-unique+dense / conv2d "
               "random Walsh / conv3d / dense with 40000 inputs), saves state_dict and a compiled library (num_bits in {8,16,32,64}); process B (seed s2, RNG advanced by "
               "a random amount) rebuilds the layers with the same constructor arguments, loads the state (once into a fresh model, once into a model that was already run in training and eval mode, with no "
               "mode switch afterwards) and the library and evaluates a 100-row probe batch (longer than a word); outputs must be identical to A's. Non-trivial: seed s2 != s1. "
               "Distinct = canonical JSON of (kind, model id, seeds, num_bits).")
    ck.translate("Persist", t_persist.gen_persist)
    ck.translate("LibIO", t_libio.gen_libio)
    ck.prove("Props/C15", THEOREMS)
    rng = ck.rng
    kinds = ["dense", "dense-unique", "conv2d", "conv2d-random", "conv3d", "dense-wide", "dense-nogs"]
    reps = 1 if ck.tier == "quick" else 4
    plan = []
    for rep in range(reps):
        for ki, kind in enumerate(kinds):
            W = [8, 16, 32, 64][(ki + rep) % 4]
            mid = 10 * rep + ki
            plan.append(dict(kind=kind, model=mid, W=W, seed=rng.randrange(1, 10 ** 6), seed2=rng.randrange(10 ** 6, 2 * 10 ** 6),
                             advance=rng.randrange(1, 500),
                             state_path=os.path.join(ck.scratch, f"m{mid}.pt"), lib_path=os.path.join(ck.scratch, f"m{mid}.so")))
    a_res = subproc.run_jobs(ck.scratch, [dict(p, kind_of_job="save") for p in plan], workers=6)
    b_jobs, idx = [], []
    for i, (p, r) in enumerate(zip(plan, a_res)):
        case = {k: p[k] for k in ("kind", "model", "W", "seed", "seed2", "advance")}
        ck.case(case, nontrivial=True, kind=p["kind"])
        if not r["done"] or not r["steps"]:
            ck.disagree("saving process died / failed", dict(case, stderr=r["stderr"][-300:]), signature={"what": "save-failed", "kind": p["kind"]})
            continue
        a = r["steps"][0]
        tau = a["tau"] or 1.0
        if [[round(v * tau) for v in row] for row in a["eval"]] != a["compiled"]:
            ck.disagree("compiled library differs from the model already in the saving process", case, signature={"what": "compile", "kind": p["kind"]})
        for warm in (False, True):
            job = dict(p, kind_of_job="reload", input_shape=a["input_shape"], k=a["k"], warm=warm, n_out=a.get("n_out"))
            if warm:
                # the reloading process first loads and calls ANOTHER saved library (the previous successfully saved one)
                prev = next((j for j in range(i - 1, -1, -1) if a_res[j]["done"] and a_res[j]["steps"]), None)
                if prev is not None:
                    pa = a_res[prev]["steps"][0]
                    job["preload"] = dict(lib_path=plan[prev]["lib_path"], input_shape=pa["input_shape"], k=pa["k"], W=plan[prev]["W"],
                                          n_out=None if pa["k"] else pa.get("n_out"))
            b_jobs.append(job)
            idx.append((i, warm))
    b_res = subproc.run_jobs(ck.scratch, b_jobs, workers=6)
    for (i, warm), r in zip(idx, b_res):
        p, a = plan[i], a_res[i]["steps"][0]
        case = {k: p[k] for k in ("kind", "model", "W", "seed", "seed2", "advance")}
        case["rebuilt_model_used_before_loading"] = warm
        if not r["done"] or not r["steps"]:
            ck.disagree("reloading process died / failed", dict(case, stderr=r["stderr"][-300:]), signature={"what": "reload-failed", "kind": p["kind"]})
            continue
        b = r["steps"][0]
        ck.count("probe_rows_compared", 200)
        if b["eval"] != a["eval"]:
            n = sum(1 for x, y in zip(a["eval"], b["eval"]) if x != y)
            ck.disagree("model rebuilt with the same constructor arguments and loaded from the saved state computes a different eval function",
                        dict(case, differing_rows=n), signature={"what": "state-roundtrip", "kind": p["kind"]})
        if b["compiled"] != a["compiled"]:
            n = sum(1 for x, y in zip(a["compiled"], b["compiled"]) if x != y)
            ck.disagree("library loaded in another process computes something else than the compiling instance",
                        dict(case, differing_rows=n), signature={"what": "lib-roundtrip", "W": p["W"]})
    return ck.finish()


def replay(ck, path):
    return run(ck)
