"""C15 — persisted artefacts reproduce the function they were saved from."""
import os

import numpy as np

import json

from harness import coqio, subproc
from harness.common import Check
from translate import libio as t_libio, persist as t_persist

THEOREMS = ["C15_state_roundtrip", "C15_wiring_persisted", "C15_needs_wiring", "C15_lib_roundtrip", "C15_load_configuration",
            "C15_persist_source", "C15_dense_roundtrip", "C15_dense_roundtrip_eval", "C15_dense_load_sound", "C15_dense_load_installs",
            "C15_dense_load_rejects", "C15_conv_roundtrip", "C15_conv_load_sound", "C15_conv_rejects_geometry", "C15_conv_rejects_pairs",
            "C15_thermo_roundtrip", "C15_thermo_needs_flag"]
TRUSTED = [
    "Coq 8.16.1 kernel/coqc; theorems closed under the global context",
    "translators translate/persist.py (introspection of live layers: a state_dict round trip into a layer rebuilt under another RNG state "
    "restores indices / kernel_pairs for every class and connection scheme), translate/persist.py:gen_persist_src (get/set_extra_state, "
    "_load_from_state_dict, _geometry of the layers equal, statement by statement, the code modelled by dense_load / conv_load / thermo_load) and translate/libio.py",
    "torch.nn.Module.load_state_dict itself (a parameter is copied only when the shapes agree, `_extra_state` is handed to set_extra_state) is "
    "modelled from its documentation and exercised: the decision and the result of dense_load / conv_load evaluated in the kernel are compared with "
    "load_state_dict on real, foreign, old-format and tampered checkpoints",
    "partial: torch.save / torch.load serialisation, the dynamic loader and the file system are outside the model; the two-process histories "
    "below exercise them",
]


# ---------------------------------------------------------------------------------------------------------------------
def _zl(xs):
    return "[" + "; ".join(f"({int(v)})" for v in xs) + "]%Z"


def _nl(xs):
    return "[" + "; ".join(str(int(v)) for v in xs) + "]%nat"


def _tens(t):
    return f"{{| shp := {_nl(t.shape)}; dat := {_zl(t.reshape(-1).tolist())} |}}"


def _geom(g):
    rf = g["receptive_field_size"]
    rfc = f"inr {_nl(rf)}" if isinstance(rf, (tuple, list)) else f"inl {int(rf)}%nat"
    return (f"{{| g_in := {_nl(g['in_dim'])}; g_channels := {g['channels']}; g_kernels := {g['num_kernels']}; g_depth := {g['tree_depth']}; "
            f"g_stride := {g['stride']}; g_padding := {g['padding']}; g_rf := {rfc} |}}")


def _conv_gates(sd_or_layer):
    """gate ids per level / node / kernel from the tree weights (raw: argmax of 16 logits; only the nesting matters for loading)."""
    import torch
    if isinstance(sd_or_layer, dict):
        keys = sorted((k for k in sd_or_layer if k.startswith("tree_weights.")), key=lambda k: tuple(int(x) for x in k.split(".")[1:3]))
        levels = {}
        for k in keys:
            lv = int(k.split(".")[1])
            levels.setdefault(lv, []).append(sd_or_layer[k].argmax(-1).tolist())
        return [levels[lv] for lv in sorted(levels)]
    return [[w.argmax(-1).tolist() for w in level] for level in sd_or_layer.tree_weights]


def _gates_coq(g):
    return "[" + "; ".join("[" + "; ".join(_nl(k) for k in lv) + "]" for lv in g) + "]"


def _clayer(l):
    return (f"{{| c_geom := {_geom(l._geometry())}; c_gates := {_gates_coq(_conv_gates(l))}; c_pairs := [" + "; ".join(_tens(p) for p in l.kernel_pairs)
            + "]; c_indices := [" + "; ".join("[" + "; ".join(_tens(i) for i in lv) + "]" for lv in l.indices) + "] |}")


def _csaved(sd):
    ex = sd.get("_extra_state")
    if ex is None:
        extra = "None"
    else:
        g = f"(Some {_geom(ex['geometry'])})" if "geometry" in ex else "None"
        extra = (f"(Some ({g}, [" + "; ".join(_tens(p) for p in ex["kernel_pairs"]) + "], ["
                 + "; ".join("[" + "; ".join(_tens(i) for i in lv) + "]" for lv in ex.get("indices", [])) + "]))")
    return f"{{| cs_gates := {_gates_coq(_conv_gates(sd))}; cs_extra := {extra} |}}"


def _dlayer(l):
    return (f"{{| dl_in := {l.in_dim}; dl_out := {l.out_dim}; dl_gates := {_nl(l.weight.argmax(-1).tolist())}; "
            f"dl_a := {_zl(l.indices[0].tolist())}; dl_b := {_zl(l.indices[1].tolist())} |}}")


def _dsaved(sd):
    ex = sd.get("_extra_state")
    extra = "None" if ex is None else "(Some [" + "; ".join(_zl(i.reshape(-1).tolist()) for i in ex["indices"]) + "])"
    return f"{{| sv_gates := {_nl(sd['weight'].argmax(-1).tolist())}; sv_extra := {extra} |}}"


def persist_model_vs_impl(ck):
    """Model/Persist.dense_load / conv_load evaluated in the kernel against torch's load_state_dict: checkpoints of layers built with
    the same arguments under another seed, of layers with another geometry, old-format checkpoints (no geometry / no extra state)
    and tampered checkpoints.  Compared: accepted or refused, and on acceptance the installed wiring (kernel pairs, index tensors)."""
    import copy
    import torch
    from torchlogix.layers import LogicDense, LogicConv2d, LogicConv3d
    rng = ck.rng
    cases = []          # (name, kind, fresh layer (before load), state dict, recompute literal or None)

    def dense(i, o, conn="random"):
        return LogicDense(i, o, device="cpu", connections=conn, weight_init="random")

    def conv2(in_dim=(4, 4), ch=2, k=2, depth=1, rf=2, stride=1, pad=0, conn="random"):
        return LogicConv2d(in_dim=in_dim, device="cpu", channels=ch, num_kernels=k, tree_depth=depth, receptive_field_size=rf, stride=stride,
                           padding=pad, connections=conn, weight_init="random")

    def conv3(in_dim=(3, 3, 3), ch=1, k=2, depth=1, rf=2, stride=1, pad=0, conn="random"):
        return LogicConv3d(in_dim=in_dim, device="cpu", channels=ch, num_kernels=k, tree_depth=depth, receptive_field_size=rf, stride=stride,
                           padding=pad, connections=conn)

    def add(name, mk_src, mk_dst, tamper=None):
        torch.manual_seed(rng.randrange(10 ** 6))
        src = mk_src()
        torch.manual_seed(rng.randrange(10 ** 6))
        dst = mk_dst()
        sd = copy.deepcopy(src.state_dict())
        if tamper:
            tamper(sd)
        cases.append((name, "dense" if isinstance(dst, LogicDense) else "conv", dst, sd))

    # same constructor arguments, another seed
    add("dense-random", lambda: dense(7, 9), lambda: dense(7, 9))
    add("dense-unique", lambda: dense(6, 9, "unique"), lambda: dense(6, 9, "unique"))
    add("conv2d-random", lambda: conv2(pad=1, depth=2), lambda: conv2(pad=1, depth=2))
    add("conv2d-unique", lambda: conv2(ch=3, conn="unique", stride=2), lambda: conv2(ch=3, conn="unique", stride=2))
    add("conv2d-rect", lambda: conv2(in_dim=(3, 5), rf=3, pad=1), lambda: conv2(in_dim=(3, 5), rf=3, pad=1))
    add("conv3d-random", lambda: conv3(), lambda: conv3())
    add("conv3d-noncubic", lambda: conv3(in_dim=(3, 4, 5), rf=(2, 1, 3), ch=2), lambda: conv3(in_dim=(3, 4, 5), rf=(2, 1, 3), ch=2))
    # another geometry
    add("dense-wider-input", lambda: dense(10, 8), lambda: dense(4, 8))
    add("dense-narrower-input", lambda: dense(4, 8), lambda: dense(10, 8))
    add("dense-more-neurons", lambda: dense(6, 9), lambda: dense(6, 8))
    for nm, a, b in [("in_dim", dict(in_dim=(5, 5)), dict(in_dim=(4, 4))), ("channels", dict(ch=3), dict(ch=2)), ("channels-up", dict(ch=1), dict(ch=2)),
                     ("kernels", dict(k=3), dict(k=2)), ("depth", dict(depth=2), dict(depth=1)), ("rf", dict(rf=3), dict(rf=2)), ("rf-down", dict(rf=1), dict(rf=2)),
                     ("stride", dict(stride=2), dict(stride=1)), ("padding", dict(pad=1), dict(pad=0))]:
        add("conv2d-other-" + nm, lambda a=a: conv2(**a), lambda b=b: conv2(**b))
    add("conv3d-other-rf-order", lambda: conv3(in_dim=(4, 4, 4), rf=(1, 2, 3)), lambda: conv3(in_dim=(4, 4, 4), rf=(3, 2, 1)))
    add("conv3d-tuple-vs-int-rf", lambda: conv3(rf=(2, 2, 2)), lambda: conv3(rf=2))
    # old formats
    add("dense-no-extra-state", lambda: dense(7, 9), lambda: dense(7, 9), lambda sd: sd.pop("_extra_state"))
    add("conv2d-no-extra-state", lambda: conv2(), lambda: conv2(), lambda sd: sd.pop("_extra_state"))
    add("conv2d-no-geometry", lambda: conv2(pad=1), lambda: conv2(pad=1), lambda sd: sd["_extra_state"].pop("geometry"))
    add("conv2d-no-geometry-other-stride", lambda: conv2(in_dim=(3, 3)), lambda: conv2(in_dim=(5, 5), stride=2), lambda sd: sd["_extra_state"].pop("geometry"))
    add("conv2d-no-geometry-bigger-field", lambda: conv2(rf=3), lambda: conv2(rf=2), lambda sd: sd["_extra_state"].pop("geometry"))
    # tampered
    def t_dense(fn):
        def f(sd):
            a, b = (t.clone() for t in sd["_extra_state"]["indices"])
            sd["_extra_state"]["indices"] = fn(a, b)
        return f
    add("dense-wire-out-of-range", lambda: dense(7, 9), lambda: dense(7, 9), t_dense(lambda a, b: (a, torch.cat([b[:-1], torch.tensor([7])]))))
    add("dense-wire-last-input", lambda: dense(7, 9), lambda: dense(7, 9), t_dense(lambda a, b: (a, torch.cat([b[:-1], torch.tensor([6])]))))
    add("dense-wire-negative", lambda: dense(7, 9), lambda: dense(7, 9), t_dense(lambda a, b: (torch.cat([torch.tensor([-1]), a[1:]]), b)))
    add("dense-three-index-tensors", lambda: dense(7, 9), lambda: dense(7, 9), t_dense(lambda a, b: (a, b, a)))
    add("dense-short-index-tensor", lambda: dense(7, 9), lambda: dense(7, 9), t_dense(lambda a, b: (a[:-1], b)))
    def t_pairs(fn):
        def f(sd):
            sd["_extra_state"]["kernel_pairs"] = fn(*(t.clone() for t in sd["_extra_state"]["kernel_pairs"]))
        return f
    def setv(t, idx, v):
        t[idx] = v
        return t
    add("conv2d-pair-beyond-field", lambda: conv2(), lambda: conv2(), t_pairs(lambda a, b: (setv(a, (0, 0, 0), 2), b)))
    add("conv2d-pair-beyond-channels", lambda: conv2(), lambda: conv2(), t_pairs(lambda a, b: (a, setv(b, (1, 1, 2), 2))))
    add("conv2d-pair-at-limit", lambda: conv2(), lambda: conv2(), t_pairs(lambda a, b: (setv(a, (0, 0, 1), 1), setv(b, (1, 1, 2), 1))))
    add("conv2d-pair-negative", lambda: conv2(), lambda: conv2(), t_pairs(lambda a, b: (setv(a, (1, 0, 1), -1), b)))
    add("conv2d-one-pair-tensor", lambda: conv2(), lambda: conv2(), t_pairs(lambda a, b: (a,)))
    def t_geom(sd):
        sd["_extra_state"]["geometry"]["stride"] = 2
    add("conv2d-geometry-entry-altered", lambda: conv2(), lambda: conv2(), t_geom)
    def t_idx(sd):
        lv = list(sd["_extra_state"]["indices"][0])
        lv[0] = lv[0][..., :-1, :].contiguous() if lv[0].ndim >= 2 else lv[0][:-1]
        sd["_extra_state"]["indices"][0] = tuple(lv)
    add("conv2d-index-tensor-other-shape", lambda: conv2(depth=2), lambda: conv2(depth=2), t_idx)
    add("conv2d-index-level-missing", lambda: conv2(depth=2), lambda: conv2(depth=2), lambda sd: sd["_extra_state"]["indices"].pop())
    def t_hand(sd):
        a, b = sd["_extra_state"]["indices"][0]
        sd["_extra_state"]["indices"][0] = (b.clone(), a.clone())
    add("conv2d-hand-wired-indices", lambda: conv2(), lambda: conv2(), t_hand)

    txt = ("From Coq Require Import ZArith List Bool Arith. Import ListNotations.\nFrom TLX Require Import Model.Persist.\n"
           "Definition flat (l : clayer) : list (list Z) * list (list (list Z)) := (map dat (c_pairs l), map (map dat) (c_indices l)).\n")
    plan = []
    for ci, (name, kind, dst, sd) in enumerate(cases):
        if kind == "dense":
            txt += (f"Eval vm_compute in option_map (fun l => (dl_a l, dl_b l, dl_gates l, dense_wf l)) (dense_load {_dlayer(dst)} {_dsaved(sd)}).\n")
        else:
            ex = sd.get("_extra_state")
            rc = "[]"
            if ex is not None and "geometry" not in ex:
                try:
                    rc = "[" + "; ".join("[" + "; ".join(_tens(i) for i in lv) + "]" for lv in dst.get_indices_from_kernel_pairs(
                        tuple(p.to(dst.device) for p in ex["kernel_pairs"]))) + "]"
                except Exception:
                    rc = "[]"
            txt += f"Eval vm_compute in option_map flat (conv_load (fun _ _ => {rc}) {_clayer(dst)} {_csaved(sd)}).\n"
        d2 = copy.deepcopy(dst)
        try:
            d2.load_state_dict(sd)
            if kind == "dense":
                obs = [d2.indices[0].tolist(), d2.indices[1].tolist(), d2.weight.argmax(-1).tolist(),
                       all(i.shape == (d2.out_dim,) and int(i.min()) >= 0 and int(i.max()) < d2.in_dim for i in d2.indices)]
            else:
                obs = [[p.reshape(-1).tolist() for p in d2.kernel_pairs], [[i.reshape(-1).tolist() for i in lv] for lv in d2.indices]]
        except Exception as e:
            obs = None
        plan.append((name, kind, obs))
    rc, out, err = ck.coq_eval("c15load", txt, timeout=900)
    if rc != 0:
        ck.broke("correspondence", "kernel evaluation of Model/Persist (dense_load / conv_load)", err[-600:])
        return
    vals = coqio.parse_evals(out)
    for (name, kind, obs), mv in zip(plan, vals):
        ck.case({"kind": "load-decision", "name": name}, nontrivial=True, kind="load-decision")
        if mv is not None:
            mv = json.loads(json.dumps(mv))           # tuples -> lists
        ck.count("load_accepted" if obs is not None else "load_refused")
        if (mv is None) != (obs is None):
            ck.broke("correspondence", "Model/Persist load decision vs load_state_dict",
                     f"{name}: model {'refuses' if mv is None else 'accepts'}, load_state_dict {'refuses' if obs is None else 'accepts'}")
        elif mv is not None and mv != obs:
            ck.broke("correspondence", "Model/Persist loaded state vs load_state_dict", f"{name}: model {str(mv)[:200]} implementation {str(obs)[:200]}")


def run(ck: Check):
    ck.trusted = TRUSTED
    ck.rule = ("two-process histories: process A (seed s1) builds a model (dense random / dense unique / conv2d random-unique+dense / conv2d "
               "random Walsh / conv3d / dense with 40000 inputs), saves state_dict and a compiled library (num_bits in {8,16,32,64}); process B (seed s2, RNG advanced by "
               "a random amount) rebuilds the layers with the same constructor arguments, loads the state (once into a fresh model, once into a model that was already run in training and eval mode, with no "
               "mode switch afterwards) and the library and evaluates a 100-row probe batch (longer than a word); outputs must be identical to A's. Non-trivial: seed s2 != s1. "
               "Distinct = canonical JSON of (kind, model id, seeds, num_bits). Also: dense_load / conv_load evaluated in the kernel on 40 real, foreign, old-format and tampered checkpoints against load_state_dict; a path saved to twice with models of one architecture, loaded in another process.")
    ck.translate("Persist", t_persist.gen_persist)
    ck.translate("PersistSrc", t_persist.gen_persist_src)
    ck.translate("LibIO", t_libio.gen_libio)
    ck.prove("Props/C15", THEOREMS)
    persist_model_vs_impl(ck)
    rng = ck.rng
    kinds = ["dense", "dense-unique", "conv2d", "conv2d-random", "conv3d", "dense-wide", "dense-nogs"]
    reps = 1 if ck.tier == "quick" else 4
    plan = []
    for rep in range(reps):
        for ki, kind in enumerate(kinds):
            W = [8, 16, 32, 64][(ki + rep) % 4]
            mid = 10 * rep + ki
            plan.append(dict(kind=kind, model=mid, W=W, seed=rng.randrange(1, 10 ** 6), seed2=rng.randrange(10 ** 6, 2 * 10 ** 6),
                             advance=rng.randrange(1, 500),
                             state_path=os.path.join(ck.scratch, f"m{mid}.pt"), lib_path=os.path.join(ck.scratch, f"m{mid}.so")))
    a_res = subproc.run_jobs(ck.scratch, [dict(p, kind_of_job="save") for p in plan], workers=6)
    b_jobs, idx = [], []
    for i, (p, r) in enumerate(zip(plan, a_res)):
        case = {k: p[k] for k in ("kind", "model", "W", "seed", "seed2", "advance")}
        ck.case(case, nontrivial=True, kind=p["kind"])
        if not r["done"] or not r["steps"]:
            ck.disagree("saving process died / failed", dict(case, stderr=r["stderr"][-300:]), signature={"what": "save-failed", "kind": p["kind"]})
            continue
        a = r["steps"][0]
        tau = a["tau"] or 1.0
        if [[round(v * tau) for v in row] for row in a["eval"]] != a["compiled"]:
            ck.disagree("compiled library differs from the model already in the saving process", case, signature={"what": "compile", "kind": p["kind"]})
        for warm in (False, True):
            job = dict(p, kind_of_job="reload", input_shape=a["input_shape"], k=a["k"], warm=warm, n_out=a.get("n_out"))
            if warm:
                # the reloading process first loads and calls ANOTHER saved library (the previous successfully saved one)
                prev = next((j for j in range(i - 1, -1, -1) if a_res[j]["done"] and a_res[j]["steps"]), None)
                if prev is not None:
                    pa = a_res[prev]["steps"][0]
                    job["preload"] = dict(lib_path=plan[prev]["lib_path"], input_shape=pa["input_shape"], k=pa["k"], W=plan[prev]["W"],
                                          n_out=None if pa["k"] else pa.get("n_out"))
            b_jobs.append(job)
            idx.append((i, warm))
    b_res = subproc.run_jobs(ck.scratch, b_jobs, workers=6)
    for (i, warm), r in zip(idx, b_res):
        p, a = plan[i], a_res[i]["steps"][0]
        case = {k: p[k] for k in ("kind", "model", "W", "seed", "seed2", "advance")}
        case["rebuilt_model_used_before_loading"] = warm
        if not r["done"] or not r["steps"]:
            ck.disagree("reloading process died / failed", dict(case, stderr=r["stderr"][-300:]), signature={"what": "reload-failed", "kind": p["kind"]})
            continue
        b = r["steps"][0]
        ck.count("probe_rows_compared", 200)
        if b["eval"] != a["eval"]:
            n = sum(1 for x, y in zip(a["eval"], b["eval"]) if x != y)
            ck.disagree("model rebuilt with the same constructor arguments and loaded from the saved state computes a different eval function",
                        dict(case, differing_rows=n), signature={"what": "state-roundtrip", "kind": p["kind"]})
        if b["compiled"] != a["compiled"]:
            n = sum(1 for x, y in zip(a["compiled"], b["compiled"]) if x != y)
            ck.disagree("library loaded in another process computes something else than the compiling instance",
                        dict(case, differing_rows=n), signature={"what": "lib-roundtrip", "W": p["W"]})
    # a path that is saved to TWICE with models of the same architecture (same library size, other gates): another process loading the
    # path gets the library of the second save
    rs_jobs = [dict(kind_of_job="resave", kind=kind, models=[3, 4], W=W, lib_path=os.path.join(ck.scratch, f"resave_{kind}_{W}.so"))
               for kind, W in (("dense", 64), ("conv2d", 8))]
    rs_res = subproc.run_jobs(ck.scratch, rs_jobs, workers=2)
    rl_jobs, rl_idx = [], []
    for j, r in zip(rs_jobs, rs_res):
        case = {"kind": "re-save-then-load", "model": j["kind"], "W": j["W"]}
        ck.case(case, nontrivial=True, kind="re-save")
        if not r["done"] or not r["steps"]:
            ck.disagree("saving twice to one path failed", dict(case, stderr=r["stderr"][-300:]), signature={"what": "resave-failed"})
            continue
        a = r["steps"][0]
        if a["compiled"][0] == a["compiled"][1]:
            ck.broke("correspondence", "harness", "the two models of the re-save case compute the same outputs on the probe batch")
            continue
        rl_jobs.append(dict(kind_of_job="reload-lib", lib_path=j["lib_path"], W=j["W"], input_shape=a["input_shape"], k=a["k"], n_out=a["n_out"]))
        rl_idx.append((case, a))
    for (case, a), r in zip(rl_idx, subproc.run_jobs(ck.scratch, rl_jobs, workers=2)):
        if not r["done"] or not r["steps"]:
            ck.disagree("loading a re-saved library failed", dict(case, stderr=r["stderr"][-300:]), signature={"what": "reload-failed", "kind": "re-save"})
        elif r["steps"][0]["compiled"] != a["compiled"][1]:
            which = "the FIRST save" if r["steps"][0]["compiled"] == a["compiled"][0] else "neither save"
            ck.disagree("a library loaded from a path that was saved to twice does not compute what the second compiling instance computed",
                        dict(case, loaded_equals=which), signature={"what": "lib-roundtrip", "kind": "re-save"})
    # a checkpoint of a layer with another geometry must not install wiring that does not fit (F33): either the load is refused or the
    # layer afterwards still computes with wires inside its own input / windows at its own positions
    from torchlogix.layers import LogicDense, LogicConv2d
    import torch
    probes = [("dense-wider-input", lambda: LogicDense(10, 8, device="cpu"), lambda: LogicDense(4, 8, device="cpu")),
              ("dense-more-neurons", lambda: LogicDense(6, 9, device="cpu"), lambda: LogicDense(6, 8, device="cpu")),
              ("conv-bigger-field", lambda: LogicConv2d(in_dim=(8, 8), device="cpu", channels=3, num_kernels=2, tree_depth=1, receptive_field_size=3),
               lambda: LogicConv2d(in_dim=(4, 4), device="cpu", channels=1, num_kernels=2, tree_depth=1, receptive_field_size=2)),
              ("conv-other-stride", lambda: LogicConv2d(in_dim=(3, 3), device="cpu", channels=1, num_kernels=2, tree_depth=1, receptive_field_size=2, stride=1),
               lambda: LogicConv2d(in_dim=(5, 5), device="cpu", channels=1, num_kernels=2, tree_depth=1, receptive_field_size=2, stride=2)),
              ("conv-same-geometry", lambda: LogicConv2d(in_dim=(4, 4), device="cpu", channels=2, num_kernels=2, tree_depth=1, receptive_field_size=2, padding=1),
               lambda: LogicConv2d(in_dim=(4, 4), device="cpu", channels=2, num_kernels=2, tree_depth=1, receptive_field_size=2, padding=1))]
    for name, mk_src, mk_dst in probes:
        torch.manual_seed(ck.seed + 1)
        src = mk_src()
        torch.manual_seed(ck.seed + 2)
        dst = mk_dst()
        ck.case({"kind": "foreign-checkpoint", "name": name}, nontrivial=True, kind="foreign-checkpoint")
        try:
            dst.load_state_dict(src.state_dict())
            loaded = True
        except Exception:
            loaded = False
        if name == "conv-same-geometry":
            same = loaded and all(torch.equal(a, b) for la, lb in zip(src.indices, dst.indices) for a, b in zip(la, lb))
            if not same:
                ck.disagree("a checkpoint of a layer with the same geometry is not restored exactly", {"name": name, "loaded": loaded},
                            signature={"what": "same-geometry-roundtrip"})
            continue
        if not loaded:
            continue
        # accepted: the wiring must fit the receiving layer and sit at the receiving layer's own window positions
        if isinstance(dst, LogicDense):
            ok = all(int(i.max()) < dst.in_dim and int(i.min()) >= 0 and i.shape == (dst.out_dim,) for i in dst.indices)
        else:
            fresh = dst.get_indices_from_kernel_pairs(dst.kernel_pairs)
            ok = all(torch.equal(a, b) for a, b in zip(fresh[0], dst.indices[0]))
            lim = [v + 2 * (dst.padding or 0) for v in dst.in_dim] + [dst.channels]
            mx = dst.indices[0][0].reshape(-1, len(lim)).max(0).values.tolist()
            ok = ok and all(v < L for v, L in zip(mx, lim))
        if not ok:
            ck.disagree("load_state_dict accepted a checkpoint of a layer with another geometry and installed wiring that does not fit",
                        {"name": name}, signature={"what": "foreign-checkpoint", "name": name})
    # a checkpoint that went through user code on its way: re-keyed into a plain dict (torch's `_metadata` attribute - the module
    # versions - is lost), a "module." prefix stripped, an OrderedDict rebuilt from items.  The wiring is IN the checkpoint under
    # `_extra_state`; a rebuilt model (another seed) must end up with it, whatever the container
    import collections
    from torchlogix.layers import LogicConv3d as _LC3
    rekey = {"plain-dict": lambda sd: {k: v for k, v in sd.items()},
             "prefix-stripped": lambda sd: {k[len("module."):]: v for k, v in {"module." + k: v for k, v in sd.items()}.items()},
             "ordered-from-items": lambda sd: collections.OrderedDict(list(sd.items()))}
    makers = {"conv2d": lambda: torch.nn.Sequential(LogicConv2d(in_dim=(4, 4), device="cpu", channels=2, num_kernels=3, tree_depth=2,
                                                                 receptive_field_size=2, padding=1), torch.nn.Flatten(),
                                                     LogicDense(75, 12, device="cpu")),
              "conv3d": lambda: torch.nn.Sequential(_LC3(in_dim=(3, 3, 3), device="cpu", channels=1, num_kernels=2, tree_depth=1,
                                                          receptive_field_size=2)),
              "dense-unique": lambda: torch.nn.Sequential(LogicDense(9, 14, device="cpu", connections="unique"))}
    for mname, mk in makers.items():
        for rname, rk in rekey.items():
            torch.manual_seed(ck.seed + 11)
            src_m = mk().eval()
            torch.manual_seed(ck.seed + 12)
            dst_m = mk().eval()
            case_r = {"kind": "rekeyed-checkpoint", "model": mname, "container": rname}
            ck.case(case_r, nontrivial=True, kind="rekeyed-checkpoint")
            try:
                dst_m.load_state_dict(rk(src_m.state_dict()))
            except Exception as e:
                continue                                    # a refused checkpoint is loud
            shape_r = {"conv2d": (2, 4, 4), "conv3d": (1, 3, 3, 3), "dense-unique": (9,)}[mname]
            xr = (torch.rand(64, *shape_r, generator=torch.Generator().manual_seed(5)) > 0.5).float()
            with torch.no_grad():
                ya, yb = src_m(xr), dst_m(xr)
            if not torch.equal(ya, yb):
                ck.disagree("a model restored from a re-keyed copy of its own state dict computes another function (the wiring in the checkpoint was not installed)",
                            dict(case_r, differing_samples=int((ya != yb).reshape(64, -1).any(-1).sum())),
                            signature={"what": "rekeyed-checkpoint", "model": mname})
    # state that decides the eval function but is set after construction: wiring written by hand on layer.indices (the code
    # generator and forward both read it), the frozen mode of the learnable thermometer.  Saved with the state, rebuilt with the same
    # constructor arguments under another seed, loaded: same function
    from torchlogix.layers import LearnableThermometerThresholding as LTT
    for name in ("conv-hand-wired-level1", "conv-hand-wired-level0", "dense-hand-wired", "thermometer-frozen",
                 "thermometer-unfrozen-no-grad", "thermometer-frozen-grad-reopened"):
        ck.case({"kind": "post-construction-state", "name": name}, nontrivial=True, kind="post-construction-state")
        torch.manual_seed(ck.seed + 11)
        if name.startswith("conv"):
            mk = lambda: LogicConv2d(in_dim=(5, 5), device="cpu", channels=2, num_kernels=3, tree_depth=2, receptive_field_size=2,
                                     weight_init="random")
            src = mk()
            if name.endswith("level1"):
                src.indices[1] = (torch.tensor([0, 1]), torch.tensor([3, 2]))
            else:
                a0, b0 = src.indices[0]
                src.indices[0] = (b0.clone(), a0.clone())           # swap the two inputs of every leaf gate
            x = (torch.rand(16, 2, 5, 5) > 0.5).float()
        elif name == "dense-hand-wired":
            mk = lambda: LogicDense(6, 8, device="cpu", weight_init="random")
            src = mk()
            src.indices = (torch.tensor([5, 4, 3, 2, 1, 0, 0, 5]), torch.tensor([0, 1, 2, 3, 4, 5, 3, 2]))
            x = (torch.rand(16, 6) > 0.5).float()
        else:
            mk = lambda: LTT(init_thresholds=[1.0, 2.0, 3.0])
            src = mk()
            if name == "thermometer-unfrozen-no-grad":
                src.requires_grad_(False)            # an inference export switches gradients off: the layer is still unfrozen (soft code)
            else:
                src.freeze_thresholds()
                if name == "thermometer-frozen-grad-reopened":
                    src.requires_grad_(True)         # fine-tuning reopens the gradients of the whole model: the layer is still frozen
            x = torch.rand(4, 3, 3) * 4
        src.eval()
        with torch.no_grad():
            want = src(x)
        torch.manual_seed(ck.seed + 12)
        dst = mk()
        try:
            dst.load_state_dict(src.state_dict())
            dst.eval()
            with torch.no_grad():
                got = dst(x)
        except Exception as e:
            ck.disagree("the saved state of a layer cannot be loaded into a layer built with the same constructor arguments",
                        {"name": name}, observed=repr(e)[:200], signature={"what": "post-construction-state", "name": name})
            continue
        if not torch.equal(want, got):
            ck.disagree("a layer rebuilt with the same constructor arguments and loaded from the saved state computes a different eval function "
                        "(state set after construction is saved but not restored)", {"name": name, "differing_values": int((want != got).sum())},
                        signature={"what": "post-construction-state", "name": name})
    return ck.finish()


def replay(ck, path):
    return run(ck)
