"""C15 — persisted artefacts reproduce the function they were saved from."""
import os

import numpy as np

from harness import subproc
from harness.common import Check
from translate import libio as t_libio, persist as t_persist

THEOREMS = ["C15_state_roundtrip", "C15_wiring_persisted", "C15_needs_wiring", "C15_lib_roundtrip", "C15_load_configuration"]
TRUSTED = [
    "Coq 8.16.1 kernel/coqc; theorems closed under the global context",
    "translators translate/persist.py (introspection of live layers: a state_dict round trip into a layer rebuilt under another RNG state "
    "restores indices / kernel_pairs for every class and connection scheme) and translate/libio.py",
    "partial: torch.save / torch.load serialisation, the dynamic loader and the file system are outside the model; the two-process histories "
    "below exercise them",
]


def run(ck: Check):
    ck.trusted = TRUSTED
    ck.rule = ("two-process histories: process A (seed s1) builds a model (dense random / dense unique / conv2d random-unique+dense / conv2d "
               "random Walsh / conv3d / dense with 40000 inputs), saves state_dict and a compiled library (num_bits in {8,16,32,64}); process B (seed s2, RNG advanced by "
               "a random amount) rebuilds the layers with the same constructor arguments, loads the state (once into a fresh model, once into a model that was already run in training and eval mode, with no "
               "mode switch afterwards) and the library and evaluates a 100-row probe batch (longer than a word); outputs must be identical to A's. Non-trivial: seed s2 != s1. "
               "Distinct = canonical JSON of (kind, model id, seeds, num_bits).")
    ck.translate("Persist", t_persist.gen_persist)
    ck.translate("LibIO", t_libio.gen_libio)
    ck.prove("Props/C15", THEOREMS)
    rng = ck.rng
    kinds = ["dense", "dense-unique", "conv2d", "conv2d-random", "conv3d", "dense-wide", "dense-nogs"]
    reps = 1 if ck.tier == "quick" else 4
    plan = []
    for rep in range(reps):
        for ki, kind in enumerate(kinds):
            W = [8, 16, 32, 64][(ki + rep) % 4]
            mid = 10 * rep + ki
            plan.append(dict(kind=kind, model=mid, W=W, seed=rng.randrange(1, 10 ** 6), seed2=rng.randrange(10 ** 6, 2 * 10 ** 6),
                             advance=rng.randrange(1, 500),
                             state_path=os.path.join(ck.scratch, f"m{mid}.pt"), lib_path=os.path.join(ck.scratch, f"m{mid}.so")))
    a_res = subproc.run_jobs(ck.scratch, [dict(p, kind_of_job="save") for p in plan], workers=6)
    b_jobs, idx = [], []
    for i, (p, r) in enumerate(zip(plan, a_res)):
        case = {k: p[k] for k in ("kind", "model", "W", "seed", "seed2", "advance")}
        ck.case(case, nontrivial=True, kind=p["kind"])
        if not r["done"] or not r["steps"]:
            ck.disagree("saving process died / failed", dict(case, stderr=r["stderr"][-300:]), signature={"what": "save-failed", "kind": p["kind"]})
            continue
        a = r["steps"][0]
        tau = a["tau"] or 1.0
        if [[round(v * tau) for v in row] for row in a["eval"]] != a["compiled"]:
            ck.disagree("compiled library differs from the model already in the saving process", case, signature={"what": "compile", "kind": p["kind"]})
        for warm in (False, True):
            job = dict(p, kind_of_job="reload", input_shape=a["input_shape"], k=a["k"], warm=warm, n_out=a.get("n_out"))
            if warm:
                # the reloading process first loads and calls ANOTHER saved library (the previous successfully saved one)
                prev = next((j for j in range(i - 1, -1, -1) if a_res[j]["done"] and a_res[j]["steps"]), None)
                if prev is not None:
                    pa = a_res[prev]["steps"][0]
                    job["preload"] = dict(lib_path=plan[prev]["lib_path"], input_shape=pa["input_shape"], k=pa["k"], W=plan[prev]["W"],
                                          n_out=None if pa["k"] else pa.get("n_out"))
            b_jobs.append(job)
            idx.append((i, warm))
    b_res = subproc.run_jobs(ck.scratch, b_jobs, workers=6)
    for (i, warm), r in zip(idx, b_res):
        p, a = plan[i], a_res[i]["steps"][0]
        case = {k: p[k] for k in ("kind", "model", "W", "seed", "seed2", "advance")}
        case["rebuilt_model_used_before_loading"] = warm
        if not r["done"] or not r["steps"]:
            ck.disagree("reloading process died / failed", dict(case, stderr=r["stderr"][-300:]), signature={"what": "reload-failed", "kind": p["kind"]})
            continue
        b = r["steps"][0]
        ck.count("probe_rows_compared", 200)
        if b["eval"] != a["eval"]:
            n = sum(1 for x, y in zip(a["eval"], b["eval"]) if x != y)
            ck.disagree("model rebuilt with the same constructor arguments and loaded from the saved state computes a different eval function",
                        dict(case, differing_rows=n), signature={"what": "state-roundtrip", "kind": p["kind"]})
        if b["compiled"] != a["compiled"]:
            n = sum(1 for x, y in zip(a["compiled"], b["compiled"]) if x != y)
            ck.disagree("library loaded in another process computes something else than the compiling instance",
                        dict(case, differing_rows=n), signature={"what": "lib-roundtrip", "W": p["W"]})
    # a checkpoint of a layer with another geometry must not install wiring that does not fit (F33): either the load is refused or the
    # layer afterwards still computes with wires inside its own input / windows at its own positions
    from torchlogix.layers import LogicDense, LogicConv2d
    import torch
    probes = [("dense-wider-input", lambda: LogicDense(10, 8, device="cpu"), lambda: LogicDense(4, 8, device="cpu")),
              ("dense-more-neurons", lambda: LogicDense(6, 9, device="cpu"), lambda: LogicDense(6, 8, device="cpu")),
              ("conv-bigger-field", lambda: LogicConv2d(in_dim=(8, 8), device="cpu", channels=3, num_kernels=2, tree_depth=1, receptive_field_size=3),
               lambda: LogicConv2d(in_dim=(4, 4), device="cpu", channels=1, num_kernels=2, tree_depth=1, receptive_field_size=2)),
              ("conv-other-stride", lambda: LogicConv2d(in_dim=(3, 3), device="cpu", channels=1, num_kernels=2, tree_depth=1, receptive_field_size=2, stride=1),
               lambda: LogicConv2d(in_dim=(5, 5), device="cpu", channels=1, num_kernels=2, tree_depth=1, receptive_field_size=2, stride=2)),
              ("conv-same-geometry", lambda: LogicConv2d(in_dim=(4, 4), device="cpu", channels=2, num_kernels=2, tree_depth=1, receptive_field_size=2, padding=1),
               lambda: LogicConv2d(in_dim=(4, 4), device="cpu", channels=2, num_kernels=2, tree_depth=1, receptive_field_size=2, padding=1))]
    for name, mk_src, mk_dst in probes:
        torch.manual_seed(ck.seed + 1)
        src = mk_src()
        torch.manual_seed(ck.seed + 2)
        dst = mk_dst()
        ck.case({"kind": "foreign-checkpoint", "name": name}, nontrivial=True, kind="foreign-checkpoint")
        try:
            dst.load_state_dict(src.state_dict())
            loaded = True
        except Exception:
            loaded = False
        if name == "conv-same-geometry":
            same = loaded and all(torch.equal(a, b) for la, lb in zip(src.indices, dst.indices) for a, b in zip(la, lb))
            if not same:
                ck.disagree("a checkpoint of a layer with the same geometry is not restored exactly", {"name": name, "loaded": loaded},
                            signature={"what": "same-geometry-roundtrip"})
            continue
        if not loaded:
            continue
        # accepted: the wiring must fit the receiving layer and sit at the receiving layer's own window positions
        if isinstance(dst, LogicDense):
            ok = all(int(i.max()) < dst.in_dim and int(i.min()) >= 0 and i.shape == (dst.out_dim,) for i in dst.indices)
        else:
            fresh = dst.get_indices_from_kernel_pairs(dst.kernel_pairs)
            ok = all(torch.equal(a, b) for a, b in zip(fresh[0], dst.indices[0]))
            lim = [v + 2 * (dst.padding or 0) for v in dst.in_dim] + [dst.channels]
            mx = dst.indices[0][0].reshape(-1, len(lim)).max(0).values.tolist()
            ok = ok and all(v < L for v, L in zip(mx, lim))
        if not ok:
            ck.disagree("load_state_dict accepted a checkpoint of a layer with another geometry and installed wiring that does not fit",
                        {"name": name}, signature={"what": "foreign-checkpoint", "name": name})
    # state that decides the eval function but is set after construction: wiring written by hand on layer.indices (the code
    # generator and forward both read it), the frozen mode of the learnable thermometer.  Saved with the state, rebuilt with the same
    # constructor arguments under another seed, loaded: same function
    from torchlogix.layers import LearnableThermometerThresholding as LTT
    for name in ("conv-hand-wired-level1", "conv-hand-wired-level0", "dense-hand-wired", "thermometer-frozen"):
        ck.case({"kind": "post-construction-state", "name": name}, nontrivial=True, kind="post-construction-state")
        torch.manual_seed(ck.seed + 11)
        if name.startswith("conv"):
            mk = lambda: LogicConv2d(in_dim=(5, 5), device="cpu", channels=2, num_kernels=3, tree_depth=2, receptive_field_size=2,
                                     weight_init="random")
            src = mk()
            if name.endswith("level1"):
                src.indices[1] = (torch.tensor([0, 1]), torch.tensor([3, 2]))
            else:
                a0, b0 = src.indices[0]
                src.indices[0] = (b0.clone(), a0.clone())           # swap the two inputs of every leaf gate
            x = (torch.rand(16, 2, 5, 5) > 0.5).float()
        elif name == "dense-hand-wired":
            mk = lambda: LogicDense(6, 8, device="cpu", weight_init="random")
            src = mk()
            src.indices = (torch.tensor([5, 4, 3, 2, 1, 0, 0, 5]), torch.tensor([0, 1, 2, 3, 4, 5, 3, 2]))
            x = (torch.rand(16, 6) > 0.5).float()
        else:
            mk = lambda: LTT(init_thresholds=[1.0, 2.0, 3.0])
            src = mk()
            src.freeze_thresholds()
            x = torch.rand(4, 3, 3) * 4
        src.eval()
        with torch.no_grad():
            want = src(x)
        torch.manual_seed(ck.seed + 12)
        dst = mk()
        try:
            dst.load_state_dict(src.state_dict())
            dst.eval()
            with torch.no_grad():
                got = dst(x)
        except Exception as e:
            ck.disagree("the saved state of a layer cannot be loaded into a layer built with the same constructor arguments",
                        {"name": name}, observed=repr(e)[:200], signature={"what": "post-construction-state", "name": name})
            continue
        if not torch.equal(want, got):
            ck.disagree("a layer rebuilt with the same constructor arguments and loaded from the saved state computes a different eval function "
                        "(state set after construction is saved but not restored)", {"name": name, "differing_values": int((want != got).sum())},
                        signature={"what": "post-construction-state", "name": name})
    return ck.finish()


def replay(ck, path):
    return run(ck)
