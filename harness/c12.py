"""C12 — a logic convolution applies one shared gate tree per kernel to every window."""
import itertools

import numpy as np
import torch

from harness import coqio, nets
from harness.common import Check

THEOREMS = ["C12_positions", "C12_window_fits", "C12_indices", "C12_shared_tree", "C12_equivariance", "C12_out_size",
            "C12_inside_field", "C12_inside_window"]
TRUSTED = [
    "Coq 8.16.1 kernel/coqc; theorems closed under the global context; vm_compute for kernel evaluation of the model",
    "hand-written model Model/ConvNet.v (sliding_indices, window, kernel_tree, conv_eval) tied by exact integer equality of "
    "layer.indices with sliding_indices evaluated in the kernel, and by layer(x) vs per-window evaluation",
    "torch advanced indexing / pad / meshgrid / arange semantics are modelled, not proved",
    "training mode: the theorem is generic in the value type and node function; the float32 layer output is compared with a "
    "float64 per-window reference within 1e-5 (rounding), not proved bit-exactly",
]

ID_TO_OP = None


def soft_gate(p, a, b):
    """sum_i p_i op_i(a, b) in float64 from the multilinear form of each table."""
    r = 0.0
    for g in range(16):
        v = sum(nets.tt(g, x, y) * (a if x else 1 - a) * (b if y else 1 - b) for x in (0, 1) for y in (0, 1))
        r += p[g] * v
    return r


def make_layer(rng, dims, param="raw"):
    from torchlogix.layers import LogicConv2d, LogicConv3d
    while True:
        n = [rng.randrange(2, 7) for _ in range(dims)] if dims == 2 else [rng.randrange(2, 5) for _ in range(3)]
        pad = rng.choice([0, 1, 2]) if dims == 2 else rng.choice([0, 1])
        rf = rng.randrange(1, 4)
        if rf <= min(x + 2 * pad for x in n):
            break
    stride = rng.randrange(1, rf + 1)
    C, K, depth = rng.randrange(1, 4), rng.randrange(1, 4), rng.randrange(1, 4)
    conn = rng.choice(["random", "random-unique"])
    P = rf ** dims * C
    if conn == "random-unique" and 2 ** depth > P * (P - 1) // 2:
        conn = "random"
    rf_arg = rf
    rfs = [rf] * dims
    if dims == 3 and rng.random() < 0.5:
        rfs = [rng.randrange(1, min(3, v + 2 * pad) + 1) for v in n]
        rf_arg = tuple(rfs)
        stride = rng.randrange(1, min(rfs) + 1)
        P = int(np.prod(rfs)) * C
        if conn == "random-unique" and 2 ** depth > P * (P - 1) // 2:
            conn = "random"
    kw = dict(in_dim=tuple(n), device="cpu", channels=C, num_kernels=K, tree_depth=depth, receptive_field_size=rf_arg,
              stride=stride, padding=pad, connections=conn)
    if dims == 2:
        l = LogicConv2d(parametrization=param, weight_init="random", **kw)
    else:
        l = LogicConv3d(**kw)
        with torch.no_grad():
            for lv in l.tree_weights:
                for w in lv:
                    w.copy_(torch.randn_like(w))
    geo = dict(dims=dims, in_dim=n, padding=pad, rf=rf, rfs=rfs, stride=stride, channels=C, kernels=K, depth=depth, connections=conn)
    return l, geo


def per_window(l, geo, x, mode, weights=None, upper=None):
    """Reference: out[k][pos] = tree_k(window at pos of the zero-padded x), from kernel_pairs and the geometry only.
    upper: wiring of the levels above the first, [(left, right), ...] per level (default: neighbours 2j, 2j+1 - what the constructor builds)."""
    dims, n, pad, rf, s = geo["dims"], geo["in_dim"], geo["padding"], geo["rf"], geo["stride"]
    C, K, depth = geo["channels"], geo["kernels"], geo["depth"]
    outs = [(v + 2 * pad - r) // s + 1 for v, r in zip(n, geo["rfs"])]
    pa, pb = [t.tolist() for t in l.kernel_pairs]
    xp = np.zeros([C] + [v + 2 * pad for v in n], dtype=np.float64)
    xp[(slice(None),) + tuple(slice(pad, pad + v) for v in n)] = x
    res = np.zeros([K] + outs, dtype=np.float64)
    for k in range(K):
        for pos in itertools.product(*[range(o) for o in outs]):
            start = [q * s for q in pos]
            cur = []
            for g in range(2 ** depth):
                ra, rb = pa[k][g], pb[k][g]
                va = xp[(ra[-1],) + tuple(st + r for st, r in zip(start, ra[:-1]))]
                vb = xp[(rb[-1],) + tuple(st + r for st, r in zip(start, rb[:-1]))]
                cur.append(node(weights, 0, g, k, va, vb, mode))
            for lev in range(1, depth + 1):
                if upper is None:
                    cur = [node(weights, lev, j, k, cur[2 * j], cur[2 * j + 1], mode) for j in range(len(cur) // 2)]
                else:
                    le, ri = upper[lev - 1]
                    cur = [node(weights, lev, j, k, cur[le[j]], cur[ri[j]], mode) for j in range(len(le))]
            res[(k,) + pos] = cur[0]
    return res


def node(weights, lev, j, k, a, b, mode):
    w = weights[lev][j][k]
    if mode == "eval":
        g = int(np.argmax(w))
        return float(nets.tt(g, int(a), int(b)))
    p = np.exp(w - np.max(w))
    p /= p.sum()
    return soft_gate(p, a, b)


def run(ck: Check):
    ck.trusted = TRUSTED
    ck.rule = ("random geometries: 2-D and 3-D, square and rectangular in_dim, channels/kernels/depth 1..3, rf 1..3, stride <= rf, "
               "padding 0..2, both connection schemes; (i) layer.indices vs sliding_indices evaluated in the Coq kernel, (ii) eval and "
               "training forward vs per-window evaluation of the kernel tree from kernel_pairs, (iii) output shape, (iv) shifted "
               "images. Non-trivial: more than one output position. Distinct = canonical JSON of the geometry + wiring hash.")
    ck.prove("Props/C12", THEOREMS)
    rng = ck.rng
    n_cases = 40 if ck.tier == "quick" else 300
    coq_items = []
    for t in range(n_cases):
        dims = 3 if t % 3 == 2 else 2
        torch.manual_seed(ck.seed * 31 + t)
        try:
            l, geo = make_layer(rng, dims)
        except Exception as e:
            ck.disagree("constructor raised on a valid geometry", {"t": t}, observed=repr(e), signature={"what": "ctor"})
            continue
        outs = [(v + 2 * geo["padding"] - r) // geo["stride"] + 1 for v, r in zip(geo["in_dim"], geo["rfs"])]
        npos = int(np.prod(outs))
        ck.case(dict(geo, pairs=hash(str(l.kernel_pairs[0].tolist())) % 10 ** 8), nontrivial=npos > 1, kind=f"conv{dims}d")
        sig = {"dims": dims}
        # (i) absolute indices
        ia, ib = l.indices[0]
        if list(ia.shape[:2]) != [geo["kernels"], npos]:
            ck.disagree("number of output positions is not prod(floor((H+2p-rf)/s)+1)", dict(geo, got=list(ia.shape), npos=npos),
                        signature=dict(sig, what="positions"))
            continue
        coq_items.append((geo, l.kernel_pairs[0].tolist(), ia.tolist()))
        coq_items.append((geo, l.kernel_pairs[1].tolist(), ib.tolist()))
        # python check of the same formula (volume)
        for name, rel, ab in (("a", l.kernel_pairs[0].tolist(), ia.tolist()), ("b", l.kernel_pairs[1].tolist(), ib.tolist())):
            for k in range(geo["kernels"]):
                for p_i, pos in enumerate(itertools.product(*[range(o) for o in outs])):
                    for g in range(2 ** geo["depth"]):
                        exp = [r + q * geo["stride"] for r, q in zip(rel[k][g][:-1], pos)] + [rel[k][g][-1]]
                        if ab[k][p_i][g] != exp:
                            ck.disagree("absolute index is not relative index + stride * position",
                                        dict(geo, kernel=k, pos=list(pos), gate=g, rel=rel[k][g]), expected=exp, observed=ab[k][p_i][g],
                                        signature=dict(sig, what="indices"))
                            break
        # rel inside field
        for rel in (l.kernel_pairs[0].tolist(), l.kernel_pairs[1].tolist()):
            for k in rel:
                for g in k:
                    if any(not (0 <= v < r) for v, r in zip(g[:-1], geo["rfs"])) or not (0 <= g[-1] < geo["channels"]):
                        ck.disagree("kernel pair lies outside the receptive field", dict(geo, pair=g), signature=dict(sig, what="field"))
        # (ii) forward vs per-window
        weights = [[w.detach().double().numpy() for w in lv] for lv in l.tree_weights]   # [level][node] -> (K,16)
        weights = [[[w[k] for k in range(geo["kernels"])] for w in lv] for lv in weights]
        shape = [geo["channels"]] + geo["in_dim"]
        xb = (torch.rand(3, *shape) > 0.5).float()
        l.eval()
        with torch.no_grad():
            ye = l(xb)
        if list(ye.shape) != [3, geo["kernels"]] + outs:
            ck.disagree("output shape differs from floor((H+2p-rf)/s)+1 per axis", dict(geo, shape=list(ye.shape)),
                        signature=dict(sig, what="shape"))
            continue
        for b in range(3):
            ref = per_window(l, geo, xb[b].numpy(), "eval", weights)
            if not np.array_equal(ref, ye[b].numpy().astype(np.float64)):
                ck.disagree("eval output differs from per-window evaluation of the kernel tree", dict(geo, x=xb[b].tolist()),
                            signature=dict(sig, what="eval-window"))
                break
        l.train()
        xr = torch.rand(2, *shape)
        with torch.no_grad():
            yt = l(xr)
        for b in range(2):
            ref = per_window(l, geo, xr[b].double().numpy(), "train", weights)
            if np.max(np.abs(ref - yt[b].double().numpy())) > 1e-5:
                ck.disagree("training output differs from per-window evaluation of the soft kernel tree",
                            dict(geo, maxdiff=float(np.max(np.abs(ref - yt[b].double().numpy())))), signature=dict(sig, what="train-window"))
                break
        # (iv) translation by one stride along the first axis, padding 0 part only
        l.eval()
        s = geo["stride"]
        if geo["padding"] == 0 and outs[0] >= 2:
            x0 = (torch.rand(1, *shape) > 0.5).float()
            x1 = torch.zeros_like(x0)
            idx = (slice(None), slice(None), slice(s, None))
            idx0 = (slice(None), slice(None), slice(0, shape[1] - s))
            x1[idx] = x0[idx0]
            with torch.no_grad():
                y0, y1 = l(x0), l(x1)
            a = y1[(slice(None), slice(None), slice(1, None))]
            b_ = y0[(slice(None), slice(None), slice(0, outs[0] - 1))]
            ck.count("translation_checks")
            if not torch.equal(a, b_):
                ck.disagree("translating the image by one stride does not translate the output", dict(geo), signature=dict(sig, what="translation"))
    # kernel evaluation of sliding_indices
    for start in range(0, len(coq_items), 20):
        chunk = coq_items[start:start + 20]
        txt = "From Coq Require Import List Arith. Import ListNotations.\nFrom TLX Require Import Model.ConvNet.\n"
        evs = []
        for i, (geo, rel, ab) in enumerate(chunk):
            cs = (f"{{| cv_dims := {nets._nl(geo['in_dim'])}; cv_C := {geo['channels']}; cv_K := {geo['kernels']}; cv_depth := {geo['depth']}; "
                  f"cv_rf := {nets._nl(geo['rfs'])}; cv_stride := {geo['stride']}; cv_pad := {geo['padding']}; "
                  f"cv_rel_a := []; cv_rel_b := []; cv_gates := [] |}}")
            relc = "[" + "; ".join("[" + "; ".join(f"({nets._nl(g[:-1])}, {g[-1]})" for g in k) + "]" for k in rel) + "]"
            txt += f"Eval vm_compute in sliding_indices {cs} {relc}.\n"
        rc, out, err = ck.coq_eval("c12idx", txt)
        if rc != 0:
            ck.broke("correspondence", "kernel evaluation of sliding_indices", err[-500:])
            continue
        for (geo, rel, ab), mv in zip(chunk, coqio.parse_evals(out)):
            ck.count("model_vs_impl_index_tensors")
            if [[[list(g) for g in p] for p in k] for k in mv] != ab:
                ck.broke("correspondence", "Model/ConvNet.sliding_indices", f"geometry {geo}: model differs from layer.indices")
    # training mode on a CONSTANT image: all windows are identical, so a tree that does not depend on the position gives one value per
    # kernel (and per batch row).  Holds for soft / hard sampling and for raw Gumbel sampling (noise drawn once per kernel and node);
    # Walsh Gumbel sampling draws its noise per activation, i.e. per output position (recorded finding F32).
    from torchlogix.layers import LogicConv2d as _LC2
    for par in ("raw", "walsh"):
        for mode in ("soft", "hard", "gumbel_soft", "gumbel_hard"):
            torch.manual_seed(ck.seed + 9)
            lc = _LC2(in_dim=(6, 6), device="cpu", channels=1, num_kernels=3, tree_depth=2, receptive_field_size=3, parametrization=par,
                      weight_init="random", forward_sampling=mode, temperature=0.7)
            lc.train()
            xc = torch.full((2, 1, 6, 6), 0.0)
            xc[1] = 1.0
            with torch.no_grad():
                yc_ = lc(xc).reshape(2, 3, -1)
            spread = float((yc_.max(dim=2).values - yc_.min(dim=2).values).max())
            ck.case({"kind": "constant-image", "param": par, "mode": mode}, nontrivial=True, kind="constant-image")
            if spread > 1e-6:
                ck.disagree("in training mode the sampled gate tree differs between output positions (identical windows give different outputs)",
                            {"param": par, "mode": mode, "max_spread_over_positions": spread},
                            signature={"what": "position-dependent-sampling", "param": par, "gumbel": mode.startswith("gumbel")})
    # the same on LARGE output grids (a forward that works through the positions in blocks must not sample a tree per block): constant
    # images with 1 296 and 4 356 output positions, raw parametrisation (the Walsh Gumbel modes are the recorded finding F32)
    for (side, mode) in ((37, "gumbel_soft"), (37, "gumbel_hard"), (67, "gumbel_soft"), (67, "gumbel_hard"), (67, "soft")):
        if ck.tier == "quick" and side == 67 and mode == "gumbel_hard":
            continue
        torch.manual_seed(ck.seed + 23 + side)
        big = _LC2(in_dim=side, device="cpu", channels=1, num_kernels=2, tree_depth=2, receptive_field_size=2,
                   parametrization="raw", forward_sampling=mode, temperature=1.0, weight_init="random")
        big.train()
        xb = torch.full((2, 1, side, side), 0.75 if mode != "gumbel_hard" else 1.0)
        with torch.no_grad():
            yb = big(xb)
        spread_b = float((yb.amax((2, 3)) - yb.amin((2, 3))).max())
        case_b = {"kind": "constant-image-large", "param": "raw", "mode": mode, "side": side, "positions": int(yb.shape[2] * yb.shape[3])}
        ck.case(case_b, nontrivial=True, kind="constant-image-large")
        if spread_b > 1e-6:
            pos = (yb[0, 0] - yb[0, 0, 0, 0]).abs().gt(1e-6).nonzero()
            ck.disagree("on a large constant image the windows of one kernel give different training outputs: the sampled tree depends on the position",
                        dict(case_b, spread=spread_b, first_differing_position=pos[0].tolist() if len(pos) else None),
                        expected=0.0, observed=spread_b,
                        signature={"what": "position-dependent-sampling", "param": "raw", "gumbel": mode.startswith("gumbel"), "large": True})
    # a very long strip: coordinates beyond 2^15 (index tables must not be held in a narrow integer type)
    from torchlogix.layers import LogicConv2d
    torch.manual_seed(ck.seed + 5)
    for in_dim, stride in (((2, 33000), 1), ((2, 70000), 2)):
        strip = LogicConv2d(in_dim=in_dim, device="cpu", channels=1, num_kernels=1, tree_depth=1, receptive_field_size=2,
                            stride=stride, weight_init="random")
        for level in strip.tree_weights:                      # XOR everywhere: the output depends on every pixel of the window
            for w in level:
                nets.set_gates(ck.rng, w, [6] * w.shape[0], "raw")
        model = torch.nn.Sequential(strip)
        spec = nets.extract(model)
        row = [ck.rng.randrange(2) for _ in range(in_dim[0] * in_dim[1])]
        ref = nets.eval_spec(spec, row)
        strip.eval()
        with torch.no_grad():
            got = [int(v) for v in strip(torch.tensor(row, dtype=torch.float32).reshape(1, 1, *in_dim)).reshape(-1).tolist()]
        ck.case({"kind": "long-strip", "in_dim": list(in_dim), "stride": stride}, nontrivial=True, kind="long-strip")
        if got != ref:
            bad = next(i for i, (a, b) in enumerate(zip(got, ref)) if a != b)
            ck.disagree("convolution output at a far position is not the kernel tree applied to its window", {"in_dim": list(in_dim), "stride": stride,
                        "first_bad_position": bad, "positions": len(ref)}, signature={"what": "long-strip"})
        ck.count("long_strip_positions", len(ref))
    return ck.finish()


def replay(ck, path):
    return run(ck)
