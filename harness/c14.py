"""C14 — the compiler is faithful or refuses; it never silently changes the function."""
import numpy as np
import torch

from harness import coqio, nets, compiled
from harness.common import Check
from translate import parse as t_parse, gatecode as t_gc

THEOREMS = ["C14_dispatch", "C14_parse_sound", "C14_rejects_foreign", "C14_structure", "C14_groupsum_last", "C14_faithful_dense",
            "C14_handle_tables", "C14_handle_histories", "C14_tables_on_parse_refuted"]
TRUSTED = [
    "Coq 8.16.1 kernel/coqc; theorems closed under the global context",
    "translator translate/parse.py: isinstance dispatch chain of _parse_model (handled classes, behaviour of the final else, Identity) "
    "and presence of each structural check of _validate_structure (text match); the decision model Model/Parse.v is hand-written and "
    "tied by the catalogue run: raise-vs-construct compared with `parse` evaluated in the kernel",
    "'foreign torch modules' is an open class represented by one kind MForeign (any class other than the seven handled ones)",
    "faithfulness of accepted conv/pool stacks is decided per sampled model by comparison with model.eval() on exhaustive / random inputs "
    "(and by C02); for dense stacks it is the theorem C01_logic_net",
]


def _is(m, base):
    """an instance of `base` that computes base's forward (the class itself or a subclass that does not override forward)"""
    # the layer itself: exactly the class (a subclass may override forward or anything forward goes through), no forward on the
    # instance, no forward hooks
    return type(m) is base and "forward" not in vars(m) and not m._forward_hooks and not m._forward_pre_hooks


def mkind(m):
    from torchlogix.layers import LogicDense, LogicConv2d, LogicConv3d, OrPooling, GroupSum
    if _is(m, LogicDense):
        if any(int(i.min()) < 0 or int(i.max()) >= m.in_dim for i in m.indices):
            return '(MForeign "LogicDense with wiring outside its input")'
        return f"MDense {m.in_dim} {m.out_dim}"
    if _is(m, LogicConv2d) or _is(m, LogicConv3d):
        dims = len(m.in_dim)
        lim = [int(n) + 2 * int(m.padding or 0) for n in m.in_dim] + [m.channels]
        for t in m.indices[0]:
            t2 = t.reshape(-1, dims + 1)
            if int(t2.min()) < 0 or any(int(t2[:, d].max()) >= L for d, L in enumerate(lim)):
                return '(MForeign "logic convolution with wiring outside its padded input")'

        rf = list(m.receptive_field_size) if isinstance(m.receptive_field_size, (tuple, list)) else [m.receptive_field_size] * dims
        return f"MConv {m.channels} {nets._nl(m.in_dim)} {nets._nl(rf)} {m.stride} {m.padding} {m.num_kernels}"
    if _is(m, OrPooling):
        return f"MPool {m.kernel_size} {m.stride} {m.padding}"
    if _is(m, torch.nn.Flatten):
        if (m.start_dim, m.end_dim) != (1, -1):
            return f'(MForeign "Flatten({m.start_dim},{m.end_dim})")'     # not the flatten the emitters implement
        return "MFlatten"
    if _is(m, GroupSum):
        if bool(torch.as_tensor(m.beta).ne(0).any()):
            return '(MForeign "GroupSum with an offset")'          # the library returns the counts: an offset cannot be expressed
        return f"MGroupSum {m.k}"
    if _is(m, torch.nn.Identity):
        return "MIdentity"
    return f'(MForeign "{type(m).__name__}")'


def catalogue(ck):
    from torchlogix.layers import LogicDense, LogicConv2d, LogicConv3d, OrPooling, GroupSum, LearnableThermometerThresholding
    from torchlogix.models.conv import ResidualLogicBlock, ClgnCifar10Res
    rng = ck.rng
    S = torch.nn.Sequential

    def D(i, o, **kw):
        l = LogicDense(i, o, device="cpu", **kw)
        nets.set_gates(rng, l, [rng.randrange(16) for _ in range(o)], kw.get("parametrization", "raw"))
        return l

    def C(in_dim, ch, k, rf=2, depth=1, **kw):
        l = LogicConv2d(in_dim=in_dim, device="cpu", channels=ch, num_kernels=k, tree_depth=depth, receptive_field_size=rf, **kw)
        nets.set_tree_gates(rng, l, kw.get("parametrization", "raw"))
        return l

    def C3(in_dim, ch, k, rf=2, depth=1, **kw):
        l = LogicConv3d(in_dim=in_dim, device="cpu", channels=ch, num_kernels=k, tree_depth=depth, receptive_field_size=rf, **kw)
        nets.set_tree_gates(rng, l, "raw")
        return l

    G = lambda k: GroupSum(k, device="cpu")
    F = torch.nn.Flatten
    I = torch.nn.Identity
    P = OrPooling
    cases = []
    add = lambda name, mk: cases.append((name, mk))
    add("dense", lambda: S(D(4, 6), D(6, 4), G(2)))
    add("dense-flatten", lambda: S(F(), D(4, 6), D(6, 6), D(6, 4), G(4)))
    add("dense-nogs", lambda: S(D(5, 3)))
    add("dense-identity", lambda: S(I(), D(4, 6), I(), I(), D(6, 4), I(), G(2), I()))
    add("dense-walsh", lambda: S(D(4, 6, parametrization="walsh"), D(6, 4, parametrization="walsh"), G(2)))
    add("conv", lambda: S(C(3, 1, 2), F(), G(2)))
    add("conv-pool-dense", lambda: S(C((3, 4), 1, 2), P(2, 1, 0), F(), D(8, 4), D(4, 4), G(2)))
    # pooling windows that overlap, leave gaps, or are clipped by the padding (stride != kernel), outputs visible without a group sum
    add("conv-pool-overlap", lambda: S(C((3, 3), 1, 2), P(2, 1, 0), F()))
    add("conv-pool-pad-overlap", lambda: S(C((3, 3), 1, 2), P(3, 2, 1), F()))
    add("conv-pool-overlap-pad1", lambda: S(C((2, 4), 1, 2, padding=1), P(3, 1, 1), F()))
    add("conv-pool-gap", lambda: S(C((4, 3), 1, 2, padding=1), P(1, 2, 0), F()))
    add("conv3d-pool-overlap", lambda: S(C3(2, 1, 2, padding=1), P(2, 1, 0), F()))
    add("conv-conv-pad", lambda: S(C(3, 1, 2, padding=1), C(4, 2, 2, rf=3, padding=1), F(), G(4)))
    add("conv-walsh", lambda: S(C(3, 1, 2, parametrization="walsh"), I(), F(), D(8, 4, parametrization="walsh"), G(2)))
    add("conv3d", lambda: S(C3(2, 1, 2, padding=1), F(), D(54, 4), G(1)))
    add("conv-noflatten-nogs", lambda: S(C(3, 1, 2)))
    add("nested-seq", lambda: S(S(D(4, 6)), D(6, 4), G(2)))
    add("nested-seq-conv", lambda: S(S(C(3, 1, 2), P(2, 1, 0)), F(), G(1)))
    add("nested-all", lambda: S(S(D(4, 6), D(6, 4), G(2))))
    add("foreign-relu", lambda: S(D(4, 6), torch.nn.ReLU(), D(6, 4), G(2)))
    add("foreign-linear", lambda: S(D(4, 6), torch.nn.Linear(6, 6), D(6, 4), G(2)))
    add("foreign-dropout", lambda: S(D(4, 6), torch.nn.Dropout(0.5), G(2)))
    add("foreign-maxpool", lambda: S(C(4, 1, 2), torch.nn.MaxPool2d(2, 1), F(), G(1)))
    add("foreign-maxpool-dilated", lambda: S(C(6, 1, 2), torch.nn.MaxPool2d(2, 2, dilation=2), F(), G(1)))
    add("foreign-batchnorm", lambda: S(D(4, 6), torch.nn.BatchNorm1d(6), G(2)))
    add("residual", lambda: S(ResidualLogicBlock(in_dim=4, in_channels=1, out_channels=2, tree_depth=1, device="cpu"), F(), D(32, 4), G(2)))
    add("library-res", lambda: ClgnCifar10Res(n_bits=1, k_num=1, tau=1.0, device="cpu"))
    add("thermo", lambda: S(LearnableThermometerThresholding([1.0, 2.0]), C(3, 2, 2), F(), G(1)))
    add("pool-first", lambda: S(P(2, 2), C(2, 1, 2), F(), G(1)))
    add("conv-dense-noflatten", lambda: S(C(3, 1, 2), D(8, 4), G(2)))
    add("conv-gs-noflatten", lambda: S(C(4, 1, 2), G(3)))
    add("flatten-between-dense", lambda: S(D(4, 6), F(), D(6, 4), G(2)))
    add("two-flatten", lambda: S(C(3, 1, 2), F(), F(), G(2)))
    add("gs-middle", lambda: S(D(4, 6), G(2), D(2, 4)))
    add("gs-twice", lambda: S(D(4, 6), G(3), G(1)))
    add("gs-first", lambda: S(G(2), D(4, 6)))
    add("n-mod-k", lambda: S(D(4, 7), G(2)))
    add("n-mod-k-last-in-ok", lambda: S(D(4, 6), D(6, 7), G(3)))
    add("n-mod-k-last-out-ok", lambda: S(D(4, 7), D(7, 9), G(3)))
    add("dense-mismatch", lambda: S(D(4, 6), D(5, 4), G(2)))
    add("conv-mismatch-channels", lambda: S(C(4, 1, 2), C(3, 3, 2), F(), G(1)))
    add("conv-mismatch-size", lambda: S(C(4, 1, 2), C(4, 2, 2), F(), G(1)))
    add("dense-after-flatten-mismatch", lambda: S(C(3, 1, 2), F(), D(9, 4), G(2)))
    add("conv-after-dense", lambda: S(D(4, 9), C(3, 1, 2), F(), G(1)))
    add("pool-after-dense", lambda: S(D(4, 8), P(2, 2), G(1)))
    add("only-flatten-gs", lambda: S(F(), G(1)))
    # a Flatten that keeps some axes is not the module the emitters implement (found by an independent review: it was compiled as a full flatten)
    add("flatten-start2-gs", lambda: S(C(4, 1, 2), F(start_dim=2), G(3)))
    add("flatten-start0", lambda: S(C(3, 1, 2), F(0), G(2)))
    add("flatten-1-2", lambda: S(C((3, 4), 1, 2), F(1, 2), G(3)))
    add("dense-flatten-start2", lambda: S(F(start_dim=2), D(4, 6), G(2)))
    # the same module objects at several positions: every application must be compiled
    add("shared-dense", lambda: (lambda d: S(d, d, G(2)))(D(4, 4)))
    add("shared-pool", lambda: (lambda p_: S(C(5, 1, 2), p_, C(3, 2, 2, rf=1), p_, F(), G(2)))(P(2, 1, 0)))
    # hand-made wiring with Python-style negative indices (PyTorch wraps them around; C does not)
    def neg_dense():
        d = D(6, 4)
        a, b = d.indices
        a = a.clone(); a[0] = -1
        d.indices = (a, b)
        return S(d, G(2))

    def neg_conv_channel():
        c = C(3, 2, 2)
        ia, ib = c.indices[0]
        ia = ia.clone(); ia[0, 0, 0, 2] = -1
        c.indices[0] = (ia, ib)
        return S(c, F(), G(2))
    add("wiring-negative-dense", neg_dense)
    add("wiring-negative-conv-channel", neg_conv_channel)
    # containers whose forward is not the plain chain
    class OrChain(torch.nn.Sequential):
        def forward(self, x):
            y = super().forward(x)
            return torch.maximum(y, x) if y.shape == x.shape else y

    class PlainSub(torch.nn.Sequential):      # a subclass that does NOT override forward (like the library's own model classes) is fine
        pass
    add("container-own-forward", lambda: OrChain(D(4, 4), D(4, 4)))
    add("container-plain-subclass", lambda: PlainSub(D(4, 6), D(6, 4), G(2)))
    add("container-modulelist", lambda: torch.nn.ModuleList([D(4, 6), D(6, 4)]))
    # modules that are instances of a supported class but not the class itself are foreign (a subclass may compute something else
    # through any overridden method), also a plain subclass: a loud refusal
    from torchlogix.layers import LogicDense as LD_, OrPooling as OP_, GroupSum as GS_

    class NegatedDense(LD_):
        def forward(self, x):
            return 1 - super().forward(x)

    class MinPooling(OP_):
        def forward(self, x):
            return -super().forward(-x)

    class Not(torch.nn.Identity):
        def forward(self, x):
            return 1 - x

    class HalfSum(GS_):
        def forward(self, x):
            return super().forward(x) / 2

    class MyDense(LD_):
        pass
    add("override-dense", lambda: S(NegatedDense(4, 6, device="cpu"), D(6, 4), G(2)))
    add("override-pool", lambda: S(C(4, 1, 2), MinPooling(2, 1, 0), F(), G(2)))
    add("override-identity", lambda: S(D(4, 6), Not(), D(6, 4), G(2)))
    add("override-groupsum", lambda: S(D(4, 6), HalfSum(2, device="cpu")))
    add("plain-subclass-dense", lambda: S(MyDense(4, 6, device="cpu"), D(6, 4), G(2)))
    # an offset on the group sum cannot be expressed by a library that returns counts
    add("groupsum-beta", lambda: S(D(4, 6), GS_(3, beta=0.5, device="cpu")))
    add("groupsum-beta-per-class", lambda: S(D(4, 6), GS_(3, beta=torch.tensor([0.0, 0.0, 4.0]), device="cpu")))
    add("groupsum-beta-zero-tensor", lambda: S(D(4, 6), GS_(3, beta=torch.zeros(3), device="cpu")))
    add("empty", lambda: S())
    add("identity-only", lambda: S(I(), I()))
    return cases


def run(ck: Check):
    ck.trusted = TRUSTED
    ck.rule = ("catalogue of containers (supported flat stacks incl. Identity, Walsh, 3-D, padding; nested Sequential; residual block and "
               "the library's ClgnCifar10Res; thresholding; pooling-first; missing / misplaced / repeated Flatten and GroupSum; "
               "n % k != 0; shape mismatches; foreign torch modules incl. MaxPool2d with dilation), each built with random gates; "
               "outcome (raises at construction | raises at compile | compiles) compared with `parse` evaluated in the Coq kernel; "
               "compiled ones compared with model.eval() on exhaustive (<= 2^10) or random inputs. Non-trivial: container with an "
               "unsupported feature or more than one layer. Distinct = canonical JSON of (name, kinds). Also: the model changed between constructor and compile (weights, container structure), a handle after get_c_code() / a refused compile() on a changed container, twelve ways of changing what a layer or the model computes without overriding forward, random operation sequences {container := m, get_c_code, compile, call} on one object against Model/Handle.hrun in the kernel.")
    ck.translate("Parse", t_parse.gen_parse)
    ck.translate("GateCode", t_gc.gen_gatecode)
    ck.prove("Props/C14", THEOREMS)
    rng = ck.rng
    rows = []
    reps = 1 if ck.tier == "quick" else 3
    for rep in range(reps):
        for name, mk in catalogue(ck):
            torch.manual_seed(ck.seed * 17 + rep)
            try:
                model = mk()
            except Exception as e:
                ck.notes.append(f"catalogue entry {name} could not be built: {e!r}")
                continue
            mods = list(model)
            kinds = [mkind(m) for m in mods]
            if (type(model).forward is not torch.nn.Sequential.forward or "forward" in vars(model) or model._forward_hooks
                    or model._forward_pre_hooks):
                # the container itself is not a plain chain (a Sequential subclass overriding forward, a ModuleList): foreign
                kinds = [f'(MForeign "container:{type(model).__name__}")'] + kinds
            W = rng.choice([8, 16, 32, 64])
            case = {"name": name, "kinds": kinds, "W": W}
            ck.case(case, nontrivial=len(kinds) > 1, kind=name.split("-")[0])
            stage, net = "constructed", None
            try:
                net = compiled.build(model, W)
            except Exception as e:
                stage = "raises-at-construction:" + type(e).__name__
            if net is not None:
                try:
                    compiled.compile_net(net)
                    stage = "compiled"
                except Exception as e:
                    stage = "raises-at-compile:" + type(e).__name__
            rows.append((case, stage))
            if stage != "compiled":
                continue
            # faithful?
            try:
                spec = nets.extract(model) if all(not isinstance(m, torch.nn.Identity) for m in mods) else \
                    nets.extract(torch.nn.Sequential(*[m for m in mods if not isinstance(m, torch.nn.Identity)]))
                n_in = int(np.prod(spec["input_shape"]))
                rws, _ = nets.input_rows(rng, n_in, 10)
                x = torch.tensor(rws, dtype=torch.float32).reshape(len(rws), *spec["input_shape"])
                model.eval()
                with torch.no_grad():
                    y = model(x)
                tau = spec["tau"] or 1.0
                exp = [[round(v * tau) for v in r] for r in y.reshape(len(rws), -1).tolist()]
                got = compiled.forward(net, np.array(rws, dtype=bool).reshape(len(rws), *spec["input_shape"]).tolist())
                got = [list(np.array(r).reshape(-1)) for r in got]
                if got != exp:
                    j = next(i for i in range(len(rws)) if got[i] != exp[i])
                    ck.disagree("compiled library differs from the eval-mode model of the whole container", dict(case, row=rws[j]),
                                expected=exp[j], observed=[int(v) for v in got[j]], signature={"name": name, "what": "unfaithful"})
                ck.count("compiled_and_compared")
            except Exception as e:
                # the torch model itself cannot be evaluated / is not of the supported form, yet it compiled
                ck.disagree("container compiled although its eval-mode function cannot be reproduced (unsupported structure accepted)",
                            case, observed=repr(e)[:300], signature={"name": name, "what": "accepted-unsupported"})
    # the model changes between the constructor and compile() (the checkpoint is loaded afterwards, training goes on, a second
    # compile follows): the library must compute the model as it is when compile() runs
    for kind in ("dense", "conv"):
        for change in ("load_state_dict", "in-place", "recompile-after-change"):
            mkm = (lambda: nets.make_dense(rng, 5, [8, 6], k=2)) if kind == "dense" else \
                  (lambda: nets.make_custom(rng, (1, 4, 4), [("conv", dict(K=2, depth=1, rf=2)), ("flatten",), ("dense", 6), ("gs", 2)]))
            torch.manual_seed(ck.seed + 5)
            model = mkm()
            torch.manual_seed(ck.seed + 6)
            other = mkm()
            case = {"kind": "model-changed-before-compile", "model": kind, "change": change}
            ck.case(case, nontrivial=True, kind="stale-snapshot")
            try:
                net = compiled.build(model, 8)
                if change == "recompile-after-change":
                    compiled.compile_net(net)
                if change == "in-place":
                    with torch.no_grad():
                        for p_ in model.parameters():
                            p_.copy_(torch.randn_like(p_))
                else:
                    model.load_state_dict(other.state_dict())
                compiled.compile_net(net)
                spec = nets.extract(model)
                n_in = int(np.prod(spec["input_shape"]))
                rws, _ = nets.input_rows(rng, n_in, 8)
                x = torch.tensor(rws, dtype=torch.float32).reshape(len(rws), *spec["input_shape"])
                model.eval()
                with torch.no_grad():
                    y = model(x)
                exp = [[round(v * (spec["tau"] or 1.0)) for v in r] for r in y.reshape(len(rws), -1).tolist()]
                got = [list(np.array(r).reshape(-1)) for r in
                       compiled.forward(net, np.array(rws, dtype=bool).reshape(len(rws), *spec["input_shape"]).tolist())]
            except Exception as e:
                ck.disagree("compiling a model that changed after the CompiledLogicNet was constructed fails", case, observed=repr(e)[:300],
                            signature={"what": "stale-snapshot", "kind": "error"})
                continue
            if got != exp:
                nbad = sum(1 for a_, b_ in zip(got, exp) if a_ != b_)
                ck.disagree("compile() built the library of the model as it was when the CompiledLogicNet was constructed, not as it is now",
                            dict(case, differing_rows=nbad, rows=len(exp)), signature={"what": "stale-snapshot", "kind": "wrong"})
    # the CONTAINER changes between the constructor / a first compile and a second compile on the same object (the group sum is
    # removed, replaced or added, a layer is dropped): everything the first parse recorded (class count, input shape, layer tables)
    # must be forgotten - the library computes the container as it is now, or the compilation is refused
    from torchlogix.layers import GroupSum as _GS
    for kind in ("dense", "conv"):
        for change in ("drop-groupsum", "other-k", "add-groupsum", "drop-last-dense", "narrower-last-dense", "wider-last-dense"):
            for first_compile in (False, True):
                torch.manual_seed(ck.seed + 9)
                if kind == "dense":
                    model = nets.make_dense(rng, 5, [8, 12, 12], k=None if change == "add-groupsum" else 3)
                else:
                    model = nets.make_custom(rng, (1, 4, 4), [("conv", dict(K=2, depth=1, rf=2)), ("flatten",), ("dense", 12), ("dense", 12)]
                                             + ([] if change == "add-groupsum" else [("gs", 3)]))
                case = {"kind": "container-changed-before-compile", "model": kind, "change": change, "compiled_before": first_compile}
                ck.case(case, nontrivial=True, kind="stale-structure")
                try:
                    net = compiled.build(model, 8)
                    if first_compile:
                        compiled.compile_net(net)
                except Exception as e:
                    ck.disagree("a supported container was refused", case, observed=repr(e)[:200], signature={"what": "stale-structure", "kind": "setup"})
                    continue
                if change == "drop-groupsum":
                    del model[-1]
                elif change == "other-k":
                    model[-1] = _GS(4, 1.0, device="cpu")
                elif change == "add-groupsum":
                    model.append(_GS(2, 1.0, device="cpu"))
                elif change in ("narrower-last-dense", "wider-last-dense"):
                    # the last layer is replaced by one of another width (12 -> 6 / 24 outputs, still divisible by k = 3): the adder must
                    # be built for the width the container has NOW
                    from torchlogix.layers import LogicDense as _LD
                    n_out = 6 if change == "narrower-last-dense" else 24
                    new_last = _LD(12, n_out, device="cpu")
                    nets.set_gates(rng, new_last, [rng.randrange(16) for _ in range(n_out)], "raw")
                    model[-2] = new_last
                else:
                    del model[-2]
                try:
                    compiled.compile_net(net)
                except Exception as e:
                    ck.count("changed_container_refused")
                    continue
                try:
                    mods_now = list(model)
                    spec = nets.extract(model)
                    n_in = int(np.prod(spec["input_shape"]))
                    rws, _ = nets.input_rows(rng, n_in, 8)
                    x = torch.tensor(rws, dtype=torch.float32).reshape(len(rws), *spec["input_shape"])
                    model.eval()
                    with torch.no_grad():
                        y = model(x)
                    exp = [[round(v * (spec["tau"] or 1.0)) for v in r] for r in y.reshape(len(rws), -1).tolist()]
                    got = [[int(v) for v in np.array(r).reshape(-1)] for r in
                           compiled.forward(net, np.array(rws, dtype=bool).reshape(len(rws), *spec["input_shape"]).tolist())]
                except Exception as e:
                    ck.disagree("a container changed after the CompiledLogicNet was constructed compiles but cannot be evaluated", case,
                                observed=repr(e)[:300], signature={"what": "stale-structure", "kind": "error"})
                    continue
                ck.count("changed_container_compared")
                if got != exp:
                    j = next(i for i in range(len(exp)) if i >= len(got) or got[i] != exp[i])
                    ck.disagree("compile() on an object whose container changed since it was parsed computes the old structure (class count / layers of the earlier parse)",
                                dict(case, row=rws[j]), expected=exp[j], observed=got[j] if j < len(got) else None,
                                signature={"what": "stale-structure", "kind": "wrong", "change": change})
    # a handle that holds a compiled library keeps computing THAT library's model whatever is done to the object afterwards short of
    # a successful compile: generating the C text of a changed container (get_c_code() is the documented export), or a compile()
    # that is refused, must not leave the handle describing one model (class count, sizes) while it calls the library of another.
    # (only changes that make the described output LARGER are run in this process: the other direction writes past the buffer)
    for change, act in (("other-k-larger", "get_c_code"), ("other-k-refused", "compile"), ("unsupported-layer-appended", "compile"),
                        ("other-k-larger", "get_c_code-then-restore")):
        torch.manual_seed(ck.seed + 10)
        model = nets.make_dense(rng, 5, [8, 12], k=3)
        case = {"kind": "handle-after-failed-or-partial-regeneration", "change": change, "action": act}
        ck.case(case, nontrivial=True, kind="stale-handle")
        rws = nets.all_rows(5)
        try:
            net = compiled.build(model, 8)
            compiled.compile_net(net)
            before = [[int(v) for v in r] for r in compiled.forward(net, rws)]
        except Exception as e:
            ck.disagree("a supported container was refused", case, observed=repr(e)[:200], signature={"what": "stale-handle", "kind": "setup"})
            continue
        old_last = model[-1]
        if change == "other-k-larger":
            model[-1] = _GS(4, 1.0, device="cpu")
        elif change == "other-k-refused":
            model[-1] = _GS(5, 1.0, device="cpu")
        else:
            model.append(torch.nn.ReLU())
        try:
            if act.startswith("get_c_code"):
                net.get_c_code()
            else:
                compiled.compile_net(net)
                continue                       # the change was compiled: covered by the protocol above
        except Exception:
            pass
        if act.endswith("restore"):
            model[-1] = old_last
        try:
            after = [[int(v) for v in r] for r in compiled.forward(net, rws)]
        except Exception as e:
            ck.count("stale_handle_refuses")
            continue
        ck.count("stale_handle_compared")
        if after != before:
            j = next(i for i in range(len(rws)) if i >= len(after) or after[i] != before[i])
            ck.disagree("a compiled handle returns other results after get_c_code() / a refused compile() on the changed container: the tables "
                        "of the new parse are used with the library of the old model", dict(case, row=rws[j]), expected=before[j],
                        observed=after[j] if j < len(after) else None, signature={"what": "stale-handle", "kind": "wrong"})
    # a layer that does not compute what its class says: a subclass overriding a method forward goes through (not only forward), a
    # forward assigned on the instance, a forward hook that returns another output - on a layer or on the container.  Faithful or refused
    from torchlogix.layers import LogicDense as _LD14, LogicConv2d as _LC14
    class _NegPy(_LD14):
        def forward_python(self, x):
            return 1.0 - super().forward_python(x)
    class _NegLevel(_LC14):
        def _raw_level_weights(self, level):
            w = super()._raw_level_weights(level)
            return w.flip(-1)
    def _mk(kind):
        torch.manual_seed(ck.seed + 14)
        if kind == "subclass-forward_python":
            l = _NegPy(5, 8, device="cpu", weight_init="random")
            return torch.nn.Sequential(l, _GS(2, 1.0, device="cpu")), (5,)
        if kind == "subclass-level-weights":
            l = _NegLevel(in_dim=(3, 3), device="cpu", channels=1, num_kernels=2, tree_depth=1, receptive_field_size=2, weight_init="random")
            return torch.nn.Sequential(l, torch.nn.Flatten(), _GS(2, 1.0, device="cpu")), (1, 3, 3)
        l = _LD14(5, 8, device="cpu", weight_init="random")
        m = torch.nn.Sequential(l, _GS(2, 1.0, device="cpu"))
        if kind == "instance-forward":
            orig = l.forward
            l.forward = lambda x: 1.0 - orig(x)
        elif kind == "layer-hook":
            l.register_forward_hook(lambda mod, inp, out: 1.0 - out)
        elif kind == "container-hook":
            m.register_forward_hook(lambda mod, inp, out: out.flip(-1))
        elif kind == "container-instance-forward":
            chain = m.forward
            m.forward = lambda x: chain(1.0 - x)
        elif kind == "layer-pre-hook":
            l.register_forward_pre_hook(lambda mod, inp: (1.0 - inp[0],))
        elif kind == "instance-forward_python":
            plain = l.forward_python
            l.forward_python = lambda x: 1.0 - plain(x)
        elif kind == "wiring-longer-than-gates":
            l1 = _LD14(4, 1, device="cpu", weight_init="random")
            l1.indices = (torch.tensor([0, 1, 2, 3, 0, 2]), torch.tensor([1, 2, 3, 0, 2, 1]))     # one gate row broadcast over six pairs
            return torch.nn.Sequential(l1, _GS(2, 1.0, device="cpu")), (4,)
        elif kind == "weight-one-shared-row":
            l2 = _LD14(4, 6, device="cpu", weight_init="random")
            l2.weight = torch.nn.Parameter(l2.weight.detach()[:1].clone())      # one gate row broadcast over the six wired pairs
            return torch.nn.Sequential(l2, _GS(2, 1.0, device="cpu")), (4,)
        elif kind == "container-overrides-call":
            class _CallSeq(torch.nn.Sequential):
                def __call__(self, x):
                    return 4 - super().__call__(x)
            return _CallSeq(l, _GS(2, 1.0, device="cpu")), (5,)
        elif kind == "groupsum-tau-negative-later":
            m[-1].tau = -1.0                 # the model then raises on every input: there is no eval function to compile
        elif kind == "groupsum-k-zero-later":
            m[-1].k = 0
        return m, (5,)
    def _mk_conv_patched():
        torch.manual_seed(ck.seed + 14)
        l = _LC14(in_dim=(3, 3), device="cpu", channels=1, num_kernels=2, tree_depth=1, receptive_field_size=2, weight_init="random")
        plain = l._raw_level_weights
        l._raw_level_weights = lambda level: plain(level).flip(-1)
        return torch.nn.Sequential(l, torch.nn.Flatten(), _GS(2, 1.0, device="cpu")), (1, 3, 3)
    import torch.nn.modules.module as _tm
    for kind in ("subclass-forward_python", "subclass-level-weights", "instance-forward", "layer-hook", "layer-pre-hook", "container-hook",
                 "container-instance-forward", "instance-forward_python", "instance-level-weights", "global-forward-hook",
                 "groupsum-tau-negative-later", "groupsum-k-zero-later", "wiring-longer-than-gates", "weight-one-shared-row", "container-overrides-call"):
        case = {"kind": "modified-layer", "how": kind}
        ck.case(case, nontrivial=True, kind="modified-layer")
        model, shp = _mk_conv_patched() if kind == "instance-level-weights" else _mk("plain" if kind == "global-forward-hook" else kind)
        ghandle = None
        if kind == "global-forward-hook":
            ghandle = _tm.register_module_forward_hook(lambda mod, inp, out: (1.0 - out) if isinstance(mod, _LD14) else None)
        try:
            try:
                net = compiled.build(model, 8)
                compiled.compile_net(net)
            except Exception:
                ck.count("modified_layer_refused")
                continue
            n_in = int(np.prod(shp))
            rws, _ = nets.input_rows(rng, n_in, 9)
            x = torch.tensor(rws, dtype=torch.float32).reshape(len(rws), *shp)
            model.eval()
            try:
                with torch.no_grad():
                    exp = [[int(round(v)) for v in r] for r in model(x).reshape(len(rws), -1).tolist()]
            except Exception as e:
                ck.disagree("a model that raises on every input (it has no eval-mode function) was compiled into a library that returns numbers",
                            dict(case, model_raises=repr(e)[:120]), signature={"what": "modified-layer", "how": kind})
                continue
            got = [[int(v) for v in np.array(r).reshape(-1)] for r in compiled.forward(net, np.array(rws, dtype=bool).reshape(len(rws), *shp).tolist())]
        finally:
            if ghandle is not None:
                ghandle.remove()
        if got != exp:
            ck.disagree("a layer / container whose function was changed (subclass overriding a method forward goes through, forward replaced on the "
                        "instance, forward hook) is compiled as the plain layer", dict(case, differing_rows=sum(1 for a, b in zip(got, exp) if a != b), rows=len(exp)),
                        signature={"what": "modified-layer", "how": kind})
        continue
        n_in = int(np.prod(shp))
        rws, _ = nets.input_rows(rng, n_in, 9)
        x = torch.tensor(rws, dtype=torch.float32).reshape(len(rws), *shp)
        model.eval()
        with torch.no_grad():
            exp = [[int(round(v)) for v in r] for r in model(x).reshape(len(rws), -1).tolist()]
        got = [[int(v) for v in np.array(r).reshape(-1)] for r in compiled.forward(net, np.array(rws, dtype=bool).reshape(len(rws), *shp).tolist())]
        if got != exp:
            ck.disagree("a layer / container whose function was changed (subclass overriding a method forward goes through, forward replaced on the "
                        "instance, forward hook) is compiled as the plain layer", dict(case, differing_rows=sum(1 for a, b in zip(got, exp) if a != b), rows=len(exp)),
                        signature={"what": "modified-layer", "how": kind})
    # Model/Handle.hrun against one real object: random sequences of {change the container to variant m, get_c_code(), compile(), call}
    # (variants 1..3 = the same two dense layers with GroupSum(2 / 3 / 4), 0 = an unsupported layer appended); a call is classified as
    # the outputs of variant l, no library, or garbage.  (variants only GROW the output relative to the installed library when the
    # discipline read from the source is the old one, so a wrong description cannot make the library write past the buffer here)
    def _variant(model, m):
        del model[2:]
        model.append(_GS({0: 2, 1: 2, 2: 3, 3: 4}[m], 1.0, device="cpu"))
        if m == 0:
            model.append(torch.nn.ReLU())
    torch.manual_seed(ck.seed + 15)
    base = nets.make_dense(rng, 5, [8, 12], k=2)
    rows5 = nets.all_rows(5)
    refs = {}
    for m in (1, 2, 3):
        _variant(base, m)
        refs[m] = [[int(round(v)) for v in r] for r in compiled.torch_eval(base, rows5).tolist()]
    seqs = [["compile", "call", ("set", 2), "getcode", "call"], ["compile", ("set", 0), "compile", ("set", 1), "call"],
            ["call", "getcode", "compile", ("set", 3), "getcode", "call", "compile", "call"]]
    for _ in range(6 if ck.tier == "quick" else 40):
        sq, mx = [], 1
        for _ in range(rng.randrange(4, 9)):
            o = rng.choice(["set", "getcode", "compile", "call", "call"])
            if o == "set":
                m = rng.choice([0, 1, 2, 3])
                sq.append(("set", m))
            else:
                sq.append(o)
        seqs.append(sq)
    htxt = ("From Coq Require Import List Arith. Import ListNotations.\nFrom TLX Require Import Model.Handle Gen.Parse.\n"
            "Definition show (o : hout) : nat * nat := match o with HOk => (0, 0) | HRefused => (1, 0) | HValue m => (2, m) | HGarbage => (3, 0) | HNoLibrary => (4, 0) end.\n"
            "Eval vm_compute in [" + ";\n ".join("map show (hrun tables_discipline_src (hinit 1) [" + "; ".join(
                (f"HSet {o[1]}" if isinstance(o, tuple) else {"getcode": "HGetCode", "compile": "HCompile", "call": "HCall"}[o]) for o in sq) + "])" for sq in seqs) + "].\n")
    rc, out, err = ck.coq_eval("c14h", htxt)
    hpred = coqio.parse_evals(out)[0] if rc == 0 else None
    if hpred is None:
        ck.broke("correspondence", "kernel evaluation of Model/Handle", err[-500:])
    for si, sq in enumerate(seqs):
        _variant(base, 1)
        case = {"kind": "handle-sequence", "ops": [list(o) if isinstance(o, tuple) else o for o in sq]}
        ck.case(case, nontrivial=True, kind="handle-sequence")
        net = compiled.build(base, 8)
        obs, installed = [], None
        for o in sq:
            if isinstance(o, tuple):
                _variant(base, o[1])
                obs.append((0, 0))
            elif o == "getcode":
                try:
                    net.get_c_code()
                    obs.append((0, 0))
                except Exception:
                    obs.append((1, 0))
            elif o == "compile":
                try:
                    compiled.compile_net(net)
                    obs.append((0, 0))
                except Exception:
                    obs.append((1, 0))
            else:
                try:
                    got = [[int(v) for v in r] for r in compiled.forward(net, rows5)]
                    hit = [m for m in (1, 2, 3) if got == refs[m]]
                    obs.append((2, hit[0]) if hit else (3, 0))
                except Exception:
                    obs.append((4, 0) if net.lib_fn is None else (3, 0))
        ck.count("handle_sequence_steps", len(sq))
        if hpred is not None and [tuple(p) for p in hpred[si]] != obs:
            j = next(i for i in range(len(obs)) if tuple(hpred[si][i]) != obs[i])
            ck.disagree("one CompiledLogicNet object, container changed between operations: a call does not return the model of the last successful "
                        "compile (or an operation is accepted / refused differently from the model)", dict(case, step=j, observed=obs, predicted=[list(p) for p in hpred[si]]),
                        signature={"what": "stale-handle", "kind": "sequence"})
    # decision model in the kernel
    txt = ("From Coq Require Import String List Arith. Import ListNotations.\nFrom TLX Require Import Model.Parse.\nLocal Open Scope string_scope.\n"
           "Eval vm_compute in [" + ";\n ".join(
               "match parse [" + "; ".join(c["kinds"]) + "] with Some _ => true | None => false end" for c, _ in rows) + "].\n")
    rc, out, err = ck.coq_eval("c14m", txt)
    if rc != 0:
        ck.broke("correspondence", "kernel evaluation of Model/Parse", err[-600:])
    else:
        for (case, stage), acc in zip(rows, coqio.parse_evals(out)[0]):
            ck.count("model_vs_impl_outcomes")
            impl_acc = stage == "compiled"
            if acc and not impl_acc:
                ck.broke("correspondence", "Model/Parse.parse", f"{case['name']}: model accepts, implementation {stage}")
            if not acc and impl_acc:
                ck.disagree("a container outside the supported structure was compiled instead of refused", case,
                            observed=stage, signature={"name": case["name"], "what": "accepted-unsupported"})
    return ck.finish()


def replay(ck, path):
    return run(ck)
