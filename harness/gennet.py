"""Tie between Model/GenNet.gen_net (proved correct for every well-formed network) and CompiledLogicNet.get_c_code():
the strictly parsed emitted text must be syntactically equal to gen_net(architecture extracted from the model object), and the
architecture must be well formed; both are evaluated by vm_compute inside the Coq kernel."""
from harness import coqio, cparse, nets

HEADER = ("From Coq Require Import List Arith Bool ZArith. Import ListNotations.\n"
          "From TLX Require Import Model.CLang Model.ConvNet Model.GenNet.\n")


def case_text(idx, p, sm):
    pg = dict(p, sizes=list(p["sizes"]) + ([0] if p["n_locals"] == 0 else []))   # no scalar temporaries: empty pseudo-array
    return f"Definition m{idx} : spatial_model := {sm}.\nDefinition p{idx} : prog := {cparse.prog_coq(pg)}.\n"


def query(idxs):
    return "Eval vm_compute in [" + "; ".join(
        f"(prog_eqb p{idx} (gen_net m{idx}), wf_spatial_model m{idx}, "
        f"match first_diff (body p{idx}) (body (gen_net m{idx})) 0 with Some d => Z.of_nat d | None => (-1)%Z end, "
        f"list_eqb Nat.eqb (sizes p{idx}) (sizes (gen_net m{idx})))" for idx in idxs) + "].\n"


def check_generator(ck, items, label="c02gen", per_file=6, timeout=900, workers=12):
    """items: list of (idx, spec, parsed program, case dict).  Returns the number of stacks outside the model's fragment."""
    gitems = [(idx, spec, p, case, nets.spatial_model_coq(spec)) for idx, spec, p, case in items]
    skipped = sum(1 for g in gitems if g[4] is None)
    gitems = [g for g in gitems if g[4] is not None]
    chunks = [gitems[i:i + per_file] for i in range(0, len(gitems), per_file)]
    texts = [HEADER + "".join(case_text(idx, p, sm) for idx, spec, p, case, sm in chunk) + query([g[0] for g in chunk]) for chunk in chunks]
    for chunk, (rc, out, err) in zip(chunks, ck.coq_eval_many(label, texts, timeout=timeout, workers=workers)):
        if rc != 0:
            ck.broke("correspondence", "generator model evaluation", err[-600:])
            continue
        for (idx, spec, p, case, sm), (eq, wf, d, szok) in zip(chunk, coqio.parse_evals(out)[0]):
            ck.count("programs_equal_to_generator_model")
            if not (eq and wf):
                where = (f"statement {d}: {p['stmt_lines'][d]}" if 0 <= d < len(p["stmt_lines"]) else
                         ("declared array sizes differ" if not szok else "statement count differs"))
                name = case.get("name") or case.get("kind")
                ck.broke("correspondence", "Model/GenNet.gen_net vs get_c_code()",
                         f"{name} (W={case.get('W')}): " + ("architecture not well formed (wf_spatial_model = false)" if not wf else
                                                            f"emitted text differs from the generator model at {where}"))
    if skipped:
        ck.notes.append(f"{skipped} models outside the generator model's fragment Conv (Conv|Pool)* [Flatten Dense*]")
    return skipped


HEADER_N = ("From Coq Require Import List Arith Bool ZArith NArith. Import ListNotations.\n"
            "From TLX Require Import Model.CLang Model.ConvNet Model.GenNet Model.GenStream.\n")


def large_text(spec, p):
    """Cases file for one LARGE program: binary indices on the parsed side, streaming comparison (Model/GenStream.v)."""
    sm = nets.spatial_model_coq(spec)
    if sm is None:
        return None
    pg = dict(p, sizes=list(p["sizes"]) + ([0] if p["n_locals"] == 0 else []))
    # the statement list is written in chunks of 4000 (a single very long list literal overflows coqc's stack)
    body = pg["body"]
    chunks = [body[i:i + 4000] for i in range(0, len(body), 4000)] or [[]]
    txt = HEADER_N + f"Definition m : spatial_model := {sm}.\n"
    for i, ch in enumerate(chunks):
        txt += f"Definition b{i} : list stmtN := [" + ";\n  ".join(cparse.stmt_coqN(st) for st in ch) + "].\n"
    txt += ("Definition p : progN := {| sizesN := [" + "; ".join(f"{x}%N" for x in pg["sizes"]) + "]; bodyN := " +
            " ++ ".join(f"b{i}" for i in range(len(chunks))) + " |}.\n")
    return txt + "Eval vm_compute in (gen_net_matchesN p m, wf_spatial_model m, first_mismatch p m).\n"


def judge_large(ck, name, p, rc, out, err):
    if rc != 0:
        ck.broke("correspondence", "generator model evaluation (streaming)", f"{name}: " + err[-500:])
        return False
    eq, wf, d = coqio.parse_evals(out)[0]
    ck.count("large_programs_equal_to_generator_model")
    if eq and wf:
        return True
    where = f"statement {d}: {p['stmt_lines'][d]}" if 0 <= d < len(p["stmt_lines"]) else "sizes or statement count differ"
    ck.broke("correspondence", "Model/GenNet.gen_net vs get_c_code()",
             f"{name}: " + ("architecture not well formed (wf_spatial_model = false)" if not wf else
                            f"emitted text differs from the generator model at {where}"))
    return False
