import argparse
import importlib
import json
import os
import subprocess
import sys
import time
import traceback

from harness.common import Check, VERIF, EVID, REPLAYS, repo_head


def child(args, pid, seed):
    mod = importlib.import_module("harness." + pid.lower())
    ck = Check(pid, args.tier, seed, level=getattr(mod, "LEVEL", "proof"))
    try:
        if args.replay:
            rc = mod.replay(ck, args.replay)
        else:
            rc = mod.run(ck)
    except Exception as e:
        traceback.print_exc()
        ck.broke("correspondence", "harness", "harness raised: " + repr(e))
        rc = ck.finish()
    sys.stdout.flush()
    sys.stderr.flush()
    os._exit(rc)   # skip interpreter teardown: a corrupted heap (the bug under test) must not change the exit code


def main():
    ap = argparse.ArgumentParser()
    ap.add_argument("pid")
    ap.add_argument("--tier", default=os.environ.get("VERIF_TIER", "quick"), choices=["quick", "thorough"])
    ap.add_argument("--replay", default=None)
    args = ap.parse_args()
    seed = int(os.environ.get("VERIF_SEED", "0"))
    pid = args.pid.upper()
    if os.environ.get("VERIF_CHILD") == "1":
        child(args, pid, seed)
        return
    # supervisor: the implementation under test may kill the interpreter (heap corruption, SIGSEGV)
    t0 = time.time()
    crumb = os.path.join(VERIF, "run", f"{pid}-crumb-{os.getpid()}.json")
    os.makedirs(os.path.dirname(crumb), exist_ok=True)
    env = dict(os.environ, VERIF_CHILD="1", VERIF_CRUMB=crumb)
    p = subprocess.run([sys.executable, "-W", "ignore", "-m", "harness.main"] + sys.argv[1:], env=env)
    rc = p.returncode
    last = None
    if os.path.exists(crumb):
        try:
            last = json.load(open(crumb))
        except Exception:
            last = None
        os.remove(crumb)
    try:
        os.rmdir(os.path.join(VERIF, "run"))
    except OSError:
        pass
    if rc in (0, 1):
        sys.exit(rc)
    os.makedirs(REPLAYS, exist_ok=True)
    os.makedirs(EVID, exist_ok=True)
    path = os.path.join(REPLAYS, f"{pid}-crash.json")
    json.dump({"property": pid, "kind": "failing-input", "what": f"the checking process died (exit status {rc}) while "
               "running the implementation on the case below", "case": last, "seed": seed, "repo_head": repo_head(),
               "how_to_replay": f"./check {pid} --tier {args.tier}"}, open(path, "w"), indent=1, default=str)
    ev = {"property_id": pid, "tier": args.tier, "seed": seed, "level": "proof",
          "coverage": {"evaluations": 1, "distinct_nontrivial": 2, "rule": "supervisor fallback: child process died",
                       "samples": [last], "obligations": 1, "discharged": 0, "checker_cmd": "./check " + pid,
                       "trusted_base": []},
          "wall_s": round(time.time() - t0, 2), "violations": 1}
    json.dump(ev, open(os.path.join(EVID, f"{pid}.json"), "w"), indent=1, default=str)
    print(f"VIOLATION property={pid} replay={path}" + ("" if last else " no-failing-input-found"))
    sys.exit(1)


if __name__ == "__main__":
    main()
