import argparse
import importlib
import os
import sys
import traceback

from harness.common import Check


def main():
    ap = argparse.ArgumentParser()
    ap.add_argument("pid")
    ap.add_argument("--tier", default=os.environ.get("VERIF_TIER", "quick"), choices=["quick", "thorough"])
    ap.add_argument("--replay", default=None)
    args = ap.parse_args()
    seed = int(os.environ.get("VERIF_SEED", "0"))
    pid = args.pid.upper()
    mod = importlib.import_module("harness." + pid.lower())
    ck = Check(pid, args.tier, seed, level=getattr(mod, "LEVEL", "proof"))
    try:
        if args.replay:
            rc = mod.replay(ck, args.replay)
        else:
            rc = mod.run(ck)
    except Exception as e:
        traceback.print_exc()
        ck.broke("correspondence", "harness", "harness crashed: " + repr(e))
        rc = ck.finish()
    sys.exit(rc)


if __name__ == "__main__":
    main()
