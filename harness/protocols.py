"""Weight-update protocols: after ANY way of changing a layer's parameters (in-place under no_grad, through .data — which does not
bump the tensor's version counter —, load_state_dict, an optimizer step), the reported gate ids, the eval-mode output and a freshly
compiled library must all be those of the CURRENT parameters.  Exercises state that a layer might cache between calls."""
import copy

import numpy as np
import torch

from harness import nets, compiled


def _walsh_rows(rng, gl):
    tab = nets.walsh_table()
    rows = []
    for g in gl:
        scale = 2.0 ** rng.randrange(-2, 3)
        rows.append([x * scale for x in tab[g]])
    return torch.tensor(rows)


def _raw_rows(rng, gl):
    rows = []
    for g in gl:
        vals = [x / 8.0 for x in rng.sample(range(-40, 24), 16)]
        vals[g] = 4.0 + rng.randrange(8) / 8.0
        rows.append(vals)
    return torch.tensor(rows)


def _new_rows(rng, n, param):
    gl = [rng.randrange(16) for _ in range(n)]
    return gl, (_walsh_rows(rng, gl) if param == "walsh" else _raw_rows(rng, gl))


UPDATES = ["copy_", "data_assign", "data_index", "data_mul", "load_state_dict", "sgd_step", "fill_rows"]


def apply_update(rng, layer, w, rows, how):
    """Make parameter tensor w equal to `rows` by the given mechanism."""
    if how == "copy_":
        with torch.no_grad():
            w.copy_(rows)
    elif how == "data_assign":
        w.data = rows.clone()
    elif how == "data_index":
        for i in range(rows.shape[0]):
            w.data[i] = rows[i]
    elif how == "data_mul":
        w.data.mul_(0.0)
        w.data.add_(rows)
    elif how == "fill_rows":
        with torch.no_grad():
            for i in range(rows.shape[0]):
                w[i] = rows[i]
    elif how == "sgd_step":
        # one plain SGD step that lands exactly on `rows` (dyadic values: exact in binary32)
        opt = torch.optim.SGD([w], lr=1.0)
        w.grad = (w.detach() - rows).clone()
        opt.step()
        w.grad = None
    elif how == "load_state_dict":
        sd = copy.deepcopy(layer.state_dict())
        for k, v in sd.items():
            if torch.is_tensor(v) and v.shape == w.shape and torch.equal(v, w.detach()):
                sd[k] = rows.clone()
                break
        layer.load_state_dict(sd)


def dense_protocol(ck, param, what_prefix):
    from torchlogix.layers import LogicDense, GroupSum
    rng = ck.rng
    n_in, n = 4, 12
    rows_in = nets.all_rows(n_in)
    x = torch.tensor(rows_in, dtype=torch.float32)
    for how in UPDATES:
        torch.manual_seed(ck.seed + len(how))
        d = LogicDense(n_in, n, device="cpu", parametrization=param, weight_init="random")
        gl0, r0 = _new_rows(rng, n, param)
        with torch.no_grad():
            d.weight.copy_(r0)
        m = torch.nn.Sequential(d, GroupSum(n, device="cpu"))
        m.eval()
        # prime everything that might cache: a training forward, reported ids, a compiled net and - last, with no mode switch
        # after it - an eval forward
        m.train(); m(x); m.eval()
        d.get_gate_ids()
        compiled.build(m, 8).get_c_code()
        with torch.no_grad():
            m(x)
        for rnd in range(2):
            gl, rows = _new_rows(rng, n, param)
            apply_update(rng, d, d.weight, rows, how)
            case = {"layer": "dense", "param": param, "update": how, "round": rnd}
            ck.case(case, nontrivial=True, kind="update-" + how)
            want = nets.own_gate_ids(d.weight, param)
            if want != gl:
                ck.notes.append(f"update protocol {how}: weights did not land on the intended rows (skipped)")
                continue
            ids = [int(v) for v in d.get_gate_ids().tolist()]
            a, b = d.indices[0].tolist(), d.indices[1].tolist()
            exp = [[nets.tt(gl[i], r[a[i]], r[b[i]]) for i in range(n)] for r in rows_in]
            with torch.no_grad():
                ye = [[int(v) for v in r] for r in m(x).tolist()]
            net = compiled.build(m, 16)
            compiled.compile_net(net)
            yc = [[int(v) for v in r] for r in compiled.forward(net, rows_in)]
            sig = {"layer": "dense", "what": what_prefix + "stale-after-update", "update": how}
            if ids != gl:
                ck.disagree("reported gate ids are not those of the current parameters after a parameter update", case,
                            expected=gl, observed=ids, signature=dict(sig, which="ids"))
            if ye != exp:
                ck.disagree("eval output is not the circuit of the current parameters after a parameter update", case,
                            expected=exp[:3], observed=ye[:3], signature=dict(sig, which="eval"))
            if yc != exp:
                ck.disagree("a freshly compiled library is not the circuit of the current parameters after a parameter update", case,
                            expected=exp[:3], observed=yc[:3], signature=dict(sig, which="compiled"))
            ck.count("update_protocol_checks")


def conv_protocol(ck, param, what_prefix):
    """Same for a LogicConv2d tree (first-level node 0 of every kernel is updated; the rest stay)."""
    from torchlogix.layers import GroupSum
    rng = ck.rng
    for how in UPDATES:
        model = nets.make_custom(rng, (1, 2, 3), [("conv", dict(K=3, depth=1, rf=2)), ("flatten",), ("gs", 3)], param=param)
        conv = model[0]
        model.eval()
        rows_in = nets.all_rows(6)
        x = torch.tensor(rows_in, dtype=torch.float32).reshape(len(rows_in), 1, 2, 3)
        model.train(); model(x); model.eval()
        compiled.build(model, 8).get_c_code()
        with torch.no_grad():
            model(x)
        w = conv.tree_weights[0][0]
        gl, rows = _new_rows(rng, w.shape[0], param)
        apply_update(rng, conv, w, rows, how)
        case = {"layer": "conv", "param": param, "update": how}
        ck.case(case, nontrivial=True, kind="update-" + how)
        spec = nets.extract(model)
        exp = [nets.counts(nets.eval_spec(spec, r), spec["k"]) for r in rows_in]
        with torch.no_grad():
            ye = [[int(round(v)) for v in r] for r in model(x).tolist()]
        net = compiled.build(model, 32)
        compiled.compile_net(net)
        yc = [[int(v) for v in r] for r in compiled.forward(net, x.bool().tolist())]
        sig = {"layer": "conv", "what": what_prefix + "stale-after-update", "update": how}
        if nets.own_gate_ids(w, param) != gl:
            ck.notes.append(f"conv update protocol {how}: weights did not land on the intended rows (skipped)")
            continue
        if ye != exp:
            ck.disagree("conv eval output is not the circuit of the current parameters after a parameter update", case,
                        expected=exp[:3], observed=ye[:3], signature=dict(sig, which="eval"))
        if yc != exp:
            ck.disagree("a freshly compiled conv library is not the circuit of the current parameters after a parameter update", case,
                        expected=exp[:3], observed=yc[:3], signature=dict(sig, which="compiled"))
        ck.count("update_protocol_checks")


def large_batch_rows(ck, train, what_prefix=""):
    """A batch large enough that an implementation might process it in pieces (16-fold gate expansion above 2^24 elements):
    every probed row of the big batch must equal the same row evaluated in a small batch."""
    from torchlogix.layers import LogicConv2d, LogicDense
    rng = ck.rng
    torch.manual_seed(ck.seed + 77)
    cases = [("conv2d", lambda: LogicConv2d(in_dim=(16, 16), device="cpu", channels=2, num_kernels=8, tree_depth=2, receptive_field_size=3,
                                            weight_init="random"), (2, 16, 16), 250),
             ("dense", lambda: LogicDense(64, 4096, device="cpu", weight_init="random"), (64,), 301)]
    for name, mk, shape, B in cases:
        l = mk()
        l.train(train)
        x = torch.rand(B, *shape) if train else (torch.rand(B, *shape) > 0.5).float()
        with torch.no_grad():
            big = l(x)
        probe = sorted({0, 1, B // 2, B // 2 + 1, (2 * B) // 3, B - 2, B - 1} | {rng.randrange(B) for _ in range(6)})
        with torch.no_grad():
            small = torch.cat([l(x[i:i + 1]) for i in probe])
        ck.case({"layer": name, "batch": B, "train": train, "large_batch": True}, nontrivial=True, kind="large-batch")
        diff = (big[probe] - small).abs().reshape(len(probe), -1).max(dim=1).values
        finite = torch.isfinite(big).all()
        if not finite or float(diff.max()) > 1e-5:
            bad = int(torch.argmax(diff))
            ck.disagree("a row of a large batch is not what the same row gives in a small batch", {"layer": name, "batch": B, "row": probe[bad],
                        "train": train}, observed=float(diff.max()), signature={"what": what_prefix + "large-batch", "layer": name})
        ck.count("large_batch_rows_compared", len(probe))


def dtype_variants(ck, train, what_prefix=""):
    """A 0/1 batch stored in an integer / half / double dtype is the same batch: a layer either refuses it (exception) or returns what
    it returns for the float32 batch."""
    from torchlogix.layers import LogicConv2d, LogicConv3d, LogicDense
    torch.manual_seed(ck.seed + 31)
    layers = [("dense-raw", LogicDense(5, 7, device="cpu", weight_init="random"), (5,)),
              ("dense-walsh", LogicDense(5, 7, device="cpu", parametrization="walsh", weight_init="random"), (5,)),
              ("conv2d-raw", LogicConv2d(in_dim=(3, 4), device="cpu", channels=2, num_kernels=3, tree_depth=2, receptive_field_size=2, padding=1,
                                         weight_init="random"), (2, 3, 4)),
              ("conv2d-walsh", LogicConv2d(in_dim=(3, 4), device="cpu", channels=2, num_kernels=3, tree_depth=2, receptive_field_size=2, padding=1,
                                           parametrization="walsh", weight_init="random"), (2, 3, 4)),
              ("conv3d", LogicConv3d(in_dim=(2, 2, 3), device="cpu", channels=1, num_kernels=2, tree_depth=1, receptive_field_size=2, padding=1), (1, 2, 2, 3))]
    for name, l, shape in layers:
        l.train(train)
        xb = torch.rand(6, *shape) > 0.5
        with torch.no_grad():
            ref = l(xb.float())
        for dt in (torch.uint8, torch.int8, torch.int16, torch.int32, torch.int64, torch.float16, torch.bfloat16, torch.float64, torch.bool):
            ck.case({"layer": name, "dtype": str(dt), "train": train}, nontrivial=True, kind="dtype-variant")
            try:
                with torch.no_grad():
                    y = l(xb.to(dt))
            except Exception:
                ck.count("dtype_variant_rejected")
                continue
            ck.count("dtype_variant_checks")
            if tuple(y.shape) != tuple(ref.shape) or not (float((y.double() - ref.double()).abs().max()) <= 2e-2):
                ck.disagree("the output on a 0/1 batch depends on the dtype the batch is stored in", {"layer": name, "dtype": str(dt), "train": train},
                            expected=ref.reshape(-1)[:6].tolist(), observed=y.double().reshape(-1)[:6].tolist(),
                            signature={"what": what_prefix + "dtype", "layer": name})


def empty_batch(ck, train, what_prefix=""):
    """A batch of zero rows is a batch: every layer kind returns zero rows of its output shape."""
    from torchlogix.layers import GroupSum, LogicConv2d, LogicConv3d, LogicDense, OrPooling
    layers = [("dense-raw", LogicDense(5, 7, device="cpu"), (5,), (7,)),
              ("dense-walsh", LogicDense(5, 7, device="cpu", parametrization="walsh"), (5,), (7,)),
              ("conv2d", LogicConv2d(in_dim=(3, 4), device="cpu", channels=2, num_kernels=3, tree_depth=1, receptive_field_size=2), (2, 3, 4), (3, 2, 3)),
              ("conv3d", LogicConv3d(in_dim=(2, 2, 3), device="cpu", channels=1, num_kernels=2, tree_depth=1, receptive_field_size=2), (1, 2, 2, 3), (2, 1, 1, 2)),
              ("pool", OrPooling(2, 1, 0), (2, 3, 3), (2, 2, 2)),
              ("groupsum", GroupSum(2, device="cpu"), (6,), (2,))]
    for name, l, shp, oshp in layers:
        l.train(train)
        ck.case({"layer": name, "empty_batch": True, "train": train}, kind="empty-batch")
        try:
            with torch.no_grad():
                y = l(torch.zeros(0, *shp))
            if tuple(y.shape) != (0, *oshp):
                ck.disagree("a batch of zero rows does not give zero rows of the layer's output shape", {"layer": name, "train": train},
                            expected=[0, *oshp], observed=list(y.shape), signature={"what": what_prefix + "empty-batch", "layer": name})
        except Exception as e:
            ck.disagree("a layer fails on a batch of zero rows", {"layer": name, "train": train}, observed=repr(e)[:200],
                        signature={"what": what_prefix + "empty-batch", "layer": name})
