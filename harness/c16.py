"""C16 — compiled models coexist in one process without interfering."""
import itertools
import os

import numpy as np
import torch

from harness import coqio, compiled, nets, subproc
from harness.common import Check
from harness.procworker import model_by_id, probe
from translate import libio as t_libio, wrapper as t_wr, gatecode as t_gc

THEOREMS = ["C16_disciplines", "C16_invariant", "C16_no_crash", "C16_inplace_refuted", "C16_bypath_refuted", "C16_reentrant_structure",
            "C16_rebuilds_empty_refuted", "C16_compile_requires_model"]
TRUSTED = [
    "Coq 8.16.1 kernel/coqc; theorems closed under the global context",
    "partial: the process model Model/Proc.v (files as inodes, in-place overwrite modifies mapped pages, dlopen caches by path name, a "
    "deleted but mapped file stays alive) is hand-written from the documented behaviour of the loader and file system; it is tied to the "
    "implementation by executing every sampled history in a fresh interpreter and comparing the outcome of each step with the model "
    "evaluated in the kernel; the loader, mmap and rename atomicity themselves are trusted",
    "partial: thread schedules are exercised (2..16 Python threads, ctypes releases the GIL), not proved; the step 'no shared mutable "
    "storage => concurrent calls behave sequentially' is trusted; absence of static storage other than thread-local (`static __thread`) buffers is checked on the emitted text",
    "translators translate/libio.py (which library calls compile(save) and load make) and translate/wrapper.py",
]


def histories(ck):
    rng = ck.rng
    Ws = [8, 64]
    out = []

    def expand(prefix, n_handles, saved, depth):
        if depth == 0:
            return
        opts = []
        for m in (0, 1):
            for p in (None, 0, 1):
                opts.append(("compile", m, p))
        for p in (0, 1):
            opts.append(("load", p))
        for h in range(n_handles):
            opts.append(("call", h))
        for o in opts:
            yield_ops.append(prefix + [o])
    # systematic: the dangerous shapes, then random histories
    fixed = [
        [("compile", 0, 0), ("load", 0), ("compile", 1, 0), ("call", 1), ("call", 0), ("call", 2)],
        [("compile", 0, 0), ("load", 0), ("compile", 1, 0), ("load", 0), ("call", 3), ("call", 1)],
        [("compile", 0, 0), ("compile", 1, 0), ("load", 0), ("call", 2), ("call", 0), ("call", 1)],
        [("compile", 0, 0), ("load", 0), ("load", 0), ("compile", 1, 0), ("call", 1), ("call", 2), ("load", 0), ("call", 4)],
        [("compile", 0, 0), ("compile", 1, 1), ("load", 0), ("load", 1), ("call", 2), ("call", 3), ("compile", 0, 1), ("call", 3), ("load", 1), ("call", 5)],
        [("load", 0)],
        [("compile", 0, None), ("compile", 1, None), ("call", 0), ("call", 1), ("call", 0)],
        # compile() again on an existing instance: refused on a loaded handle (and nothing changes), allowed on an instance with a model
        [("compile", 1, 0), ("load", 0), ("recompile", 1, 0), ("call", 1), ("load", 0), ("call", 2)],
        [("compile", 0, 0), ("load", 0), ("recompile", 1, 1), ("call", 1), ("load", 1), ("call", 0)],
        [("compile", 1, None), ("recompile", 0, 1), ("call", 0), ("load", 1), ("call", 1), ("recompile", 1, None), ("call", 1)],
        [("compile", 0, 0), ("compile", 1, 1), ("recompile", 0, 1), ("load", 1), ("call", 2), ("call", 1), ("call", 0)],
        [("recompile", 0, 0), ("load", 0)],
    ]
    out.extend(fixed)
    n = 24 if ck.tier == "quick" else 200
    for _ in range(n):
        L = rng.randrange(3, 6 if ck.tier == "quick" else 8)
        ops, kinds = [], []                  # kinds[h]: how handle h was made
        saved = set()
        for i in range(L):
            choices = ["compile"] * 2 + (["load"] * 2 if saved else ["load"]) + (["call"] * 3 + ["recompile"] if kinds else [])
            c = rng.choice(choices)
            if c == "compile":
                p = rng.choice([None, 0, 0, 1])
                ops.append(("compile", rng.randrange(2), p))
                if p is not None:
                    saved.add(p)
                kinds.append("compile")
            elif c == "load":
                p = rng.choice(sorted(saved)) if saved and rng.random() < 0.9 else rng.choice([0, 1])
                ops.append(("load", p))
                if p in saved:
                    kinds.append("load")
            elif c == "recompile":
                h = rng.randrange(len(kinds))
                p = rng.choice([None, 0, 1])
                ops.append(("recompile", h, p))
                if kinds[h] == "compile" and p is not None:      # only an instance with a model writes the path
                    saved.add(p)
            else:
                ops.append(("call", rng.randrange(len(kinds))))
        out.append(ops)
    return out


def run(ck: Check):
    ck.trusted = TRUSTED
    ck.rule = ("histories over {compile(model, save to path p or not), load(p), call(handle), compile() again on an existing instance} with 2 models, 2 paths and word sizes 8 / 64: a "
               "fixed set of dangerous shapes (re-save over a loaded library, load after re-save, load of a missing path) plus random "
               "histories of length 3..5 (quick) / 3..7 (thorough), each executed in a fresh interpreter; outcome of every step (handle / "
               "which model's outputs / error / death of the process) compared with Model/Proc.run evaluated in the kernel; thread runs "
               "with 2..16 threads on the same and on different handles. Non-trivial: history re-saves a path or has >= 2 handles. "
               "Distinct = canonical JSON of the history.")
    ck.translate("LibIO", t_libio.gen_libio)
    ck.translate("WrapperParams", t_wr.gen_wrapper_params)
    ck.translate("GateCode", t_gc.gen_gatecode)
    ck.prove("Props/C16", THEOREMS)
    rng = ck.rng
    hs = histories(ck)
    lib = {0: os.path.join(ck.scratch, "lib0.so"), 1: os.path.join(ck.scratch, "lib1.so")}
    ref = {}
    for mid in (0, 1):
        m = model_by_id(mid)
        spec = nets.extract(m)
        ref[mid] = [nets.counts(nets.eval_spec(spec, r), spec["k"]) for r in probe(5, 24)]
    if ref[0] == ref[1]:
        ck.broke("correspondence", "harness", "the two test models compute the same function on the probe batch")
    jobs = []
    for hi, ops in enumerate(hs):
        W = [8, 64][hi % 2]
        steps = []
        for o in ops:
            if o[0] == "compile":
                steps.append({"op": "compile", "model": o[1], "W": W,
                              "path": None if o[2] is None else os.path.join(ck.scratch, f"h{hi}_p{o[2]}.so")})
            elif o[0] == "load":
                steps.append({"op": "load", "path": os.path.join(ck.scratch, f"h{hi}_p{o[1]}.so"), "W": W})
            elif o[0] == "recompile":
                steps.append({"op": "recompile", "handle": o[1],
                              "path": None if o[2] is None else os.path.join(ck.scratch, f"h{hi}_p{o[2]}.so")})
            else:
                steps.append({"op": "call", "handle": o[1]})
        jobs.append({"kind_of_job": "history", "ops": steps})
    results = subproc.run_jobs(ck.scratch, jobs, workers=8)
    # model predictions in the kernel
    def opc(o):
        if o[0] == "compile":
            return f"OCompile {o[1]} {'None' if o[2] is None else '(Some ' + str(o[2]) + ')'}"
        if o[0] == "load":
            return f"OLoad {o[1]}"
        if o[0] == "recompile":
            return f"ORecompile {o[1]} {'None' if o[2] is None else '(Some ' + str(o[2]) + ')'}"
        return f"OCall {o[1]}"
    txt = ("From Coq Require Import List Arith. Import ListNotations.\nFrom TLX Require Import Gen.LibIO Model.Proc.\n"
           "Definition show (o : outcome) : nat * nat := match o with RHandle h => (0, h) | RValue m => (1, m) | RCrash => (2, 0) | RError => (3, 0) end.\n"
           "Eval vm_compute in [" + ";\n ".join("map show (run save_mode load_mode recompile_mode empty [" + "; ".join(opc(o) for o in ops) + "])" for ops in hs) + "].\n")
    rc, out, err = ck.coq_eval("c16m", txt)
    preds = coqio.parse_evals(out)[0] if rc == 0 else None
    if preds is None:
        ck.broke("correspondence", "kernel evaluation of Model/Proc", err[-500:])
    for hi, (ops, res) in enumerate(zip(hs, results)):
        resaves = len([o for o in ops if o[0] in ("compile", "recompile") and o[2] is not None]) >= 2
        case = {"history": [list(o) for o in ops], "W": [8, 64][hi % 2]}
        ck.case(case, nontrivial=resaves or len([o for o in ops if o[0] != "call"]) >= 2, kind="history")
        obs = []
        for st in res["steps"]:
            if "handle" in st:
                obs.append((0, st["handle"]))
            elif "value" in st:
                mids = [m for m in (0, 1) if st["value"] == ref[m]]
                obs.append((1, mids[0]) if mids else (4, 0))
            else:
                obs.append((3, 0))
        if not res["done"]:
            obs.append((2, 0))
        if preds is not None:
            pred = [tuple(p) for p in preds[hi]]
            if obs != pred:
                k = next((i for i in range(min(len(obs), len(pred))) if obs[i] != pred[i]), min(len(obs), len(pred)))
                what = {2: "the process died", 4: "a call returned outputs of no known model (wrong results)",
                        1: "a handle computes a different model than the one it was created from / most recently saved",
                        3: "an operation raised"}.get(obs[k][0] if k < len(obs) else 2, "outcome differs")
                spec_ok = True
                ck.disagree(f"history step {k}: {what}", dict(case, step=k, observed=obs, predicted=pred, stderr=res["stderr"][-200:]),
                            signature={"what": "history", "kind": obs[k][0] if k < len(obs) else 2})
        ck.count("history_steps", len(ops))
    # threads
    tjobs = []
    for threads in ((2, 8, 16) if ck.tier == "quick" else (2, 3, 4, 8, 12, 16)):
        for mix in (False, True):
            tjobs.append({"kind_of_job": "threads", "models": [0, 1], "W": [8, 64][threads % 2], "threads": threads, "mix": mix,
                          "rounds": 40 if ck.tier == "quick" else 200})
    for job, res in zip(tjobs, subproc.run_jobs(ck.scratch, tjobs, workers=3, timeout=600)):
        case = {"threads": job["threads"], "mix_handles": job["mix"], "W": job["W"], "rounds": job["rounds"]}
        ck.case(case, nontrivial=True, kind="threads")
        if not res["done"] or not res["steps"]:
            ck.disagree("concurrent calls killed the process", dict(case, stderr=res["stderr"][-200:]), signature={"what": "threads-crash"})
            continue
        st = res["steps"][0]
        ck.count("concurrent_calls", st["calls"])
        if st["wrong"]:
            ck.disagree("concurrent calls return results that differ from the sequential ones", dict(case, wrong=st["wrong"], first=st["first"]),
                        signature={"what": "threads-wrong", "same_handle": not job["mix"]})
    # compile() on a handle returned by load(): refused, or at least harmless - the handle keeps computing its model and the
    # library at the path is still the saved model (F43)
    rjobs = [{"kind_of_job": "recompile-loaded", "W": W, "same_path": sp, "kind": kind,
              "path": os.path.join(ck.scratch, f"rc_{W}_{int(sp)}_{kind}.so")}
             for W in (8, 64) for sp in (True, False) for kind in ("dense", "dense-nogs")]
    for job, res in zip(rjobs, subproc.run_jobs(ck.scratch, rjobs, workers=4, timeout=300)):
        case = {"kind": "compile-on-loaded-handle", "W": job["W"], "same_path": job["same_path"], "model": job["kind"]}
        ck.case(case, nontrivial=True, kind="recompile-loaded")
        if not res["done"] or not res["steps"]:
            ck.disagree("compile() on a loaded handle killed the process", dict(case, stderr=res["stderr"][-300:]),
                        signature={"what": "recompile-loaded", "kind": "crash"})
            continue
        st = res["steps"][0]
        bad = [nm for nm in ("after", "reloaded") if st[nm] != st["before"]]
        if st.get("second") is not None and st["second"] != st["before"]:
            bad.append("second")
        if st.get("codegen"):
            ck.disagree("get_c_code() on a handle returned by load() (no model) returned a program instead of raising", dict(case, observed=st["codegen"]),
                        signature={"what": "recompile-loaded", "kind": "codegen"})
        if bad:
            ck.disagree("compile() on a handle returned by load() was accepted and changed what the handle / the saved library computes",
                        dict(case, accepted=st["accepted"], differs=bad, before=st["before"][:2], after=st["after"][:2]),
                        signature={"what": "recompile-loaded", "kind": "wrong"})
    # several threads saving to one path: every compile succeeds, every handle computes its own model, the path holds one of them (F44)
    cjobs = [{"kind_of_job": "concurrent-save", "W": 64, "threads": t, "rounds": 6 if ck.tier == "quick" else 40,
              "path": os.path.join(ck.scratch, f"cs_{t}.so")} for t in ((8,) if ck.tier == "quick" else (4, 8, 16))]
    for job, res in zip(cjobs, subproc.run_jobs(ck.scratch, cjobs, workers=2, timeout=900)):
        case = {"kind": "concurrent-save", "threads": job["threads"], "rounds": job["rounds"]}
        ck.case(case, nontrivial=True, kind="concurrent-save")
        if not res["done"] or not res["steps"]:
            ck.disagree("concurrent compile(save_lib_path=p) killed the process", dict(case, stderr=res["stderr"][-300:]),
                        signature={"what": "concurrent-save", "kind": "crash"})
            continue
        st = res["steps"][0]
        ck.count("concurrent_save_rounds", st["rounds"])
        if st["errors"]:
            ck.disagree("concurrent compile(save_lib_path=p) to one path failed although each compilation is valid",
                        dict(case, errors=st["errors"]), signature={"what": "concurrent-save", "kind": "error"})
    # no storage shared between calls in the emitted text
    net = compiled.build(model_by_id(0), 32)
    text = net.get_c_code()
    ck.case({"kind": "static-scan"}, kind="static-scan")
    import re
    # `static __thread` buffers are per thread (F27) and therefore not shared by concurrent calls; any other static is
    if re.search(r"\bstatic\b(?! __thread\b)", text) or re.search(r"^\w[\w \*]*\w+\s*(\[[^\]]*\])?\s*(=[^;]*)?;\s*$", "\n".join(
            l for l in text.splitlines() if not l.startswith(("\t", " ", "#", "}", "void")) and l.strip()), flags=re.M):
        ck.disagree("the emitted translation unit has static or file-scope storage shared by all calls", {"model": 0},
                    signature={"what": "static"})
    return ck.finish()


def replay(ck, path):
    return run(ck)
