"""C16 — compiled models coexist in one process without interfering."""
import itertools
import os

import numpy as np
import torch

from harness import coqio, compiled, cparse, nets, subproc
from harness.common import Check
from harness.procworker import model_by_id, probe
from translate import libio as t_libio, wrapper as t_wr, gatecode as t_gc, storage as t_storage

THEOREMS = ["C16_disciplines", "C16_invariant", "C16_no_crash", "C16_inplace_refuted", "C16_bypath_refuted", "C16_reentrant_structure",
            "C16_rebuilds_empty_refuted", "C16_compile_requires_model", "C16_buffers_private", "C16_threads_sequential",
            "C16_threads_complete", "C16_stale_memory", "C16_shared_static_refuted", "C16_private_example", "C16_unwritten_read_refuted",
            "C16_invariant_any_inode_policy", "C16_policies_fresh", "C16_cached_by_identity_refuted", "C16_threads_dense_networks", "C16_threads_spatial_networks", "C16_threads_wrapper_counts"]
TRUSTED = [
    "Coq 8.16.1 kernel/coqc; theorems closed under the global context",
    "partial: the process model Model/Proc.v (files as inodes, in-place overwrite modifies mapped pages, dlopen caches by path name, a "
    "deleted but mapped file stays alive) is hand-written from the documented behaviour of the loader and file system; it is tied to the "
    "implementation by executing every sampled history in a fresh interpreter and comparing the outcome of each step with the model "
    "evaluated in the kernel; the loader, mmap and rename atomicity themselves are trusted",
    "partial: concurrent calls are proved for EVERY schedule in the interleaving model Model/Threads.v (one C statement per step, the "
    "declared buffers private per thread as read from BUFFER_STORAGE and from every parsed declaration, `out` and the buffers holding "
    "arbitrary stale contents); because no cell is shared the granularity of the interleaving is immaterial, but that the hardware and "
    "the C implementation give thread-local objects and malloc'd arrays exactly these semantics is trusted; real threads (2..16 Python "
    "threads, ctypes releases the GIL) are exercised, and Model/Threads.run_schedule is evaluated in the kernel on parsed programs under "
    "random schedules and compared with the real library",
    "translators translate/libio.py (which library calls compile(save) and load make), translate/wrapper.py and translate/storage.py "
    "(BUFFER_STORAGE and the form of every array declaration of the generator)",
]


def histories(ck):
    rng = ck.rng
    Ws = [8, 64]
    out = []

    def expand(prefix, n_handles, saved, depth):
        if depth == 0:
            return
        opts = []
        for m in (0, 1):
            for p in (None, 0, 1):
                opts.append(("compile", m, p))
        for p in (0, 1):
            opts.append(("load", p))
        for h in range(n_handles):
            opts.append(("call", h))
        for o in opts:
            yield_ops.append(prefix + [o])
    # systematic: the dangerous shapes, then random histories
    fixed = [
        [("compile", 0, 0), ("load", 0), ("compile", 1, 0), ("call", 1), ("call", 0), ("call", 2)],
        [("compile", 0, 0), ("load", 0), ("compile", 1, 0), ("load", 0), ("call", 3), ("call", 1)],
        [("compile", 0, 0), ("compile", 1, 0), ("load", 0), ("call", 2), ("call", 0), ("call", 1)],
        [("compile", 0, 0), ("load", 0), ("load", 0), ("compile", 1, 0), ("call", 1), ("call", 2), ("load", 0), ("call", 4)],
        [("compile", 0, 0), ("compile", 1, 1), ("load", 0), ("load", 1), ("call", 2), ("call", 3), ("compile", 0, 1), ("call", 3), ("load", 1), ("call", 5)],
        [("load", 0)],
        [("compile", 0, None), ("compile", 1, None), ("call", 0), ("call", 1), ("call", 0)],
        # compile() again on an existing instance: refused on a loaded handle (and nothing changes), allowed on an instance with a model
        [("compile", 1, 0), ("load", 0), ("recompile", 1, 0), ("call", 1), ("load", 0), ("call", 2)],
        [("compile", 0, 0), ("load", 0), ("recompile", 1, 1), ("call", 1), ("load", 1), ("call", 0)],
        [("compile", 1, None), ("recompile", 0, 1), ("call", 0), ("load", 1), ("call", 1), ("recompile", 1, None), ("call", 1)],
        [("compile", 0, 0), ("compile", 1, 1), ("recompile", 0, 1), ("load", 1), ("call", 2), ("call", 1), ("call", 0)],
        [("recompile", 0, 0), ("load", 0)],
    ]
    # many saves to one path (and to two paths in turn), a load and a call after each: the file system recycles the inode numbers of
    # replaced files, the loader and the temporary builds create and delete files in between - anything that identifies a saved build
    # by the identity of its file (device/inode, size, modification time) instead of reading it meets an old build here
    rounds = 10 if ck.tier == "quick" else 30          # (the fixed bit pattern below has 38 entries)
    # (with two test models an old build is only visible when it belongs to the other model: the model sequences below have no period)
    seqs = [[(r // 2) % 2 for r in range(rounds)], [int(b) for b in ("0010111001101000111101011001" + "1100010110")[:rounds]],
            [rng.randrange(2) for _ in range(rounds)]]
    for sq in seqs:
        one = []
        for r, m in enumerate(sq):
            one += [("compile", m, 0), ("load", 0), ("call", 2 * r + 1)]
        fixed.append(one)
    two = []
    for r in range(rounds):
        two += [("compile", seqs[1][r], r % 2), ("load", r % 2), ("call", 2 * r + 1)]
    fixed.append(two)
    out.extend(fixed)
    n = 24 if ck.tier == "quick" else 200
    for _ in range(n):
        L = rng.randrange(3, 6 if ck.tier == "quick" else 8)
        ops, kinds = [], []                  # kinds[h]: how handle h was made
        saved = set()
        for i in range(L):
            choices = ["compile"] * 2 + (["load"] * 2 if saved else ["load"]) + (["call"] * 3 + ["recompile"] if kinds else [])
            c = rng.choice(choices)
            if c == "compile":
                p = rng.choice([None, 0, 0, 1])
                ops.append(("compile", rng.randrange(2), p))
                if p is not None:
                    saved.add(p)
                kinds.append("compile")
            elif c == "load":
                p = rng.choice(sorted(saved)) if saved and rng.random() < 0.9 else rng.choice([0, 1])
                ops.append(("load", p))
                if p in saved:
                    kinds.append("load")
            elif c == "recompile":
                h = rng.randrange(len(kinds))
                p = rng.choice([None, 0, 1])
                ops.append(("recompile", h, p))
                if kinds[h] == "compile" and p is not None:      # only an instance with a model writes the path
                    saved.add(p)
            else:
                ops.append(("call", rng.randrange(len(kinds))))
        out.append(ops)
    return out


def recompile_refuses(ck):
    """Model/ProcAlloc models the current recompile discipline only (an instance without a model refuses)."""
    try:
        return "Definition recompile_mode : recompile_discipline := Refuses." in t_libio.gen_libio()
    except Exception:
        return False


def _interleave(rng, turns):
    """A random schedule containing thread j exactly turns[j] times."""
    left = list(turns)
    sched = []
    while any(left):
        j = rng.choice([t for t, n in enumerate(left) if n])
        burst = rng.choice([1, 1, 1, 2, 3, 7])
        for _ in range(min(burst, left[j])):
            sched.append(j)
        left[j] -= min(burst, left[j])
    return sched


def schedules_vs_impl(ck):
    """Tie of Model/Threads to the implementation.  (1) Every array declared in the emitted logic_net of the models used here has
    the storage class the translator read from BUFFER_STORAGE, and no other static or file-scope object exists.  (2) Parsed
    programs of a dense and a convolutional model are run in the kernel by Model/Threads.run_scheduleZ under random schedules
    (three threads, calls into both libraries, stale garbage in every array) with the discipline read from the source; the
    results must be those of the real library called alone.  With shared storage the same evaluation yields a failing schedule."""
    import re
    rng = ck.rng
    try:
        declared = re.search(r"Definition buffer_storage : storage := (\w+)\.", t_storage.gen_storage()).group(1)
    except Exception as e:
        declared = None
    scen = [(8, "dense", "conv2d"), (64, "dense", "conv3d")] if ck.tier == "quick" else \
        [(8, "dense", "conv2d"), (16, "conv2d-random", "dense"), (32, "dense-unique", "conv3d"), (64, "dense", "conv3d"), (64, "conv2d", "conv2d-random")]
    txt = ("From Coq Require Import ZArith List Bool Arith. Import ListNotations.\n"
           "From TLX Require Import Model.Bits Model.CLang Model.Threads Gen.Storage.\n"
           "Definition garb (v : Z) : @mem Z := fun _ _ => Some v.\n")
    plan = []
    for si, (W, ka, kb) in enumerate(scen):
        progs, libs = [], []
        for li, kind in enumerate((ka, kb)):
            model = model_by_id(li, kind)
            net = compiled.build(model, W)
            text = net.get_c_code()
            case = {"kind": "storage-scan", "model": kind, "W": W}
            ck.case(case, kind="static-scan")
            try:
                p = cparse.parse_unit(text, W)
            except cparse.ParseError as e:
                ck.broke("correspondence", "parse emitted C", f"{kind}: {e}")
                return
            p["sizes"][0], p["sizes"][1] = int(np.prod(net.input_shape)), int(net._get_output_size())
            wrong = sorted(set(st for st in p["storages"] if st != declared))
            toplevel = "\n".join(l for l in text.splitlines() if not l.startswith(("\t", " ", "#", "}", "void")) and l.strip())
            if wrong or re.search(r"^\w[\w \*]*\w+\s*(\[[^\]]*\])?\s*(=[^;]*)?;\s*$", toplevel, flags=re.M) \
                    or len(re.findall(r"\bstatic\b", text)) != sum(1 for st in p["storages"] if st != "Automatic"):
                ck.disagree("the emitted translation unit declares storage other than what BUFFER_STORAGE says (shared by all calls, or on the stack)",
                            dict(case, declared=declared, emitted=sorted(set(p["storages"]))), signature={"what": "static"})
            progs.append(p)
            so = os.path.join(ck.scratch, f"sched_{si}_{li}.so")
            try:
                libs.append(compiled.compile_text(text, so, opt=1))
            except Exception as e:
                ck.broke("correspondence", "standalone compile", repr(e))
                return
        def inp(li):
            return [cparse.wrapW(rng.getrandbits(W), W) for _ in range(progs[li]["sizes"][0])]
        threads = [[(0, inp(0)), (0, inp(0))], [(0, inp(0)), (1, inp(1))], [(1, inp(1)), (1, inp(1)), (0, inp(0))]]
        turns = [sum(2 + len(progs[l]["body"]) for l, _ in calls) for calls in threads]
        scheds = [_interleave(rng, turns) for _ in range(2 if ck.tier == "quick" else 6)]
        scheds.append([j for j in range(3) for _ in range(turns[j])])             # sequential
        scheds.append([j for _ in range(max(turns)) for j in range(3)])           # round robin
        txt += "".join(f"Definition p{si}_{li} : prog := {cparse.prog_coq(p)}.\n" for li, p in enumerate(progs))
        inits = "; ".join("(" + "[" + "; ".join(f"({l}%nat, {coqio.zlist(x)}%Z)" for l, x in calls) + f"], garb ({85 + t})%Z, fun _ : nat => garb ({-3 - t})%Z)"
                          for t, calls in enumerate(threads))
        txt += (f"Definition w{si} : @world Z := {{| w_threads := map (fun x => fresh_thread (fst (fst x)) (snd (fst x)) (snd x)) [{inits}];"
                f" w_shared := fun _ => garb 7%Z |}}.\n")
        for sched in scheds:
            txt += (f"Eval vm_compute in let w := run_scheduleZ {W} (negb (private_storage buffer_storage)) [p{si}_0; p{si}_1] w{si} {coqio.natlist(sched)} in "
                    f"(map (@t_results Z) (w_threads w), map (@t_stuck Z) (w_threads w), map (@finished Z) (w_threads w)).\n")
        alone = [[compiled.call_logic_net(libs[l], W, x, progs[l]["sizes"][1]) for l, x in calls] for calls in threads]
        plan.append((W, (ka, kb), threads, scheds, alone))
    if declared not in ("ThreadLocal", "Automatic") or any(st == "SharedStatic" for p in progs for st in p["storages"]):
        ck._shared_storage = True
    rc, out, err = ck.coq_eval("c16sched", txt, timeout=1200)
    if rc != 0:
        ck.broke("correspondence", "kernel evaluation of Model/Threads.run_schedule", err[-600:])
        return
    vals = coqio.parse_evals(out)
    vi = 0
    for W, kinds, threads, scheds, alone in plan:
        for sched in scheds:
            mv = vals[vi]
            vi += 1
            case = {"kind": "schedule", "W": W, "libraries": list(kinds), "threads": [[[l, x] for l, x in calls] for calls in threads],
                    "schedule": sched, "storage": declared}
            ck.case(case, nontrivial=len(set(sched[:40])) > 1, kind="schedule")
            ck.count("scheduled_steps", len(sched))
            res, stuck, fin = mv
            res = [[list(r) for r in t] for t in res]
            if res != alone or any(stuck) or not all(fin):
                if declared in ("ThreadLocal", "Automatic"):
                    ck.broke("correspondence", "Model/Threads.run_schedule vs the library called alone",
                             f"W={W} {kinds}: model {res} stuck {stuck} finished {fin}; library {alone}")
                else:
                    ck.disagree("with the emitted storage class the interleaving model has a schedule whose results differ from the calls made alone",
                                dict(case, model_results=res, alone=alone), signature={"what": "static", "kind": "schedule"})


def thread_stress_search(ck):
    """Search for a failing input on the real code: networks that stay in logic_net / apply_logic_net long enough for concurrent calls to
    overlap.  Run when the storage is not private or when a translator / proof of this run broke (e.g. the wrapper no longer has the
    modelled per-call storage)."""
    sjobs = [{"kind_of_job": "threads", "models": [0, 1], "W": 64, "threads": t, "mix": mix, "rounds": 150, "kind": "dense-big"}
             for t in (8, 16) for mix in (False, True)]
    for job, res in zip(sjobs, subproc.run_jobs(ck.scratch, sjobs, workers=2, timeout=900)):
        case = {"threads": job["threads"], "mix_handles": job["mix"], "W": 64, "rounds": job["rounds"], "model": "dense 32 -> 6000 -> 6000 -> 64"}
        ck.case(case, nontrivial=True, kind="threads")
        if not res["done"] or not res["steps"]:
            ck.disagree("concurrent calls killed the process", dict(case, stderr=res["stderr"][-200:]), signature={"what": "threads-crash"})
        elif res["steps"][0]["wrong"]:
            ck.disagree("concurrent calls return results that differ from the sequential ones", dict(case, wrong=res["steps"][0]["wrong"], first=res["steps"][0]["first"]),
                        signature={"what": "threads-wrong", "same_handle": not job["mix"]})


def run(ck: Check):
    ck.trusted = TRUSTED
    ck.rule = ("histories over {compile(model, save to path p or not), load(p), call(handle), compile() again on an existing instance} with 2 models, 2 paths and word sizes 8 / 64: a "
               "fixed set of dangerous shapes (re-save over a loaded library, load after re-save, load of a missing path) plus random "
               "histories of length 3..5 (quick) / 3..7 (thorough), each executed in a fresh interpreter; outcome of every step (handle / "
               "which model's outputs / error / death of the process) compared with Model/Proc.run evaluated in the kernel; thread runs "
               "with 2..16 threads on the same and on different handles. Non-trivial: history re-saves a path or has >= 2 handles. "
               "Distinct = canonical JSON of the history. Also: ten (thirty) re-saves of one path / two paths in turn with aperiodic model sequences; the storage class of every parsed declaration; Model/Threads.run_schedule in the kernel on parsed dense and conv programs (three threads, calls into two libraries, stale garbage, random / sequential / round-robin schedules) against the real library called alone.")
    ck.translate("LibIO", t_libio.gen_libio)
    ck.translate("WrapperParams", t_wr.gen_wrapper_params)
    ck.translate("GateCode", t_gc.gen_gatecode)
    ck.translate("Storage", t_storage.gen_storage)
    ck.prove("Props/C16", THEOREMS)
    rng = ck.rng
    hs = histories(ck)
    lib = {0: os.path.join(ck.scratch, "lib0.so"), 1: os.path.join(ck.scratch, "lib1.so")}
    ref = {}
    for mid in (0, 1):
        m = model_by_id(mid)
        spec = nets.extract(m)
        ref[mid] = [nets.counts(nets.eval_spec(spec, r), spec["k"]) for r in probe(5, 24)]
    if ref[0] == ref[1]:
        ck.broke("correspondence", "harness", "the two test models compute the same function on the probe batch")
    jobs = []
    for hi, ops in enumerate(hs):
        W = [8, 64][hi % 2]
        steps = []
        for o in ops:
            if o[0] == "compile":
                steps.append({"op": "compile", "model": o[1], "W": W,
                              "path": None if o[2] is None else os.path.join(ck.scratch, f"h{hi}_p{o[2]}.so")})
            elif o[0] == "load":
                steps.append({"op": "load", "path": os.path.join(ck.scratch, f"h{hi}_p{o[1]}.so"), "W": W})
            elif o[0] == "recompile":
                steps.append({"op": "recompile", "handle": o[1],
                              "path": None if o[2] is None else os.path.join(ck.scratch, f"h{hi}_p{o[2]}.so")})
            else:
                steps.append({"op": "call", "handle": o[1]})
        jobs.append({"kind_of_job": "history", "ops": steps})
    results = subproc.run_jobs(ck.scratch, jobs, workers=8)
    # model predictions in the kernel
    def opc(o):
        if o[0] == "compile":
            return f"OCompile {o[1]} {'None' if o[2] is None else '(Some ' + str(o[2]) + ')'}"
        if o[0] == "load":
            return f"OLoad {o[1]}"
        if o[0] == "recompile":
            return f"ORecompile {o[1]} {'None' if o[2] is None else '(Some ' + str(o[2]) + ')'}"
        return f"OCall {o[1]}"
    txt = ("From Coq Require Import List Arith. Import ListNotations.\nFrom TLX Require Import Gen.LibIO Model.Proc Model.ProcAlloc.\n"
           "Definition show (o : outcome) : nat * nat := match o with RHandle h => (0, h) | RValue m => (1, m) | RCrash => (2, 0) | RError => (3, 0) end.\n"
           "Eval vm_compute in [" + ";\n ".join("map show (run save_mode load_mode recompile_mode empty [" + "; ".join(opc(o) for o in ops) + "])" for ops in hs) + "].\n"
           # the same histories in the machine whose file identities are re-used (temporaries on another device, saves take the
           # smallest free number): equal to the first list by theorem C16_invariant_any_inode_policy, evaluated as a cross-check
           "Eval vm_compute in [" + ";\n ".join("map show (arun alloc_two_devices LPrivateCopy aempty [" + "; ".join(opc(o) for o in ops) + "])" for ops in hs) + "].\n")
    rc, out, err = ck.coq_eval("c16m", txt)
    preds = coqio.parse_evals(out)[0] if rc == 0 else None
    if preds is None:
        ck.broke("correspondence", "kernel evaluation of Model/Proc", err[-500:])
    elif recompile_refuses(ck) and coqio.parse_evals(out)[1] != preds:
        ck.broke("correspondence", "Model/ProcAlloc.arun vs Model/Proc.run", "the two machines differ on a sampled history")
    for hi, (ops, res) in enumerate(zip(hs, results)):
        resaves = len([o for o in ops if o[0] in ("compile", "recompile") and o[2] is not None]) >= 2
        case = {"history": [list(o) for o in ops], "W": [8, 64][hi % 2]}
        ck.case(case, nontrivial=resaves or len([o for o in ops if o[0] != "call"]) >= 2, kind="history")
        obs = []
        for st in res["steps"]:
            if "handle" in st:
                obs.append((0, st["handle"]))
            elif "value" in st:
                mids = [m for m in (0, 1) if st["value"] == ref[m]]
                obs.append((1, mids[0]) if mids else (4, 0))
            else:
                obs.append((3, 0))
        if not res["done"]:
            obs.append((2, 0))
        if preds is not None:
            pred = [tuple(p) for p in preds[hi]]
            if obs != pred:
                k = next((i for i in range(min(len(obs), len(pred))) if obs[i] != pred[i]), min(len(obs), len(pred)))
                what = {2: "the process died", 4: "a call returned outputs of no known model (wrong results)",
                        1: "a handle computes a different model than the one it was created from / most recently saved",
                        3: "an operation raised"}.get(obs[k][0] if k < len(obs) else 2, "outcome differs")
                spec_ok = True
                ck.disagree(f"history step {k}: {what}", dict(case, step=k, observed=obs, predicted=pred, stderr=res["stderr"][-200:]),
                            signature={"what": "history", "kind": obs[k][0] if k < len(obs) else 2})
        ck.count("history_steps", len(ops))
    # threads
    tjobs = []
    for threads in ((2, 8, 16) if ck.tier == "quick" else (2, 3, 4, 8, 12, 16)):
        for mix in (False, True):
            tjobs.append({"kind_of_job": "threads", "models": [0, 1], "W": [8, 64][threads % 2], "threads": threads, "mix": mix,
                          "rounds": 40 if ck.tier == "quick" else 200})
    for job, res in zip(tjobs, subproc.run_jobs(ck.scratch, tjobs, workers=3, timeout=600)):
        case = {"threads": job["threads"], "mix_handles": job["mix"], "W": job["W"], "rounds": job["rounds"]}
        ck.case(case, nontrivial=True, kind="threads")
        if not res["done"] or not res["steps"]:
            ck.disagree("concurrent calls killed the process", dict(case, stderr=res["stderr"][-200:]), signature={"what": "threads-crash"})
            continue
        st = res["steps"][0]
        ck.count("concurrent_calls", st["calls"])
        if st["wrong"]:
            ck.disagree("concurrent calls return results that differ from the sequential ones", dict(case, wrong=st["wrong"], first=st["first"]),
                        signature={"what": "threads-wrong", "same_handle": not job["mix"]})
    # compile() on a handle returned by load(): refused, or at least harmless - the handle keeps computing its model and the
    # library at the path is still the saved model (F43)
    rjobs = [{"kind_of_job": "recompile-loaded", "W": W, "same_path": sp, "kind": kind,
              "path": os.path.join(ck.scratch, f"rc_{W}_{int(sp)}_{kind}.so")}
             for W in (8, 64) for sp in (True, False) for kind in ("dense", "dense-nogs")]
    for job, res in zip(rjobs, subproc.run_jobs(ck.scratch, rjobs, workers=4, timeout=300)):
        case = {"kind": "compile-on-loaded-handle", "W": job["W"], "same_path": job["same_path"], "model": job["kind"]}
        ck.case(case, nontrivial=True, kind="recompile-loaded")
        if not res["done"] or not res["steps"]:
            ck.disagree("compile() on a loaded handle killed the process", dict(case, stderr=res["stderr"][-300:]),
                        signature={"what": "recompile-loaded", "kind": "crash"})
            continue
        st = res["steps"][0]
        bad = [nm for nm in ("after", "reloaded") if st[nm] != st["before"]]
        if st.get("second") is not None and st["second"] != st["before"]:
            bad.append("second")
        if st.get("codegen"):
            ck.disagree("get_c_code() on a handle returned by load() (no model) returned a program instead of raising", dict(case, observed=st["codegen"]),
                        signature={"what": "recompile-loaded", "kind": "codegen"})
        if bad:
            ck.disagree("compile() on a handle returned by load() was accepted and changed what the handle / the saved library computes",
                        dict(case, accepted=st["accepted"], differs=bad, before=st["before"][:2], after=st["after"][:2]),
                        signature={"what": "recompile-loaded", "kind": "wrong"})
    # several threads saving to one path: every compile succeeds, every handle computes its own model, the path holds one of them (F44)
    cjobs = [{"kind_of_job": "concurrent-save", "W": 64, "threads": t, "rounds": 6 if ck.tier == "quick" else 40,
              "path": os.path.join(ck.scratch, f"cs_{t}.so")} for t in ((8,) if ck.tier == "quick" else (4, 8, 16))]
    for job, res in zip(cjobs, subproc.run_jobs(ck.scratch, cjobs, workers=2, timeout=900)):
        case = {"kind": "concurrent-save", "threads": job["threads"], "rounds": job["rounds"]}
        ck.case(case, nontrivial=True, kind="concurrent-save")
        if not res["done"] or not res["steps"]:
            ck.disagree("concurrent compile(save_lib_path=p) killed the process", dict(case, stderr=res["stderr"][-300:]),
                        signature={"what": "concurrent-save", "kind": "crash"})
            continue
        st = res["steps"][0]
        ck.count("concurrent_save_rounds", st["rounds"])
        if st["errors"]:
            ck.disagree("concurrent compile(save_lib_path=p) to one path failed although each compilation is valid",
                        dict(case, errors=st["errors"]), signature={"what": "concurrent-save", "kind": "error"})
    schedules_vs_impl(ck)
    if getattr(ck, "_shared_storage", False) or ck.broken:
        thread_stress_search(ck)
    return ck.finish()


def replay(ck, path):
    return run(ck)
