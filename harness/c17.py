"""C17 — Gumbel sampling returns valid, correctly distributed samples."""
import contextlib
import math

import numpy as np
import torch

from harness import coqio, nets
from harness.common import Check
from translate import dispatch as t_disp, guards as t_guards, ops as t_ops

THEOREMS = ["C17_range", "C17_hard_values", "C17_hard_event", "C17_hard_temperature_independent", "C17_hard_probability",
            "C17_reproducible", "C17_guard", "C17_layer_hard_single_gate", "C17_layer_soft_mixture", "C17_sampling_source", "C17_hard_threshold_outside",
            "C17_gumbel_race", "C17_gumbel_race_temperature"]
TRUSTED = [
    "Coq 8.16.1 kernel/coqc; theorems over R depend on the standard-library Reals axioms and Classical_Prop.classic",
    "partial: that torch.rand_like returns independent uniform variates on [0,1) is trusted (the distributional claim is reduced to the "
    "length of the interval of draws on which the hard sample is 1); the fixed-seed frequency test is support, not proof",
    "the harness wraps torch.rand_like in its own process to feed chosen draws; the model Proofs/C17Facts.v (gumbel_soft) is tied by a "
    "float64 mirror, by `interval` lemmas |model - observed| <= 1e-9 and by exact comparison of hard samples away from the endpoint",
    "translator translate/sampling.py: statement-level comparison of functional.gumbel_sigmoid / gumbel_softmax / soft_raw / hard_raw / soft_walsh / hard_walsh with the modelled statements; torch.softmax, sigmoid, exponential_ and rand_like are trusted primitives",
]


@contextlib.contextmanager
def fixed_uniform(u):
    orig = torch.rand_like

    def fake(t, *a, **kw):
        return torch.as_tensor(u, dtype=t.dtype).reshape(t.shape).clone()
    torch.rand_like = fake
    try:
        yield
    finally:
        torch.rand_like = orig


@contextlib.contextmanager
def fixed_exponential(e):
    """torch.Tensor.exponential_ fills the tensor with the supplied draws (the noise of functional.gumbel_softmax)."""
    orig = torch.Tensor.exponential_

    def fake(t, *a, **kw):
        with torch.no_grad():
            t.copy_(torch.as_tensor(e, dtype=t.dtype).reshape(t.shape))
        return t
    torch.Tensor.exponential_ = fake
    try:
        yield
    finally:
        torch.Tensor.exponential_ = orig


def run(ck: Check):
    import torchlogix.functional as F
    from torchlogix.layers import LogicDense, LogicConv2d
    ck.trusted = TRUSTED
    ck.rule = ("functional.gumbel_sigmoid with the uniform draw supplied by the harness (grid + random) for logits in [-6,6], temperature in "
               "{0.25, 1, 4}, thresholds {0.5, 0.2, 0.9}: soft sample vs the model (float64 mirror + interval lemmas), hard sample vs the "
               "predicted event, temperature independence at threshold 1/2; same seed twice; fixed-seed frequency of the hard sample "
               "(1e5 quick / 1e6 thorough draws per cell, 6 sigma); tau <= 0; dense and conv layers in both Gumbel modes (range, single "
               "gate). Non-trivial: temperature != 1. Distinct = canonical JSON of the cell. Also: hard samples of the primitive and of dense / conv layers in bfloat16 / float16 (one gate per row; Walsh node frequencies for forms +30 / -6 and temperature 1e39), thresholds at and beyond the ends of (0,1), sampling mode switched on a live object.")
    ck.translate("Guards", t_guards.gen_guards)
    ck.translate("Ops", t_ops.gen_ops)
    ck.prove("Props/C17", THEOREMS)
    rng = ck.rng
    goals = []
    eps = 1e-20
    grid_u = [0.001, 0.01, 0.1, 0.25, 0.5, 0.75, 0.9, 0.99, 0.999] + [rng.random() for _ in range(12 if ck.tier == "quick" else 100)]
    for tau in (0.25, 1.0, 4.0):
        for thr in (0.5, 0.2, 0.9):
            xs = [rng.uniform(-6, 6) for _ in range(len(grid_u))]
            x = torch.tensor(xs, dtype=torch.float64)
            with fixed_uniform(grid_u):
                ysoft = F.gumbel_sigmoid(x, tau=tau, hard=False, threshold=thr)
            with fixed_uniform(grid_u):
                yhard = F.gumbel_sigmoid(x, tau=tau, hard=True, threshold=thr)
            case = {"tau": tau, "threshold": thr}
            ck.case(case, nontrivial=tau != 1.0, kind="gumbel_sigmoid")
            for i, (xv, u) in enumerate(zip(xs, grid_u)):
                noise = math.log(u + eps) - math.log(1 - u + eps)
                ref = 1 / (1 + math.exp(-(xv + noise) / tau))
                got = float(ysoft[i])
                if not (0.0 <= got <= 1.0):
                    ck.disagree("soft Gumbel-sigmoid sample outside [0,1]", dict(case, x=xv, u=u), observed=got, signature={"what": "range"})
                if abs(ref - got) > 1e-12:
                    ck.disagree("soft sample is not logistic((logit + logistic noise) / temperature)", dict(case, x=xv, u=u), expected=ref,
                                observed=got, signature={"what": "soft-formula", "tau_is_one": tau == 1.0})
                if len(goals) < (8 if ck.tier == "quick" else 40) and thr == 0.5 and i % 5 == 0:
                    goals.append((f"t{tau}-i{i}", f"gumbel_soft {coqio.rlit(xv)} {coqio.rlit(u)} {coqio.rlit(tau)}", got, 1e-9, dict(case, x=xv, u=u)))
                h = float(yhard[i])
                if h not in (0.0, 1.0):
                    ck.disagree("hard Gumbel-sigmoid sample is not in {0,1}", dict(case, x=xv, u=u), observed=h, signature={"what": "hard-values"})
                lt = math.log(thr / (1 - thr))
                margin = (xv + noise) - tau * lt
                if abs(margin) > 1e-6 and h != (1.0 if margin > 0 else 0.0):
                    ck.disagree("hard sample differs from the event logit + noise > tau * logit(threshold)", dict(case, x=xv, u=u),
                                expected=float(margin > 0), observed=h, signature={"what": "hard-event", "tau_is_one": tau == 1.0})
            ck.count("samples_compared", len(xs))
    # temperature independence at the default threshold, same draws
    xs = [rng.uniform(-4, 4) for _ in range(200)]
    us = [rng.random() for _ in range(200)]
    # (binary32 as well, and up to temperatures at which (logit + noise) / tau is far below the resolution of the sigmoid at 1/2)
    taus_ind = (0.1, 1.0, 7.0, 1e5, 1e6, 1e8)
    for dt, tol in ((torch.float64, 1e-6), (torch.float32, 1e-3)):
        outs = []
        for tau in taus_ind:
            with fixed_uniform(us):
                outs.append(F.gumbel_sigmoid(torch.tensor(xs, dtype=dt), tau=tau, hard=True).tolist())
        ck.case({"kind": "temperature-independence", "dtype": str(dt)}, nontrivial=True, kind="tau-independence")
        for i in range(200):
            noise = math.log(us[i] + eps) - math.log(1 - us[i] + eps)
            want = 1.0 if xs[i] + noise > 0 else 0.0
            if abs(xs[i] + noise) > tol and any(o[i] != want for o in outs):
                ck.disagree("hard sample at threshold 1/2 depends on the temperature", {"x": xs[i], "u": us[i], "dtype": str(dt),
                                                                                        "by_tau": dict(zip(map(str, taus_ind), [o[i] for o in outs]))},
                            expected=want, signature={"what": "tau-dependence"})
                break
    # reproducibility
    x = torch.randn(64)
    for hard in (False, True):
        torch.manual_seed(123); a = F.gumbel_sigmoid(x, tau=0.7, hard=hard)
        torch.manual_seed(123); b = F.gumbel_sigmoid(x, tau=0.7, hard=hard)
        ck.case({"kind": "seed", "hard": hard}, kind="seed")
        if not torch.equal(a, b):
            ck.disagree("sampling is not reproducible under a fixed seed", {"hard": hard}, signature={"what": "seed"})
    # guard
    for tau in (0.0, -1.0, -1e-9, float("nan"), float("inf")):
        ck.case({"kind": "guard", "tau": repr(tau)}, kind="guard")
        try:
            r = F.gumbel_sigmoid(torch.zeros(3), tau=tau)
            ck.disagree("a temperature that is not positive was accepted by gumbel_sigmoid", {"tau": repr(tau)}, observed=repr(r.tolist()),
                        signature={"what": "guard", "tau": repr(tau)})
        except ValueError:
            pass
    # frequencies (support)
    n = 100_000 if ck.tier == "quick" else 1_000_000
    for xv in (-2.0, 0.0, 1.5):
        for tau in (0.25, 1.0, 4.0, 1e5, 1e8):
            torch.manual_seed(ck.seed * 1000 + int(xv * 10) + int(min(tau, 1e4) * 100) + 7)
            y = F.gumbel_sigmoid(torch.full((n,), xv), tau=tau, hard=True)
            p = 1 / (1 + math.exp(-xv))
            freq = float(y.mean())
            sd = math.sqrt(p * (1 - p) / n)
            ck.case({"kind": "frequency", "x": xv, "tau": tau, "n": n}, nontrivial=tau != 1.0, kind="frequency")
            if abs(freq - p) > 6 * sd:
                ck.disagree("frequency of hard = 1 is not logistic(logit)", {"x": xv, "tau": tau, "n": n}, expected=p, observed=freq,
                            signature={"what": "frequency", "tau_is_one": tau == 1.0})
    # layers in the Gumbel modes
    for par in ("raw", "walsh"):
        for mode in ("gumbel_soft", "gumbel_hard"):
            tau = rng.choice([0.3, 2.0])
            d = LogicDense(3, 10, device="cpu", parametrization=par, weight_init="random", forward_sampling=mode, temperature=tau)
            c = LogicConv2d(in_dim=(3, 3), device="cpu", channels=1, num_kernels=3, tree_depth=2, receptive_field_size=2,
                            parametrization=par, weight_init="random", forward_sampling=mode, temperature=tau)
            for name, l, xb in (("dense", d, torch.tensor(nets.all_rows(3), dtype=torch.float32)),
                                ("conv2d", c, (torch.rand(16, 1, 3, 3) > 0.5).float())):
                l.train()
                ck.case({"layer": name, "param": par, "mode": mode, "tau": tau}, kind=f"layer-{mode}")
                for draw in range(10):
                    with torch.no_grad():
                        y = l(xb)
                    if float(y.min()) < -1e-6 or float(y.max()) > 1 + 1e-6:
                        ck.disagree("Gumbel-mode training output outside [0,1]", {"layer": name, "param": par, "mode": mode},
                                    signature={"layer": name, "param": par, "mode": mode, "what": "range"})
                        break
                    if mode == "gumbel_hard" and float(torch.minimum(y.abs(), (y - 1).abs()).max()) > 1e-6:
                        ck.disagree("gumbel_hard training output on Boolean inputs is not Boolean (not a single gate per neuron)",
                                    {"layer": name, "param": par}, signature={"layer": name, "param": par, "mode": mode, "what": "single-gate"})
                        break
                # temperature sensitivity of the Walsh hard sample through a layer: same draws, two temperatures
    # raw Gumbel modes over the whole range of temperatures: with all neurons wired to (input 0, input 1) and the residual
    # initialisation (logit 5 on gate 3 = 'a', 0 elsewhere) a neuron's sampled gate is read off its outputs on the four input
    # rows; gumbel_hard must give one gate per neuron, gate 3 with probability e^5 / (e^5 + 15) whatever the temperature, and
    # gumbel_soft a finite mixture in [0,1]
    n_neur = 20000 if ck.tier == "quick" else 200000
    rows4 = torch.tensor([[0.0, 0.0], [0.0, 1.0], [1.0, 0.0], [1.0, 1.0]])
    p3 = math.exp(5.0) / (math.exp(5.0) + 15.0)
    for tau in (1e-38, 1e-3, 1.0, 50.0, 1e8, 1e9):
        for mode in ("gumbel_hard", "gumbel_soft"):
            torch.manual_seed(ck.seed + 77)
            d = LogicDense(2, n_neur, device="cpu", forward_sampling=mode, temperature=tau)
            d.indices = (torch.zeros(n_neur, dtype=torch.long), torch.ones(n_neur, dtype=torch.long))
            d.train()
            with torch.no_grad():
                y = d(rows4)
            case = {"kind": "raw-gate-distribution", "mode": mode, "tau": tau, "neurons": n_neur}
            ck.case(case, nontrivial=True, kind="raw-gate-distribution")
            if not bool(torch.isfinite(y).all()) or float(y.min()) < -1e-6 or float(y.max()) > 1 + 1e-6:
                ck.disagree("raw Gumbel-mode training output is not a finite value in [0,1]", dict(case, nan=int(torch.isnan(y).sum())),
                            signature={"layer": "dense", "param": "raw", "mode": mode, "what": "range"})
                continue
            if mode == "gumbel_hard":
                if float(torch.minimum(y.abs(), (y - 1).abs()).max()) > 1e-6:
                    ck.disagree("gumbel_hard training output on Boolean inputs is not Boolean (not a single gate per neuron)", case,
                                signature={"layer": "dense", "param": "raw", "mode": mode, "what": "single-gate"})
                    continue
                is3 = ((y.round() == torch.tensor([[0.0], [0.0], [1.0], [1.0]])).all(0)).float().mean().item()
                sd = math.sqrt(p3 * (1 - p3) / n_neur)
                if abs(is3 - p3) > 6 * sd:
                    ck.disagree("raw gumbel_hard: the frequency of the sampled gate depends on the temperature (it must be softmax(logits))",
                                case, expected=p3, observed=is3, signature={"what": "raw-gate-frequency", "layer": "dense"})
    # the sampling mode is read when the layer is CALLED: a training forward under 'soft', then the mode switched to 'gumbel_hard' on the same
    # object (raw and Walsh, dense and conv) gives single gates (Boolean outputs on Boolean inputs) that differ between draws; back to 'soft'
    # the output is the deterministic relaxation again
    for par in ("raw", "walsh"):
        for name in ("dense", "conv2d"):
            torch.manual_seed(ck.seed + 91)
            if name == "dense":
                l = LogicDense(3, 60, device="cpu", parametrization=par, weight_init="random", forward_sampling="soft")
                xb = torch.tensor(nets.all_rows(3), dtype=torch.float32)
            else:
                l = LogicConv2d(in_dim=(3, 3), device="cpu", channels=1, num_kernels=8, tree_depth=2, receptive_field_size=2, parametrization=par,
                                weight_init="random", forward_sampling="soft")
                xb = (torch.rand(16, 1, 3, 3) > 0.5).float()
            l.train()
            with torch.no_grad():
                y_soft0 = l(xb)
                l.forward_sampling = "gumbel_hard"
                ys = [l(xb) for _ in range(6)]
                l.forward_sampling = "soft"
                y_soft1 = l(xb)
            case = {"layer": name, "param": par, "sequence": "soft forward, switch to gumbel_hard, switch back"}
            ck.case(case, nontrivial=True, kind="mode-switch")
            frac = max(float(torch.minimum(y.abs(), (y - 1).abs()).max()) for y in ys)
            same = all(torch.equal(ys[0], y) for y in ys[1:])
            if frac > 1e-6 or same or not torch.equal(y_soft0, y_soft1):
                ck.disagree("the sampling mode assigned to a layer after a training forward is not the one in use (outputs not single gates under gumbel_hard, "
                            "no variation between draws, or the soft output changed)", dict(case, farthest_from_0_1=frac, draws_identical=same,
                                                                                     soft_restored=bool(torch.equal(y_soft0, y_soft1))),
                            signature={"layer": name, "param": par, "mode": "gumbel_hard", "what": "mode-switch"})
    # reduced precision (a layer converted with .bfloat16() / .half()): the noisy logits have 8 / 11 significant bits, so two gates tie
    # for the row maximum in about one row of a few hundred - the hard sample must still be ONE gate (a mask of the maxima would
    # select two or three).  Checked on the sampling primitive and through a dense layer and a convolution
    import torchlogix.functional as Fn
    n_rows = 40000 if ck.tier == "quick" else 400000
    for dt in (torch.float32, torch.bfloat16, torch.float16):
        for init in ("residual", "random"):
            torch.manual_seed(ck.seed + 99)
            logits = torch.zeros(n_rows, 16)
            if init == "residual":
                logits[:, 3] = 5.0
            else:
                logits = torch.randn(n_rows, 16)
            case = {"kind": "hard-sample-one-hot", "dtype": str(dt), "logits": init, "rows": n_rows}
            ck.case(case, nontrivial=dt != torch.float32, kind="hard-sample-one-hot")
            with torch.no_grad():
                y = Fn.gumbel_softmax(logits.to(dt), tau=1.0, hard=True).float()
            ones = (y.round() == 1).sum(-1)
            off = float((y - y.round()).abs().max())
            if not bool(torch.isfinite(y).all()) or int((ones != 1).sum()) or off > 0.02 or float(y.round().min()) < 0:
                ck.disagree("the hard Gumbel-softmax sample is not one gate per row (rows with several selected gates / values away from 0 and 1)",
                            dict(case, rows_not_one_hot=int((ones != 1).sum()), most_gates_in_a_row=int(ones.max()), farthest_from_0_1=off),
                            signature={"layer": "primitive", "param": "raw", "mode": "gumbel_hard", "what": "single-gate"})
    for dt in (torch.bfloat16, torch.float16):
        torch.manual_seed(ck.seed + 101)
        d = LogicDense(3, 4000, device="cpu", weight_init="random", forward_sampling="gumbel_hard", temperature=1.0).to(dt)
        c = LogicConv2d(in_dim=(3, 3), device="cpu", channels=1, num_kernels=600, tree_depth=1, receptive_field_size=2,
                        weight_init="random", forward_sampling="gumbel_hard", temperature=1.0).to(dt)
        for name, l, xb in (("dense", d, torch.tensor(nets.all_rows(3), dtype=torch.float32)), ("conv2d", c, (torch.rand(8, 1, 3, 3) > 0.5).float())):
            l.train()
            case = {"layer": name, "param": "raw", "mode": "gumbel_hard", "dtype": str(dt)}
            ck.case(case, nontrivial=True, kind="layer-gumbel_hard-lowprec")
            try:
                with torch.no_grad():
                    y = l(xb.to(dt)).float()
            except Exception as e:
                continue                      # a layer that refuses the dtype is not a wrong sample
            if not bool(torch.isfinite(y).all()) or float(torch.minimum(y.abs(), (y - 1).abs()).max()) > 0.05:
                ck.disagree("gumbel_hard training output on Boolean inputs is not Boolean (not a single gate per neuron)",
                            dict(case, largest=float(y.max()), outside=int((torch.minimum(y.abs(), (y - 1).abs()) > 0.05).sum())),
                            signature={"layer": name, "param": "raw", "mode": "gumbel_hard", "what": "single-gate"})
    # exponential race (theorems C17_gumbel_race / C17_gumbel_race_temperature): with the exponential draws supplied, the hard raw sample is
    # the gate whose e_i / exp(w_i) is smallest, at every temperature; the soft sample is softmax((w - ln e) / tau)
    n_race = 2000 if ck.tier == "quick" else 20000
    g_race = torch.Generator().manual_seed(ck.seed + 313)
    w_race = torch.randn(n_race, 16, generator=g_race, dtype=torch.float64) * 2
    e_race = -torch.log(torch.rand(n_race, 16, generator=g_race, dtype=torch.float64).clamp_min(1e-300))
    race = e_race / torch.exp(w_race)
    top2 = race.topk(2, dim=-1, largest=False).values
    clear = (top2[:, 1] - top2[:, 0]) > 1e-4 * top2[:, 1]                # rows whose winner does not hinge on rounding
    winner = race.argmin(-1)
    for dt in (torch.float64, torch.float32):
        for tau in (1e-3, 0.3, 1.0, 50.0, 1e6):
            case = {"kind": "exponential-race", "dtype": str(dt), "tau": tau, "rows": int(clear.sum())}
            ck.case(case, nontrivial=True, kind="exponential-race")
            with fixed_exponential(e_race), torch.no_grad():
                y = Fn.gumbel_softmax(w_race.to(dt), tau=tau, hard=True).double()
                ysoft = Fn.gumbel_softmax(w_race.to(dt), tau=tau, hard=False).double()
            got = y.argmax(-1)
            bad = ((got != winner) & clear).nonzero().flatten().tolist()
            if bad:
                r = bad[0]
                ck.disagree("the hard raw Gumbel sample is not the winner of the exponential race (the gate with the smallest e_i / exp(w_i))",
                            dict(case, rows_wrong=len(bad), row=r, logits=w_race[r].tolist(), exponential_draws=e_race[r].tolist(),
                                 expected_gate=int(winner[r]), got_gate=int(got[r]), sample=y[r].tolist()),
                            signature={"layer": "primitive", "param": "raw", "mode": "gumbel_hard", "what": "race"})
            ref = torch.softmax((w_race - torch.log(e_race)) / tau, -1)
            tol = 1e-9 if dt == torch.float64 else (2e-3 if tau < 0.01 else 1e-4)
            dev = float((ysoft - ref)[clear].abs().max())
            if not dev <= tol:
                r = int((ysoft - ref).abs().max(-1).values.argmax())
                ck.disagree("the soft raw Gumbel sample is not softmax((logits - ln e) / tau) of the supplied exponential draws",
                            dict(case, deviation=dev, row=r, logits=w_race[r].tolist(), exponential_draws=e_race[r].tolist(),
                                 expected=ref[r].tolist(), got=ysoft[r].tolist()),
                            signature={"layer": "primitive", "param": "raw", "mode": "gumbel_soft", "what": "race"})
    # a 16-bit DEFAULT dtype (torch.set_default_dtype) must not bring the noise back to 16 bits: a 16-bit uniform draw is exactly 0 about
    # once in 512 (bfloat16) / 4000 (float16) draws, the noise is then -inf and the sample 0 whatever the logit.  P(0 | logit 12) = 6.1e-6
    n_def = 400000 if ck.tier == "quick" else 2000000
    for dt_def in (torch.bfloat16, torch.float16):
        old_default = torch.get_default_dtype()
        try:
            torch.set_default_dtype(dt_def)
            torch.manual_seed(ck.seed + 515)
            with torch.no_grad():
                yd = Fn.gumbel_sigmoid(torch.full((n_def,), 12.0), tau=1.0, hard=True)
            zeros_d = int((yd.float() == 0).sum())
        except Exception:
            zeros_d = None                                  # refusing the configuration is not a wrong sample
        finally:
            torch.set_default_dtype(old_default)
        case_d = {"kind": "default-dtype", "default": str(dt_def), "logit": 12.0, "draws": n_def}
        ck.case(case_d, nontrivial=True, kind="default-dtype")
        expect_d = n_def * 6.1e-6
        if zeros_d is not None and zeros_d > expect_d + 10 * (expect_d ** 0.5) + 10:
            ck.disagree("under a 16-bit default dtype the hard Gumbel-sigmoid sample of logit 12 is 0 far more often than 1 - logistic(12) (noise drawn in 16 bits)",
                        dict(case_d, zeros=zeros_d, expected_about=round(expect_d, 1)),
                        signature={"layer": "primitive", "what": "default-dtype", "default": str(dt_def)})
    # thresholds at and beyond the ends of (0,1): the soft sample lies strictly inside (0,1), so the hard sample is always 1 for a threshold
    # <= 0 and always 0 for a threshold >= 1, at every temperature (the rounded sigmoid is exactly 0 / 1 far out in the tails)
    import torchlogix.functional as Fn2
    for thr, want in ((0.0, 1.0), (-0.5, 1.0), (1.0, 0.0), (1.5, 0.0)):
        for tau in (1.0, 0.01, 0.001, 1e3):
            torch.manual_seed(ck.seed + 61)
            y = Fn2.gumbel_sigmoid(torch.full((200000,), -1.0), tau=tau, hard=True, threshold=thr)
            case = {"kind": "threshold-boundary", "threshold": thr, "tau": tau, "logit": -1.0}
            ck.case(case, nontrivial=True, kind="threshold-boundary")
            if not bool((y == want).all()):
                ck.disagree("hard Gumbel-sigmoid sample with a threshold at / beyond the end of (0,1): the value depends on the temperature (rounded sigmoid compared)",
                            case, expected=want, observed=float(y.mean()), signature={"what": "threshold-boundary"})
    # Walsh layers converted to 16 bits: a 16-bit uniform draw is exactly 0 once in a few hundred / thousand draws (logistic noise -inf)
    # and cannot resolve the tails.  A node with the constant form +30 is 1 with probability 1 - 1e-13, one with form -6 is 1 with
    # probability 0.00247, and every output is finite also at a temperature beyond the binary32 range
    n_w = 400000 if ck.tier == "quick" else 4000000
    for dt in (torch.bfloat16, torch.float16):
        for form, tau in ((30.0, 1.0), (-6.0, 1.0), (10.0, 1e39), (30.0, 0.25)):
            for mode in ("gumbel_hard", "gumbel_soft"):
                torch.manual_seed(ck.seed + 55)
                d = LogicDense(2, n_w, device="cpu", parametrization="walsh", forward_sampling=mode, temperature=tau)
                d.indices = (torch.zeros(n_w, dtype=torch.long), torch.ones(n_w, dtype=torch.long))
                with torch.no_grad():
                    d.weight.zero_()
                    d.weight[:, 0] = form
                d = d.to(dt).train()
                case = {"kind": "walsh-16-bit", "dtype": str(dt), "form": form, "tau": tau, "mode": mode, "neurons": n_w}
                ck.case(case, nontrivial=True, kind="walsh-16-bit")
                with torch.no_grad():
                    y = d(torch.ones(1, 2, dtype=dt)).float().reshape(-1)
                if not bool(torch.isfinite(y).all()) or float(y.min()) < 0 or float(y.max()) > 1:
                    ck.disagree("Gumbel-mode output of a 16-bit Walsh layer is not a finite value in [0,1]", dict(case, nan=int(torch.isnan(y).sum())),
                                signature={"layer": "dense", "param": "walsh", "mode": mode, "what": "range-16-bit"})
                    continue
                if mode == "gumbel_hard":
                    p = 1 / (1 + math.exp(-form))
                    ones = float((y > 0.5).float().sum())
                    sd = math.sqrt(max(n_w * p * (1 - p), 1e-9))
                    if abs(ones - n_w * p) > 6 * sd + 0.5:
                        ck.disagree("hard Gumbel sample of a 16-bit Walsh layer: the frequency of 1 is not logistic(form) (noise drawn with 8 / 11 random bits)",
                                    case, expected=p, observed=ones / n_w, signature={"what": "frequency-16-bit", "layer": "dense"})
    # every tree level of a Walsh convolution samples: a node whose form is the constant c (coefficients (c,0,0,0)) is 1 with
    # probability logistic(c) in gumbel_hard, whatever its inputs and whatever the temperature - checked at the root of depth-1
    # and depth-2 trees (the leaves carry random coefficients), and switching the sampling mode after a training forward is honoured
    for depth in (1, 2):
        for cval, tau in ((-1.0, 0.5), (0.8, 2.0)):
            torch.manual_seed(ck.seed + depth)
            K = 4
            c = LogicConv2d(in_dim=(3, 3), device="cpu", channels=1, num_kernels=K, tree_depth=depth, receptive_field_size=2,
                            parametrization="walsh", weight_init="random", forward_sampling="soft", temperature=1.0)
            with torch.no_grad():
                c.tree_weights[depth][0].copy_(torch.tensor([[cval, 0.0, 0.0, 0.0]] * K))
            c.train()
            xb = (torch.rand(500, 1, 3, 3) > 0.5).float()
            with torch.no_grad():
                c(xb)                                   # one training forward in the construction-time mode first
            c.forward_sampling = "gumbel_hard"
            c.temperature = tau
            ones = n = 0
            for draw in range(10):
                with torch.no_grad():
                    y = c(xb)
                if float(torch.minimum(y.abs(), (y - 1).abs()).max()) > 1e-6:
                    ck.disagree("gumbel_hard output of a Walsh convolution is not Boolean after the mode was switched on an existing layer",
                                {"depth": depth, "tau": tau}, signature={"layer": "conv2d", "param": "walsh", "what": "single-gate"})
                    break
                ones += float(y.sum())
                n += y.numel()
            p = 1 / (1 + math.exp(-cval))
            ck.case({"kind": "conv-root-frequency", "depth": depth, "c": cval, "tau": tau, "n": n}, nontrivial=True, kind="frequency")
            if n and abs(ones / n - p) > 6 * math.sqrt(p * (1 - p) / n):
                ck.disagree("root node of a Walsh convolution: frequency of hard = 1 is not logistic(form)",
                            {"depth": depth, "c": cval, "tau": tau, "n": n}, expected=p, observed=ones / n,
                            signature={"what": "frequency", "layer": "conv2d-root"})
    failed = coqio.interval_goals(ck, "c17itv", [(g[0], g[1], g[2], g[3]) for g in goals],
                                  extra_imports="From TLX Require Import Proofs.C17Facts.\n", extra_unfold="gumbel_soft noise eps")
    ck.count("interval_lemmas", len(goals))
    for lab in failed:
        g = next(x for x in goals if x[0] == lab)
        ck.disagree("soft sample is not within 1e-9 of the Coq model (interval lemma fails)", g[4], observed=g[2],
                    signature={"what": "soft-formula", "tau_is_one": g[4]["tau"] == 1.0})
    return ck.finish()


def replay(ck, path):
    return run(ck)
